"""Offline Lua fixture shared by the Lua checks (C06, C07, ...).

The Scribunto submodule (ustring, libraryUtil) is absent offline, so every #invoke
fails with "module 'ustring:ustring' not found".  lua_loader() consults the page store
first, so two pure-Lua stand-in pages make the whole sandbox (phase 1, phase 2, mw.*,
frames) work without touching /repo.  The stand-ins are part of the trusted base.
"""
from __future__ import annotations

from collections import deque
from pathlib import Path

import common

USTRING_STUB = r"""
-- offline stand-in for Scribunto's ustring (byte semantics are enough for the fixtures)
local u = {}
for k, v in pairs(string) do u[k] = v end
u.len = string.len
u.sub = string.sub
u.upper = string.upper
u.lower = string.lower
u.find = string.find
u.match = string.match
u.gmatch = string.gmatch
u.gsub = string.gsub
u.char = string.char
u.byte = string.byte
u.codepoint = string.byte
u.format = string.format
u.rep = string.rep
u.isutf8 = function(s) return true end
u.toNFC = function(s) return s end
u.toNFD = function(s) return s end
u.toNFKC = function(s) return s end
u.toNFKD = function(s) return s end
u.gcodepoint = function(s)
    local i = 0
    return function() i = i + 1; if i <= #s then return string.byte(s, i) end end
end
u.maxPatternLength = 10000
u.maxStringLength = 1000000
return u
"""

LIBRARYUTIL_STUB = r"""
local libraryUtil = {}
function libraryUtil.checkType(name, argIdx, arg, expectType, nilOk)
    if arg == nil and nilOk then return end
    if type(arg) ~= expectType then
        error(string.format("bad argument #%d to '%s' (%s expected, got %s)",
            argIdx, name, expectType, type(arg)), 3)
    end
end
function libraryUtil.checkTypeMulti(name, argIdx, arg, expectTypes)
    local t = type(arg)
    for _, e in ipairs(expectTypes) do if t == e then return end end
    error(string.format("bad argument #%d to '%s'", argIdx, name), 3)
end
function libraryUtil.checkTypeForIndex(index, value, expectType)
    if type(value) ~= expectType then
        error(string.format("value for index '%s' must be %s", index, expectType), 3)
    end
end
function libraryUtil.checkTypeForNamedArg(name, argName, arg, expectType, nilOk)
    if arg == nil and nilOk then return end
    if type(arg) ~= expectType then
        error(string.format("bad named argument %s to '%s'", argName, name), 3)
    end
end
function libraryUtil.makeCheckSelfFunction(libraryName, varName, selfObj, selfObjDesc)
    return function(self, method) end
end
return libraryUtil
"""

MODULE_NS = 828
TEMPLATE_NS = 10


class RecDeque(deque):
    """deque that remembers everything ever appended (env / frame capture)."""

    def __init__(self, *a):
        super().__init__(*a)
        self.seen: list = []

    def append(self, x):
        self.seen.append(x)
        super().append(x)


def make_ctx(dir, modules: dict[str, str] | None = None, templates: dict[str, str] | None = None,
             record: bool = False):
    """A Wtp on a new database under `dir` (a sub-directory is created so that
    close_db_conn() never deletes foreign files) with the offline Lua stand-ins,
    the given Module: pages (Scribunto) and Template: pages.  start_page("Tt") done.
    With record=True ctx.lua_env_stack / ctx.lua_frame_stack are RecDeque instances."""
    common.use_repo()
    from wikitextprocessor import Wtp

    d = Path(dir)
    sub = d / "db"
    n = 0
    while sub.exists():
        n += 1
        sub = d / f"db{n}"
    sub.mkdir(parents=True)
    ctx = Wtp(db_path=sub / "pages.db", quiet=True)
    if record:
        ctx.lua_env_stack = RecDeque()
        ctx.lua_frame_stack = RecDeque()
    add_modules(ctx, {"ustring:ustring": USTRING_STUB, "libraryUtil": LIBRARYUTIL_STUB})
    add_modules(ctx, modules or {})
    for name, body in (templates or {}).items():
        t = name if name.startswith("Template:") else "Template:" + name
        ctx.add_page(t, TEMPLATE_NS, body=body)
    ctx.db_conn.commit()
    ctx.start_page("Tt")
    return ctx


def add_modules(ctx, modules: dict[str, str]) -> None:
    for name, body in modules.items():
        t = name if name.startswith("Module:") else "Module:" + name
        ctx.add_page(t, MODULE_NS, body=body, model="Scribunto")


def close_ctx(ctx) -> None:
    try:
        ctx.db_conn.close()
    except Exception:
        pass
