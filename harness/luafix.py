"""Offline Lua fixture shared by the Lua checks (C06, C07, ...).

The Scribunto submodule (ustring, libraryUtil) is absent offline, so every #invoke
fails with "module 'ustring:ustring' not found".  lua_loader() consults the page store
first, so two pure-Lua stand-in pages make the whole sandbox (phase 1, phase 2, mw.*,
frames) work without touching /repo.  The stand-ins are part of the trusted base.
"""
from __future__ import annotations

from collections import deque
from pathlib import Path

import common

USTRING_STUB = r"""
-- offline stand-in for Scribunto's ustring (byte semantics are enough for the fixtures)
local u = {}
for k, v in pairs(string) do u[k] = v end
u.len = string.len
u.sub = string.sub
u.upper = string.upper
u.lower = string.lower
u.find = string.find
u.match = string.match
u.gmatch = string.gmatch
u.gsub = string.gsub
u.char = string.char
u.byte = string.byte
u.codepoint = string.byte
u.format = string.format
u.rep = string.rep
u.isutf8 = function(s) return true end
u.toNFC = function(s) return s end
u.toNFD = function(s) return s end
u.toNFKC = function(s) return s end
u.toNFKD = function(s) return s end
u.gcodepoint = function(s)
    local i = 0
    return function() i = i + 1; if i <= #s then return string.byte(s, i) end end
end
u.maxPatternLength = 10000
u.maxStringLength = 1000000
return u
"""

LIBRARYUTIL_STUB = r"""
local libraryUtil = {}
function libraryUtil.checkType(name, argIdx, arg, expectType, nilOk)
    if arg == nil and nilOk then return end
    if type(arg) ~= expectType then
        error(string.format("bad argument #%d to '%s' (%s expected, got %s)",
            argIdx, name, expectType, type(arg)), 3)
    end
end
function libraryUtil.checkTypeMulti(name, argIdx, arg, expectTypes)
    local t = type(arg)
    for _, e in ipairs(expectTypes) do if t == e then return end end
    error(string.format("bad argument #%d to '%s'", argIdx, name), 3)
end
function libraryUtil.checkTypeForIndex(index, value, expectType)
    if type(value) ~= expectType then
        error(string.format("value for index '%s' must be %s", index, expectType), 3)
    end
end
function libraryUtil.checkTypeForNamedArg(name, argName, arg, expectType, nilOk)
    if arg == nil and nilOk then return end
    if type(arg) ~= expectType then
        error(string.format("bad named argument %s to '%s'", argName, name), 3)
    end
end
function libraryUtil.makeCheckSelfFunction(libraryName, varName, selfObj, selfObjDesc)
    return function(self, method) end
end
return libraryUtil
"""

MODULE_NS = 828
TEMPLATE_NS = 10


class RecDeque(deque):
    """deque that remembers everything ever appended (env / frame capture)."""

    def __init__(self, *a):
        super().__init__(*a)
        self.seen: list = []

    def append(self, x):
        self.seen.append(x)
        super().append(x)


def make_ctx(dir, modules: dict[str, str] | None = None, templates: dict[str, str] | None = None,
             record: bool = False):
    """A Wtp on a new database under `dir` (a sub-directory is created so that
    close_db_conn() never deletes foreign files) with the offline Lua stand-ins,
    the given Module: pages (Scribunto) and Template: pages.  start_page("Tt") done.
    With record=True ctx.lua_env_stack / ctx.lua_frame_stack are RecDeque instances."""
    common.use_repo()
    from wikitextprocessor import Wtp

    d = Path(dir)
    sub = d / "db"
    n = 0
    while sub.exists():
        n += 1
        sub = d / f"db{n}"
    sub.mkdir(parents=True)
    ctx = Wtp(db_path=sub / "pages.db", quiet=True)
    if record:
        ctx.lua_env_stack = RecDeque()
        ctx.lua_frame_stack = RecDeque()
    add_modules(ctx, {"ustring:ustring": USTRING_STUB, "libraryUtil": LIBRARYUTIL_STUB})
    add_modules(ctx, modules or {})
    for name, body in (templates or {}).items():
        t = name if name.startswith("Template:") else "Template:" + name
        ctx.add_page(t, TEMPLATE_NS, body=body)
    ctx.db_conn.commit()
    ctx.start_page("Tt")
    return ctx


def add_modules(ctx, modules: dict[str, str]) -> None:
    for name, body in modules.items():
        t = name if name.startswith("Module:") else "Module:" + name
        ctx.add_page(t, MODULE_NS, body=body, model="Scribunto")


def close_ctx(ctx) -> None:
    try:
        ctx.db_conn.close()
    except Exception:
        pass


# ---------------------------------------------------------------------------
# benign smoke modules: what ordinary wiki modules do must keep working (used by the
# Lua checks to make sure a proposed fix / a mutant did not simply break the sandbox)
# ---------------------------------------------------------------------------
SMOKE_MODULES = {
    "smokelib": "local m = {} function m.double(x) return 2 * x end return m",
    "smokedata": "return { x = 'dx', list = { 'a', 'b', 'c' } }",
    "smoke": r"""
local p = {}
local lib = require("Module:smokelib")
function p.text(frame)
  return mw.text.trim("  a b  ") .. "|" .. table.concat(mw.text.split("x,y,z", ","), "+") .. "|" .. mw.text.nowiki("[x]")
end
function p.title(frame)
  local t = mw.title.getCurrentTitle()
  local n = mw.title.new("Foo bar", "Template")
  return t.text .. "|" .. t.namespace .. "|" .. n.prefixedText .. "|" .. tostring(n.exists)
end
function p.args(frame)
  local pf = frame:getParent()
  return (frame.args[1] or "nil") .. "|" .. (frame.args.k or "nil") .. "|" .. (pf and pf.args[1] or "nil") .. "|" .. (pf and pf.args.pk or "nil") .. "|" .. frame:getTitle()
end
function p.req(frame) return tostring(lib.double(21)) .. "|" .. tostring(require("Module:smokelib") == lib) end
function p.data(frame)
  local d = mw.loadData("Module:smokedata")
  return d.x .. "|" .. #d.list .. "|" .. d.list[2]
end
function p.pre(frame)
  return frame:preprocess("{{smoketpl|z}}") .. "|" .. frame:expandTemplate{ title = "smoketpl", args = { "q" } } .. "|" .. frame:callParserFunction("#if", "1", "yes", "no")
end
function p.prot(frame)
  local ok, e = pcall(error, "boom")
  local ok2, e2 = xpcall(function() error("bang", 0) end, function(m) return "H:" .. m end)
  local ok3, v = pcall(function(a, b) return a + b end, 2, 3)
  return tostring(ok) .. "|" .. tostring(e) .. "|" .. tostring(ok2) .. "|" .. tostring(e2) .. "|" .. tostring(ok3) .. tostring(v) .. "|" .. select("#", pcall(function() return nil, nil end))
end
function p.co(frame)
  local ok, co = pcall(require, "coroutine")
  if not ok then return "no coroutine library" end
  local f = co.wrap(function(a) local b = co.yield(a + 1) co.yield(b * 2) return "done" end)
  local c = co.create(function() error("inner") end)
  local rok, rerr = co.resume(c)
  return f(1) .. "|" .. f(10) .. "|" .. f() .. "|" .. tostring(rok) .. "|" .. co.status(c)
end
function p.str(frame) return ("abc"):upper() .. "|" .. string.format("%03d", 7) .. "|" .. mw.ustring.len("xyz") .. "|" .. type(os.time()) .. "|" .. tostring(math.floor(2.5)) end
function p.json(frame)
  local t = mw.text.jsonDecode('{"a": [1, 2, {"b": "c"}]}')
  return t.a[3].b .. "|" .. mw.text.jsonEncode({ 1, 2 })
end
function p.inv(frame) return "<" .. frame:preprocess("{{#invoke:smoke|str}}") .. ">" end
function p.err(frame) error("deliberate") end
function p.glob(frame) leaked_global = (leaked_global or 0) + 1 return tostring(leaked_global) end
return p
""",
}
SMOKE_TEMPLATES = {
    "smoketpl": "T({{{1|}}})",
    "smokecall": "{{#invoke:smoke|args|ia|k=iv}}",
}
SMOKE_CASES = [
    ("{{#invoke:smoke|text}}", "a b|x+y+z|&lsqb;x&rsqb;"),
    ("{{#invoke:smoke|title}}", "Tt|0|Template:Foo bar|false"),
    ("{{#invoke:smoke|args|A|k= v }}", "A|v|nil|nil|Module:smoke"),
    ("{{smokecall|pa|pk=pv}}", "ia|iv|pa|pv|Module:smoke"),
    ("{{#invoke:smoke|req}}", "42|true"),
    ("{{#invoke:smoke|data}}", "dx|3|b"),
    ("{{#invoke:smoke|pre}}", "T(z)|T(q)|yes"),
    ("{{#invoke:smoke|prot}}", "false|boom|false|H:bang|true5|3"),
    ("{{#invoke:smoke|co}}", "2|20|done|false|dead"),
    ("{{#invoke:smoke|str}}", "ABC|007|3|number|2"),
    ("{{#invoke:smoke|json}}", "c|[1, 2]"),
    ("{{#invoke:smoke|inv}}", "<ABC|007|3|number|2>"),
    ("{{#invoke:smoke|err}}", '<strong class="error">Lua execution error in Module:smoke function err</strong>'),
    ("{{#invoke:smoke|glob}}{{#invoke:smoke|glob}}", "11"),
]


def coverage_actions(out: str) -> dict:
    """Per-action total counts of a `-coverage` TLC run (also actions whose location is
    printed with a sub-range suffix)."""
    import re

    res = {}
    for m in re.finditer(r"<(\w+) line \d+, col \d+ to line \d+, col \d+ of module \w+(?: \([\d ]+\))?>: (\d+):(\d+)", out):
        res[m.group(1)] = int(m.group(3))
    return res
