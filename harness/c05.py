"""C05 — expand() terminates and reports failures in-band.

(a) termination / cycles (this file):
 M  TLC evaluates the expander twin (Expander.tla: expand_stack labels as pushed by the
    code, transcribed detect_expand_template_loop, depth limit 100) on cyclic libraries
    (cycles through bodies, positional and named arguments, defaults, #if / #switch
    branches, fan-out) and deeply nested pages: evaluation terminates, and every loop /
    depth cut leaves an error element AND a recorded message (law CutsReported).
 G  each case runs on the real expand() under a wall-clock bound: returns a str, no
    exception; where the twin predicts a cut, the error element and the message must be
    there (full output equality is DRIFT).  Nests of depth 1..100 of templates, links,
    #if are run as well.
 V  seeded random libraries with arbitrary (cyclic) call graphs are run on the real code,
    and the recorded cases are evaluated by the twin in TLC (Universe = "FILE").
 L  nesting ladders (Gen_ExpanderDepth.tla): WHAT is nested (transclusions in positional /
    named arguments, parser functions in branch / name position, argument references with
    defaults or computed names, links, #invoke arguments, alternations of these) x HOW DEEP
    (around the limit, 2x, 5x, 10x, 20x) x WHERE (page text, template bodies, two bodies
    deep).  TLC evaluates the twin in the ideal design (every kind of nesting counts towards
    the depth limit) and in the as-is design (deviation NestingOutsideCallsUnbounded), checks
    PeakBounded / DeepIsCut and prints each ladder in factored form with the predicted
    class; the real expand() must return a string without raising within the time bound;
    a cut must come with a recorded error; a class other than predicted is DRIFT.
 O  the documented OPTIONS of expand() x HISTORIES of calls on one page: the TLC universe C16Q of Gen_Expander (pages that
    hold 2-3 #invoke calls / parser functions / templates / argument references side by side, nested and coming out of
    template bodies x the 16 combinations of pre_expand / expand_parserfns / expand_invoke / observing hooks) and, through
    the FILE universe, seeded random OPTION VECTORS (the switches, templates_to_expand / templates_to_not_expand,
    need_pre_expand sets, template_fn returning None / a string, post_template_fn returning None / a string) x pages built
    from several calls of each kind in every place (side by side, in an argument, in a branch, in a link, in a template body).
    Each case runs (i) on a freshly started page and (ii) as one call of a HISTORY of 2-3 expand() calls on ONE started page
    (no start_page between them; the twin's law StackRestored says every call leaves the path as it found it, so the
    prediction of a call does not depend on its predecessors).  Verdict of C05 only: an exception, a non-string, an overrun
    of the time bound, or an error element without a recorded message is the VIOLATION; output differences are DRIFT.
(b) totality of the parser functions: harness/c05b.py (spec/Expr.tla etc.).
"""
from __future__ import annotations

import importlib
import json
import random
import threading
import time
from pathlib import Path

import common
import expander as ex
import transclusion as tr
from c16 import PREBODY, flat_items
from common import Outcome, Scratch, pmap, tlc

PID = "C05"
_G = {}
TIME_BOUND = 20.0  # seconds for one expand() call of the (small) generated pages

OPT_ALL = {"pre": False, "hasExp": False, "exp": [], "hasNot": False, "nots": [], "pfns": True, "invoke": True, "tfn": "none", "pfn": "none"}


def replay_chunk(groups):
    common.use_repo()
    cases = _G["cases"]
    res = []
    with Scratch("c05-") as d:
        for gi, idxs in enumerate(groups):
            c0 = cases[idxs[0]]
            ctx = ex.make_ctx(d, c0["lib"], c0["need"], PREBODY, f"g{gi}", enwikt=c0.get("enw", True))
            try:
                for idx in idxs:
                    c = cases[idx]
                    ctx.start_page("Pg")
                    ob = ex.run_case(ctx, c, hard_limit=TIME_BOUND + 5)
                    ob["idx"] = idx
                    ob["msgs"] = ex.msg_summary(ctx)
                    ob.pop("hooks", None)
                    res.append(ob)
            finally:
                ctx.db_conn.close()
    return res


def opt_text(op):
    """the non-default keyword arguments of the expand() call of a case, as text"""
    if not op:
        return ""
    a = []
    if op["pre"]:
        a.append("pre_expand=True")
    if op["hasExp"]:
        a.append(f"templates_to_expand={sorted(op['exp'])}")
    if op["hasNot"]:
        a.append(f"templates_to_not_expand={sorted(op['nots'])}")
    if not op["pfns"]:
        a.append("expand_parserfns=False")
    if not op["invoke"]:
        a.append("expand_invoke=False")
    if op["tfn"] != "none":
        a.append("template_fn=<returns %s>" % ("a string" if op["tfn"] == "marker" else "None"))
    if op["pfn"] != "none":
        a.append("post_template_fn=<returns %s>" % ("a string" if op["pfn"] == "replace" else "None"))
    return ", ".join(a)


def judge(o: Outcome, c, ob, origin, model=True):
    o.evaluations += 1
    hist = ob.get("history")
    optrun = origin.startswith(("O", "VO"))
    call = "expand(" + ", ".join(x for x in (repr(ob["src"][:120]), opt_text(c.get("o"))) if x) + ")" if optrun else "expand()"
    where = ""
    if hist:
        where = (f" as call {len(hist) + 1} on one started page (no start_page in between) after " + "; ".join(f"expand({h[0][:80]!r}{', ' + h[1] if h[1] else ''})" for h in hist)
                 + f"; expand_stack before this call: {ob['before'][:4]}, after it: {ob['after'][:4]}")
    elif optrun:
        where = f" on a freshly started page; expand_stack after the call: {ob['after'][:4]}"
    case = {"origin": origin, **({"options": opt_text(c.get("o")) or "defaults", "history": hist, "stack_before": ob["before"][:6], "stack_after": ob["after"][:6]}
                                 if origin.startswith(("O", "VO")) else {}), "lib": {k: tr.render_body(v) for k, v in c["lib"].items()}, "page": ob["src"][:400],
            "out": (ob["out"] or "")[:400], "exception": ob["exc"], "wall_s": round(ob["wall"], 2), "messages": ob["msgs"][:5]}
    if ob["exc"] is not None:
        if origin.startswith("nest-") and "-pre-" in origin and "RecursionError" in ob["exc"]:
            # the as-is design: a call that pre-expansion leaves unexpanded expands its arguments without an entry on the
            # expansion path, so the depth limit never applies to such nests (proposed_fixes/C05-unexpanded-call-depth.diff)
            o.classify(case, f"expand(pre_expand=True) raised {ob['exc']} on {origin}: calls left unexpanded do not count towards the depth limit",
                       [DEV_UNEXPANDED], cls="exception-unexpanded-nesting")
        else:
            o.violation(case, f"{call} raised {ob['exc']}{where}", cls=("exception-in-history" if hist else "exception-options") if where else "exception")
        return
    if not isinstance(ob["out"], str):
        o.violation(case, f"{call} did not return a string{where}", cls="type")
        return
    if ob["wall"] > TIME_BOUND:
        o.violation(case, f"{call} needed {ob['wall']:.1f}s (> {TIME_BOUND}s) on a small page{where}", cls="time")
        return
    real_cut = ("<ERR:loop:" in ob["nout"]) or ("<ERR:depth>" in ob["nout"])
    real_msg = any(s in ("core/1115", "core/1422") for _, s in ob["msgs"])
    if real_cut and not real_msg:
        o.violation(case, "an error element for a template loop / depth cut is in the output but no warning/error was recorded", cls="cut-without-message")
    if model:
        model_cut = any(a in ("<ERR:loop:", "<ERR:depth>") for a in c["out"])
        if model_cut and not real_cut:
            o.violation({**case, "model_out": tr.text(c["out"])[:400]},
                        "the specification predicts a template-loop / depth cut here, the output has no error element", cls="missing-cut")
        elif ob["nout"] != tr.text(c["out"]):
            o.note_drift({"page": ob["src"][:200], "model_out": tr.text(c["out"])[:200], "real_out": ob["nout"][:200]})
        o.shape(("cut" if model_cut else "nocut", common.json_key(c["lib"].get("A")), ob["src"][:60]))


def nest_pages():
    """calls nested 1..100 deep, several shapes (no model: property-level observation only)."""
    pages = []
    for n in list(range(1, 12)) + [20, 33, 34, 48, 49, 50, 51, 64, 80, 99, 100]:
        s = "c"
        for _ in range(n):
            s = "{{T1|" + s + "}}"
        pages.append(("tmpl", n, s))
        s = "c"
        for _ in range(n):
            s = "{{#if:1|" + s + "}}"
        pages.append(("if", n, s))
        s = "c"
        for _ in range(n):
            s = "{{T1|x=" + s + "}}"
        pages.append(("named", n, s))
        s = "c"
        for _ in range(n):
            s = "{{{u|" + s + "}}}"
        pages.append(("default", n, s))
    # the same nests under expand(pre_expand=True) with a template that needs no pre-expansion: the calls stay
    # unexpanded, their arguments are expanded (around and far beyond the depth limit)
    for n in [2, 50, 99, 100, 101, 200, 500, 1000]:
        s = "c"
        for _ in range(n):
            s = "{{T1|" + s + "}}"
        pages.append(("tmpl-pre", n, s))
        s = "c"
        for _ in range(n):
            s = "{{T1|x={{#if:1|" + s + "}}}}"
        pages.append(("named-if-pre", n, s))
    return pages


def run_nests(chunk):
    common.use_repo()
    res = []
    with Scratch("c05n-") as d:
        ctx = ex.make_ctx(d, {"T1": [{"w": "plain", "c": [{"k": "t", "s": ["("]}, {"k": "p", "name": ["1"], "hasDef": True, "def": []},
                                                          {"k": "p", "name": ["x"], "hasDef": True, "def": []}, {"k": "t", "s": [")"]}]}]}, [], PREBODY)
        try:
            for kind, n, src in chunk:
                ctx.start_page("Pg")
                t0 = time.time()
                exc = None
                out = None
                try:
                    out = ctx.expand(src, pre_expand=True) if kind.endswith("-pre") else ctx.expand(src)
                except Exception as e:  # noqa: BLE001
                    exc = repr(e)
                res.append({"kind": kind, "n": n, "src": src, "out": out, "nout": ex.norm_out(out) if isinstance(out, str) else None,
                            "exc": exc, "wall": time.time() - t0, "msgs": ex.msg_summary(ctx)})
        finally:
            ctx.db_conn.close()
    return res


# ---------------------------------------------------------------------------------------
# nesting ladders
DEV_NESTING = "NestingOutsideCallsUnbounded"
DEV_UNEXPANDED = "UnexpandedCallArgsUncounted"


class LadderTLC(threading.Thread):
    """Runs the ladder generator (and the demo of the deviation) beside the rest of the check."""

    def __init__(self, cfg, check, module="Gen_ExpanderDepth", env=None):
        super().__init__(daemon=True)
        self.cfg, self.check, self.module, self.env = cfg, check, module, env
        self.res = self.err = None

    def run(self):
        try:
            self.res = tlc(self.module, self.cfg, workers=1, timeout=3000, check=self.check, **({"env": self.env} if self.env else {}))
        except BaseException as e:  # noqa: BLE001  (re-raised by the main thread)
            self.err = e

    def result(self):
        self.join()
        if self.err is not None:
            raise self.err
        return self.res


def ladder_text(seg):
    """open(1) .. open(n) core close(n) .. close(1), all pieces as printed by TLC."""
    opens = [tr.text(a) for a in seg["opens"]]
    closes = [tr.text(a) for a in seg["closes"]]
    k, n = len(opens), seg["n"]
    s = "".join(opens[i % k] for i in range(n)) + tr.text(seg["core"]) + "".join(closes[i % k] for i in reversed(range(n)))
    if seg["full"] and s != tr.text(seg["full"]):
        raise common.TLCError(f"ladder assembly differs from the rendering by TLC: {seg['pat']} x {seg['n']}")
    return s


def ladder_bound(c):
    """CPU-time bound of one ladder: the encoding of nested cookies is quadratic in the nesting depth (about 0.5 s for
    1000 rungs, 8 s for 6000); pages beyond 1000 rungs per text get three times the bound of the small pages."""
    return TIME_BOUND if max(seg["n"] for seg in c["segs"]) <= 1000 else 3 * TIME_BOUND


def ladder_name(c):
    return " / ".join(("page" if i == 0 else "body of " + seg["name"]) + ": " + "+".join(seg["pat"]) + f" x{seg['n']}" for i, seg in enumerate(c["segs"]))


def run_ladders(idxs):
    common.use_repo()
    import signal

    cases = _G["ladders"]
    res = []
    shared = None  # one context for the ladders that need no template of their own, renewed after an exception
    with Scratch("c05l-") as d:
        for idx in idxs:
            c = cases[idx]
            texts = [ladder_text(seg) for seg in c["segs"]]
            own = len(texts) > 1
            ctx = ex.make_ctx(d, c["base"], [], PREBODY, f"l{idx}") if own or shared is None else shared
            if not own:
                shared = ctx
            try:
                for seg, body in zip(c["segs"][1:], texts[1:]):
                    ctx.add_page("Template:" + seg["name"], 10, body=body)
                ctx.db_conn.commit()
                ctx.start_page("Pg")
                exc = out = None
                stopped = False
                # the bound is on CPU time (the machine may be loaded): a profiling timer stops a run that exceeds it
                signal.signal(signal.SIGPROF, ex._alarm)
                signal.setitimer(signal.ITIMER_PROF, ladder_bound(c) + 5)
                t0, c0 = time.time(), time.process_time()
                try:
                    out = ctx.expand(texts[0])
                except ex.HardLimit:
                    stopped = True
                    out = ""
                except Exception as e:  # noqa: BLE001
                    exc = repr(e)[:200]
                finally:
                    signal.setitimer(signal.ITIMER_PROF, 0)
                res.append({"idx": idx, "src": texts[0], "out": out, "nout": ex.norm_out(out) if isinstance(out, str) else None, "exc": exc, "stopped": stopped,
                            "wall": time.time() - t0, "cpu": time.process_time() - c0, "msgs": ex.msg_summary(ctx)})
            finally:
                if own or exc is not None or out == "":
                    ctx.db_conn.close()
                    if not own:
                        shared = None
        if shared is not None:
            shared.db_conn.close()
    return res


def judge_ladder(o: Outcome, c, ob):
    o.evaluations += 1
    name = ladder_name(c)
    case = {"origin": "ladder", "ladder": name, "page": ob["src"][:160] + (" ..." if len(ob["src"]) > 160 else ""), "page_chars": len(ob["src"]),
            "out": (ob["out"] or "")[:300], "exception": ob["exc"], "cpu_s": round(ob["cpu"], 2), "wall_s": round(ob["wall"], 2), "messages": ob["msgs"][:4],
            "model": {"ideal": c["cls"], "as_is": "overrun" if c["asis_overrun"] else c["asis_cls"], "peak": c["peak"], "as_is_peak": c["asis_peak"]}}
    o.shape(("ladder", name))
    if ob["exc"] is not None:
        why = (f"expand() raised {ob['exc']} on the nesting ladder [{name}]: the nesting was not stopped by the depth limit "
               "(specification: recursion is cut at the limit whatever is nested, with the in-band 'too deep recursion' error element and a recorded error)")
        # explained by the as-is design only where that design lets the recursion leave the bounded region
        if c["asis_overrun"]:
            o.classify(case, why, [DEV_NESTING], cls="exception-uncounted-nesting")
        else:
            o.violation(case, why, cls="exception-nesting")
        return
    if not isinstance(ob["out"], str):
        o.violation(case, "expand() did not return a string", cls="type")
        return
    if ob["stopped"] or ob["cpu"] > ladder_bound(c):
        o.violation(case, (f"expand() had not returned after {ob['cpu']:.1f}s of CPU time" if ob["stopped"] else f"expand() needed {ob['cpu']:.1f}s of CPU time")
                    + f" (bound {ladder_bound(c)}s) on the nesting ladder [{name}] ({len(ob['src'])} characters of page text)", cls="time")
        return
    real_cut = "<ERR:depth>" in ob["nout"]
    real_msg = any(s == "core/1115" for _, s in ob["msgs"])
    if real_cut and not real_msg:
        o.violation(case, f"a 'too deep recursion' error element is in the output of the nesting ladder [{name}] but no error was recorded", cls="cut-without-message")
        return
    # where exactly the limit lies for each construct is not fixed by the statement
    model_msg = any(m["sortid"] == "core/1115" for m in c["msgs"])
    # (complete outputs are compared where no error element is involved)
    if (real_cut, real_msg) != (c["cls"] == "cut", model_msg) or (not real_msg and ob["nout"] != tr.text(c["out"])):
        asis_msg = any(m["sortid"] == "core/1115" for m in c["asis_msgs"])
        if not c["asis_overrun"] and (real_cut, real_msg) == (c["asis_cls"] == "cut", asis_msg) and (real_msg or ob["nout"] == tr.text(c["asis_out"])):
            # exactly what the twin says for the as-is design, and no exception: nothing to report
            _G["asis_ladders"] = _G.get("asis_ladders", 0) + 1
        else:
            o.note_drift({"ladder": name, "model": c["cls"] + ("+error" if model_msg else ""), "real": ("cut" if real_cut else "plain") + ("+error" if real_msg else ""),
                          "model_out": tr.text(c["out"])[:120], "real_out": ob["nout"][:120]})


# ---------------------------------------------------------------------------------------
# O: options of expand() x histories of calls on one started page
HIST_LEN = 3  # calls per history


def _delta_msgs(ctx, ne, nw):
    return [("error", m.get("called_from")) for m in ctx.errors[ne:]] + [("warning", m.get("called_from")) for m in ctx.warnings[nw:]]


def option_chunk(groups):
    """every case of a group (one library / need set = one context) (i) on a freshly started page, (ii) as a member of a
    history: HIST_LEN consecutive cases of a seeded shuffle are expanded on ONE started page, no start_page in between."""
    common.use_repo()
    cases = _G["ocases"]
    res = []
    with Scratch("c05o-") as d:
        for gi, idxs in enumerate(groups):
            c0 = cases[idxs[0]]
            ctx = ex.make_ctx(d, c0["lib"], c0["need"], PREBODY, f"o{gi}", enwikt=c0.get("enw", True))
            try:
                quick_ones = []
                for idx in idxs:
                    c = cases[idx]
                    has_loop = any(it.get("fn") == "loop" for it in flat_items(c["page"]))
                    ctx.start_page("Pg")
                    ob = ex.run_case(ctx, c, timeout=1 if has_loop else None, hard_limit=TIME_BOUND + 5)
                    ob.update(idx=idx, msgs=ex.msg_summary(ctx), history=None)
                    ob.pop("hooks", None)
                    res.append(ob)
                    if not has_loop:
                        quick_ones.append(idx)
                rng = random.Random(common.seed() * 7919 + idxs[0])
                rng.shuffle(quick_ones)
                for k in range(0, len(quick_ones), HIST_LEN):
                    ctx.start_page("Pg")
                    hist = []
                    for idx in quick_ones[k:k + HIST_LEN]:
                        c = cases[idx]
                        ne, nw = len(ctx.errors), len(ctx.warnings)
                        ob = ex.run_case(ctx, c, hard_limit=TIME_BOUND + 5)
                        ob.update(idx=idx, msgs=_delta_msgs(ctx, ne, nw), history=list(hist))
                        ob.pop("hooks", None)
                        res.append(ob)
                        hist.append((ob["src"], opt_text(c["o"])))
                        if ob["exc"] is not None:
                            # the state of the context after an exception is undefined: the rest of the history starts afresh
                            ctx.start_page("Pg")
                            hist = []
            finally:
                ctx.db_conn.close()
    return res


INV_FNS = ["echo", "err", "pre", "tpl", "pyx", "pcx", "ext"]


def _T(s):
    return {"k": "t", "s": [s]}


def _unit(rng, kind, names, in_body, depth=1):
    """one call of the given kind (its arguments may hold further calls).  Argument references stand anywhere in template
    bodies; on pages only at the top level of the text (the twin's law UnchangedWhenNothingSelected is stated for those)."""
    def val():
        r = rng.random()
        if depth <= 0 or r < 0.45:
            return [_T(rng.choice("abxy"))]
        return [_unit(rng, rng.choice(KINDS if in_body else KINDS[:3]), names, in_body, depth - 1)]
    if kind == "inv":
        return {"k": "inv", "fn": rng.choice(INV_FNS), "args": [{"named": False, "key": [], "val": val()} for _ in range(rng.randint(0, 2))]}
    if kind == "if":
        return {"k": "if", "c": rng.choice([[], [_T("1")], val()]), "y": val(), "n": val()}
    if kind == "c":
        return {"k": "c", "name": rng.choice(names + ["NOPE"]),
                "args": [({"named": True, "key": [_T("x")], "val": val()} if rng.random() < 0.3 else {"named": False, "key": [], "val": val()}) for _ in range(rng.randint(0, 2))]}
    # argument reference (with a default that may hold a call)
    has = rng.random() < 0.6
    return {"k": "p", "name": [rng.choice(["1", "x"])], "hasDef": has, "def": val() if has else []}


KINDS = ["inv", "if", "c", "p"]


def _multi(rng, names, in_body):
    """a text holding 2-3 calls of one kind (or of mixed kinds) in one of the places: side by side, inside the argument of a
    template call, inside a branch of #if, inside a link."""
    place = rng.choice(["flat", "flat", "arg", "branch", "link"])
    kinds = KINDS if in_body or place == "flat" else KINDS[:3]
    kind = rng.choice(kinds + ["mixed"])
    units = []
    for _ in range(rng.randint(2, 3)):
        units.append(_unit(rng, rng.choice(kinds) if kind == "mixed" else kind, names, in_body))
        if rng.random() < 0.5:
            units.append(_T(rng.choice(["SP", ","])))
    if place == "arg":
        return [{"k": "c", "name": rng.choice(names), "args": [{"named": False, "key": [], "val": units}]}]
    if place == "branch":
        return [{"k": "if", "c": [_T("1")], "y": units, "n": []}]
    if place == "link":
        return [{"k": "l", "args": [[_T("a")], units]}]
    return units


def random_option_cases(rng, n):
    """V: seeded random (library, need_pre_expand set, page, option vector); the pages and the template bodies hold several
    calls of each kind; any template may call any other (cycles allowed)."""
    cases = []
    while len(cases) < n:
        names = [f"T{i}" for i in range(1, rng.randint(2, 4) + 1)]
        lib = {nm: [{"w": "plain", "c": _multi(rng, names, True)}] for nm in names}
        need = sorted(nm for nm in names if rng.random() < 0.3)
        for _ in range(6):  # six pages x option vectors per library: one context, histories over them
            sub = lambda: sorted(nm for nm in names if rng.random() < 0.5)  # noqa: E731
            he, hn = rng.random() < 0.4, rng.random() < 0.3
            tf = rng.choice(["none", "none", "observe", "marker"])
            op = {"pre": rng.random() < 0.4, "hasExp": he, "exp": sub() if he else [], "hasNot": hn, "nots": sub() if hn else [],
                  "pfns": rng.random() < 0.6, "invoke": rng.random() < 0.5, "tfn": tf, "pfn": rng.choice(["none", "none", "observe", "replace"])}
            cases.append({"lib": lib, "need": need, "page": _multi(rng, names, False), "o": op})
    return cases[:n]


def random_cyclic_cases(rng, n):
    cases = []
    for _ in range(n):
        k = rng.randint(2, 5)
        names = [f"T{i}" for i in range(1, k + 1)]
        lib = {}
        for nm in names:
            body = tr.rcontent(rng, 2, names, True, [5])  # any template may call any other: cycles allowed
            lib[nm] = [{"w": "plain", "c": body}]
        page = tr.rcontent(rng, 2, names, False, [4])
        if page:
            cases.append({"lib": lib, "need": [], "page": page, "o": OPT_ALL})
    return cases


def run(tier: str) -> int:
    o = Outcome(PID, tier)
    o.rule = ("(a) O: Gen_Expander universe C16Q (16 option combinations) + seeded random option vectors (FILE universe), each case on a fresh page and inside a "
              "history of 3 calls on one started page. Gen_Expander universe C05: cyclic libraries x pages, deep nests; random cyclic libraries (V); nests 1..100 of four shapes; "
              "Gen_ExpanderDepth: nesting ladders = pattern of rung kinds x depth x split over page / template bodies (one case per ladder). "
              "(b) see c05b. distinct_nontrivial = distinct (cut/no-cut, body of A, page) + distinct parser-function cases")
    o.assumptions = ["wall-clock bound 20 s per small generated page", "network-dependent parser functions run with the network helper stubbed"]
    thorough = tier == "thorough"
    ladders = LadderTLC(f"Gen_ExpanderDepth_{tier}.cfg", True)
    ladders.start()
    ladder_demo = LadderTLC("Demo_ExpanderDepth_unbounded.cfg", False)
    ladder_demo.start()
    # O: the option universe of the twin (generated beside the rest) and the seeded random option vectors
    opt_gen = LadderTLC("Gen_Expander_C16Q.cfg", True, module="Gen_Expander")
    opt_gen.start()
    vo = random_option_cases(random.Random(common.seed() * 104729 + 9), 1600 if thorough else 400)
    vo_scratch = Scratch("c05vo-")
    (vo_scratch.path / "cases.json").write_text(json.dumps(vo))
    vo_gen = LadderTLC("Gen_Expander_FILE.cfg", True, module="Gen_Expander", env={"CASE_FILE": str(vo_scratch.path / "cases.json")})
    vo_gen.start()
    uni = "C05" if thorough else "C05Q"
    r = tlc("Gen_Expander", f"Gen_Expander_{uni}.cfg", workers=1, timeout=3000)
    o.add_tlc(f"Gen_Expander[{uni}] laws+cases", r)
    cases = r.cases
    _G["cases"] = cases
    print(f"[C05] twin evaluated on {len(cases)} cases; replaying", flush=True)
    for ob in pmap(replay_chunk, ex.group_cases(cases), chunk=1):
        judge(o, cases[ob["idx"]], ob, "G")
        o.traces += 1
    d = tlc("Gen_Expander", "Demo_Expander_blowup.cfg", workers=1, check=False)
    o.extra["demo_repeated_pattern_detector_blows_up"] = bool(d.invariant_violated)
    if not d.invariant_violated:
        raise common.TLCError("Demo_Expander_blowup no longer shows the exponential re-expansion (vacuity guard)")
    o.sample({"page": tr.render(cases[0]["page"]), "A": tr.render_body(cases[0]["lib"].get("A", [])), "model_out": tr.text(cases[0]["out"])})
    print("[C05] nests", flush=True)
    # nests (observation only)
    for ob in pmap(run_nests, nest_pages()):
        c = {"lib": {}, "out": []}
        judge(o, c, ob, f"nest-{ob['kind']}-{ob['n']}", model=False)
        o.shape(("nest", ob["kind"], ob["n"]))
    # V: random cyclic libraries -> real code, then evaluated by the twin in TLC
    rng = random.Random(common.seed() * 31337 + 5)
    rc = random_cyclic_cases(rng, 400 if thorough else 80)
    _G["cases"] = rc
    print(f"[C05] {len(rc)} random cyclic libraries on the real code", flush=True)
    robs = pmap(replay_chunk, ex.group_cases(rc), chunk=4)
    print("[C05] evaluating them with the twin in TLC", flush=True)
    with Scratch("c05v-") as d:
        cf = d / "cases.json"
        cf.write_text(json.dumps(rc))
        r = tlc("Gen_Expander", "Gen_Expander_FILE.cfg", workers=1, timeout=3000, env={"CASE_FILE": str(cf)})
    o.add_tlc("Gen_Expander[FILE] random cyclic libraries", r)
    model = {common.json_key([c["lib"], c["page"]]): c for c in r.cases}
    for ob in robs:
        c = rc[ob["idx"]]
        m = model.get(common.json_key([c["lib"], c["page"]]))
        judge(o, m or {**c, "out": []}, ob, "V", model=m is not None)
        o.traces += 1
    # O: options x histories
    t_o = time.time()
    try:
        r = opt_gen.result()
        rv = vo_gen.result()
    finally:
        vo_scratch.__exit__()
    o.add_tlc("Gen_Expander[C16Q] option combinations x pages with several calls: laws+cases", r)
    o.add_tlc("Gen_Expander[FILE] random option vectors x pages with several calls", rv)
    vmodel = {common.json_key([c["lib"], c["need"], c["page"], c["o"]]): c for c in rv.cases}
    ocases = [dict(c, origin="O") for c in r.cases]
    for c in vo:
        m = vmodel.get(common.json_key([c["lib"], c["need"], c["page"], c["o"]]))
        ocases.append(dict(m or {**c, "out": []}, origin="VO", modelled=m is not None))
    if sum(1 for c in ocases if c["origin"] == "VO" and c["modelled"]) < 0.9 * len(vo):
        raise common.TLCError("the twin did not evaluate the random option cases (FILE universe)")
    _G["ocases"] = ocases
    print(f"[C05] options x histories: {len(r.cases)} cases of the twin's option universe + {len(vo)} random option vectors on the real code", flush=True)
    nh = 0
    for ob in pmap(option_chunk, ex.group_cases(ocases), chunk=2):
        c = ocases[ob["idx"]]
        judge(o, c, ob, c["origin"] + ("-history" if ob["history"] is not None else ""), model=c.get("modelled", True))
        o.traces += 1
        nh += ob["history"] is not None and len(ob["history"]) > 0
        o.shape(("opt", opt_text(c["o"]), ob["src"][:60]))
    o.extra["options_x_histories"] = {"wall_s_after_the_other_parts": round(time.time() - t_o, 1), "twin_universe_cases": len(r.cases), "random_option_cases": len(vo),
                                      "distinct_option_vectors": len({common.json_key(c["o"]) for c in ocases}),
                                      "calls_with_predecessors_on_the_same_page": nh,
                                      "cases_with_expand_invoke_off_and_2+_invokes": sum(1 for c in ocases if not c["o"]["invoke"] and sum(1 for it in flat_items(c["page"]) if it.get("k") == "inv") >= 2)}
    if o.extra["options_x_histories"]["cases_with_expand_invoke_off_and_2+_invokes"] < 10 or nh < 100:
        raise common.TLCError("option x history universe is vacuous")
    # (b)
    try:
        c05b = importlib.import_module("c05b")
    except ModuleNotFoundError:
        c05b = None
        o.extra["part_b"] = "not available"
    if c05b is not None:
        c05b.run_b(o, tier)
    # L: nesting ladders
    t_l = time.time()
    r = ladders.result()
    demo = ladder_demo.result()
    o.add_tlc(f"Gen_ExpanderDepth[{tier}] laws+ladders", r)
    o.add_tlc("Demo_ExpanderDepth_unbounded", demo)
    o.extra["demo_uncounted_nesting_unbounded"] = bool(demo.invariant_violated)
    if not demo.invariant_violated:
        raise common.TLCError("Demo_ExpanderDepth_unbounded no longer shows the unbounded recursion of the as-is design (vacuity guard)")
    lc = r.cases
    _G["ladders"] = lc
    if sum(1 for c in lc if c["cls"] == "cut") < 20 or sum(1 for c in lc if c["cls"] == "plain") < 20 or not any(c["asis_overrun"] for c in lc):
        raise common.TLCError("ladder universe is vacuous")
    print(f"[C05] {len(lc)} nesting ladders on the real code", flush=True)
    order = sorted(range(len(lc)), key=lambda i: -sum(s["n"] for s in lc[i]["segs"]))
    for ob in pmap(run_ladders, order, chunk=2):
        judge_ladder(o, lc[ob["idx"]], ob)
        o.traces += 1
    o.extra["ladders"] = {"wall_s_after_the_other_parts": round(time.time() - t_l, 1), "cases": len(lc), "predicted_cut": sum(1 for c in lc if c["cls"] == "cut"),
                          "as_is_overrun": sum(1 for c in lc if c["asis_overrun"]), "as_is_behaviour_observed": _G.get("asis_ladders", 0)}
    o.sample({"ladder": ladder_name(lc[order[0]]), "model_class": lc[order[0]]["cls"]})
    return o.finish()


def replay(path: str) -> int:
    v = json.loads(Path(path).read_text())
    print(json.dumps(v, indent=1)[:3000])
    return 1


def selftest() -> int:
    r = tlc("Gen_Expander", "Gen_Expander_C05Q.cfg", workers=1)
    cuts = sum(1 for c in r.cases if any(a in ("<ERR:loop:", "<ERR:depth>") for a in c["out"]))
    print("cases with a predicted cut:", cuts, "of", len(r.cases))
    # ladders: the demo of the deviation must fail in TLC; a fabricated observation "raised" on a ladder that the as-is
    # design bounds must be rejected as a violation, on a ladder that it does not bound it must be attributed to the deviation
    d = tlc("Gen_ExpanderDepth", "Demo_ExpanderDepth_unbounded.cfg", workers=1, check=False)
    print("Demo_ExpanderDepth_unbounded violated:", bool(d.invariant_violated))
    lc = d.cases or tlc("Gen_ExpanderDepth", "Gen_ExpanderDepth_quick.cfg", workers=1).cases
    o = Outcome(PID, "selftest")
    verdicts = []
    for want_over in (False, True):
        c = next(c for c in lc if c["asis_overrun"] == want_over and c["cls"] == "cut")
        before = len(o.violations)
        judge_ladder(o, c, {"src": ladder_text(c["segs"][0]), "out": None, "nout": None, "exc": "RecursionError('fabricated')", "stopped": False,
                            "wall": 0.0, "cpu": 0.0, "msgs": []})
        why = o.violations[-1]["why"] if len(o.violations) > before else "(known finding)"
        verdicts.append((want_over, len(o.violations) > before, DEV_NESTING in why))
        print("fabricated exception on", ladder_name(c), "->", "VIOLATION" if len(o.violations) > before else "KNOWN-FINDING", "| deviation named:", DEV_NESTING in why)
    c = next(c for c in lc if c["cls"] == "cut")
    before = len(o.violations)
    judge_ladder(o, c, {"src": "x", "out": "<ERR:depth>", "nout": "<ERR:depth>", "exc": None, "stopped": False, "wall": 0.0, "cpu": 0.0, "msgs": []})
    silent_cut = len(o.violations) > before
    print("error element without a recorded error rejected:", silent_cut)
    # options x histories: a fabricated exception of a call inside a history must be rejected, naming options and predecessors
    vo = random_option_cases(random.Random(1), 50)
    c = next(c for c in vo if not c["o"]["invoke"])
    before = len(o.violations)
    judge(o, {**c, "out": []}, {"src": tr.render(c["page"]), "out": None, "nout": None, "exc": "IndexError('fabricated')", "before": [], "after": [], "wall": 0.0, "msgs": [],
                                "history": [("{{#invoke:M|echo}}", "expand_invoke=False")]}, "VO-history", model=False)
    opt_rejected = len(o.violations) > before and "expand_invoke=False" in o.violations[-1]["why"] and "as call 2 on one started page" in o.violations[-1]["why"]
    print("fabricated exception inside a history of calls with options rejected:", opt_rejected)
    ok = cuts > 5 and d.invariant_violated and verdicts[0][1] and not verdicts[0][2] and (verdicts[1][2] or not verdicts[1][1]) and silent_cut and opt_rejected
    return 0 if ok else 1
