"""C05 — expand() terminates and reports failures in-band.

(a) termination / cycles (this file):
 M  TLC evaluates the expander twin (Expander.tla: expand_stack labels as pushed by the
    code, transcribed detect_expand_template_loop, depth limit 100) on cyclic libraries
    (cycles through bodies, positional and named arguments, defaults, #if / #switch
    branches, fan-out) and deeply nested pages: evaluation terminates, and every loop /
    depth cut leaves an error element AND a recorded message (law CutsReported).
 G  each case runs on the real expand() under a wall-clock bound: returns a str, no
    exception; where the twin predicts a cut, the error element and the message must be
    there (full output equality is DRIFT).  Nests of depth 1..100 of templates, links,
    #if are run as well.
 V  seeded random libraries with arbitrary (cyclic) call graphs are run on the real code,
    and the recorded cases are evaluated by the twin in TLC (Universe = "FILE").
(b) totality of the parser functions: harness/c05b.py (spec/Expr.tla etc.).
"""
from __future__ import annotations

import importlib
import json
import random
import time
from pathlib import Path

import common
import expander as ex
import transclusion as tr
from c16 import PREBODY
from common import Outcome, Scratch, pmap, tlc

PID = "C05"
_G = {}
TIME_BOUND = 20.0  # seconds for one expand() call of the (small) generated pages

OPT_ALL = {"pre": False, "hasExp": False, "exp": [], "hasNot": False, "nots": [], "pfns": True, "invoke": True, "tfn": "none", "pfn": "none"}


def replay_chunk(groups):
    common.use_repo()
    cases = _G["cases"]
    res = []
    with Scratch("c05-") as d:
        for gi, idxs in enumerate(groups):
            c0 = cases[idxs[0]]
            ctx = ex.make_ctx(d, c0["lib"], c0["need"], PREBODY, f"g{gi}", enwikt=c0.get("enw", True))
            try:
                for idx in idxs:
                    c = cases[idx]
                    ctx.start_page("Pg")
                    ob = ex.run_case(ctx, c, hard_limit=TIME_BOUND + 5)
                    ob["idx"] = idx
                    ob["msgs"] = ex.msg_summary(ctx)
                    ob.pop("hooks", None)
                    res.append(ob)
            finally:
                ctx.db_conn.close()
    return res


def judge(o: Outcome, c, ob, origin, model=True):
    o.evaluations += 1
    case = {"origin": origin, "lib": {k: tr.render_body(v) for k, v in c["lib"].items()}, "page": ob["src"][:400],
            "out": (ob["out"] or "")[:400], "exception": ob["exc"], "wall_s": round(ob["wall"], 2), "messages": ob["msgs"][:5]}
    if ob["exc"] is not None:
        o.violation(case, f"expand() raised {ob['exc']}", cls="exception")
        return
    if not isinstance(ob["out"], str):
        o.violation(case, "expand() did not return a string", cls="type")
        return
    if ob["wall"] > TIME_BOUND:
        o.violation(case, f"expand() needed {ob['wall']:.1f}s (> {TIME_BOUND}s) on a small page", cls="time")
        return
    real_cut = ("<ERR:loop:" in ob["nout"]) or ("<ERR:depth>" in ob["nout"])
    real_msg = any(s in ("core/1115", "core/1422") for _, s in ob["msgs"])
    if real_cut and not real_msg:
        o.violation(case, "an error element for a template loop / depth cut is in the output but no warning/error was recorded", cls="cut-without-message")
    if model:
        model_cut = any(a in ("<ERR:loop:", "<ERR:depth>") for a in c["out"])
        if model_cut and not real_cut:
            o.violation({**case, "model_out": tr.text(c["out"])[:400]},
                        "the specification predicts a template-loop / depth cut here, the output has no error element", cls="missing-cut")
        elif ob["nout"] != tr.text(c["out"]):
            o.note_drift({"page": ob["src"][:200], "model_out": tr.text(c["out"])[:200], "real_out": ob["nout"][:200]})
        o.shape(("cut" if model_cut else "nocut", common.json_key(c["lib"].get("A")), ob["src"][:60]))


def nest_pages():
    """calls nested 1..100 deep, several shapes (no model: property-level observation only)."""
    pages = []
    for n in list(range(1, 12)) + [20, 33, 34, 48, 49, 50, 51, 64, 80, 99, 100]:
        s = "c"
        for _ in range(n):
            s = "{{T1|" + s + "}}"
        pages.append(("tmpl", n, s))
        s = "c"
        for _ in range(n):
            s = "{{#if:1|" + s + "}}"
        pages.append(("if", n, s))
        s = "c"
        for _ in range(n):
            s = "{{T1|x=" + s + "}}"
        pages.append(("named", n, s))
        s = "c"
        for _ in range(n):
            s = "{{{u|" + s + "}}}"
        pages.append(("default", n, s))
    return pages


def run_nests(chunk):
    common.use_repo()
    res = []
    with Scratch("c05n-") as d:
        ctx = ex.make_ctx(d, {"T1": [{"w": "plain", "c": [{"k": "t", "s": ["("]}, {"k": "p", "name": ["1"], "hasDef": True, "def": []},
                                                          {"k": "p", "name": ["x"], "hasDef": True, "def": []}, {"k": "t", "s": [")"]}]}]}, [], PREBODY)
        try:
            for kind, n, src in chunk:
                ctx.start_page("Pg")
                t0 = time.time()
                exc = None
                out = None
                try:
                    out = ctx.expand(src)
                except Exception as e:  # noqa: BLE001
                    exc = repr(e)
                res.append({"kind": kind, "n": n, "src": src, "out": out, "nout": ex.norm_out(out) if isinstance(out, str) else None,
                            "exc": exc, "wall": time.time() - t0, "msgs": ex.msg_summary(ctx)})
        finally:
            ctx.db_conn.close()
    return res


def random_cyclic_cases(rng, n):
    cases = []
    for _ in range(n):
        k = rng.randint(2, 5)
        names = [f"T{i}" for i in range(1, k + 1)]
        lib = {}
        for nm in names:
            body = tr.rcontent(rng, 2, names, True, [5])  # any template may call any other: cycles allowed
            lib[nm] = [{"w": "plain", "c": body}]
        page = tr.rcontent(rng, 2, names, False, [4])
        if page:
            cases.append({"lib": lib, "need": [], "page": page, "o": OPT_ALL})
    return cases


def run(tier: str) -> int:
    o = Outcome(PID, tier)
    o.rule = ("(a) Gen_Expander universe C05: cyclic libraries x pages, deep nests; random cyclic libraries (V); nests 1..100 of four shapes. "
              "(b) see c05b. distinct_nontrivial = distinct (cut/no-cut, body of A, page) + distinct parser-function cases")
    o.assumptions = ["wall-clock bound 20 s per small generated page", "network-dependent parser functions run with the network helper stubbed"]
    thorough = tier == "thorough"
    uni = "C05" if thorough else "C05Q"
    r = tlc("Gen_Expander", f"Gen_Expander_{uni}.cfg", workers=1, timeout=3000)
    o.add_tlc(f"Gen_Expander[{uni}] laws+cases", r)
    cases = r.cases
    _G["cases"] = cases
    print(f"[C05] twin evaluated on {len(cases)} cases; replaying", flush=True)
    for ob in pmap(replay_chunk, ex.group_cases(cases), chunk=1):
        judge(o, cases[ob["idx"]], ob, "G")
        o.traces += 1
    d = tlc("Gen_Expander", "Demo_Expander_blowup.cfg", workers=1, check=False)
    o.extra["demo_repeated_pattern_detector_blows_up"] = bool(d.invariant_violated)
    if not d.invariant_violated:
        raise common.TLCError("Demo_Expander_blowup no longer shows the exponential re-expansion (vacuity guard)")
    o.sample({"page": tr.render(cases[0]["page"]), "A": tr.render_body(cases[0]["lib"].get("A", [])), "model_out": tr.text(cases[0]["out"])})
    print("[C05] nests", flush=True)
    # nests (observation only)
    for ob in pmap(run_nests, nest_pages()):
        c = {"lib": {}, "out": []}
        judge(o, c, ob, f"nest-{ob['kind']}-{ob['n']}", model=False)
        o.shape(("nest", ob["kind"], ob["n"]))
    # V: random cyclic libraries -> real code, then evaluated by the twin in TLC
    rng = random.Random(common.seed() * 31337 + 5)
    rc = random_cyclic_cases(rng, 400 if thorough else 80)
    _G["cases"] = rc
    print(f"[C05] {len(rc)} random cyclic libraries on the real code", flush=True)
    robs = pmap(replay_chunk, ex.group_cases(rc), chunk=4)
    print("[C05] evaluating them with the twin in TLC", flush=True)
    with Scratch("c05v-") as d:
        cf = d / "cases.json"
        cf.write_text(json.dumps(rc))
        r = tlc("Gen_Expander", "Gen_Expander_FILE.cfg", workers=1, timeout=3000, env={"CASE_FILE": str(cf)})
    o.add_tlc("Gen_Expander[FILE] random cyclic libraries", r)
    model = {common.json_key([c["lib"], c["page"]]): c for c in r.cases}
    for ob in robs:
        c = rc[ob["idx"]]
        m = model.get(common.json_key([c["lib"], c["page"]]))
        judge(o, m or {**c, "out": []}, ob, "V", model=m is not None)
        o.traces += 1
    # (b)
    try:
        c05b = importlib.import_module("c05b")
    except ModuleNotFoundError:
        c05b = None
        o.extra["part_b"] = "not available"
    if c05b is not None:
        c05b.run_b(o, tier)
    return o.finish()


def replay(path: str) -> int:
    v = json.loads(Path(path).read_text())
    print(json.dumps(v, indent=1)[:3000])
    return 1


def selftest() -> int:
    r = tlc("Gen_Expander", "Gen_Expander_C05Q.cfg", workers=1)
    cuts = sum(1 for c in r.cases if any(a in ("<ERR:loop:", "<ERR:depth>") for a in c["out"]))
    print("cases with a predicted cut:", cuts, "of", len(r.cases))
    return 0 if cuts > 5 else 1
