"""C16 — the expansion path and message lists are consistent after every call.

M  TLC evaluates the expander twin (spec/Expander.tla: every push/pop site of
   expand_stack in code order, all early returns) on every case of the universe and
   checks StackRestored (+ the other laws); Demo_Expander_leak shows that the design
   with the early return of a disabled #invoke violates it.
G  every case (page x library x 16 option combinations, incl. #invoke, failing Lua,
   time-outs, template loops) runs on the real code: expand_stack after == before;
   each page is then repeated 300 times without start_page (cycling the options) and
   must not be reported as too deeply nested; message records carry the documented keys.
W  combs (spec/Gen_ExpanderWidth.tla): WIDTH = how many constructs stand side by side in ONE piece of text
   (101 / 150 / 300) x what the construct is (every kind of call, reference, link; flat or nested up to 60
   deep) x which text holds them (page, template body, argument value, branch, default value on the page / in
   a body, the arguments of one call, the parts of one link, the cases of one #switch, a body two templates
   down) x options.  TLC evaluates the twin on each comb and on the same tooth alone, checks that the verdict
   "too deep" does not depend on the width, and prints texts + predictions; the real code must restore the
   path and must not report a comb as too deeply nested when it admits the single tooth (repeated 3 times
   without start_page).
N  name forms (spec/Gen_ExpanderNames.tla): HOW THE CALLED NAME IS WRITTEN ({{:Page}}, {{:Ns:Title}}, {{Ns:Title}},
   {{Template:T}}, first-letter / prefix case, underscores, blanks or a newline around the name, "Main:", a missing
   page and a redirect for each kind) x where the call stands (alone, twice side by side, in an argument, in #if,
   in a template body, mixed) x 16 option combinations; TLC prints the page store to install, the page as written
   and the twin's prediction; same verdicts as G (path restored after every call; 300 repetitions on one page).
V  the push/pop events of the real run (recorded with a list subclass installed as
   ctx.expand_stack) are compared with the twin's event log (DRIFT only: labels are
   internal).
"""
from __future__ import annotations

import json
import threading
from pathlib import Path

import common
import expander as ex
import transclusion as tr
from common import Outcome, Scratch, pmap, tlc

PID = "C16"
_G = {}


class RecList(list):
    """expand_stack that logs push/pop events."""

    def __init__(self, items, log):
        super().__init__(items)
        self.log = log

    def append(self, x):
        t, n = ex.label_of(x)
        self.log.append(f"+{t}:{n}")
        super().append(x)

    def pop(self, *a):
        self.log.append("-")
        return super().pop(*a)


def replay_chunk(groups):
    common.use_repo()
    cases = _G["cases"]
    prebody = _G["prebody"]
    res = []
    with Scratch("c16-") as d:
        for gi, idxs in enumerate(groups):
            c0 = cases[idxs[0]]
            if "store" in c0:      # name forms: the page store is printed by TLC (Gen_ExpanderNames)
                ctx = ex.make_ctx(d, {}, [], prebody, f"g{gi}", enwikt=c0.get("enw", True))
                install_store(ctx, c0["store"])
            else:
                ctx = ex.make_ctx(d, c0["lib"], c0["need"], prebody, f"g{gi}", enwikt=c0.get("enw", True))
            try:
                by_page = {}
                for idx in idxs:
                    c = cases[idx]
                    ctx.start_page("Pg")
                    empty_lists = not (ctx.errors or ctx.warnings or ctx.debugs or ctx.notes or ctx.wiki_notices)
                    log = []
                    ctx.expand_stack = RecList(ctx.expand_stack, log)
                    has_loop = any(it.get("fn") == "loop" for it in flat_items(c["page"]))
                    ob = ex.run_case(ctx, c, timeout=1 if has_loop else None)
                    ob["idx"] = idx
                    ob["events"] = log
                    ob["lists_emptied"] = empty_lists
                    ob["badmsgs"] = [str(m)[:200] for m in ex.bad_messages(ctx, "Pg")][:2]
                    ob["msgs"] = ex.msg_summary(ctx)
                    res.append(ob)
                    if not has_loop:
                        by_page.setdefault(common.json_key(c["page"]), []).append(idx)
                # repetition without start_page
                for pk, pidxs in by_page.items():
                    ctx.start_page("Pg")
                    predicted_depth = any(m["sortid"] == "core/1115" for i in pidxs for m in cases[i]["msgs"])
                    n = 0
                    exc = None
                    for rep in range(_G["reps"]):
                        c = cases[pidxs[rep % len(pidxs)]]
                        ob = ex.run_case(ctx, c)
                        n += 1
                        if ob["exc"]:
                            exc = ob["exc"]
                            break
                    deep = [m for m in ctx.errors if m.get("called_from") == "core/1115"]
                    res.append({"rep": True, "idx": pidxs[0], "n": n, "exc": exc, "after": list(ctx.expand_stack),
                                "deep": len(deep), "predicted_depth": predicted_depth,
                                "opts": [cases[i]["o"] for i in pidxs]})
            finally:
                ctx.db_conn.close()
    return res


def install_store(ctx, store):
    for p in store:
        if p["redirect"]:
            ctx.add_page(p["title"], p["ns"], redirect_to=p["redirect"])
        else:
            ctx.add_page(p["title"], p["ns"], body=tr.render_body(p["body"]), need_pre_expand=p["need"])
    ctx.db_conn.commit()


def name_groups(cases, first, per=4):
    """Groups of the name-form cases (one context per group): `per` pages with all their option combinations."""
    by_page = {}
    for i, c in enumerate(cases):
        by_page.setdefault(common.json_key(c["page"]), []).append(first + i)
    pages = list(by_page.values())
    return [sum(pages[i:i + per], []) for i in range(0, len(pages), per)]


def forms_of(c):
    return ", ".join("{{%s}} (%s)" % (f["w"].replace("\n", "\\n"), "no such page" if not f["pg"] else "page " + f["pg"]) for f in c.get("forms", []))


def flat_items(c):
    for it in c:
        yield it
        for k in ("def", "c", "y", "n", "a", "b", "v", "dflt"):
            if k == "c" and it.get("k") == "x":
                yield from flat_items(it["c"])
                continue
            if isinstance(it.get(k), list):
                yield from flat_items(it[k])
        for a in it.get("args", []) or []:
            if isinstance(a, list):
                yield from flat_items(a)
                continue
            yield from flat_items(a["val"])
            yield from flat_items(a["key"])
        for cs in it.get("cases", []) or []:
            yield from flat_items(cs["val"])


def stack_labels(stack):
    return [list(ex.label_of(s)) if s != "Pg" else ["page", "Pg"] for s in stack]

# ---------------------------------------------------------------------------------------
# combs: many constructs side by side in one text (Gen_ExpanderWidth)
COMB_REPS = 3


class CombTLC(threading.Thread):
    """Runs the comb generator beside the rest of the check."""

    def __init__(self, cfg, check=True, module="Gen_ExpanderWidth"):
        super().__init__(daemon=True)
        self.cfg, self.check, self.module = cfg, check, module
        self.res = self.err = None

    def run(self):
        try:
            self.res = tlc(self.module, self.cfg, workers=1, timeout=3000, check=self.check)
        except BaseException as e:  # noqa: BLE001  (re-raised by the main thread)
            self.err = e

    def result(self):
        self.join()
        if self.err is not None:
            raise self.err
        return self.res


def comb_name(c):
    tooth = "+".join(c["pat"]) + f" x{c['n']} around {c['core']}" if c["n"] else {"ref": "{{{1}}}", "nw": "a<nowiki />", "text": "text"}[c["core"]]
    return f"{c['width']} x [{tooth}] in {c['where']}"


def comb_tpls(t):
    # (TLC prints a function with an empty domain as an empty sequence)
    return {k: tr.text(v) for k, v in t.items()} if isinstance(t, dict) else {}


def comb_prepare(c):
    """Texts of the comb and of its companion (the same tooth alone in the same place), as printed by TLC."""
    page, tpls = tr.text(c["page"]), comb_tpls(c["tpls"])
    tooth = tr.text(c["tooth"])
    # binding guard: the printed texts really hold `width` teeth side by side
    if sum(t.count(tooth) for t in [page, *tpls.values()]) < c["width"]:
        raise common.TLCError(f"comb {comb_name(c)}: the printed texts do not hold {c['width']} copies of the tooth {tooth[:60]!r}")
    return page, tpls, tr.text(c["one_page"]), comb_tpls(c["one_tpls"])


def comb_observe(ctx, c, page, first):
    ob = ex.run_case(ctx, {"o": c["o"], "page": [{"k": "t", "s": [page]}]})
    msgs = ex.msg_summary(ctx)
    return {"out": ob["out"], "nout": ob["nout"], "exc": ob["exc"], "before": ob["before"], "after": ob["after"],
            "deep": sum(1 for _, s in msgs if s == "core/1115"), "cut": (ob["nout"] or "").count("<ERR:depth>"),
            "nmsgs": len(msgs), "badmsgs": [str(m)[:200] for m in ex.bad_messages(ctx, "Pg")][:2] if first else []}


def run_combs(idxs):
    common.use_repo()
    cases = _G["combs"]
    res = []
    with Scratch("c16w-") as d:
        ctx = None
        for idx in idxs:
            c = cases[idx]
            page, tpls, one_page, one_tpls = comb_prepare(c)
            if ctx is None:
                ctx = ex.make_ctx(d, c["base"], [], PREBODY, f"w{idx}")
            r = {"idx": idx, "src": page, "tpls": tpls}
            try:
                # the tooth alone
                for name, body in one_tpls.items():
                    ctx.add_page("Template:" + name, 10, body=body, need_pre_expand=name in c["need"])
                ctx.db_conn.commit()
                ctx.start_page("Pg")
                r["one"] = comb_observe(ctx, c, one_page, True)
                # the comb, repeated without start_page
                for name, body in tpls.items():
                    ctx.add_page("Template:" + name, 10, body=body, need_pre_expand=name in c["need"])
                ctx.db_conn.commit()
                ctx.start_page("Pg")
                r["empty_lists"] = not (ctx.errors or ctx.warnings or ctx.debugs or ctx.notes or ctx.wiki_notices)
                r["reps"] = []
                deep0 = 0
                for rep in range(COMB_REPS):
                    ob = comb_observe(ctx, c, page, rep == 0)
                    ob["deep"], deep0 = ob["deep"] - deep0, ob["deep"]      # messages accumulate until start_page
                    r["reps"].append(ob)
                    if ob["exc"]:
                        break
            finally:
                broken = any(ob["exc"] or ob["after"] != ob["before"] for ob in [r.get("one") or {"exc": "?"}] + r.get("reps", []))
                if broken:
                    ctx.db_conn.close()
                    ctx = None
            res.append(r)
        if ctx is not None:
            ctx.db_conn.close()
    return res


def judge_comb(o: Outcome, c, r):
    """The statement: the path is restored after every call, so constructs side by side are never 'too deeply nested'.
    Read on combs: a text of N siblings is not reported as too deep when the same construct alone in the same place is not
    (and the twin agrees that nothing there is nested beyond the limit).  Where exactly the limit lies is not C16's business."""
    name = comb_name(c)
    o.shape(("comb", c["where"], tuple(c["pat"]), c["n"], c["core"], c["width"], common.json_key(c["o"])))
    short = lambda s: s if s is None or len(s) <= 200 else s[:200] + " ..."   # noqa: E731
    one = r["one"]
    one_reported = bool(one["deep"] or one["cut"])
    for i, ob in enumerate(r["reps"]):
        o.evaluations += 1
        case = {"origin": "comb", "comb": name, "page": short(r["src"]), "templates": {k: short(v) for k, v in r["tpls"].items()}, "options": c["o"],
                "call": i + 1, "stack_before": ob["before"], "stack_after": ob["after"], "exception": ob["exc"], "out": short(ob["out"]),
                "too_deep_errors": ob["deep"], "too_deep_elements_in_output": ob["cut"],
                "model": {"reported_too_deep": c["reported"], "single_tooth_reported": c["one_reported"], "nesting_of_the_texts": c["nest"], "peak": c["peak"]},
                "single_tooth": {"page": short(tr.text(c["one_page"])), "too_deep_errors": one["deep"], "out": short(one["out"])}}
        if ob["exc"]:
            o.violation(case, f"expand() raised {ob['exc']} on the comb [{name}]", cls="comb-exception")
            return
        if ob["after"] != ob["before"]:
            o.violation(case, f"expand_stack after the call is {ob['after'][:6]} but was {ob['before']} before it (comb [{name}])", cls="comb-stack")
            return
        if ob["badmsgs"]:
            o.violation({**case, "messages": ob["badmsgs"]}, "a recorded message lacks the documented keys / current title", cls="msgkeys")
        real_reported = bool(ob["deep"] or ob["cut"])
        if real_reported and not c["reported"]:
            if one["exc"] is None and not one_reported:
                what = (f"{ob['deep']} 'too deep recursion' error(s) recorded" if ob["deep"] else "no error recorded") + \
                       (f" and {ob['cut']} 'too deep recursion' element(s) in the output" if ob["cut"] else "")
                o.violation(case, f"{c['width']} constructs standing SIDE BY SIDE in one text ({c['where']}) are reported as too deeply nested on call {i + 1}: {what}, "
                                  f"although the texts are nested only {c['nest']} deep and the same construct alone in the same place is expanded without "
                                  "such a report: the depth verdict depends on the number of siblings, not on nesting (specification: depth is restored "
                                  "between siblings - a page of N flat calls is never too deep)", cls="comb-false-depth")
                return
            o.note_drift({"comb": name, "model": "not too deep", "real": "too deep, also for the tooth alone", "real_out": short(ob["nout"])})
            return
        if c["reported"] != real_reported:
            o.note_drift({"comb": name, "model": "too deep", "real": "not reported"})
            return
        if not real_reported and ob["nout"] != tr.text(c["out"]):
            o.note_drift({"comb": name, "call": i + 1, "options": c["o"], "model_out": short(tr.text(c["out"])), "real_out": short(ob["nout"])})
            return
    if not r["empty_lists"]:
        o.violation({"origin": "comb", "comb": name}, "start_page did not empty the message lists", cls="lists")
    if one["exc"]:
        o.violation({"origin": "comb", "comb": name, "page": tr.text(c["one_page"]), "exception": one["exc"]}, f"expand() raised {one['exc']}", cls="comb-exception")
    elif one["after"] != one["before"]:
        o.violation({"origin": "comb", "comb": name, "page": tr.text(c["one_page"]), "stack_after": one["after"]},
                    f"expand_stack after the call is {one['after'][:6]} but was {one['before']} before it", cls="comb-stack")


def combs_extend(o: Outcome, tier, gen: CombTLC, demo: CombTLC):
    r = gen.result()
    dm = demo.result()
    o.add_tlc(f"Gen_ExpanderWidth[{tier}] laws+combs", r)
    o.add_tlc("Demo_ExpanderWidth_accumulate", dm)
    o.extra["demo_accumulating_pass_violates_PassIdentityBelowLimit"] = bool(dm.invariant_violated)
    if not dm.invariant_violated:
        raise common.TLCError("Demo_ExpanderWidth_accumulate no longer produces the counterexample (vacuity guard)")
    combs = r.cases
    if len(combs) < 50 or not any(c["width"] > 100 and not c["reported"] for c in combs):
        raise common.TLCError("comb universe is vacuous")
    _G["combs"] = combs
    order = sorted(range(len(combs)), key=lambda i: -combs[i]["width"] * max(1, combs[i]["n"]))
    print(f"[C16] {len(combs)} combs on the real code", flush=True)
    for ob in pmap(run_combs, order, chunk=6):
        judge_comb(o, combs[ob["idx"]], ob)
    o.extra["combs"] = {"cases": len(combs), "widths": sorted({c["width"] for c in combs}), "places": sorted({c["where"] for c in combs}),
                        "predicted_too_deep": sum(1 for c in combs if c["reported"]), "calls_per_comb": COMB_REPS}
    o.rule += (" || combs (Gen_ExpanderWidth): one case per (place, tooth = pattern of kinds x depth x core, width, options); every case is distinct; "
               "each is run with its companion of width 1 and repeated 3 times on one page")
    top = combs[order[len(order) // 2]]
    o.sample({"comb": comb_name(top), "model_reported_too_deep": top["reported"], "model_out": tr.text(top["out"])[:80]})


def run(tier: str) -> int:
    o = Outcome(PID, tier)
    o.rule = ("each (library, page, option-combination) of Gen_Expander universe C16 is one case; distinct_nontrivial = distinct "
              "(page, options) pairs whose twin run pushes at least one label beyond the page title")
    o.assumptions = ["Lua runs offline through pure-Lua stand-ins for ustring/libraryUtil (harness/luastub.py)",
                     "module M's functions have the behaviour assumed by the twin (echo/err/pre/tpl/loop)"]
    thorough = tier == "thorough"
    comb_gen = CombTLC(f"Gen_ExpanderWidth_{tier if thorough else 'quick'}.cfg")
    comb_gen.start()
    comb_demo = CombTLC("Demo_ExpanderWidth_accumulate.cfg", check=False)
    comb_demo.start()
    name_gen = CombTLC(f"Gen_ExpanderNames_{tier if thorough else 'quick'}.cfg", module="Gen_ExpanderNames")
    name_gen.start()
    uni = "C16" if thorough else "C16Q"
    r = tlc("Gen_Expander", f"Gen_Expander_{uni}.cfg", workers=1, timeout=3000)
    o.add_tlc(f"Gen_Expander[{uni}] laws+cases", r)
    cases = list(r.cases)
    # N: name forms (the same record shape + the page store); replayed and judged with the cases of the main universe
    rn = name_gen.result()
    o.add_tlc(f"Gen_ExpanderNames[{tier if thorough else 'quick'}] laws+cases", rn)
    ncases = rn.cases
    if len(ncases) < 300 or not any(f["w"].startswith(":") for c in ncases for f in c["forms"]) \
            or not any(e.startswith("+tmpl::") for c in ncases for e in c["ev"]):
        raise common.TLCError("name-form universe is vacuous")
    nfirst = len(cases)
    cases += ncases
    d = tlc("Gen_Expander", "Demo_Expander_leak.cfg", workers=1, check=False)
    o.extra["demo_leak_violates_StackRestored"] = bool(d.invariant_violated)
    if not d.invariant_violated:
        raise common.TLCError("Demo_Expander_leak no longer produces the counterexample (vacuity guard)")
    # prebody from the spec (constant ThePreBody): emitted through a tiny config
    _G["prebody"] = PREBODY
    _G["cases"] = cases
    _G["reps"] = 300
    results = pmap(replay_chunk, ex.group_cases(cases[:nfirst]) + name_groups(ncases, nfirst), chunk=1)
    known = o.known
    for ob in results:
        c = cases[ob["idx"]]
        if ob.get("rep"):
            o.evaluations += ob["n"]
            case = {"lib": {k: tr.render_body(v) for k, v in c["lib"].items()}, "page": tr.render(c["page"]),
                    "repeated": ob["n"], "options_cycled": ob["opts"], "stack_after": ob["after"], "exception": ob["exc"],
                    "deep_errors": ob["deep"]}
            nm = f" [name forms: {forms_of(c)}]" if "forms" in c else ""
            if "forms" in c:
                case["name_forms"] = c["forms"]
            if ob["exc"]:
                o.violation(case, f"exception during repeated calls: {ob['exc']}" + nm, cls="rep-exception")
            elif ob["after"] != ["Pg"]:
                devs = [dv for dv in known] if known and "forms" not in c else []
                o.classify(case, f"after {ob['n']} calls on one page expand_stack is {ob['after'][:6]}... instead of ['Pg']" + nm, devs, cls="rep-stack")
            elif ob["deep"] and not ob["predicted_depth"]:
                o.violation(case, "a flat page was reported as too deeply nested after repeated calls" + nm, cls="rep-depth")
            continue
        o.evaluations += 1
        o.traces += 1
        if len(c["ev"]) > 0:
            o.shape((common.json_key(c["page"]), common.json_key(c["o"])))
        case = {"lib": {k: tr.render_body(v) for k, v in c["lib"].items()}, "need": c["need"], "page": ob["src"], "options": c["o"],
                "stack_before": ob["before"], "stack_after": ob["after"], "exception": ob["exc"], "out": ob["out"]}
        nm = ""
        if "forms" in c:
            nm = (f" [name forms: {forms_of(c)}; the twin pushes one path entry per call whatever the form of the name and pops it when the call "
                  f"is done: predicted path after the call {[l['n'] for l in c['stack']]}, predicted output {tr.text(c['out'])!r}]")
            case.update({"origin": "name-forms", "name_forms": c["forms"], "shape": c["shape"],
                         "store": {p["title"]: ("-> " + p["redirect"] if p["redirect"] else tr.render_body(p["body"])) for p in c["store"]}})
        if ob["exc"]:
            o.violation(case, f"expand() raised {ob['exc']}" + nm, cls="exception")
            continue
        if ob["after"] != ob["before"]:
            asis = [l for l in c["asis_stack"]]
            if stack_labels(ob["after"]) == [[l["t"], l["n"]] for l in asis] and c["asis_stack"] != c["stack"]:
                o.classify(case, "expand_stack not restored", sorted(known), cls="stack")
            else:
                o.violation(case, f"expand_stack after the call is {ob['after']} but was {ob['before']} before it" + nm, cls="stack")
        if not ob["lists_emptied"]:
            o.violation(case, "start_page did not empty the message lists", cls="lists")
        if ob["badmsgs"]:
            o.violation({**case, "messages": ob["badmsgs"]}, "a recorded message lacks the documented keys / current title", cls="msgkeys")
        # DRIFT: output and event trace are internal to this property
        if ob["nout"] != tr.text(c["out"]):
            o.note_drift({"page": ob["src"], "options": c["o"], "model_out": tr.text(c["out"]), "real_out": ob["nout"]})
        elif c["ev"] and ob["events"] != c["ev"]:
            o.note_drift({"page": ob["src"], "options": c["o"], "model_events": c["ev"][:12], "real_events": ob["events"][:12]})
    o.exhaustive = True
    o.extra["name_forms"] = {"cases": len(ncases), "pages": len({common.json_key(c["page"]) for c in ncases}),
                             "forms": sorted({f["w"] for c in ncases for f in c["forms"]}), "shapes": sorted({c["shape"] for c in ncases})}
    o.rule += (" || name forms (Gen_ExpanderNames): one case per (page shape x form(s) of the called name, option-combination); the page store "
               "is fixed and printed with the case")
    mid = cases[nfirst // 2]
    o.sample({"page": tr.render(mid["page"]), "options": mid["o"], "model_events": mid["ev"][:10], "model_out": tr.text(mid["out"])})
    # W: combs (width of one text x kind x depth x place)
    combs_extend(o, tier, comb_gen, comb_demo)
    # the per-page session state machine (spec/Session.tla): titles / sections stamped on messages, lists
    # emptied by start_page, path restored after every call, in longer mixed sessions
    import c16s
    common.with_engine(o, "session", lambda: c16s.extend(o, tier))
    # the repository's own test-suite as a trace source (harness/suitetrace.py)
    import suitetrace
    common.with_engine(o, "suite", lambda: suitetrace.extend(o, tier, PID))
    return o.finish()


PREBODY = [{"k": "t", "s": ["<"]}, {"k": "c", "name": "T1", "args": [{"named": False, "key": [], "val": [{"k": "t", "s": ["z"]}]}]},
           {"k": "c", "name": "NOPE", "args": []}, {"k": "t", "s": [">"]}]


def replay(path: str) -> int:
    v = json.loads(Path(path).read_text())
    if v.get("case", {}).get("engine") == "session":
        import c16s
        return c16s.replay(path)
    if v.get("case", {}).get("engine") == "suite":
        import suitetrace
        return suitetrace.replay(path)
    print(json.dumps(v, indent=1)[:2500])
    return 1


def selftest() -> int:
    """Binding demo: a twin prediction with a corrupted stack must be noticed."""
    r = tlc("Gen_Expander", "Demo_Expander_leak.cfg", workers=1, check=False)
    print("as-is design violates StackRestored in the model:", bool(r.invariant_violated))
    # combs: a pass that counts siblings as depth must be rejected by TLC, and a fabricated observation "too deep" on a comb
    # whose tooth alone is fine must be rejected by the judge
    d2 = tlc("Gen_ExpanderWidth", "Demo_ExpanderWidth_accumulate.cfg", workers=1, check=False)
    print("a pass whose counter runs on across siblings violates PassIdentityBelowLimit in the model:", bool(d2.invariant_violated))

    class _O:
        evaluations = 0

        def __init__(self):
            self.v = []

        def shape(self, k):
            pass

        def note_drift(self, x):
            pass

        def violation(self, case, why, cls=None):
            self.v.append(cls)

    c = {"where": "body", "pat": ["tpos"], "n": 0, "core": "ref", "width": 101, "o": {}, "reported": False, "one_reported": False, "nest": 2, "peak": 3,
         "one_page": ["{{", "W1", "|", "x", "}}"], "out": ["x"]}
    ok = {"out": "x", "nout": "x", "exc": None, "before": ["Pg"], "after": ["Pg"], "deep": 0, "cut": 0, "badmsgs": []}
    fake = _O()
    judge_comb(fake, c, {"src": "{{W1|x}}", "tpls": {}, "one": ok, "reps": [dict(ok, deep=1, cut=1, nout="<ERR:depth>")], "empty_lists": True})
    print("fabricated 'too deep' on a comb is rejected:", fake.v == ["comb-false-depth"])
    return 0 if r.invariant_violated and d2.invariant_violated and fake.v == ["comb-false-depth"] else 1
