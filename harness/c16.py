"""C16 — the expansion path and message lists are consistent after every call.

M  TLC evaluates the expander twin (spec/Expander.tla: every push/pop site of
   expand_stack in code order, all early returns) on every case of the universe and
   checks StackRestored (+ the other laws); Demo_Expander_leak shows that the design
   with the early return of a disabled #invoke violates it.
G  every case (page x library x 16 option combinations, incl. #invoke, failing Lua,
   time-outs, template loops) runs on the real code: expand_stack after == before;
   each page is then repeated 300 times without start_page (cycling the options) and
   must not be reported as too deeply nested; message records carry the documented keys.
V  the push/pop events of the real run (recorded with a list subclass installed as
   ctx.expand_stack) are compared with the twin's event log (DRIFT only: labels are
   internal).
"""
from __future__ import annotations

import json
from pathlib import Path

import common
import expander as ex
import transclusion as tr
from common import Outcome, Scratch, pmap, tlc

PID = "C16"
_G = {}


class RecList(list):
    """expand_stack that logs push/pop events."""

    def __init__(self, items, log):
        super().__init__(items)
        self.log = log

    def append(self, x):
        t, n = ex.label_of(x)
        self.log.append(f"+{t}:{n}")
        super().append(x)

    def pop(self, *a):
        self.log.append("-")
        return super().pop(*a)


def replay_chunk(groups):
    common.use_repo()
    cases = _G["cases"]
    prebody = _G["prebody"]
    res = []
    with Scratch("c16-") as d:
        for gi, idxs in enumerate(groups):
            c0 = cases[idxs[0]]
            ctx = ex.make_ctx(d, c0["lib"], c0["need"], prebody, f"g{gi}", enwikt=c0.get("enw", True))
            try:
                by_page = {}
                for idx in idxs:
                    c = cases[idx]
                    ctx.start_page("Pg")
                    empty_lists = not (ctx.errors or ctx.warnings or ctx.debugs or ctx.notes or ctx.wiki_notices)
                    log = []
                    ctx.expand_stack = RecList(ctx.expand_stack, log)
                    has_loop = any(it.get("fn") == "loop" for it in flat_items(c["page"]))
                    ob = ex.run_case(ctx, c, timeout=1 if has_loop else None)
                    ob["idx"] = idx
                    ob["events"] = log
                    ob["lists_emptied"] = empty_lists
                    ob["badmsgs"] = [str(m)[:200] for m in ex.bad_messages(ctx, "Pg")][:2]
                    ob["msgs"] = ex.msg_summary(ctx)
                    res.append(ob)
                    if not has_loop:
                        by_page.setdefault(common.json_key(c["page"]), []).append(idx)
                # repetition without start_page
                for pk, pidxs in by_page.items():
                    ctx.start_page("Pg")
                    predicted_depth = any(m["sortid"] == "core/1115" for i in pidxs for m in cases[i]["msgs"])
                    n = 0
                    exc = None
                    for rep in range(_G["reps"]):
                        c = cases[pidxs[rep % len(pidxs)]]
                        ob = ex.run_case(ctx, c)
                        n += 1
                        if ob["exc"]:
                            exc = ob["exc"]
                            break
                    deep = [m for m in ctx.errors if m.get("called_from") == "core/1115"]
                    res.append({"rep": True, "idx": pidxs[0], "n": n, "exc": exc, "after": list(ctx.expand_stack),
                                "deep": len(deep), "predicted_depth": predicted_depth,
                                "opts": [cases[i]["o"] for i in pidxs]})
            finally:
                ctx.db_conn.close()
    return res


def flat_items(c):
    for it in c:
        yield it
        for k in ("def", "c", "y", "n", "a", "b", "v", "dflt"):
            if k == "c" and it.get("k") == "x":
                yield from flat_items(it["c"])
                continue
            if isinstance(it.get(k), list):
                yield from flat_items(it[k])
        for a in it.get("args", []) or []:
            if isinstance(a, list):
                yield from flat_items(a)
                continue
            yield from flat_items(a["val"])
            yield from flat_items(a["key"])
        for cs in it.get("cases", []) or []:
            yield from flat_items(cs["val"])


def stack_labels(stack):
    return [list(ex.label_of(s)) if s != "Pg" else ["page", "Pg"] for s in stack]


def run(tier: str) -> int:
    o = Outcome(PID, tier)
    o.rule = ("each (library, page, option-combination) of Gen_Expander universe C16 is one case; distinct_nontrivial = distinct "
              "(page, options) pairs whose twin run pushes at least one label beyond the page title")
    o.assumptions = ["Lua runs offline through pure-Lua stand-ins for ustring/libraryUtil (harness/luastub.py)",
                     "module M's functions have the behaviour assumed by the twin (echo/err/pre/tpl/loop)"]
    thorough = tier == "thorough"
    uni = "C16" if thorough else "C16Q"
    r = tlc("Gen_Expander", f"Gen_Expander_{uni}.cfg", workers=1, timeout=3000)
    o.add_tlc(f"Gen_Expander[{uni}] laws+cases", r)
    cases = r.cases
    d = tlc("Gen_Expander", "Demo_Expander_leak.cfg", workers=1, check=False)
    o.extra["demo_leak_violates_StackRestored"] = bool(d.invariant_violated)
    if not d.invariant_violated:
        raise common.TLCError("Demo_Expander_leak no longer produces the counterexample (vacuity guard)")
    # prebody from the spec (constant ThePreBody): emitted through a tiny config
    _G["prebody"] = PREBODY
    _G["cases"] = cases
    _G["reps"] = 300
    results = pmap(replay_chunk, ex.group_cases(cases), chunk=1)
    known = o.known
    for ob in results:
        c = cases[ob["idx"]]
        if ob.get("rep"):
            o.evaluations += ob["n"]
            case = {"lib": {k: tr.render_body(v) for k, v in c["lib"].items()}, "page": tr.render(c["page"]),
                    "repeated": ob["n"], "options_cycled": ob["opts"], "stack_after": ob["after"], "exception": ob["exc"],
                    "deep_errors": ob["deep"]}
            if ob["exc"]:
                o.violation(case, f"exception during repeated calls: {ob['exc']}", cls="rep-exception")
            elif ob["after"] != ["Pg"]:
                devs = [dv for dv in known] if known else []
                o.classify(case, f"after {ob['n']} calls on one page expand_stack is {ob['after'][:6]}... instead of ['Pg']", devs, cls="rep-stack")
            elif ob["deep"] and not ob["predicted_depth"]:
                o.violation(case, "a flat page was reported as too deeply nested after repeated calls", cls="rep-depth")
            continue
        o.evaluations += 1
        o.traces += 1
        if len(c["ev"]) > 0:
            o.shape((common.json_key(c["page"]), common.json_key(c["o"])))
        case = {"lib": {k: tr.render_body(v) for k, v in c["lib"].items()}, "need": c["need"], "page": ob["src"], "options": c["o"],
                "stack_before": ob["before"], "stack_after": ob["after"], "exception": ob["exc"], "out": ob["out"]}
        if ob["exc"]:
            o.violation(case, f"expand() raised {ob['exc']}", cls="exception")
            continue
        if ob["after"] != ob["before"]:
            asis = [l for l in c["asis_stack"]]
            if stack_labels(ob["after"]) == [[l["t"], l["n"]] for l in asis] and c["asis_stack"] != c["stack"]:
                o.classify(case, "expand_stack not restored", sorted(known), cls="stack")
            else:
                o.violation(case, f"expand_stack after the call is {ob['after']} but was {ob['before']} before it", cls="stack")
        if not ob["lists_emptied"]:
            o.violation(case, "start_page did not empty the message lists", cls="lists")
        if ob["badmsgs"]:
            o.violation({**case, "messages": ob["badmsgs"]}, "a recorded message lacks the documented keys / current title", cls="msgkeys")
        # DRIFT: output and event trace are internal to this property
        if ob["nout"] != tr.text(c["out"]):
            o.note_drift({"page": ob["src"], "options": c["o"], "model_out": tr.text(c["out"]), "real_out": ob["nout"]})
        elif c["ev"] and ob["events"] != c["ev"]:
            o.note_drift({"page": ob["src"], "options": c["o"], "model_events": c["ev"][:12], "real_events": ob["events"][:12]})
    o.exhaustive = True
    mid = cases[len(cases) // 2]
    o.sample({"page": tr.render(mid["page"]), "options": mid["o"], "model_events": mid["ev"][:10], "model_out": tr.text(mid["out"])})
    # the per-page session state machine (spec/Session.tla): titles / sections stamped on messages, lists
    # emptied by start_page, path restored after every call, in longer mixed sessions
    import c16s
    common.with_engine(o, "session", lambda: c16s.extend(o, tier))
    # the repository's own test-suite as a trace source (harness/suitetrace.py)
    import suitetrace
    common.with_engine(o, "suite", lambda: suitetrace.extend(o, tier, PID))
    return o.finish()


PREBODY = [{"k": "t", "s": ["<"]}, {"k": "c", "name": "T1", "args": [{"named": False, "key": [], "val": [{"k": "t", "s": ["z"]}]}]},
           {"k": "c", "name": "NOPE", "args": []}, {"k": "t", "s": [">"]}]


def replay(path: str) -> int:
    v = json.loads(Path(path).read_text())
    if v.get("case", {}).get("engine") == "session":
        import c16s
        return c16s.replay(path)
    if v.get("case", {}).get("engine") == "suite":
        import suitetrace
        return suitetrace.replay(path)
    print(json.dumps(v, indent=1)[:2500])
    return 1


def selftest() -> int:
    """Binding demo: a twin prediction with a corrupted stack must be noticed."""
    r = tlc("Gen_Expander", "Demo_Expander_leak.cfg", workers=1, check=False)
    print("as-is design violates StackRestored in the model:", bool(r.invariant_violated))
    return 0 if r.invariant_violated else 1
