"""pytest plugin of harness/suitetrace.py (loaded with `-p suiteplug`, never imported by the checks).

It turns the repository's own test-suite into a trace source: the public methods of
`wikitextprocessor.Wtp` are wrapped (behaviour unchanged: same arguments, same result, same
exception) and one NDJSON record is written per call AT ITS RETURN - also on the exception path -
into the file named by SUITETRACE_OUT:

  {"k":"ev", "c": context id, "n": per-context sequence number, "op", "nested": called from inside
   another recorded call, "a": abstracted arguments, "r": abstracted result, "exc": exception type or
   null, "es0"/"es": len(expand_stack) at entry / at return, "ps": len(parser_stack),
   "m0"/"m": message counts [errors, warnings, debugs, notes, wiki_notices] at entry / at return,
   "st0"/"st": number of start_page/start_section/start_subsection calls on this context so far,
   "title"/"section": ctx.title / ctx.section at return, "nm": the messages appended by this call
   (key set, title, section, path-is-a-tuple; at most 8), "t": test id}
  {"k":"tree", ...}   structural dump (harness/parsetree.dump_wf) of a tree returned by parse(), once per
                      distinct shape and shard
  {"k":"test", ...}   outcome of a test's call phase (only used to tell an exception the test expected
                      from one that escaped; a failing assertion is never a verdict)
  {"k":"hdr", ...}    where wikitextprocessor was imported from, namespace tables

Nothing is written outside SUITETRACE_OUT.  Lua: the Scribunto submodule is absent offline, so the
pure-Lua stand-ins of harness/luastub.py are installed into every new context (as tools/luaplug
does); those two add_page calls are recorded like any other (nested inside __init__).

SUITETRACE_SHARD="i/n" keeps the collected tests whose index is i modulo n.
"""
from __future__ import annotations

import functools
import hashlib
import inspect
import json
import os
import sys

OUT = os.environ.get("SUITETRACE_OUT")
SHARD = os.environ.get("SUITETRACE_SHARD", "")
WANT_TREES = os.environ.get("SUITETRACE_TREES", "1") == "1"
TEXT_CAP = 200000
MAIN_PID = os.getpid()

_fh = open(OUT, "a", buffering=1 << 16) if OUT else None
_depth = 0
_test = ""
_cids: dict = {}        # id(ctx) -> context id (re-assigned by every __init__)
_seq: dict = {}         # context id -> events so far
_starts: dict = {}      # context id -> start_* calls so far
_next_cid = [0]
_seen_trees: set = set()
_ns_done: set = set()
KINDS = ("errors", "warnings", "debugs", "notes", "wiki_notices")
MSG_OPS = ("error", "warning", "debug", "note", "wiki_notice")
NONE = "<None>"


def _w(rec) -> None:
    if _fh is not None and os.getpid() == MAIN_PID:
        _fh.write(json.dumps(rec, separators=(",", ":"), default=str) + "\n")


def _sha(s) -> str:
    if s is None:
        return ""
    if not isinstance(s, str):
        s = repr(s)
    return hashlib.sha1(s.encode("utf-8", "surrogatepass")).hexdigest()[:12]


def _nz(x):
    if x is None:
        return NONE
    return x if isinstance(x, str) else "<" + type(x).__name__ + ">"


def _txt(s):
    """Abstraction of a text argument: the text itself up to the cap, else its digest."""
    if not isinstance(s, str):
        return {"x": type(s).__name__}
    if len(s) <= TEXT_CAP:
        return {"s": s}
    return {"sha": _sha(s), "len": len(s)}


def _counts(ctx):
    out = []
    for k in KINDS:
        v = getattr(ctx, k, None)
        out.append(len(v) if isinstance(v, list) else -1)
    return out


def _len(ctx, name):
    v = getattr(ctx, name, None)
    try:
        return len(v)
    except Exception:  # noqa: BLE001
        return -1


def _page(p):
    if p is None:
        return {"found": False}
    return {"found": True, "title": _nz(getattr(p, "title", None)), "ns": getattr(p, "namespace_id", None),
            "redirect": getattr(p, "redirect_to", None), "body": _sha(getattr(p, "body", None)),
            "model": getattr(p, "model", None)}


_MARKUP_TMPL = ("<!--", "noinclude", "onlyinclude", "includeonly")


def _abs_args(op, ctx, b, orig_cls):
    """b: dict of bound arguments (without self)."""
    a = {}
    if op == "__init__":
        dp = b.get("db_path")
        a = {"db_path": None if dp is None else str(dp), "lang_code": b.get("lang_code", "en"), "project": b.get("project", "wiktionary")}
    elif op == "add_page":
        body = b.get("body")
        a = {"title": _nz(b.get("title")), "ns": b.get("namespace_id"), "redirect": b.get("redirect_to"),
             "model": b.get("model", "wikitext"), "body": _sha(body), "blen": len(body) if isinstance(body, str) else -1,
             "npe": bool(b.get("need_pre_expand", False))}
        # template bodies are stored as their includable part; which part that is belongs to another
        # property (C04) - the store trace carries the digest of the part add_page is going to store
        if isinstance(body, str) and any(m in body.lower() for m in _MARKUP_TMPL):
            a["incl"] = True
    elif op in ("get_page", "page_exists", "get_page_resolve_redirect", "get_page_body"):
        a = {"title": _nz(b.get("title")), "ns": b.get("namespace_id", 0 if op == "page_exists" else None)}
        if op == "get_page":
            a["nr"] = bool(b.get("no_redirect", False))
    elif op in ("start_page", "start_section", "start_subsection"):
        a = {"title": _nz(b.get("title"))}
    elif op == "expand":
        a = {"text": _txt(b.get("text")), "kw": sorted(k for k, v in b.items() if k != "text" and v not in (None, False))}
    elif op == "parse":
        a = {"text": _txt(b.get("text")), "pre_expand": bool(b.get("pre_expand", False)), "expand_all": bool(b.get("expand_all", False)),
             "kw": sorted(k for k, v in b.items() if k not in ("text", "pre_expand", "expand_all") and v not in (None, False))}
    elif op == "node_to_wikitext":
        n = b.get("node")
        a = {"arg": type(n).__name__, "kind": getattr(getattr(n, "kind", None), "name", None),
             "handler": b.get("node_handler_fn") is not None}
    elif op in MSG_OPS:
        a = {"msg": _sha(b.get("msg")), "sortid": _nz(b.get("sortid", "XYZunsorted")), "trace": bool(b.get("trace"))}
    return a


def _abs_res(op, ctx, res):
    if op in ("get_page", "get_page_resolve_redirect"):
        return _page(res)
    if op == "page_exists":
        return {"found": bool(res)}
    if op == "get_page_body":
        return {"found": res is not None, "body": _sha(res)}
    if op == "expand":
        return {"sha": _sha(res), "len": len(res) if isinstance(res, str) else -1}
    if op == "node_to_wikitext":
        return {"sha": _sha(res), "len": len(res) if isinstance(res, str) else -1}
    if op == "parse":
        return {"kind": getattr(getattr(res, "kind", None), "name", None),
                "flags": {"stack": _len(ctx, "parser_stack"), "pre_parse": bool(getattr(ctx, "pre_parse", False)),
                          "begline_counter": int(getattr(ctx, "begline_disable_counter", 0) or 0),
                          "begline_enabled": bool(getattr(ctx, "begline_enabled", True))}}
    if op == "__init__":
        return {"db_path": str(getattr(ctx, "db_path", None))}
    if op == "to_return":
        if isinstance(res, dict):
            return {"keys": sorted(str(k) for k in res), "lens": [len(res[k]) if isinstance(res.get(k), list) else -1 for k in KINDS]}
        return {"keys": [], "lens": []}
    return {}


def _new_msgs(ctx, m0):
    out = []
    for i, k in enumerate(KINDS):
        lst = getattr(ctx, k, None)
        if not isinstance(lst, list):
            continue
        new = lst[m0[i]:] if 0 <= m0[i] <= len(lst) else lst
        for m in new[:8 - len(out)] if len(out) < 8 else []:
            if isinstance(m, dict):
                out.append({"k": k, "keys": sorted(str(x) for x in m), "title": _nz(m.get("title", "<missing>")),
                            "section": _nz(m.get("section", "<missing>")), "tuple": isinstance(m.get("path"), tuple)})
            else:
                out.append({"k": k, "keys": [], "title": "<missing>", "section": "<missing>", "tuple": False})
    return out


def _dump_tree(cid, seq, root):
    try:
        import parsetree as pt

        dump = pt.dump_wf(root)
        key = pt.shape_key(dump)
    except RecursionError:
        _w({"k": "treeskip", "c": cid, "n": seq, "why": "RecursionError while dumping"})
        return
    except Exception as e:  # noqa: BLE001
        _w({"k": "treeskip", "c": cid, "n": seq, "why": "dump failed: " + type(e).__name__})
        return
    h = hashlib.sha1(key.encode("utf-8", "surrogatepass")).hexdigest()[:20]
    if h in _seen_trees:
        _w({"k": "treeref", "c": cid, "n": seq, "h": h})
        return
    _seen_trees.add(h)
    _w({"k": "tree", "c": cid, "n": seq, "h": h, "klen": len(key), "dump": dump})


def _wrap(cls, op):
    orig = cls.__dict__[op]
    try:
        sig = inspect.signature(orig)
    except (TypeError, ValueError):
        sig = None

    @functools.wraps(orig)
    def wrapper(self, *args, **kw):
        global _depth
        if os.getpid() != MAIN_PID:
            return orig(self, *args, **kw)
        nested = _depth > 0
        if op == "__init__":
            _next_cid[0] += 1
            _cids[id(self)] = _next_cid[0]
        cid = _cids.get(id(self), 0)
        try:
            b = dict(sig.bind(self, *args, **kw).arguments) if sig else {}
            b.pop("self", None)
        except TypeError:
            b = {}
        es0 = _len(self, "expand_stack") if op != "__init__" else 0
        m0 = _counts(self) if op != "__init__" else [0] * 5
        st0 = _starts.get(cid, 0)
        try:
            a = _abs_args(op, self, b, cls)
        except Exception as e:  # noqa: BLE001
            a = {"abs_failed": type(e).__name__}
        if op == "add_page" and a.get("incl"):
            # digest of what will be stored for a template body with inclusion markup
            try:
                ns = b.get("namespace_id")
                tid = self.NAMESPACE_DATA.get("Template", {}).get("id")
                if ns == tid and b.get("redirect_to") is None:
                    a["stored"] = _sha(_ORIG["_template_to_body"](self, "x", b.get("body")))
                else:
                    a["stored"] = a["body"]
            except Exception:  # noqa: BLE001
                a["stored"] = None
        exc = None
        res = None
        _depth += 1
        try:
            res = orig(self, *args, **kw)
            return res
        except BaseException as e:
            exc = type(e).__name__
            raise
        finally:
            _depth -= 1
            try:
                if op in ("start_page", "start_section", "start_subsection"):
                    _starts[cid] = _starts.get(cid, 0) + 1
                _seq[cid] = seq = _seq.get(cid, 0) + 1
                rec = {"k": "ev", "c": cid, "n": seq, "op": op, "nested": nested, "a": a,
                       "r": _abs_res(op, self, res) if exc is None else {}, "exc": exc,
                       "es0": es0, "es": _len(self, "expand_stack"), "ps": _len(self, "parser_stack"),
                       "m0": m0, "m": _counts(self), "st0": st0, "st": _starts.get(cid, 0),
                       "title": _nz(getattr(self, "title", None)), "section": _nz(getattr(self, "section", None)),
                       "t": _test}
                if not (nested and op in MSG_OPS):
                    rec["nm"] = _new_msgs(self, m0)
                # a test that replaces a method of Wtp (unittest.mock.patch): what follows is not the library's behaviour
                pat = [x for x, w in _INSTALLED.items() if cls.__dict__.get(x) is not w]
                if pat:
                    rec["pat"] = pat
                _w(rec)
                if op == "__init__" and exc is None:
                    _header_ns(self)
                if op == "parse" and exc is None and WANT_TREES and res is not None:
                    _dump_tree(cid, seq, res)
            except Exception as e:  # noqa: BLE001   (the recorder must never change the outcome of a call)
                _w({"k": "recfail", "op": op, "why": type(e).__name__ + ": " + str(e)[:200]})

    # functools.lru_cache objects carry their management functions as attributes
    for extra in ("cache_clear", "cache_info", "cache_parameters"):
        if hasattr(orig, extra):
            setattr(wrapper, extra, getattr(orig, extra))
    return wrapper


def _header_ns(ctx):
    lc = getattr(ctx, "lang_code", "?")
    if lc in _ns_done:
        return
    _ns_done.add(lc)
    try:
        data = {k: {"id": v["id"], "name": v["name"], "aliases": list(v.get("aliases", []))} for k, v in ctx.NAMESPACE_DATA.items()}
        local = {str(k): v for k, v in ctx.LOCAL_NS_NAME_BY_ID.items()}
    except Exception:  # noqa: BLE001
        data, local = {}, {}
    _w({"k": "ns", "lang_code": lc, "data": data, "local": local})


OPS = ["__init__", "add_page", "get_page", "page_exists", "get_page_resolve_redirect", "get_page_body", "start_page",
       "start_section", "start_subsection", "expand", "parse", "node_to_wikitext", "to_return",
       "error", "warning", "debug", "note", "wiki_notice"]
_ORIG: dict = {}
_INSTALLED: dict = {}    # op -> the object this plugin put into Wtp.__dict__


def _install():
    import wikitextprocessor
    import wikitextprocessor.core as core

    cls = core.Wtp
    _w({"k": "hdr", "file": getattr(wikitextprocessor, "__file__", ""), "pid": MAIN_PID, "shard": SHARD,
        "wrapped": [op for op in OPS if op in cls.__dict__], "absent": [op for op in OPS if op not in cls.__dict__]})
    if "_template_to_body" in cls.__dict__:
        _ORIG["_template_to_body"] = cls.__dict__["_template_to_body"]
    for op in OPS:
        if op in cls.__dict__ and callable(cls.__dict__[op]):
            setattr(cls, op, _wrap(cls, op))
    if os.environ.get("SUITETRACE_LUA", "1") == "1":
        import luastub

        init = cls.__init__

        @functools.wraps(init)
        def init_with_lua(self, *a, **kw):
            global _depth
            init(self, *a, **kw)
            # (the two add_page calls are recorded; they count as nested: the test did not make them)
            _depth += 1
            try:
                luastub.install(self)
            except Exception:  # noqa: BLE001
                pass
            finally:
                _depth -= 1

        cls.__init__ = init_with_lua
    for op in OPS:
        if op in cls.__dict__:
            _INSTALLED[op] = cls.__dict__[op]


if OUT:
    _install()


# ---------------------------------------------------------------------------
# pytest hooks
# ---------------------------------------------------------------------------

def pytest_collection_modifyitems(config, items):
    if not SHARD:
        return
    i, n = (int(x) for x in SHARD.split("/"))
    keep = [it for k, it in enumerate(items) if k % n == i]
    drop = [it for k, it in enumerate(items) if k % n != i]
    if drop:
        config.hook.pytest_deselected(items=drop)
    items[:] = keep


def pytest_runtest_logstart(nodeid, location):
    global _test
    _test = nodeid


def pytest_runtest_makereport(item, call):
    if call.when == "call":
        ei = call.excinfo
        _w({"k": "test", "t": item.nodeid, "ok": ei is None, "exc": ei.typename if ei else None,
            "msg": str(ei.value)[:160] if ei else ""})


def pytest_sessionfinish(session, exitstatus):
    if _fh is not None and os.getpid() == MAIN_PID:
        _fh.flush()
