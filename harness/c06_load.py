"""C06, third engine: HOW a chunk of page-supplied Lua source comes to run (spec/SandboxReachLoad.tla).

The reachability engine (c06.py / SandboxReach) takes the environment a NORMALLY loaded module
receives as the root of what page code can reach, the gate engine (c06_gate.py) the answers of the
bridge.  Both assume that page code runs in that environment.  In Lua 5.1 loadstring() hands back
a chunk whose environment is the thread's global table - the real _G - and the chunk is confined
only because the loader binds it (setfenv) before anybody can call it.  The unit of a case here is

   source SHAPE  x  history of loads of the module (entry point, boundary to the previous load)

  shape = [pre, form, eol, tail]   what precedes the code (nothing / BOM / '#!' line / binary chunk
                                   signature / NUL / blank lines / very long comment line / stray
                                   token), what the chunk hands back (table / string / nothing /
                                   raises / the source is a bare expression), LF / CRLF / CR, how it
                                   ends (properly / unfinished block / trailing token)
  step  = [e, b]                   #invoke, #invoke through a template, nested #invoke
                                   (frame:preprocess), require, require from a required module,
                                   mw.loadData, mw.loadJsonData, _new_loader / package.loaders[2]
                                   called by a module; same invocation / later #invoke / later page

M  MC_SandboxReachLoad(.cfg/_T.cfg): every (shape, history) of the design-level universe:
   PageCodeConfined, RunsOnlyIfCompiles, LoadsOnlyIfCompiles, RunsInRequestedEnv, CachedChunkBound,
   RunAgrees.  Demo_SandboxReachLoad_*.cfg: with a deviation on TLC itself finds the chunk that runs
   with the host global table.
G  Gen_SandboxReachLoad: TLC enumerates every case with what the design demands per step (what the
   consumer gets; which forbidden names the page code sees: none; whether a global assignment of
   the chunk lands in the host global table: never) and the outcomes of every modelled deviation.
   The harness writes the source for the shape - with a PROBE body that reports from the inside which
   forbidden names it can see, at load time and from a function called later - into the page store of
   a real context and performs the loads through the real entry points; the Python side additionally
   reads the captured module environments and the REAL global table of the Lua runtime.

VIOLATION only when page code really reports a forbidden name from the inside or really writes into
the host global table (the statement: no module loaded from the page store obtains a host
capability).  A module that loads although the model says its source does not compile (or the other
way round, or hands out another kind of value) while staying confined is DRIFT.
"""
from __future__ import annotations

import json
import os
import re
import shutil
import sys
import tempfile
import time
from concurrent.futures import ThreadPoolExecutor
from pathlib import Path

import common
import luafix
from common import Scratch, tlc

DEV_LABELS = ["RecompiledChunkNotConfined", "RecompiledChunkNotConfined+RecompiledCached",
              "RecompiledChunkNotConfined+RepairFirstLine", "RecompiledChunkNotConfined+RepairWrapReturn",
              "DataEnvFromHost"]
TOPLEVEL = ("invoke", "tplinvoke")

# ---------------------------------------------------------------------------
# concretisation of the atoms
# ---------------------------------------------------------------------------

PRE = {
    "none": "",
    "bom": "\ufeff",                      # UTF-8 byte order mark EF BB BF
    "shebang": "#!/usr/bin/lua\n",         # skipped by luaL_loadfile only, not by loadstring
    "binhdr": "\x1bLua",                   # LUA_SIGNATURE: selects the binary chunk loader
    "nul": "\x00\n",
    "blank": "\n \t\n\n",
    "longline": "-- " + "x" * 70000 + "\n",
    "garbage": "=\n",
}
EOL = {"lf": "\n", "crlf": "\r\n", "cr": "\r"}
SINK = "__c06r"


def probe_lua(names) -> str:
    """Lua function c06probe(): 'SEEN[<forbidden names that are visible as globals from the inside>]'"""
    for n in names:
        if not re.fullmatch(r"[A-Za-z_]\w*(\.[A-Za-z_]\w*)*", n):
            raise ValueError(f"forbidden name {n!r} is not a global path")
    ents = ",\n".join('    {%s, function() return %s end}' % (json.dumps(n), n) for n in names)
    return (
        "local function c06probe()\n"
        "  local out = {}\n"
        "  local names = {\n" + ents + "\n  }\n"
        "  for i = 1, #names do\n"
        "    local ok, v = pcall(names[i][2])\n"
        "    if ok and v ~= nil then out[#out + 1] = names[i][1] end\n"
        "  end\n"
        "  return \"SEEN[\" .. table.concat(out, \",\") .. \"]\"\n"
        "end\n"
    )


def source(shape: dict, names) -> str:
    """the text of the module page for a shape"""
    P = probe_lua(names)
    sink = f"local r = c06probe()\n{SINK} = ({SINK} or \"\") .. r\n"
    form = shape["form"]
    if form == "table":
        body = P + sink + ("local p = {}\np.result = r\np.probe = c06probe\n"
                           "function p.main(frame) return \"M\" .. c06probe() end\nreturn p\n")
    elif form == "string":
        body = P + sink + "return r\n"
    elif form == "nothing":
        body = P + sink
    elif form == "raise":
        body = P + sink + "error(r, 0)\n"
    elif form == "expr":
        # a bare expression (a data page without 'return'): not a statement
        body = ("{ result = (function()\n" + P + sink + "return r end)(),\n"
                "  probe = function()\n" + P + "return c06probe() end,\n"
                "  main = function(frame)\n" + P + "return \"M\" .. c06probe() end }\n")
    else:
        raise ValueError(f"form {form!r}")
    tail = shape["tail"]
    if tail == "unfinished":
        body = "do\n" + body              # block never closed
    elif tail == "trailing":
        body = body + ")\n"               # '<eof>' expected
    elif tail != "none":
        raise ValueError(f"tail {tail!r}")
    text = PRE[shape["pre"]] + body
    if shape["eol"] != "lf":
        text = text.replace("\n", EOL[shape["eol"]])
    return text


DRIVER = r"""
local p = {}
local function clean(s) return (string.gsub(tostring(s), "[^\32-\122|~]", "?")) end   -- printable ASCII, no braces
local function describe(ok, m)
  local reps = {}
  local got
  if not ok then
    got = "error"
    reps[#reps + 1] = clean(m)
  elseif type(m) == "table" then
    got = "table"
    reps[#reps + 1] = clean(rawget(m, "result"))
    local f = rawget(m, "probe")              -- a function of the module, called later
    if type(f) == "function" then
      local ok2, r = pcall(f)
      reps[#reps + 1] = clean(r)
    end
  elseif m == nil then
    got = "nil"
  else
    got = type(m)
    reps[#reps + 1] = clean(m)
  end
  return got, table.concat(reps, " ")
end
function p.run(frame)
  local name = frame.args[1]
  local T = "Module:" .. name
  local out = {}
  for op in string.gmatch(frame.args[2] or "", "[^;]+") do
    __c06r = nil
    local got, rep
    if op == "nested" then
      local ok2, txt = pcall(frame.preprocess, frame, "{{#invoke:" .. name .. "|main}}")
      txt = clean(txt)
      got = (ok2 and string.sub(txt, 1, 5) == "MSEEN") and "text" or "error"
      rep = txt
    else
      local ok, m
      if op == "require" then ok, m = pcall(require, T)
      elseif op == "require2" then ok, m = pcall(function() return require("Module:c06ldh").get(T) end)
      elseif op == "loadData" then ok, m = pcall(mw.loadData, T)
      elseif op == "loadJsonData" then ok, m = pcall(mw.loadJsonData, T)
      elseif op == "loader" then
        ok, m = pcall(function() local f, msg = _new_loader(T) if not f then error(msg, 0) end return f() end)
      elseif op == "pkgloader" then
        ok, m = pcall(function()
          local ld = package.loaders[2] or package.loaders[1]
          local f, msg = ld(T) if not f then error(msg, 0) end return f() end)
      else ok, m = false, "unknown op " .. op end
      got, rep = describe(ok, m)
    end
    out[#out + 1] = op .. "=" .. got .. "=" .. rep .. " SINK:" .. clean(__c06r)
  end
  return "LD{" .. table.concat(out, "}{") .. "}"
end
return p
"""
HELPER = r"""
local h = {}
function h.get(name) return require(name) end
return h
"""
MODULES = {"c06ld": DRIVER, "c06ldh": HELPER}
TEMPLATES = {"c06ldt": "{{#invoke:{{{1}}}|main}}"}

SEEN_RE = re.compile(r"SEEN\[([^\]]*)\]")


def seen_names(text) -> set:
    out = set()
    if isinstance(text, bytes):
        text = text.decode("utf-8", "replace")
    if not isinstance(text, str):
        return out
    for m in SEEN_RE.finditer(text):
        out.update(x for x in m.group(1).split(",") if x)
    return out


def segments(steps):
    segs = []
    for i, s in enumerate(steps):
        if not segs or s["b"] != "same":
            segs.append((s["b"] if segs else "same", []))
        segs[-1][1].append(i)
    return segs


# ---------------------------------------------------------------------------
# running one case on the real code
# ---------------------------------------------------------------------------

class _Quiet:
    """the library prints an ERROR line for every Lua failure (thousands here)"""

    def __enter__(self):
        self.old = sys.stdout
        sys.stdout = open(os.devnull, "w")

    def __exit__(self, *a):
        sys.stdout.close()
        sys.stdout = self.old


def run_case(ctx, name: str, shape: dict, steps: list, names) -> dict:
    """-> {"got": [per step], "segs": [{"steps": [...], "sees": [...], "hostwrite": bool, "where": {...}}]}"""
    luafix.add_modules(ctx, {name: source(shape, names)})
    g = ctx.lua.globals() if ctx.lua is not None else None
    got = [None] * len(steps)
    segs = []
    for si, (bound, idxs) in enumerate(segments(steps)):
        if bound == "page":
            ctx.start_page(f"Tt{si}")
        n0 = len(ctx.lua_env_stack.seen)
        where = {}
        e0 = steps[idxs[0]]["e"]
        if e0 in TOPLEVEL:
            text = "{{#invoke:%s|main}}" % name if e0 == "invoke" else "{{c06ldt|%s}}" % name
            out = ctx.expand(text)
            got[idxs[0]] = "text" if out.startswith("MSEEN") else "error"
            s = seen_names(out)
            if s:
                where["returned by main()"] = sorted(s)
        else:
            ops = ";".join(steps[i]["e"] for i in idxs)
            out = ctx.expand("{{#invoke:c06ld|run|%s|%s}}" % (name, ops))
            blocks = re.findall(r"\{([^{}]*)\}", out[2:]) if out.startswith("LD{") else []
            if len(blocks) != len(idxs):
                raise RuntimeError(f"load driver did not run: {out[:200]!r} for {ops!r}")
            for i, b in zip(idxs, blocks):
                op, g1, rest = b.split("=", 2)
                if op != steps[i]["e"]:
                    raise RuntimeError(f"load driver answered {op!r} for {steps[i]['e']!r}")
                got[i] = g1
                s = seen_names(rest)
                if s:
                    where[f"reported to the module that did {op}"] = sorted(s)
        # Python side: the environments pushed during this invocation and the REAL global table
        for env in ctx.lua_env_stack.seen[n0:]:
            s = seen_names(env[SINK])
            if s:
                where["global of a captured module environment"] = sorted(s)
        del ctx.lua_env_stack.seen[:]
        del ctx.lua_frame_stack.seen[:]
        if g is None and ctx.lua is not None:
            g = ctx.lua.globals()
        hostwrite = False
        if g is not None and g[SINK] is not None:
            hostwrite = True
            s = seen_names(g[SINK])
            if s:
                where["global of the HOST global table"] = sorted(s)
            g[SINK] = None
        sees = sorted(set().union(*where.values())) if where else []
        segs.append({"steps": list(idxs), "sees": sees, "hostwrite": hostwrite, "where": where})
    return {"got": got, "segs": segs}


_WORK = {}


def _chunk(items):
    common.use_repo()
    base = Path(_WORK["base"])
    names = _WORK["names"]
    out = []
    if not items:
        return out
    d = Path(tempfile.mkdtemp(prefix="b", dir=base))
    try:
        with _Quiet():
            ctx = luafix.make_ctx(d, MODULES, TEMPLATES, record=True)
            if ctx.expand("{{#invoke:c06ld|run|c06ldh|require}}")[:3] != "LD{":
                raise RuntimeError("load driver does not work in this sandbox")
            try:
                for idx, c in items:
                    try:
                        out.append((idx, run_case(ctx, f"c06t{idx}", c["shape"], c["steps"], names), None))
                    except Exception as e:  # machinery
                        out.append((idx, None, repr(e)[:300]))
            finally:
                luafix.close_ctx(ctx)
    finally:
        shutil.rmtree(d, ignore_errors=True)
    return out


def run_many(cases: list, base: Path, names) -> list:
    _WORK["base"] = str(base)
    _WORK["names"] = list(names)
    base.mkdir(parents=True, exist_ok=True)
    res = common.pmap(_chunk, list(enumerate(cases)))
    res.sort(key=lambda t: t[0])
    errs = [e for _, _, e in res if e]
    if errs:
        raise RuntimeError(f"load cases failed to run ({len(errs)}): {errs[0]}")
    return [o for _, o, _ in res]


# ---------------------------------------------------------------------------
# projection shared by expectation, deviations and observation
# ---------------------------------------------------------------------------

def proj_model(outs, steps):
    """what of TLC's per-step outcome the harness can observe: got per step; per invocation
    (segment) the union of the names seen and whether a chunk wrote into the host global table"""
    res = []
    for _, idxs in segments(steps):
        res.append({"got": [outs[i]["got"] for i in idxs],
                    "sees": sorted(set().union(*[set(outs[i]["sees"]) for i in idxs])),
                    "hostwrite": any(outs[i]["hostwrite"] for i in idxs)})
    return res


def proj_obs(obs, steps):
    return [{"got": [obs["got"][i] for i in s["steps"]], "sees": s["sees"], "hostwrite": s["hostwrite"]}
            for s in obs["segs"]]


def fmt_step(s) -> str:
    return s["e"] if s["b"] == "same" else f"[{s['b']}] {s['e']}"


def fmt_shape(sh) -> str:
    parts = []
    parts.append({"none": "", "bom": "leading UTF-8 byte order mark", "shebang": "leading '#!' line",
                  "binhdr": "leading binary chunk signature '\\27Lua'", "nul": "leading NUL byte",
                  "blank": "leading blank lines", "longline": "very long first comment line",
                  "garbage": "stray token on the first line"}[sh["pre"]])
    parts.append({"table": "chunk returning a table", "string": "chunk returning a string", "nothing": "chunk returning nothing",
                  "raise": "chunk raising an error", "expr": "bare table expression without 'return'"}[sh["form"]])
    if sh["eol"] != "lf":
        parts.append(sh["eol"].upper() + " line ends")
    parts.append({"none": "", "unfinished": "unfinished block at the end", "trailing": "trailing token after the end"}[sh["tail"]])
    return ", ".join(p for p in parts if p)


# ---------------------------------------------------------------------------
# the engine
# ---------------------------------------------------------------------------

class Load:
    def __init__(self, o, tier: str):
        self.o = o
        self.tier = tier
        self.scr = Scratch("c06l-")
        self.d = self.scr.__enter__()
        self.fast = None
        if os.path.isdir("/dev/shm") and os.access("/dev/shm", os.W_OK):
            try:
                self.fast = Path(tempfile.mkdtemp(prefix="c06l-", dir="/dev/shm"))
            except OSError:
                self.fast = None
        self.pool = None
        self.fut = {}
        self.res = {}
        self.timing = {}

    def close(self):
        if self.pool is not None:
            self.pool.shutdown(wait=True, cancel_futures=True)
            self.pool = None
        if self.fast is not None:
            shutil.rmtree(self.fast, ignore_errors=True)
        self.scr.__exit__(None, None, None)

    def gens(self):
        if self.tier == "thorough":
            return [("single", "Gen_SandboxReachLoad_single.cfg"), ("hist", "Gen_SandboxReachLoad_hist_T.cfg"),
                    ("hist3", "Gen_SandboxReachLoad_hist3_T.cfg")]
        return [("single", "Gen_SandboxReachLoad_single.cfg"), ("hist", "Gen_SandboxReachLoad_hist.cfg")]

    # -- phase 1: TLC in the background (no fork of this process may happen while the threads live)
    def start(self):
        thorough = self.tier == "thorough"
        self.pool = ThreadPoolExecutor(max_workers=6)
        sub = self.pool.submit
        self.fut["MC_load"] = sub(tlc, "MC_SandboxReachLoad", "MC_SandboxReachLoad_T.cfg" if thorough else "MC_SandboxReachLoad.cfg",
                                  workers=4, timeout=1500, coverage=True)
        for name in ("recompiled", "cached", "dataenv"):
            self.fut["Demo_load_" + name] = sub(tlc, "MC_SandboxReachLoad", f"Demo_SandboxReachLoad_{name}.cfg", workers=1, check=False)
        for tag, cfg in self.gens():
            self.fut["Gen_load_" + tag] = sub(tlc, "Gen_SandboxReachLoad", cfg, workers=1, timeout=1800)
        self.t_start = time.time()

    # -- phase 2: wait for TLC, end the threads
    def collect(self):
        t0 = time.time()
        self.res = {k: f.result() for k, f in self.fut.items()}
        self.pool.shutdown(wait=True)
        self.pool = None
        self.timing["waited_for_background_tlc_s"] = round(time.time() - t0, 2)

    # -- phase 3: every generated case on the real code, verdicts
    def finish(self):
        o, res = self.o, self.res
        for k, r in res.items():
            o.add_tlc(k, r)
        cov = luafix.coverage_actions(res["MC_load"].out)
        o.extra.setdefault("action_coverage", {}).update({k: v for k, v in cov.items() if k in ("SLNext", "SLInit")})
        if not cov.get("SLNext"):
            raise common.TLCError("SLNext never taken in MC_SandboxReachLoad (vacuity)")
        demos = {}
        for name in ("recompiled", "cached", "dataenv"):
            r = res["Demo_load_" + name]
            demos[name] = bool(r.invariant_violated)
            if "PageCodeConfined" not in (r.invariant_violated or []):
                raise common.TLCError(f"Demo_SandboxReachLoad_{name} no longer violates PageCodeConfined (vacuity guard)")
        summary = {"demo_deviation_violates_PageCodeConfined": demos, "universes": {}}
        t0 = time.time()
        ndrift, drift_samples = 0, []
        for tag, _ in self.gens():
            r = res["Gen_load_" + tag]
            cases = r.cases
            uni = r.tagged("UNIVERSE")
            if not cases or len(uni) < 1:
                raise common.TLCError("Gen_SandboxReachLoad printed no case / no universe")
            names = sorted(uni[0]["forbidden"])
            for k, known in (("pre", PRE), ("eol", EOL)):
                missing = set(uni[0][k]) - set(known)
                if missing:
                    raise common.TLCError(f"atoms {sorted(missing)} of the specification have no concretisation")
            breaks = {l: 0 for l in DEV_LABELS}
            for c in cases:
                for l in c["breaks"]:
                    breaks[l] += 1
            dead = [l for l, n in breaks.items() if n == 0]
            if dead:
                raise common.TLCError(f"no case of the universe {tag} would expose the modelled deviations {dead} (vacuity)")
            obs_all = run_many(cases, (self.fast or self.d) / tag, names)
            o.evaluations += sum(len(c["steps"]) for c in cases)
            o.traces += len(cases)
            nbad = nloaded = 0
            for c, obs in zip(cases, obs_all):
                v = self.judge(c, obs, names, "G/" + tag)
                if v == "drift":
                    ndrift += 1
                    if len(drift_samples) < 3:
                        drift_samples.append({"shape": c["shape"], "history": [fmt_step(s) for s in c["steps"]],
                                              "expected": proj_model(c["exp"], c["steps"]), "observed": proj_obs(obs, c["steps"])})
                elif v == "bad":
                    nbad += 1
                if any(g not in ("error",) for g in obs["got"]):
                    nloaded += 1
                if any(e["ran"] for e in c["exp"]) or not c["compiles"]:
                    sh = c["shape"]
                    o.shape(("load", tag, sh["pre"], sh["form"], sh["eol"], sh["tail"], tuple((s["e"], s["b"]) for s in c["steps"])))
            summary["universes"][tag] = {
                "cases": len(cases), "shapes": len({json.dumps(c["shape"], sort_keys=True) for c in cases}),
                "shapes_that_compile": len({json.dumps(c["shape"], sort_keys=True) for c in cases if c["compiles"]}),
                "max_history": max(len(c["steps"]) for c in cases),
                "cases_in_which_the_module_really_loaded": nloaded,
                "cases_leaking_under_deviation": breaks, "violating": nbad}
            c, ob = cases[-1], obs_all[-1]
            o.sample({"load_shape": c["shape"], "history": [fmt_step(s) for s in c["steps"]],
                      "expected": proj_model(c["exp"], c["steps"]), "observed": proj_obs(ob, c["steps"])})
            summary["forbidden_names_probed"] = names
        if ndrift:
            o.note_drift({"load_outcomes_differ_while_confined": ndrift, "samples": drift_samples})
        self.timing["generated_cases_for_real_s"] = round(time.time() - t0, 2)
        summary["timing"] = self.timing
        o.extra["load"] = summary

    def judge(self, c, obs, names, origin) -> str:
        exp = proj_model(c["exp"], c["steps"])
        ob = proj_obs(obs, c["steps"])
        if ob == exp:
            return "ok"
        if not any(s["sees"] or s["hostwrite"] for s in ob):
            return "drift"
        alt = c["alt"] if isinstance(c["alt"], dict) else {}
        explained = [l for l in DEV_LABELS if l in alt and proj_model(alt[l], c["steps"]) == ob]
        self.report(c, obs, names, explained, origin)
        return "bad"

    def report(self, c, obs, names, explained, origin):
        steps, sh = c["steps"], c["shape"]
        k = next(i for i, s in enumerate(obs["segs"]) if s["sees"] or s["hostwrite"])
        seg = obs["segs"][k]
        done = [f"{fmt_step(steps[i])} -> {obs['got'][i]}" for i in seg["steps"]]
        before = [f"{fmt_step(steps[i])} -> {obs['got'][i]}" for s in obs["segs"][:k] for i in s["steps"]]
        sees = seg["sees"]
        why = (f"page-supplied Lua source is NOT confined: a Module page ({fmt_shape(sh)}) loaded through "
               f"{' ; '.join(done)}" + (f" (after {' ; '.join(before)})" if before else "") +
               f" runs code that sees the forbidden names {', '.join(sees) if sees else '(none reported)'} from the inside")
        if seg["hostwrite"]:
            why += ("; a global assignment made by the chunk landed in the REAL global table of the Lua runtime, i.e. the chunk "
                    "runs with the host _G as its environment (loadstring() result never bound with setfenv)")
        if c["compiles"]:
            why += "; the design binds every chunk to the environment the entry point asked for before it runs"
        else:
            why += ("; this source does not compile as it stands, the design answers with a load error and no code of it runs "
                    "- here it was loaded (recompiled/repaired) on a path that skips the confinement of the chunk")
        if explained:
            why += f"; the observed outcomes are exactly those of the modelled deviation {'/'.join(explained)}"
        case = {"kind": "load", "origin": origin, "shape": sh, "steps": steps, "expected": proj_model(c["exp"], steps),
                "observed": proj_obs(obs, steps), "where": [s["where"] for s in obs["segs"]], "forbidden": list(names)}
        kind = "hostG" if any(s["hostwrite"] for s in obs["segs"]) else "names"
        self.o.violation(case, why, cls=f"load|{(explained or ['unexplained'])[0]}|{kind}|{'compiles' if c['compiles'] else sh['pre'] + '/' + sh['form'] + '/' + sh['tail']}")


def replay_case(case) -> int:
    with Scratch("c06lr-") as d:
        common.use_repo()
        with _Quiet():
            ctx = luafix.make_ctx(d, MODULES, TEMPLATES, record=True)
            ctx.expand("{{#invoke:c06ld|run|c06ldh|require}}")
            obs = run_case(ctx, "c06t0", case["shape"], case["steps"], case["forbidden"])
            luafix.close_ctx(ctx)
    print("  module source:", repr(source(case["shape"], case["forbidden"])[:120]), "...")
    bad = 0
    for x, ob, wh in zip(case["expected"], proj_obs(obs, case["steps"]), [s["where"] for s in obs["segs"]]):
        flag = ""
        if ob["sees"] or ob["hostwrite"]:
            flag = "   <== page code holds host capabilities"
            bad = 1
        print(f"  expected {x}  observed {ob} {wh}{flag}")
    return bad


def selftest() -> bool:
    """a corrupted observation (forbidden name reported / host write) and a corrupted expectation are rejected"""
    ok = True
    with Scratch("c06lt-") as d:
        r = tlc("Gen_SandboxReachLoad", "Gen_SandboxReachLoad_hist.cfg", workers=1)
        names = sorted(r.tagged("UNIVERSE")[0]["forbidden"])
        c = next(c for c in r.cases if len(c["steps"]) == 2 and c["shape"]["pre"] == "bom" and c["shape"]["form"] == "table"
                 and "RecompiledChunkNotConfined" in c["breaks"] and c["steps"][0]["e"] == "require")
        obs = run_many([c], d / "t", names)[0]

        class O:
            def __init__(self):
                self.v = []

            def violation(self, case, why, cls=None):
                self.v.append(why)
        g = Load.__new__(Load)
        g.o = O()
        good = g.judge(c, obs, names, "selftest")
        # the observation replaced by what the modelled deviation predicts
        alt = c["alt"]["RecompiledChunkNotConfined"]
        fake = {"got": [e["got"] for e in alt],
                "segs": [{"steps": idxs, "sees": sorted(set().union(*[set(alt[i]["sees"]) for i in idxs])),
                          "hostwrite": any(alt[i]["hostwrite"] for i in idxs), "where": {}} for _, idxs in segments(c["steps"])]}
        bad = g.judge(c, fake, names, "selftest")
        print("load: case", c["shape"], [fmt_step(s) for s in c["steps"]], "real outcome:", good, "; corrupted observation:", bad,
              "; explained:", "RecompiledChunkNotConfined" in (g.o.v[0] if g.o.v else ""))
        ok &= good == "ok" and bad == "bad" and len(g.o.v) == 1 and "RecompiledChunkNotConfined" in g.o.v[0]
        # corrupted expectation of a loading case: must at least be noticed (drift, no false alarm)
        c2 = next(c for c in r.cases if c["compiles"] and c["exp"][0]["got"] == "table")
        obs2 = run_many([c2], d / "t2", names)[0]
        c3 = json.loads(json.dumps(c2))
        c3["exp"][0]["got"] = "error"
        v = g.judge(c3, obs2, names, "selftest")
        print("load: expected outcome corrupted (table -> error):", v)
        ok &= v == "drift" and g.judge(c2, obs2, names, "selftest") == "ok"
    return ok
