"""C20 — concurrent worker contexts on one database agree and do not disturb it.

M  TLC: MC_Workers_ideal (2 and 3 workers, every interleaving of start-up and page
        work, with/without backup file, bootstrap page, open cursor): no failure,
        serial results, store unchanged, no deadlock - for the ideal design (restore
        is one atomic step; bootstrap page written under a fresh snapshot).
        MC_Workers_asis_safe: the code as it is, without backup file and without an
        open cursor (WAL reads + the bootstrap write are fine).  Demo_Workers_*: TLC
        finds the counterexamples of the two deviations of the code.
G  TLC Gen_Workers enumerates schedules (start-up interleavings, page-work
        interleavings; -simulate for 3 workers) of the as-is model with the predicted
        result of every worker and of the store.  The harness replays a seeded sample
        (every predicted-outcome class covered) on REAL processes: children run the
        unmodified library under wrappers on Path.exists/unlink/rename/replace,
        sqlite3.connect and Connection.execute/executescript/commit and are released
        one operation at a time by the parent, following the TLC schedule by process
        choice only.  Real results are compared with a serial run and with TLC's
        prediction.
L  Lifetimes: every context ends with close_db_conn (one more schedule point), and a
        creating context ("driver", process 0: creates the database file with the real
        library, stores + commits the pages, stays open) may be present; Gen_Workers_life
        enumerates every placement of the closes (driver and workers) relative to the
        start-up and page work of the workers, so contexts close while others work and
        others open after a close.  What close_db_conn does to the environment is recorded
        in the close event (Trace_Workers: a close touches no file).
J  Journal mode / provenance: the mode is a state component of the database FILE in the model
        (Workers.tla, inode field jm; every open re-establishes WAL: invariant WalAtWork; in rollback
        mode an open cursor of one worker blocks the commit of another: Demo_Workers_rollback).
        Scenario field prov: "built" (as before), "lib" (the backup file was written by backup_db()
        of an earlier context of the REAL library, which then overwrote the pages and closed - a
        re-run), "rbj" (the files are rollback-journal databases); field rdr: which workers keep
        the get_all_pages() cursor (0 = all, k = worker k only: one long-lived reader beside
        writers).  Gen_Workers_prov(q) enumerates page-work / start-up interleavings on these.
        The journal mode the file at the path has after each start-up script is read from the
        file header and compared by Trace_Workers (DRIFT-only item `obs`).
T  Transactions: every connection has a transaction state in the model (Workers.tla, txn: none / write / begun; the
        write lock is with the connection for as long as its write transaction is open, also when the statement changed
        nothing); ideal-model invariant NoIdleTransaction (no connection is inside a transaction when no library call is
        active on it); a writer that meets the lock with an IDLE holder fails ("locked": the idle context may outlive any
        busy timeout), whereas a holder inside its call always goes on.  Every worker reports Connection.in_transaction
        with every operation (close: at the idle point before close_db_conn); Trace_Workers compares it with txn
        (DRIFT-only items `obs` k = tx / idle).  Gen_Workers_boot3: three workers that all look the bootstrap page up
        before the first write, every order of the writes x every placement of every close (idle earlier writers).
        Replays close a context only where the schedule closes it.  Demo_Workers_idletxn(_locked), Demo_LockWait_idle.
S  Side files per path / restore beside a live process: <db>-wal and <db>-shm are files of their own in the model (Workers.tla, sf:
        generation of the file at each path, who has the index mapped); a first access that finds an index another live process has
        mapped trusts it - without its log: "disk I/O error" (StaleIndex) -, a log of another generation is laid over the file
        (JoinsOldLog); ideal: the restore removes both (NoStaleSideFile).  Scenarios ScnRestoreLive: the creating context wrote the
        backup with backup_db(), went on storing pages and is STILL OPEN when the workers start (drv x bak), or writes it at some
        moment while workers are open (bkd, action Backup; schedule step "backup" of process 0).  Gen_Workers_restore: workers start
        while earlier ones are paused in the middle of their page work or idle, x every placement of the backup and of every close.
        The unlink step of a restore reports which files it removed; Trace_Workers performs the model's step with the OBSERVED set
        of side files left in place, so the consequences (who fails, for how long) are TLC's.  Demo_Workers_keepsshm(_stale),
        Demo_Workers_keepswal, MC_Workers_keepsshm_closed.
V  The (process, operation, result) trace actually performed is validated by TLC
        against Trace_Workers (operation-level semantics of the same module), for the
        replays and for a stress mode: 2..16 free-running workers with random start
        offsets, jitter and page orders.
"""
from __future__ import annotations

import json
import os
import random
import select
import shutil
import signal
import sqlite3
import sys
import tempfile
import time
from pathlib import Path

import common
from common import Outcome, tlc, pmap, Scratch

PID = "C20"
DBNAME = "pages.db"
BAKNAME = "pages_backup.db"
BOOT_TITLE = "Module:_sandbox_phase1"
NPAGES = 3
COALESCE = {"unlink", "script", "read", "exists"}
CLS_OF_LABEL = {
    "exists": "exists", "unlink": "unlink", "rename": "rename", "connect": "connect", "script": "script",
    "cursor": "cursor", "read1": "read", "bootcheck": "bootcheck", "insert": "write", "commit": "commit", "read2": "read",
    "close": "close", "backup": "backup",
}
CLOSE_OPS = {"commit:", "close:"}  # what close_db_conn is expected to do to the environment
DEV_OF_FLAG = {"raced": "RestoreRaceOnStartup", "snapfail": "BootstrapUnderSnapshot"}

USTRING = r"""
local ustring = {}
for k, v in pairs(string) do ustring[k] = v end
ustring.maxPatternLength = 10000
ustring.maxStringLength = 10000000
function ustring.isutf8(s) return true end
function ustring.toNFC(s) return s end
function ustring.toNFD(s) return s end
function ustring.toNFKC(s) return s end
function ustring.toNFKD(s) return s end
function ustring.codepoint(s, i, j) return string.byte(s, i, j) end
function ustring.char(...) return string.char(...) end
function ustring.gcodepoint(s) local i = 0 return function() i = i + 1 if i <= #s then return string.byte(s, i) end end end
return ustring
"""
LIBUTIL = r"""
local libraryUtil = {}
function libraryUtil.checkType(name, argIdx, arg, expectType, nilOk) end
function libraryUtil.checkTypeMulti(name, argIdx, arg, expectTypes) end
function libraryUtil.checkTypeForIndex(index, value, expectType) end
function libraryUtil.checkTypeForNamedArg(name, argName, arg, expectType, nilOk) end
function libraryUtil.makeCheckSelfFunction(libraryName, varName, selfObj, selfObjDesc) return function() end end
return libraryUtil
"""


def _quiet():
    import logging

    logging.disable(logging.CRITICAL)


def titles():
    return [f"A{i}" for i in range(NPAGES)]


def version_pages(v: str) -> list:
    """(title, ns, body, model) of the page version v ("M" = database, "B" = backup)."""
    pages = [
        ("Module:ustring:ustring", 828, USTRING, "Scribunto"),
        ("Module:libraryUtil", 828, LIBUTIL, "Scribunto"),
        ("Module:M", 828,
         f'-- v={v};\nlocal p = {{}}\nfunction p.f(frame) return "lua v={v} " .. (frame.args[1] or "") .. '
         f'frame:expandTemplate{{title="T", args={{"z"}}}} end\nreturn p', "Scribunto"),
        ("Template:T", 10, f"[v={v}; t {{{{{{1}}}}}}]", "wikitext"),
    ]
    for i, t in enumerate(titles()):
        pages.append((t, 0, f"v={v}; page {i} {{{{T|{i}}}}} {{{{#invoke:M|f|{i}}}}}", "wikitext"))
    return pages


def build_db(path: Path, v: str, boot: bool) -> None:
    path.parent.mkdir(parents=True, exist_ok=True)
    pid = os.fork()
    if pid == 0:
        try:
            _quiet()
            from wikitextprocessor import Wtp

            w = Wtp(db_path=str(path), quiet=True)
            for t, ns, body, model in version_pages(v):
                w.add_page(t, ns, body=body, model=model)
            if boot:
                w.add_page(BOOT_TITLE, 828, body="", model="Scribunto")
            w.close_db_conn()
            os._exit(0)
        except BaseException:
            import traceback

            traceback.print_exc()
            os._exit(3)
    _, st = os.waitpid(pid, 0)
    if os.waitstatus_to_exitcode(st) != 0:
        raise RuntimeError("could not build scenario database")


def build_rerun(path: Path, boot: bool) -> None:
    """The files an earlier run of the library leaves: a context creates the database, stores the
    pages (version B), calls backup_db(), overwrites the pages (version M) and closes."""
    path.parent.mkdir(parents=True, exist_ok=True)
    pid = os.fork()
    if pid == 0:
        try:
            _quiet()
            from wikitextprocessor import Wtp

            w = Wtp(db_path=str(path), quiet=True)
            for t, ns, body, model in version_pages("B"):
                w.add_page(t, ns, body=body, model=model)
            if boot:
                w.add_page(BOOT_TITLE, 828, body="", model="Scribunto")
            w.backup_db()
            for t, ns, body, model in version_pages("M"):
                w.add_page(t, ns, body=body, model=model)
            w.close_db_conn()
            os._exit(0)
        except BaseException:
            import traceback

            traceback.print_exc()
            os._exit(3)
    _, st = os.waitpid(pid, 0)
    if os.waitstatus_to_exitcode(st) != 0:
        raise RuntimeError("could not build the re-run scenario (backup_db)")
    if not (path.parent / BAKNAME).exists():
        raise RuntimeError("backup_db() left no file under the backup name")


def journal_mode_of(path) -> str:
    """Journal mode recorded in the header of a database file (bytes 18/19: 1 = rollback journal,
    2 = WAL); "" when there is no readable header.  A plain read: takes no SQLite lock."""
    try:
        with open(path, "rb") as f:
            h = f.read(20)
    except OSError:
        return ""
    if len(h) < 20 or not h.startswith(b"SQLite format 3"):
        return ""
    return "wal" if h[18] == 2 and h[19] == 2 else "del" if h[18] == 1 and h[19] == 1 else "mixed"


_KEPT_FDS: list = []


def journal_mode_in_child(path) -> str:
    """journal_mode_of() for a process that has a SQLite connection on the file: the descriptor is NOT closed
    (it lives until the process exits).  POSIX record locks belong to the process, and closing ANY descriptor of a file
    drops every lock the process holds on it - also the SHARED lock SQLite keeps on the database file for as long as a
    WAL connection is attached; another context that closes then believes it is the last one, checkpoints and removes
    <db>-wal under the connection, whose later commits go to the unlinked file (seen with a creating context that
    closes right after a worker's start-up script: the worker's bootstrap page never reached the others)."""
    try:
        fd = os.open(path, os.O_RDONLY)
    except OSError:
        return ""
    _KEPT_FDS.append(fd)
    try:
        h = os.pread(fd, 20, 0)
    except OSError:
        return ""
    if len(h) < 20 or not h.startswith(b"SQLite format 3"):
        return ""
    return "wal" if h[18] == 2 and h[19] == 2 else "del" if h[18] == 1 and h[19] == 1 else "mixed"


def to_rollback_journal(path: Path) -> None:
    con = sqlite3.connect(str(path))
    try:
        mode = con.execute("PRAGMA journal_mode = DELETE").fetchone()[0]
    finally:
        con.close()
    if mode != "delete" or journal_mode_of(path) != "del":
        raise RuntimeError(f"could not put {path} into rollback-journal mode")


PROVS = ("built", "lib", "rbj")


def drv_of(scn: dict):
    """Build instructions of the creating context of a scenario (None: there is none)."""
    if not scn.get("drv"):
        return None
    return {"boot": bool(scn["boot"]), "bak": bool(scn["bak"]), "bkd": bool(scn.get("bkd"))}


def scn_key(scn: dict) -> tuple:
    return (bool(scn["bak"]), bool(scn["boot"]), scn.get("prov", "built"))


def cursors_of(scn: dict, n: int) -> list:
    """Which workers keep the get_all_pages() cursor open (scenario fields cursor, rdr)."""
    rdr = scn.get("rdr", 0)
    return [bool(scn["cursor"]) and (rdr == 0 or rdr == i) for i in range(1, n + 1)]


def build_scenarios(root: Path) -> dict:
    """(bak, boot, prov) -> template directory."""
    res = {}
    for bak in (False, True):
        for boot in (False, True):
            for prov in PROVS:
                if prov == "lib" and not bak:
                    continue
                d = root / f"scn_{int(bak)}{int(boot)}{prov}"
                if prov == "lib":
                    build_rerun(d / DBNAME, boot)
                else:
                    build_db(d / DBNAME, "M", boot)
                    if bak:
                        build_db(d / "b" / DBNAME, "B", boot)
                        (d / "b" / DBNAME).rename(d / BAKNAME)
                        shutil.rmtree(d / "b")
                if prov == "rbj":
                    to_rollback_journal(d / DBNAME)
                    if bak:
                        to_rollback_journal(d / BAKNAME)
                stray = sorted(x.name for x in d.iterdir() if x.name not in (DBNAME, BAKNAME))
                if stray:
                    raise RuntimeError(f"scenario {d.name}: unexpected files {stray}")
                res[(bak, boot, prov)] = str(d)
    return res


def fixture_modes(scns: dict) -> dict:
    return {f"bak={int(k[0])},boot={int(k[1])},prov={k[2]}": {"main": journal_mode_of(Path(d) / DBNAME),
                                                              "backup": journal_mode_of(Path(d) / BAKNAME)}
            for k, d in sorted(scns.items())}


def read_store(d: Path):
    """Stored pages at the database path after all workers are gone (None: no usable db)."""
    p = d / DBNAME
    if not p.exists():
        return None
    try:
        con = sqlite3.connect(str(p))
        try:
            rows = sorted(
                (r[0], r[1], r[2], r[3]) for r in con.execute("SELECT title, namespace_id, body, model FROM pages") if r[0] != BOOT_TITLE
            )
            integ = [r[0] for r in con.execute("PRAGMA integrity_check")]
        finally:
            con.close()
        return {"rows": rows, "integrity": integ}
    except sqlite3.DatabaseError as e:
        return {"rows": None, "integrity": [repr(e)]}


# ---------------------------------------------------------------------------
# child side: the unmodified library under wrappers on its environment operations
# ---------------------------------------------------------------------------
class RowsProxy:
    def __init__(self, rows, description):
        self._rows = list(rows)
        self._i = 0
        self.description = description

    def __iter__(self):
        return self

    def __next__(self):
        if self._i >= len(self._rows):
            raise StopIteration
        self._i += 1
        return self._rows[self._i - 1]

    def fetchone(self):
        try:
            return next(self)
        except StopIteration:
            return None

    def fetchall(self):
        r = self._rows[self._i:]
        self._i = len(self._rows)
        return r

    def close(self):
        pass


def _tag_of(rows):
    for row in rows:
        for col in row:
            if isinstance(col, str):
                if "v=M;" in col:
                    return "M"
                if "v=B;" in col:
                    return "B"
    return "none"


def install_wrappers(dbdir: str, sync) -> None:
    """Wrap the environment operations at the lowest Python level (os.*, sqlite3.*), so that
    pathlib, os.path and shutil spellings of the same operation are all seen."""
    o_stat, o_unlink, o_remove, o_rename, o_replace = os.stat, os.unlink, os.remove, os.rename, os.replace
    o_connect = sqlite3.connect

    def under(p) -> bool:
        try:
            return os.path.dirname(os.path.abspath(os.fspath(p))) == dbdir
        except TypeError:
            return False

    def kind(p) -> str:
        n = os.path.basename(os.fspath(p))
        if n == DBNAME:
            return "main"
        if n == BAKNAME:
            return "bak"
        if n == DBNAME + "-wal":       # the side files of the DATABASE path (not those of any other name)
            return "wal"
        if n == DBNAME + "-shm":
            return "shm"
        return "other:" + n[-12:] if n.endswith(("-wal", "-shm")) else "other"

    def stat(path, *a, **k):
        # looking at the backup file = the "exists" check of the restore
        if isinstance(path, int) or not under(path) or kind(path) != "bak":
            return o_stat(path, *a, **k)

        def do():
            try:
                return o_stat(path, *a, **k)
            except FileNotFoundError as e:
                return e

        r = sync("exists", "bak", do, lambda r: not isinstance(r, BaseException))
        if isinstance(r, BaseException):
            raise r
        return r

    def mk_unlink(orig):
        def unlink(path, *a, **k):
            if not under(path):
                return orig(path, *a, **k)

            def do():  # a missing file is a result, not a failure of the step
                try:
                    return orig(path, *a, **k)
                except FileNotFoundError as e:
                    return e

            r = sync("unlink", kind(path), do, lambda r: "ok")
            if isinstance(r, BaseException):
                raise r
            return r

        return unlink

    def mk_rename(orig):
        def rename(src, dst, *a, **k):
            if not under(src):
                return orig(src, dst, *a, **k)
            return sync("rename", kind(src) + ">" + kind(dst), lambda: orig(src, dst, *a, **k), lambda r: "ok")

        return rename

    os.stat = stat
    os.unlink, os.remove = mk_unlink(o_unlink), mk_unlink(o_remove)
    os.rename, os.replace = mk_rename(o_rename), mk_rename(o_replace)

    mainpath = os.path.join(dbdir, DBNAME)

    def ok_jm(r):
        # result of a start-up script operation + the journal mode the file at the path now has
        return "ok jm=" + journal_mode_in_child(mainpath)

    class Conn(sqlite3.Connection):
        def execute(self, sql, params=()):
            s = sql.lstrip().upper()
            base = super()
            if s.startswith("SELECT"):
                if "FROM PAGES" in " ".join(s.split()) and "TITLE = ?" in s:
                    title = params[0] if params else ""
                    cls = "bootcheck" if isinstance(title, str) and "sandbox phase1" in title.replace("_", " ") else "read"

                    def do():
                        cur = base.execute(sql, params)
                        return RowsProxy(cur.fetchall(), cur.description)

                    return sync(cls, str(title), do, lambda r: {"title": str(title), "found": bool(r._rows), "tag": _tag_of(r._rows)})
                if "FROM PAGES" in " ".join(s.split()):
                    return sync("cursor", "", lambda: base.execute(sql, params), lambda r: "ok")
                return sync("read", "", lambda: base.execute(sql, params), lambda r: {"title": "", "found": True, "tag": "none"})
            if s.startswith(("INSERT", "UPDATE", "DELETE", "REPLACE")):
                return sync("write", "", lambda: base.execute(sql, params), lambda r: "ok")
            return sync("script", "", lambda: base.execute(sql, params), ok_jm)

        def executescript(self, script):
            base = super()
            return sync("script", "", lambda: base.executescript(script), ok_jm)

        def commit(self):
            base = super()
            return sync("commit", "", lambda: base.commit(), lambda r: "ok")

        def close(self):
            base = super()
            return sync("close", "", lambda: base.close(), lambda r: "ok", inner_only=True)

    def connect(database, *a, **k):
        if not under(database):
            return o_connect(database, *a, **k)
        if kind(database) != "main":   # backup_db's temporary file: not the connection of the context
            return o_connect(database, *a, **k)
        k.setdefault("factory", Conn)
        con = sync("connect", "", lambda: o_connect(database, *a, **k), lambda r: "ok")
        sync.conn = con   # the connection of this context: its transaction state is reported with every operation
        return con

    sqlite3.connect = connect


def child_main(idx: int, dbdir: str, order: list, cursor: bool, mode: str, rfd: int, wfd: int, seed: int, offset: float,
               life=("hold", 0.0), build=None) -> None:
    """Runs in a forked child.  mode 'control': every wrapped operation is announced and
    waits for the parent's grant; mode 'free': operations are only time-stamped.
    The context ends with close_db_conn (one step "close"; the environment operations
    performed inside it are its result).  life (free mode): ("now", 0) close at once,
    ("delay", s) close after s seconds, ("hold", 0) close when the parent says so.
    build = {"boot": bool, "bak": bool, "bkd": bool}: this is the creating context (driver): it creates the
    database file at the path, stores and commits the pages, processes no page.  bak: it stores the pages of version B,
    writes the backup file with backup_db(), then stores version M (all before the workers start: a backup file is
    present AND the context that wrote it still has the database open).  bkd: it calls backup_db() later, as one
    schedule step "backup", while workers are open."""
    _quiet()
    out = os.fdopen(wfd, "w", buffering=1)
    rng = random.Random(seed)
    log = []
    st = {"phase": "setup" if build is not None else "run", "ops": []}

    def send(obj):
        out.write(json.dumps(obj) + "\n")
        out.flush()

    def wait_grant():
        b = os.read(rfd, 1)
        if not b:
            os._exit(0)  # parent gone

    def cur_tx():
        """Connection.in_transaction of the context's connection: "y" / "n" ("" = no open connection)."""
        con = getattr(sync, "conn", None)
        if con is None:
            return ""
        try:
            return "y" if con.in_transaction else "n"
        except Exception:
            return ""

    def sync(cls, detail, fn, summarise, inner_only=False):
        if st["phase"] == "setup":
            return fn()
        if st["phase"] == "close":  # part of the step "close"
            try:
                r = fn()
            except BaseException as e:
                st["ops"].append(f"{cls}:{detail}!{type(e).__name__}")
                raise
            st["ops"].append(f"{cls}:{detail}")
            return r
        if inner_only:
            return fn()
        if mode == "control":
            send({"ev": "want", "cls": cls, "detail": detail})
            wait_grant()
        elif cls in ("exists", "unlink", "rename", "connect", "write", "bootcheck"):
            time.sleep(rng.random() * 0.002)  # jitter: the OS may delay a process anywhere
        t0 = time.monotonic()
        try:
            r = fn()
        except BaseException as e:
            res = type(e).__name__ + ": " + str(e)[:80]
            if mode == "control":
                send({"ev": "done", "cls": cls, "result": res, "exc": True, "tx": cur_tx()})
            else:
                log.append([cls, detail, t0, time.monotonic(), res, True, cur_tx()])
            raise
        res = summarise(r)
        if mode == "control":
            send({"ev": "done", "cls": cls, "result": res, "exc": False, "tx": cur_tx()})
        else:
            log.append([cls, detail, t0, time.monotonic(), res, False, cur_tx()])
        return r

    install_wrappers(dbdir, sync)
    if offset:
        time.sleep(offset)
    results, exc = {}, None
    ctx = None
    try:
        from wikitextprocessor import Wtp

        if build is not None:
            ctx = Wtp(db_path=os.path.join(dbdir, DBNAME), quiet=True)
            if build.get("bak"):
                for t, ns, body, model in version_pages("B"):
                    ctx.add_page(t, ns, body=body, model=model)
                if build.get("boot"):
                    ctx.add_page(BOOT_TITLE, 828, body="", model="Scribunto")
                ctx.backup_db()
            for t, ns, body, model in version_pages("M"):
                ctx.add_page(t, ns, body=body, model=model)
            if build.get("boot"):
                ctx.add_page(BOOT_TITLE, 828, body="", model="Scribunto")
            ctx.db_conn.commit()
            st["phase"] = "run"
            if mode == "free":
                send({"ev": "idle"})  # database ready: the workers may be started
                wait_grant()
            if build.get("bkd"):
                # backup_db() of the creating context while workers are open: one schedule step (what it does to the
                # environment - commit, temporary file, rename to the backup name - is not scheduled operation by operation)
                if mode == "control":
                    send({"ev": "want", "cls": "backup", "detail": ""})
                    wait_grant()
                elif build.get("bkd_delay"):
                    time.sleep(build["bkd_delay"])
                st["phase"] = "setup"
                t0 = time.monotonic()
                try:
                    ctx.backup_db()
                    bres, bexc = "ok", False
                except BaseException as e:
                    bres, bexc = type(e).__name__ + ": " + str(e)[:80], True
                    exc = "backup_db: " + bres
                st["phase"] = "run"
                if mode == "control":
                    send({"ev": "done", "cls": "backup", "result": bres, "exc": bexc, "tx": cur_tx()})
                else:
                    log.append(["backup", "", t0, time.monotonic(), bres, bexc, cur_tx()])
        else:
            ctx = Wtp(db_path=os.path.join(dbdir, DBNAME), quiet=True)
            it = None
            if cursor:
                it = ctx.get_all_pages([0])
                next(it, None)  # the iterator stays open while the pages are processed
            for t in order:
                body = ctx.get_page_body(t, 0)
                if body is None:
                    results[t] = None
                    continue
                ctx.start_page(t)
                results[t] = ctx.expand(body)
    except BaseException as e:
        exc = type(e).__name__ + ": " + str(e)[:120]
    if ctx is not None:
        # the context object exists: it is closed - when the schedule says so.  The page work is over, no
        # library call is active: the transaction state of the connection at this idle point travels with the close
        idle_tx = cur_tx()
        if mode == "control":
            send({"ev": "want", "cls": "close", "detail": "", "tx": idle_tx})
            wait_grant()
        elif life[0] == "delay":
            time.sleep(life[1])
        elif life[0] == "hold":
            send({"ev": "idle"})
            wait_grant()
        st["phase"], st["ops"] = "close", []
        t0 = time.monotonic()
        try:
            ctx.close_db_conn()
            cres, cexc = {"ops": st["ops"]}, False
        except BaseException as e:
            cres, cexc = type(e).__name__ + ": " + str(e)[:80], True
            exc = exc or ("close_db_conn: " + cres)
        st["phase"] = "setup"
        if mode == "control":
            send({"ev": "done", "cls": "close", "result": cres, "exc": cexc, "tx": idle_tx})
        else:
            log.append(["close", "", t0, time.monotonic(), cres, cexc, idle_tx])
    send({"ev": "finished", "results": results, "exc": exc, "log": log})
    wait_grant()  # the process stays until everybody is done
    os._exit(0)


# ---------------------------------------------------------------------------
# parent side
# ---------------------------------------------------------------------------
class Child:
    def __init__(self, idx, pid, rfd, wfd):
        self.idx, self.pid, self.rfd, self.wfd = idx, pid, rfd, wfd
        self.buf = b""
        self.state = "start"  # start | want | running | finished | dead
        self.want = None
        self.last = None
        self.final = None
        self.tx = ""      # Connection.in_transaction reported with the last message ("y" / "n" / "")
        self.cursor = False   # the worker keeps a get_all_pages() cursor (a read transaction) open while it works


def spawn_one(idx: int, dbdir: str, order: list, cursor: bool, mode: str, seed: int, offset: float, fds: list,
              life=("hold", 0.0), build=None) -> Child:
    """fds: parent-side pipe ends of the children spawned so far (closed in the new child)."""
    c2p_r, c2p_w = os.pipe()
    p2c_r, p2c_w = os.pipe()
    pid = os.fork()
    if pid == 0:
        try:
            for fd in fds + [c2p_r, p2c_w]:
                os.close(fd)
            child_main(idx, dbdir, order, cursor, mode, p2c_r, c2p_w, seed * 1000 + idx, offset, life, build)
        except BaseException:
            import traceback

            traceback.print_exc()
        finally:
            os._exit(4)
    os.close(c2p_w)
    os.close(p2c_r)
    fds += [c2p_r, p2c_w]
    ch = Child(idx, pid, c2p_r, p2c_w)
    ch.cursor = bool(cursor)
    return ch


def spawn(n: int, dbdir: str, orders: list, cursor, mode: str, seed: int, offsets: list, fds=None, lives=None) -> list:
    """cursor: bool (every worker) or list of bool per worker."""
    fds = [] if fds is None else fds
    cur = list(cursor) if isinstance(cursor, (list, tuple)) else [bool(cursor)] * n
    return [spawn_one(i, dbdir, orders[i - 1], cur[i - 1], mode, seed, offsets[i - 1], fds, (lives[i - 1] if lives else ("hold", 0.0)))
            for i in range(1, n + 1)]


def pump(kids: list, timeout: float) -> bool:
    """Read whatever the children sent; update their states.  -> something arrived"""
    live = [c for c in kids if c.state != "dead"]
    if not live:
        return False
    r, _, _ = select.select([c.rfd for c in live], [], [], timeout)
    got = False
    for c in live:
        if c.rfd not in r:
            continue
        data = os.read(c.rfd, 1 << 16)
        if not data:
            c.state = "dead"
            got = True
            continue
        c.buf += data
        while b"\n" in c.buf:
            line, c.buf = c.buf.split(b"\n", 1)
            m = json.loads(line)
            got = True
            if m.get("tx"):
                c.tx = m["tx"]
            if m["ev"] == "want":
                c.state, c.want = "want", m
            elif m["ev"] == "done":
                c.last = m
            elif m["ev"] == "idle":
                c.state = "idle"
            elif m["ev"] == "finished":
                c.state, c.final = "finished", m
    return got


def wait_for(kids, pred, timeout: float) -> bool:
    t_end = time.monotonic() + timeout
    while not pred():
        left = t_end - time.monotonic()
        if left <= 0:
            return False
        pump(kids, min(left, 0.5))
    return True


def grant(c: Child) -> None:
    c.state = "running"
    c.last = None
    os.write(c.wfd, b"g")


def summarise(cls: str, results: list, tracked: set):
    """One model-level step = the coalesced operations of one class."""
    for r in results:
        if r is None:
            return "stuck"
        if r.get("exc"):
            s = r["result"]
            if "FileNotFoundError" in s:
                return "fnf"
            if "locked" in s:
                return "locked"
            if "disk I/O error" in s:
                return "ioerr"
            return "err:" + s[:60]
    if cls == "close":
        # close_db_conn commits and closes its connection; anything else it does to the files
        # of the database is part of the result
        extra = [x for x in results[-1]["result"]["ops"] if x not in CLOSE_OPS]
        return "ok" if not extra else "touch:" + ",".join(extra)[:80]
    if cls == "exists":
        return "yes" if results[-1]["result"] else "no"
    if cls == "bootcheck":
        return "yes" if results[-1]["result"]["found"] else "no"
    if cls == "read":
        tags = set()
        for r in results:
            x = r["result"]
            if x["title"] in tracked and not x["found"]:
                return "missing"
            if x["tag"] != "none":
                tags.add(x["tag"])
        return "none" if not tags else (tags.pop() if len(tags) == 1 else "mixed")
    return "ok"


def jm_of_results(results) -> str:
    """Journal mode reported with the last start-up script operation of a step ("" = not observed)."""
    jm = ""
    for r in results:
        if r and not r.get("exc") and isinstance(r.get("result"), str) and r["result"].startswith("ok jm="):
            jm = r["result"][6:]
    return jm


def tx_of_results(results) -> str:
    """Transaction state reported with the last operation of a step ("" = not observed)."""
    for r in reversed(results):
        if r and r.get("tx"):
            return r["tx"]
    return ""


def step(kids, c: Child, tracked, trace, sched_label=None, timeout=9.0):
    """Let child c perform one model-level step (coalescing operations of one class)."""
    cls = c.want["cls"]
    if cls == "write":
        timeout = max(timeout, 25.0)   # a writer may sit in SQLite's busy handler for the whole busy timeout (5 s)
    results = []
    details = []
    t_step = time.monotonic()
    while True:
        details.append(c.want.get("detail", ""))
        grant(c)
        ok = wait_for(kids, lambda: c.state in ("want", "finished", "dead"), timeout)
        results.append(c.last)
        if not ok:
            c.state = "stuck"
            break
        if c.state == "want" and c.want["cls"] == cls and cls in COALESCE:
            continue
        break
    ev = {"p": c.idx, "cls": cls, "r": summarise(cls, results, tracked), "n": len(results)}
    if cls == "script":
        ev["jm"] = jm_of_results(results)
    if cls == "unlink":
        ev["rm"] = sorted(set(details))   # which files of the database the step removed (main / wal / shm)
    ev["tx"] = tx_of_results(results)
    if time.monotonic() - t_step > 2:
        ev["secs"] = round(time.monotonic() - t_step, 1)   # diagnostics only (slowest_replays)
    if sched_label is not None and CLS_OF_LABEL.get(sched_label) != cls:
        ev["unexpected"] = sched_label
    trace.append(ev)


def lock_holders(kids, c: Child) -> list:
    """Workers parked at a schedule point INSIDE a library call whose connection is inside a transaction, seen from a
    writer c that can wait: they hold the write lock in a critical section that ends when they are allowed to go on.
    The model never schedules such a writer while the lock is held (Insert is not enabled), so this only happens when
    the real code keeps its transaction open across more operations than the model.  A writer that holds a read
    transaction (open cursor) cannot wait - SQLite fails it at once - and the model's schedules put it beside a holder on
    purpose: no holders for it."""
    if c.cursor:
        return []
    return [h for h in kids if h is not c and h.state == "want" and h.tx == "y" and h.want["cls"] != "close"]


def waited_write(kids, c: Child, hs: list, tracked, trace, sched_label=None):
    """c is about to write while the workers hs are parked inside a transaction in the middle of a library call (the
    real code keeps the transaction open across more operations than the model).  The model: the busy handler of the
    writer waits and the holder, being inside its call, goes on (Insert is not enabled while the lock is held; LockWait).
    So: c's write is started, the holders perform their next operations until their transaction has ended - or until
    they go idle still inside it, then nothing ends it and c sits out the busy timeout - and c's write completes."""
    grant(c)
    for h in hs:
        n = 0
        while c.state == "running" and h.state == "want" and h.tx == "y" and h.want["cls"] != "close" and n < 60:
            if pump(kids, 0.05) and c.state != "running":    # a writer that cannot wait (open cursor) fails at once
                break
            step(kids, h, tracked, trace)
            trace[-1]["while_writer_waits"] = c.idx
            n += 1
    ok = wait_for(kids, lambda: c.state in ("want", "finished", "dead"), 25.0)
    results = [c.last]
    if not ok:
        c.state = "stuck"
    ev = {"p": c.idx, "cls": "write", "r": summarise("write", results, tracked), "n": 1, "tx": tx_of_results(results),
          "waited_for": [h.idx for h in hs]}
    if sched_label is not None and CLS_OF_LABEL.get(sched_label) != "write":
        ev["unexpected"] = sched_label
    trace.append(ev)


def kill_all(kids):
    for c in kids:
        try:
            os.write(c.wfd, b"g")
        except OSError:
            pass
    t_end = time.monotonic() + 3
    for c in kids:
        while True:
            try:
                pid, _ = os.waitpid(c.pid, os.WNOHANG)
            except ChildProcessError:
                break
            if pid:
                break
            if time.monotonic() > t_end:
                try:
                    os.kill(c.pid, signal.SIGKILL)
                except ProcessLookupError:
                    pass
                try:
                    os.waitpid(c.pid, 0)
                except ChildProcessError:
                    pass
                break
            time.sleep(0.01)
        for fd in (c.rfd, c.wfd):
            try:
                os.close(fd)
            except OSError:
                pass


def tracked_titles():
    return set(titles()) | {"Template:T", "Module:M"}


def classify_worker(final, serial_results, order) -> str:
    if final is None:
        return "stuck"
    if final["exc"]:
        e = final["exc"]
        if "FileNotFoundError" in e:
            return "fnf"
        if "locked" in e:
            return "locked"
        if "disk I/O error" in e:
            return "ioerr"
        return "exc:" + e[:80]
    res = final["results"]
    if any(res.get(t) is None for t in order):
        return "missing"
    if any(res.get(t) != serial_results.get(t) for t in order):
        return "stale"
    return "ok"


class Finals(list):
    """Final messages of the workers; drv_exc: failure of the creating context (None: none / no such context)."""
    drv_exc = None


def finals_of(kids) -> "Finals":
    f = Finals(c.final if c.state == "finished" else None for c in kids if c.idx > 0)
    for c in kids:
        if c.idx == 0:
            f.drv_exc = "did not finish" if c.state != "finished" else c.final["exc"]
    return f


def make_workdir(scn_dir: str, work: Path, drv) -> None:
    """Without a creating context: a copy of the prepared scenario (database closed cleanly by
    its builder).  With one: an empty directory - the driver process creates the database."""
    shutil.rmtree(work, ignore_errors=True)
    if drv is None:
        shutil.copytree(scn_dir, work)
    else:
        work.mkdir(parents=True)


def run_controlled(scn_dir: str, work: Path, n: int, sched: list, orders: list, cursor: bool, seed: int, drv=None):
    """Replay one schedule [(p, label)] on n real processes (p = 0: the creating context, present
    when drv = {"boot": bool}).  -> (trace, finals, store, diverged)"""
    make_workdir(scn_dir, work, drv)
    fds: list = []
    kids = []
    if drv is not None:
        kids.append(spawn_one(0, str(work), [], False, "control", seed, 0, fds, build=drv))
    kids += spawn(n, str(work), orders, cursor, "control", seed, [0] * n, fds)
    byidx = {c.idx: c for c in kids}
    trace: list = []
    tracked = tracked_titles()
    diverged = 0
    try:
        if not wait_for(kids, lambda: all(c.state in ("want", "finished", "dead") for c in kids), 20):
            raise RuntimeError("workers did not start")
        if drv is not None and byidx[0].state != "want":
            raise RuntimeError("the creating context could not build the database: " + json.dumps(byidx[0].final))
        for p, label in sched:
            c = byidx.get(p)
            if c is None or c.state != "want":
                diverged += 1
                continue
            if c.want["cls"] == "close" and label != "close":
                # the lifetime of a context is part of the schedule: a worker that has fewer operations than the
                # model (its page work is over early) stays open - idle - until the schedule closes it
                diverged += 1
                continue
            hs = lock_holders(kids, c) if c.want["cls"] == "write" else []
            if hs:
                waited_write(kids, c, hs, tracked, trace, label)
                diverged += 1
            else:
                step(kids, c, tracked, trace, label)
            if trace[-1].get("unexpected"):
                diverged += 1
        # whatever is left (schedule shorter than the real run): round-robin
        extra = 0
        while any(c.state == "want" for c in kids):
            for c in kids:
                if c.state == "want":
                    hs = lock_holders(kids, c) if c.want["cls"] == "write" else []
                    if hs:
                        waited_write(kids, c, hs, tracked, trace)
                    else:
                        step(kids, c, tracked, trace)
                    extra += 1
        diverged += extra
        finals = finals_of(kids)
    finally:
        kill_all(kids)
    store = read_store(work)
    return trace, finals, store, diverged


def run_free(scn_dir: str, work: Path, n: int, orders: list, cursor: bool, seed: int, offsets: list, timeout=60.0,
             lives=None, drv=None):
    """lives: per worker ("now"|"delay"|"hold", seconds) - when the context is closed after the page
    work (default: all hold their context open until everybody is done, then close);
    drv = {"boot": bool, "life": (...)}: a creating context (process 0) is open when the workers start."""
    make_workdir(scn_dir, work, drv)
    fds: list = []
    kids = []
    try:
        if drv is not None:
            d = spawn_one(0, str(work), [], False, "free", seed, 0, fds, life=tuple(drv["life"]),
                          build={"boot": drv["boot"], "bak": bool(drv.get("bak"))})
            kids.append(d)
            if not wait_for(kids, lambda: d.state in ("idle", "finished", "dead"), 30) or d.state != "idle":
                raise RuntimeError("the creating context could not build the database: " + json.dumps(d.final))
        kids += spawn(n, str(work), orders, cursor, "free", seed, offsets, fds, lives)
        if drv is not None:
            grant(kids[0])
        t_end = time.monotonic() + timeout
        # contexts that hold until everybody is done are released when nobody is at work any more
        while time.monotonic() < t_end:
            wait_for(kids, lambda: all(c.state in ("idle", "finished", "dead") for c in kids), max(0.1, t_end - time.monotonic()))
            idle = [c for c in kids if c.state == "idle"]
            if not idle:
                break
            for c in idle:
                grant(c)
        finals = finals_of(kids)
        allfinals = [c.final if c.state == "finished" else None for c in kids]
    finally:
        kill_all(kids)
    store = read_store(work)
    # order the recorded operations by completion time, coalesce per process; an operation
    # takes effect at its completion, except write (lock acquisition) and commit whose
    # effect lies somewhere in their interval
    ops = []
    for c, f in zip(kids, allfinals):
        for cls, detail, t0, t1, res, exc, tx in (f or {}).get("log", []):
            ops.append((t1, t0, c.idx, cls, {"result": res, "exc": exc, "tx": tx, "detail": detail}))
    ops.sort(key=lambda x: x[0])
    base = ops[0][1] if ops else 0
    trace: list = []
    last_of: dict = {}
    tracked = tracked_titles()
    for t1, t0, p, cls, r in ops:
        j = last_of.get(p)
        us1 = int((t1 - base) * 1e6) + 10
        us0 = int((t0 - base) * 1e6) + 10 if cls in ("commit", "write", "close") else us1
        w0 = int((t0 - base) * 1e6) + 10
        if j is not None and trace[j]["cls"] == cls and cls in COALESCE:
            trace[j]["_rs"].append(r)
            trace[j]["t1"] = trace[j]["w1"] = us1
            trace[j]["t0"] = us1
        else:
            trace.append({"p": p, "cls": cls, "_rs": [r], "t0": us0, "t1": us1, "w0": w0, "w1": us1})
            last_of[p] = len(trace) - 1
    for ev in trace:
        if ev["cls"] == "script":
            ev["jm"] = jm_of_results(ev["_rs"])
        if ev["cls"] == "unlink":
            ev["rm"] = sorted({r["detail"] for r in ev["_rs"]})
        ev["tx"] = tx_of_results(ev["_rs"])
        ev["r"] = summarise(ev["cls"], ev.pop("_rs"), tracked)
    trace.sort(key=lambda e: e["t1"])
    return trace, finals, store


# ---------------------------------------------------------------------------
# serial reference, judging
# ---------------------------------------------------------------------------
def run_contended(scn_dir: str, work: Path, orders: list, seed: int, hold: float):
    """Worker 1 holds the write lock of its bootstrap-page write (INSERT done, COMMIT pending) for `hold`
    seconds while worker 2 attempts its own first write (spec/LockWait.tla).  -> (finals, waited_ok)"""
    shutil.rmtree(work, ignore_errors=True)
    shutil.copytree(scn_dir, work)
    kids = spawn(2, str(work), orders, False, "control", seed, [0, 0])
    trace: list = []
    tracked = tracked_titles()
    try:
        if not wait_for(kids, lambda: all(c.state in ("want", "finished", "dead") for c in kids), 20):
            raise RuntimeError("workers did not start")
        H, C = kids

        def advance(c, cls):
            n = 0
            while c.state == "want" and c.want["cls"] != cls and n < 200:
                step(kids, c, tracked, trace)
                n += 1
            return c.state == "want" and c.want["cls"] == cls

        if not advance(H, "write"):
            raise RuntimeError("worker 1 never reached its bootstrap write")
        step(kids, H, tracked, trace)            # INSERT: H now holds the write lock
        if not (H.state == "want" and H.want["cls"] == "commit"):
            raise RuntimeError("worker 1 did not stop before its commit")
        if not advance(C, "write"):
            raise RuntimeError("worker 2 never reached its bootstrap write")
        grant(C)                                  # blocks in SQLite's busy handler behind H's lock
        t0 = time.time()
        while time.time() - t0 < hold:
            pump(kids, 0.05)
        step(kids, H, tracked, trace)            # COMMIT releases the lock
        wait_for(kids, lambda: C.state in ("want", "finished", "dead"), 9)
        guard = 0
        while any(c.state == "want" for c in kids) and guard < 500:
            for c in kids:
                if c.state == "want":
                    step(kids, c, tracked, trace)
                    guard += 1
        finals = [c.final if c.state == "finished" else None for c in kids]
    finally:
        kill_all(kids)
    return finals, read_store(work)


def serial_reference(scns: dict, root: Path) -> dict:
    """(bak, boot, prov) -> {results, rows}: what a single process obtains and leaves."""
    ref = {}
    for (bak, boot, prov), d in scns.items():
        work = root / "serial"
        trace, finals, store = run_free(d, work, 1, [titles()], False, 1, [0])
        f = finals[0]
        if f is None or f["exc"] or any(v is None for v in f["results"].values()) or store is None or store["integrity"] != ["ok"]:
            raise RuntimeError(f"serial reference run failed: {f} {store and store['integrity']}")
        want_tag = "v=B;" if bak else "v=M;"
        if not all(want_tag in v for v in f["results"].values()):
            raise RuntimeError("serial reference does not show the expected page version: " + json.dumps(f["results"]))
        ref[(bak, boot, prov)] = {"results": f["results"], "rows": store["rows"], "jm": journal_mode_of(work / DBNAME)}
        shutil.rmtree(work, ignore_errors=True)
    return ref


def store_ok(store, ref) -> bool:
    return store is not None and store["rows"] is not None and store["integrity"] == ["ok"] and [list(r) for r in store["rows"]] == [list(r) for r in ref["rows"]]


_G: dict = {}


def replay_chunk(chunk):
    """chunk: [(case_id, case)] -> results (runs in a pool worker)."""
    common.use_repo()
    import wikitextprocessor  # noqa: F401

    scns, ref, root = _G["scns"], _G["ref"], Path(_G["root"])
    out = []
    wd = Path(tempfile.mkdtemp(prefix="c20w-", dir=str(root)))
    try:
        for cid, case in chunk:
            scn = case["scn"]
            key = scn_key(scn)
            n = len(case["res"])
            rng = random.Random(common.seed() * 7919 + cid)
            orders = [rng.sample(titles(), NPAGES) for _ in range(n)]
            sched = [(e["p"], e["l"]) for e in case["sched"]]
            t_rep = time.monotonic()
            try:
                trace, finals, store, diverged = run_controlled(scns[key], wd / "d", n, sched, orders, cursors_of(scn, n), cid,
                                                                drv=drv_of(scn))
            except RuntimeError as e:
                out.append({"cid": cid, "error": str(e)})
                continue
            real = [classify_worker(f, ref[key]["results"], o) for f, o in zip(finals, orders)]
            out.append({"cid": cid, "trace": trace, "real": real, "store_ok": store_ok(store, ref[key]), "diverged": diverged,
                        "orders": orders, "excs": [f and f["exc"] for f in finals], "drv_exc": finals.drv_exc,
                        "jm_final": journal_mode_of(wd / "d" / DBNAME), "secs": round(time.monotonic() - t_rep, 2),
                        "store": None if store is None else {"npages": None if store["rows"] is None else len(store["rows"]), "integrity": store["integrity"]}})
    finally:
        shutil.rmtree(wd, ignore_errors=True)
    return out


def stress_params(sid: int, n: int, boot: bool, lifemode: str, drv: bool):
    """Seeded parameters of one free-running run.  lifemode "hold": tight start offsets, every context
    stays open until all are done (then closes); "mixed": start offsets up to 0.4 s and every context
    closes at once / after a random delay / at the end, so contexts open after others have closed."""
    rng = random.Random(common.seed() * 104729 + sid)
    orders = [rng.sample(titles(), NPAGES) for _ in range(n)]
    offsets = [rng.random() * 0.02 for _ in range(n)]
    if lifemode == "hold":
        return orders, offsets, None, ({"boot": boot, "life": ("hold", 0.0)} if drv else None)
    if lifemode == "restore":
        # the creating context wrote the backup, went on and stays open until everybody is done; worker 1 starts at once (it
        # restores), the others together once it is well past its start-up (the start-up race is the business of the other runs)
        offsets = [0.0] + [1.2 + rng.random() * 0.05 for _ in range(n - 1)]
        return orders, offsets, None, {"boot": boot, "bak": True, "life": ("hold", 0.0)}
    lrng = random.Random(common.seed() * 7717 + sid)
    offsets = [lrng.random() * 0.4 for _ in range(n)]

    def life():
        k = lrng.choice(("now", "delay", "delay", "hold"))
        return (k, lrng.random() * 0.25 if k == "delay" else 0.0)

    lives = [life() for _ in range(n)]
    drvp = {"boot": boot, "life": ("delay", lrng.random() * 0.5) if lrng.random() < 0.8 else ("hold", 0.0)} if drv else None
    return orders, offsets, lives, drvp


def stress_chunk(chunk):
    common.use_repo()
    import wikitextprocessor  # noqa: F401

    scns, ref, root = _G["scns"], _G["ref"], Path(_G["root"])
    out = []
    wd = Path(tempfile.mkdtemp(prefix="c20s-", dir=str(root)))
    try:
        for sid, n, bak, boot, cursor, lifemode, drv, *more in chunk:
            prov, rdr = more if more else ("built", 0)
            scn = {"bak": bak, "boot": boot, "cursor": cursor, "drv": bool(drv), "prov": prov, "rdr": rdr, "bkd": False}
            key = scn_key(scn)
            orders, offsets, lives, drvp = stress_params(sid, n, boot, lifemode, drv)
            try:
                trace, finals, store = run_free(scns[key], wd / "d", n, orders, cursors_of(scn, n), sid, offsets, lives=lives, drv=drvp)
            except RuntimeError as e:
                out.append({"sid": sid, "error": str(e)})
                continue
            real = [classify_worker(f, ref[key]["results"], o) for f, o in zip(finals, orders)]
            out.append({"sid": sid, "n": n, "scn": scn, "life": lifemode,
                        "trace": trace, "real": real, "drv_exc": finals.drv_exc, "jm_final": journal_mode_of(wd / "d" / DBNAME),
                        "store_ok": store_ok(store, ref[key]), "excs": [f and f["exc"] for f in finals],
                        "store": None if store is None else {"npages": None if store["rows"] is None else len(store["rows"]), "integrity": store["integrity"]}})
    finally:
        shutil.rmtree(wd, ignore_errors=True)
    return out


def validate_traces(o: Outcome, items: list, name: str, timeout: int = 1800) -> dict:
    """items: [{tid, scn, n, events}] -> tid -> verdict (TLC, Trace_Workers)."""
    if not items:
        return {}
    with Scratch("c20t-") as d:
        tf = d / "trace.json"
        tf.write_text(json.dumps({"maxprocs": max(i["n"] for i in items), "traces": items}))
        cfg = "SPECIFICATION TSpec\nINVARIANT Verdict\nCHECK_DEADLOCK FALSE\n"
        r = tlc("Trace_Workers", "trace.cfg", cfg_text=cfg, workers=1, env={"TRACE_FILE": str(tf)}, timeout=timeout)
    o.add_tlc(name, r)
    res: dict = {}
    for v in r.tagged("VERDICT"):  # one per linearisation explored: keep the best
        if v["tid"] not in res or len(v["bad"]) < len(res[v["tid"]]["bad"]):
            res[v["tid"]] = v
    if len(res) != len(items):
        raise common.TLCError(f"trace validation printed {len(res)} verdicts for {len(items)} traces")
    return res


def clean_events(trace, relaxed=False):
    """Events for Trace_Workers: [t0, t1] = interval in which the operation took effect
    (controlled replays: a point = position in the performed sequence; free runs: the
    completion time, for write/commit the whole duration; relaxed: the whole duration of
    every operation)."""
    def side(e):
        # an unlink step (the restore): which side files of the database it did NOT remove (Trace_Workers: kw, ks)
        rm = e.get("rm")
        return {"kw": rm is not None and "wal" not in rm, "ks": rm is not None and "shm" not in rm}

    if relaxed:
        return [dict({"p": e["p"], "cls": e["cls"], "r": e["r"], "t0": e["w0"], "t1": e["w1"], "jm": e.get("jm", ""), "tx": e.get("tx", "")}, **side(e))
                for e in trace]
    return [dict({"p": e["p"], "cls": e["cls"], "r": e["r"], "t0": e.get("t0", i), "t1": e.get("t1", i), "jm": e.get("jm", ""), "tx": e.get("tx", "")}, **side(e))
            for i, e in enumerate(trace, start=1)]


def harmless_kept(b, verdict) -> bool:
    """A mismatch note that only says "the restore left a side file in place", in a run in which - by the model's replay of the
    performed operations - nobody ever trusted that file (it was rebuilt / removed later): a difference without consequence."""
    return b.get("cls") == "unlink" and bool(b.get("kept")) and str(b.get("why", "")).startswith("the restore left") and (verdict or {}).get("stale") == "none"


def explained_by(verdict) -> bool:
    """The performed trace agrees with the model up to the point where a deviation took effect."""
    return (bool(verdict) and not [b for b in verdict["bad"] if not (b["raced"] or b["snapfail"] or harmless_kept(b, verdict))]
            and (verdict["raced"] or verdict["snapfail"]))


def jm_obs(verdict) -> list:
    return sorted((b for b in (verdict or {}).get("obs") or [] if b.get("k", "jm") == "jm"), key=lambda b: b["i"])


def tx_obs(verdict) -> list:
    """Observed Connection.in_transaction values that differ from the model's transaction state (Trace_Workers)."""
    return sorted((b for b in (verdict or {}).get("obs") or [] if b.get("k") in ("tx", "idle")), key=lambda b: b["i"])


def who(p) -> str:
    return "the creating context (process 0)" if p == 0 else f"worker {p}"


def idle_in_txn(events, real) -> list:
    """Processes whose connection was inside an open transaction (Connection.in_transaction) at the idle point
    before close_db_conn - page work over, no library call active - although their own page work had not failed
    (the model: a transaction is left open only by the statement that failed; invariant DoneMeansCommitted)."""
    out = set()
    for e in events or []:
        if e["cls"] == "close" and e.get("tx") == "y":
            p = e["p"]
            if p == 0 or (1 <= p <= len(real) and real[p - 1] == "ok"):
                out.add(p)
    return sorted(out)


IDLE_TXN_RULE = ("model (Workers.NoIdleTransaction): every statement that begins a write transaction - sqlite3 issues BEGIN, the statement takes "
                 "the write lock of the database also when it ends up changing nothing - is followed by a commit before the library call "
                 "returns; the lock stays with such a connection until its commit / close_db_conn, i.e. for as long as the idle context "
                 "lives, and a writer that meets it gives up after the busy timeout with 'database is locked' (Workers.IdleHeld)")


def tx_text(verdict, idle: list) -> str:
    """The transaction-state part of a 'why': idle contexts inside an open transaction (observed), the first
    mismatching operation performed inside a transaction the model would have ended, other differences."""
    parts = []
    if idle:
        parts.append("; " + ", ".join(who(p) for p in idle) + " had finished the page work without failure and sat idle - no library call active, context "
                     "still open - INSIDE AN OPEN TRANSACTION (Connection.in_transaction was true at the idle point before close_db_conn); " + IDLE_TXN_RULE)
    for b in (verdict or {}).get("bad") or []:
        if b.get("tx") == "y" and b.get("mtx") == "write" and b.get("why") == "operation not expected here" and b.get("expected") == "commit":
            parts.append(f"; {who(b['p'])} went on with {b['cls']} inside the write transaction of its bootstrap write (in_transaction true after the "
                         "operation) where the model ends that transaction with the commit" + ("" if idle else "; " + IDLE_TXN_RULE))
            break
    extra = [b for b in tx_obs(verdict) if not (b["k"] == "idle" and b["p"] in idle)]
    if extra:
        b = extra[0]
        parts.append(f"; in_transaction of {who(b['p'])} " + ("at the idle point before close_db_conn" if b["k"] == "idle" else "after operation " + str(b["i"]))
                     + f": {b['seen']}, model: {b['model']}")
    return "".join(parts)


SIDE_RULE = ("model (Workers: SIDE FILES PER PATH, NoStaleSideFile): <db>-wal and <db>-shm belong to the database file whose connections created "
             "them; the restore replaces the database file and removes BOTH from their paths first - a process that still has the replaced "
             "database open carries on with its unlinked files, the restoring worker and every later one start a fresh pair on the restored "
             "file.  An index (<db>-shm) that another live process has mapped is trusted as it is by whoever opens the database: left beside a "
             "restored file, without its log, it points at frames the opener cannot read - 'disk I/O error' from Wtp(db_path=...) for the "
             "restoring worker and for every later worker for as long as the other process lives (only an index nobody has mapped is rebuilt); a log "
             "(<db>-wal) left there is replayed over the restored file - the workers read the pages of the replaced database")


def side_text(verdict) -> str:
    """The side-file part of a 'why': a restore that left <db>-wal / <db>-shm of the database it replaced (observed: the
    unlink step of create_db's restore branch did not remove it), who had that database open, what TLC's replay of the
    performed operations with that file left in place predicts."""
    for b in (verdict or {}).get("bad") or []:
        if b.get("cls") == "unlink" and b.get("kept"):
            kept = " and ".join("<db>-" + k for k in sorted(b["kept"]))
            live = sorted((verdict or {}).get("live") or [])
            names = {"D": "the creating context (process 0, it wrote the backup with backup_db())", "idle": "a worker that had finished its pages and was still open"}
            whom = ", ".join(names.get(x, f"a worker in the middle of its page work (at {x})") for x in live)
            cons = {"shm": "a later first access trusted that stale index (Workers.StaleIndex): disk I/O error",
                    "wal": "a later first access had that stale log laid over the restored file (Workers.JoinsOldLog): pages of the replaced database",
                    "none": "nobody had it mapped when the database was next opened: rebuilt, no consequence in this run"}
            return (f"; the restore performed by {who(b['p'])} (create_db, backup file present) LEFT THE STALE SIDE FILE {kept} of the database it "
                    f"replaced in place" + (f" while that database was open in another live process: {whom}" if live else " (no other process had that database open)")
                    + f"; TLC's replay of the performed operations with {kept} left there: {cons.get((verdict or {}).get('stale'), '')}, predicted worker results "
                    + json.dumps(list((verdict or {}).get("res") or [])) + "; " + SIDE_RULE)
    return ""


def jm_text(verdict) -> str:
    """The journal-mode observations of the performed trace that differ from the model, as text."""
    obs = jm_obs(verdict)
    if not obs:
        return ""
    b = obs[0]
    names = {"del": "rollback journal ('delete')", "wal": "WAL"}
    return (f"; after the start-up script of worker {b['p']} the database file at the path was in journal mode "
            f"{names.get(b['seen'], b['seen'])}, model: {names.get(b['model'], b['model'])} - every open (re-)establishes WAL, whatever file "
            "is at the path (created, restored from a backup_db() backup, rollback-journal file); in rollback-journal mode "
            "an open read cursor of one worker blocks the commit of another for the whole busy timeout")


def judge(o: Outcome, case: dict, real: list, st_ok: bool, predicted, verdict, drift_only_trace=False, events=None):
    """predicted: {res, store, raced, snapfail} from Gen (or None); verdict: Trace_Workers verdict;
    events: the performed operations (with the observed transaction states)."""
    o.evaluations += 1
    drv_exc = case.get("drv_exc")   # the model: closing the creating context never fails
    holds = all(r == "ok" for r in real) and st_ok and not drv_exc
    # conformance items beyond the statement (DRIFT only): the journal mode of the file
    small = {k: case[k] for k in case if k != "performed"}
    if jm_obs(verdict):
        o.note_drift({"case": small, "why": "journal mode of the database file differs from the model" + jm_text(verdict), "obs": jm_obs(verdict)[:3]})
    # ... and the transaction state of every connection after every operation / at the idle point (DRIFT by itself:
    # the statement speaks about failures and results; the consequence - a later writer locked out - is what violates it)
    idle = idle_in_txn(events if events is not None else case.get("performed"), real)
    if idle or tx_obs(verdict):
        o.note_drift({"case": small, "why": "transaction state of a connection differs from the model" + tx_text(verdict, idle),
                      "idle_in_transaction": idle, "obs": tx_obs(verdict)[:3]})
    jm_model = (predicted or verdict or {}).get("jm")
    if case.get("jm_final") in ("wal", "del", "mixed") and jm_model in ("wal", "del") and case["jm_final"] != jm_model:
        o.note_drift({"case": small, "why": f"journal mode of the database file the run leaves: {case['jm_final']}, model: {jm_model}"})
    if holds:
        if predicted and (any(r != "ok" for r in predicted["res"]) or not predicted["store"]):
            o.note_drift({"case": case, "why": "the model predicts a failure on this schedule, the real processes show none"})
        return "ok"
    bad = [f"worker {i + 1}: {r}" for i, r in enumerate(real) if r != "ok"]
    if drv_exc:
        bad.append(f"the creating context (process 0) failed: {drv_exc}")
    if not st_ok:
        bad.append("stored pages differ from what a single process leaves (" + json.dumps(case.get("store")) + ")")
    why = "; ".join(bad)
    devs = None
    if drv_exc:
        pass
    elif predicted and list(predicted["res"]) == list(real) and bool(predicted["store"]) == st_ok:
        devs = [DEV_OF_FLAG[f] for f in ("raced", "snapfail") if predicted[f]]
    elif verdict:
        # the performed trace, replayed through the model by TLC: it is explained when the
        # model agrees with every recorded operation up to the point where a deviation
        # (stale restore check / stale snapshot) took effect; what the damaged files do to
        # later operations is not modelled in detail
        pre = [b for b in verdict["bad"] if not (b["raced"] or b["snapfail"] or harmless_kept(b, verdict))]
        if not pre:
            devs = [DEV_OF_FLAG[f] for f in ("raced", "snapfail") if verdict[f]]
            same = [r == "ok" for r in real] == [r == "ok" for r in list(verdict["res"])[: len(real)]] and bool(verdict["store"]) == st_ok
            if devs and (verdict["bad"] or not same or predicted):
                o.note_drift({"case": {k: case[k] for k in case if k != "performed"}, "why": "failure explained by the deviation flags of the performed trace; "
                              "details after the deviation differ from the model", "model_res": verdict["res"], "real": real,
                              "first_mismatch": verdict["bad"][:1]})
    if devs:
        o.classify(case, why, devs, cls="+".join(devs))
    else:
        first = ""
        if verdict and verdict["bad"]:
            b = verdict["bad"][0]
            whom = who(b["p"])
            if b["cls"] == "unlink" and b.get("kept"):
                first = ""   # said by side_text
            elif b["cls"] == "close" and str(b["r"]).startswith("touch:"):
                first = (f"; first performed operation that is not a behaviour of the model: close_db_conn of {whom} did "
                         f"{str(b['r'])[6:]} on the database files (model: a closing context commits and closes its connection, nothing else)")
            else:
                first = (f"; first performed operation that is not a behaviour of the model: {b['cls']} of {whom} -> {b['r']} "
                         f"({b['why']}; model: {b['expected']})")
        sidet = side_text(verdict)
        first += sidet + jm_text(verdict) + tx_text(verdict, idle)
        o.violation(dict(case, model=verdict), why + " (not explained by the as-is model" + first + ")",
                    cls=("stale side file left by the restore" if sidet and verdict.get("stale") != "none" else "unexplained")
                    + ("" if case.get("kind") != "V-stress" else " (free-running)"))
    return "bad"


def pick(cases: list, budget: int, rng: random.Random) -> list:
    """Seeded sample that covers every (scenario, predicted outcome) class."""
    groups: dict = {}
    for c in cases:
        k = (json.dumps(c["scn"], sort_keys=True), tuple(c["res"]), c["store"], c["raced"], c["snapfail"],
             json.dumps(c.get("life"), sort_keys=True), json.dumps(c.get("idlew")), json.dumps(sorted(c.get("live") or [])), c.get("after"))
        groups.setdefault(k, []).append(c)
    for g in groups.values():
        rng.shuffle(g)
    out = []
    i = 0
    while len(out) < budget and any(groups.values()):
        for k in sorted(groups):
            if groups[k] and len(out) < budget:
                out.append(groups[k].pop())
        i += 1
    return out


def pick_meet_first(cases: list, budget: int, rng: random.Random) -> list:
    """Like pick(), for the provenance / reader-writer family: the classes in which a worker commits while
    another worker's cursor is open (history flag `meet` of Gen_Workers) are served first."""
    meet = [c for c in cases if c.get("meet")]
    rest = [c for c in cases if not c.get("meet")]
    first = pick(meet, budget, rng)
    return first + pick(rest, budget - len(first), rng)


def pick_idle_first(cases: list, budget: int, rng: random.Random) -> list:
    """For the three-worker bootstrap race with lifetimes (Gen_Workers focus boot3): most of the budget goes to the
    schedules in which BOTH earlier writers are still open - idle - when the last worker writes (history `idlew` of
    Gen_Workers: per write, the number of idle earlier writers), half on the database without and half on the one with
    the bootstrap page; the rest covers the other (scenario, lifetime pattern, meeting) classes."""
    if budget >= len(cases):
        return list(cases)
    full = [c for c in cases if c["idlew"] and c["idlew"][-1] == 2]
    rest = [c for c in cases if not (c["idlew"] and c["idlew"][-1] == 2)]
    nfull = (budget * 5) // 7
    out = []
    for boot in (False, True):
        out += pick([c for c in full if bool(c["scn"]["boot"]) == boot], nfull // 2, rng)
    return out + pick(rest, budget - len(out), rng)


def pick_live_first(cases: list, budget: int, rng: random.Random) -> list:
    """For the restore-beside-a-live-process family (Gen_Workers focus restore): first one schedule of every class
    (scenario, who had the replaced database open at the moment of the restore - the creating context, a worker paused
    in the middle of its page work, an idle worker -, number of later first accesses while such a process was still
    open); what is left of the budget goes to the lifetime patterns of those and to the schedules without such a meeting."""
    if budget >= len(cases):
        return list(cases)
    groups: dict = {}
    for c in cases:
        if c["live"]:
            groups.setdefault((json.dumps(c["scn"], sort_keys=True), tuple(sorted(c["live"])), c["after"]), []).append(c)
    out = []
    for k in sorted(groups):
        if len(out) < budget:
            g = groups[k]
            out.append(g[rng.randrange(len(g))])
    chosen = {json.dumps(c["sched"]) for c in out}
    rest = [c for c in cases if json.dumps(c["sched"]) not in chosen]
    return out + pick(rest, budget - len(out), rng)


TLC_JOB = r"""
import json, sys
sys.path.insert(0, sys.argv[1])
import common
specs = json.loads(sys.argv[2])
out = []
for sp in specs:
    try:
        r = common.tlc(sp["module"], sp["cfg"], workers=sp.get("workers", 1), timeout=sp.get("timeout", 900), check=False)
        out.append({"name": sp["name"], "out": r.out, "rc": r.rc, "wall": r.wall})
    except Exception as e:
        out.append({"name": sp["name"], "error": repr(e)})
json.dump(out, open(sys.argv[3], "w"))
"""


class TlcJob:
    """TLC runs in a helper process while the parent does something else (results as TLCResult)."""

    def __init__(self, specs: list):
        import subprocess

        self.specs = specs
        self.dir = tempfile.mkdtemp(prefix="c20j-")
        self.outp = os.path.join(self.dir, "out.json")
        self.proc = subprocess.Popen([sys.executable, "-c", TLC_JOB, os.path.dirname(os.path.abspath(common.__file__)),
                                      json.dumps(specs), self.outp], stdout=subprocess.DEVNULL, stderr=subprocess.PIPE)

    def abandon(self) -> None:
        if self.proc.poll() is None:
            self.proc.kill()
            self.proc.wait()
        shutil.rmtree(self.dir, ignore_errors=True)

    def results(self) -> dict:
        try:
            _, err = self.proc.communicate(timeout=3600)
            if self.proc.returncode != 0:
                raise common.TLCError("TLC helper process failed: " + (err or b"").decode(errors="replace")[-800:])
            data = json.loads(Path(self.outp).read_text())
        finally:
            if self.proc.poll() is None:
                self.proc.kill()
            shutil.rmtree(self.dir, ignore_errors=True)
        res = {}
        for d in data:
            if "error" in d:
                raise common.TLCError(f"TLC helper: {d['name']}: {d['error']}")
            res[d["name"]] = common.TLCResult(d["out"], d["rc"], d["wall"])
        return res


def run(tier: str) -> int:
    o = Outcome(PID, tier)
    thorough = tier == "thorough"
    o.rule = (
        "G: a case = one TLC-generated schedule (sequence of (process, step)) of 2 workers (every start-up interleaving; every "
        "page-work interleaving; every placement of the close_db_conn of the workers and of a creating context that is open "
        "when they start, at most one worker at work at a time) or 3 workers (simulation), replayed on real processes; sampled by seed so that every "
        "(scenario, predicted outcome, lifetime pattern) class is covered; distinct = distinct (scenario, performed operation trace); "
        "J: Gen_Workers_prov(q): the same on databases of other provenance - restored from a backup that backup_db() of an earlier context of the real "
        "library wrote, rollback-journal files - and with a single long-lived reader (worker 1 or 2 keeps the get_all_pages() cursor) beside writers; "
        "classes in which a worker commits while another worker's cursor is open are sampled first; "
        "T: Gen_Workers_boot3: 3 workers that all look the bootstrap page up before the first of them writes it, every order of the three writes x every "
        "placement of every close_db_conn (a worker that has written stays open, idle, while the others write - or closes first), on a database without / "
        "with the bootstrap page; schedules in which the last writer meets two idle earlier writers are sampled first; with every operation the "
        "worker reports Connection.in_transaction of its connection (for a close: at the idle point before it), compared by TLC with the model's txn; "
        "S: Gen_Workers_restore: a restore WHILE ANOTHER LIVE PROCESS HAS THE DATABASE OPEN - the creating context wrote the backup with backup_db(), went on "
        "storing pages and is still open when the workers start, or it writes the backup (schedule step of process 0) at any moment while workers are open; "
        "workers start in index order while the earlier ones are paused in the middle of their page work (before the bootstrap write / after its commit), idle "
        "or closed; every placement of the backup and of every close_db_conn; one schedule per class (scenario, who had the replaced database open at the "
        "restore, number of later first accesses beside such a process) first; the unlink step of a restore reports which of <db>, <db>-wal, <db>-shm it removed "
        "and TLC replays the performed trace with the observed set of side files left in place; "
        "V: stress runs of 2..16 free workers (tight starts with contexts held open; staggered starts with contexts closing early), distinct by (n, scenario, outcome). Non-trivial = two workers' operations interleave."
    )
    o.assumptions = [
        "schedule points are the wrapped environment operations (Path.exists/unlink/rename/replace, sqlite3.connect, execute/executescript/commit); "
        "consecutive operations of one class (reads, unlinks, scripts) of a process form one step",
        "offline Lua: Module:ustring:ustring and Module:libraryUtil are pure-Lua stand-ins stored in the test database",
        "every context ends with close_db_conn; the creating context (scenarios drv) is present without a backup file, with the backup it wrote itself before "
        "the workers start (bak), or writing it while workers are open (bkd) - then not while a worker is inside create_db (between its look at the backup "
        "path and its first access)",
        "side files: the model keeps <db>-wal / <db>-shm per path with the database generation they belong to; a process that has the replaced database open "
        "has un-checkpointed frames in its log (true for a context that stored pages or committed the bootstrap page; the automatic checkpoint runs after 1000 pages)",
        "busy timeout of the library's connections left at the sqlite3 default (5 s)",
        "an idle context (page work over, not yet closed) may stay open longer than any busy timeout; a context inside a library call holds the write "
        "lock only for a short critical section (LockWait: up to 2 s)",
        "controlled replays follow the TLC schedule by process choice, but a context is closed only where the schedule closes it (lifetimes are part of the schedule)",
        "journal mode: the model keeps it per database file; a library-made file is WAL, a file may also arrive in rollback-journal mode (prov = rbj: "
        "fixture converted with PRAGMA journal_mode = DELETE); observed through the file header (bytes 18/19) after every start-up script",
    ]
    # ---- real runs first (the forking process must stay small) ------------------
    # schedules come from TLC, so generate them first but keep only what is needed
    rng = random.Random(common.seed() * 31 + 20)
    gens = []
    # TLC runs that need nothing from the real runs go to a helper process (joined in section M)
    side = [{"name": "Demo_Workers_rollback", "module": "MC_Workers", "cfg": "Demo_Workers_rollback.cfg", "workers": 4},
            # transactions: a write that is not committed before the call returns - the idle context keeps the write lock
            # (TLC: NoIdleTransaction fails), the third worker of the race is locked out (NoFailure fails); with two workers
            # nothing is observable; a holder without bound on its hold defeats the busy handler (LockWait)
            {"name": "Demo_Workers_idletxn", "module": "MC_Workers", "cfg": "Demo_Workers_idletxn.cfg", "workers": 4, "expect": "NoIdleTransaction"},
            {"name": "Demo_Workers_idletxn_locked", "module": "MC_Workers", "cfg": "Demo_Workers_idletxn_locked.cfg", "workers": 4},
            # side files: a restore that leaves <db>-shm of the replaced database while another live process has it mapped -
            # the restoring worker trusts an index without its log (TLC: "ioerr", NoFailure fails)
            {"name": "Demo_Workers_keepsshm", "module": "MC_Workers", "cfg": "Demo_Workers_keepsshm.cfg", "workers": 4}]
    if thorough:
        side += [{"name": "Demo_Workers_keepsshm_stale", "module": "MC_Workers", "cfg": "Demo_Workers_keepsshm_stale.cfg", "workers": 4, "expect": "NoStaleSideFile"},
                 {"name": "Demo_Workers_keepswal", "module": "MC_Workers", "cfg": "Demo_Workers_keepswal.cfg", "workers": 4},
                 {"name": "MC_keepsshm_database_closed_harmless_2", "module": "MC_Workers", "cfg": "MC_Workers_keepsshm_closed.cfg", "workers": 4},
                 {"name": "MC_skipped_commit_2_workers_invisible", "module": "MC_Workers", "cfg": "MC_Workers_skip_two.cfg", "workers": 4},
                 {"name": "Demo_LockWait_idle", "module": "LockWait", "cfg": "Demo_LockWait_idle.cfg", "workers": 1, "expect": "NeverLocked"},
                 {"name": "Demo_Workers_rollback_rbj", "module": "MC_Workers", "cfg": "Demo_Workers_rollback_rbj.cfg", "workers": 4},
                 {"name": "MC_dropsmode_alone_2", "module": "MC_Workers", "cfg": "MC_Workers_dropsmode_alone.cfg", "workers": 4},
                 {"name": "MC_creatoronly_libfiles_2", "module": "MC_Workers", "cfg": "MC_Workers_creatoronly_lib.cfg", "workers": 4},
                 {"name": "MC_ideal_3_all_provenances", "module": "MC_Workers", "cfg": "MC_Workers_ideal_T_P.cfg", "workers": 8},
                 {"name": "MC_ideal_3_bootcheck_never_hits_all_provenances", "module": "MC_Workers", "cfg": "MC_Workers_ideal_never_P.cfg", "workers": 8}]
    provcfg = "Gen_Workers_prov.cfg" if thorough else "Gen_Workers_provq.cfg"
    rescfg = "Gen_Workers_restore_all.cfg" if thorough else "Gen_Workers_restore.cfg"
    jobs = {"gen": TlcJob([{"name": provcfg[:-4], "module": "Gen_Workers", "cfg": provcfg, "workers": 1},
                           {"name": "Gen_Workers_boot3", "module": "Gen_Workers", "cfg": "Gen_Workers_boot3.cfg", "workers": 1}]),
            "gen2": TlcJob([{"name": "Gen_Workers_restore", "module": "Gen_Workers", "cfg": rescfg, "workers": 1}])}
    try:
        return _run(o, thorough, rng, gens, side, provcfg, jobs)
    finally:
        for j in jobs.values():   # only after a failure: helper processes still running, their scratch
            j.abandon()


def _run(o, thorough, rng, gens, side, provcfg, jobs):
    t_last = [time.monotonic()]

    n_regular = 0

    def phase(name):
        now = time.monotonic()
        o.extra.setdefault("phase_s", {})[name] = round(now - t_last[0], 1)
        t_last[0] = now

    for cfg, budget in (("Gen_Workers_startup.cfg", 9999 if thorough else 34), ("Gen_Workers_work.cfg", 9999 if thorough else 44),
                        ("Gen_Workers_life.cfg", 9999 if thorough else 40), ("Gen_Workers_life3.cfg", 600 if thorough else 0)):
        if not budget:
            continue
        r = tlc("Gen_Workers", cfg, workers=1, timeout=900)
        o.add_tlc(cfg[:-4], r)
        cases = r.cases
        o.extra.setdefault("generated_schedules", {})[cfg[:-4]] = len(cases)
        gens += pick(cases, budget, rng)
        del cases, r
    nsim = 800 if thorough else 14
    r = tlc("Gen_Workers", "Sim_Workers.cfg", workers=1, timeout=900,
            extra=["-simulate", f"num={nsim}", "-depth", "52", "-seed", str(common.seed() + 20)])
    sim = list({json.dumps(c["sched"]): c for c in r.cases}.values())
    o.extra["generated_schedules"]["Sim_Workers(3 workers)"] = len(sim)
    gens += sim
    del r
    gres = jobs.pop("gen").results()
    r = gres[provcfg[:-4]]
    if not r.ok:
        raise common.TLCError("TLC did not complete cleanly on Gen_Workers/" + provcfg + "\n" + r.out[-1500:])
    o.add_tlc(provcfg[:-4], r)
    cases = r.cases
    o.extra["generated_schedules"][provcfg[:-4]] = len(cases)
    o.extra["generated_schedules"][provcfg[:-4] + ": commit meets a foreign open cursor"] = sum(1 for c in cases if c["meet"])
    gens += pick_meet_first(cases, 9999 if thorough else 26, random.Random(common.seed() * 37 + 5))
    del cases, r
    # S: a restore while another live process has the database open (the creating context that wrote the backup; workers that
    # were open when it wrote it): who is attached to the replaced database x lifetimes x later openers
    rescfg = "Gen_Workers_restore_all.cfg" if thorough else "Gen_Workers_restore.cfg"
    r = jobs.pop("gen2").results()["Gen_Workers_restore"]
    if not r.ok:
        raise common.TLCError("TLC did not complete cleanly on Gen_Workers/" + rescfg + "\n" + r.out[-1500:])
    o.add_tlc("Gen_Workers_restore", r)
    cases = r.cases
    o.extra["generated_schedules"]["Gen_Workers_restore"] = len(cases)
    o.extra["generated_schedules"]["Gen_Workers_restore: the replaced database was open in another process"] = sum(1 for c in cases if c["live"])
    n_before = len(gens)
    gens += pick_live_first(cases, 400 if thorough else 24, random.Random(common.seed() * 43 + 11))
    del cases, r
    if thorough:   # three workers: the restoring one and the later openers beside paused / idle earlier workers (random walks)
        r = tlc("Gen_Workers", "Sim_Workers_restore.cfg", workers=1, timeout=900,
                extra=["-simulate", "num=150", "-depth", "46", "-seed", str(common.seed() + 27)])
        sim3 = list({json.dumps(c["sched"]): c for c in r.cases}.values())
        o.extra["generated_schedules"]["Sim_Workers_restore(3 workers)"] = len(sim3)
        gens += sim3
        del r
    o.extra["replayed_restore_live"] = sum(1 for c in gens[n_before:] if c["live"])
    # T: three workers race for the bootstrap write (all look the page up before the first write) x lifetimes:
    # every order of the writes, every placement of every close (a worker that has written stays open - idle - or not)
    r = gres["Gen_Workers_boot3"]
    if not r.ok:
        raise common.TLCError("TLC did not complete cleanly on Gen_Workers/Gen_Workers_boot3.cfg\n" + r.out[-1500:])
    o.add_tlc("Gen_Workers_boot3", r)
    cases = r.cases
    o.extra["generated_schedules"]["Gen_Workers_boot3(3 workers)"] = len(cases)
    o.extra["generated_schedules"]["Gen_Workers_boot3: last write meets two idle writers"] = sum(1 for c in cases if c["idlew"] and c["idlew"][-1] == 2)
    n_regular = len(gens)
    gens += pick_idle_first(cases, 9999 if thorough else 28, random.Random(common.seed() * 41 + 9))
    o.extra["replayed_boot3"] = len(gens) - n_regular
    del cases, r, gres
    jobs["side"] = TlcJob(side)
    phase("generate schedules (TLC)")
    common.use_repo()
    with Scratch("c20-") as root:
        scns = build_scenarios(root)
        o.extra["fixture_journal_modes"] = fixture_modes(scns)
        ref = serial_reference(scns, root)
        _G.update(scns=scns, ref=ref, root=str(root))
        phase("fixtures + serial references")
        # the model: backup_db() copies the file byte for byte (JmBak = mode of the source, a WAL database);
        # a single process opening the files leaves a WAL database whatever their provenance
        for k, d in sorted(scns.items()):
            if k[2] == "lib" and journal_mode_of(Path(d) / BAKNAME) != "wal":
                o.note_drift({"why": "the backup file written by backup_db() of the real library is not a WAL database (model: byte-for-byte copy "
                              "of a WAL database)", "scenario": list(k), "journal_mode": journal_mode_of(Path(d) / BAKNAME)})
            if ref[k]["jm"] != "wal":
                o.note_drift({"why": "a single context that opened the scenario files left the database in another journal mode than WAL "
                              "(model: every open (re-)establishes WAL)", "scenario": list(k), "journal_mode": ref[k]["jm"]})
        # the boot3 family is spread evenly over the list (pmap cuts it into contiguous chunks): on a tree that leaves a
        # transaction open each of these replays sits out one real busy timeout (5 s)
        todo = list(enumerate(gens))
        reg, b3 = todo[:n_regular], todo[n_regular:]
        if b3:
            every = max(1, len(reg) // len(b3))
            todo = []
            for i, it in enumerate(reg):
                todo.append(it)
                if (i + 1) % every == 0 and b3:
                    todo.append(b3.pop(0))
            todo += b3
        replays = pmap(replay_chunk, todo, nproc=8)
        slow = sorted((rp for rp in replays if "secs" in rp), key=lambda rp: -rp["secs"])[:3]
        o.extra["slowest_replays"] = [{"secs": rp["secs"], "scn": gens[rp["cid"]]["scn"], "workers": len(gens[rp["cid"]]["res"]), "real": rp["real"],
                                       "slow_steps": [e for e in rp["trace"] if e.get("secs", 0) > 2][:4]} for rp in slow]
        o.extra["replay_seconds_total"] = round(sum(rp.get("secs", 0) for rp in replays), 1)
        phase("schedule replays")
        # stress: 2..16 free-running workers
        nstress = 200 if thorough else 10
        srng = random.Random(common.seed() * 17 + 3)
        plan = []
        for sid in range(nstress):
            n = [2, 3, 4, 6, 8, 12, 16][sid % 7] if sid < 14 else srng.randint(2, 16)
            plan.append((sid, n, srng.random() < 0.5, srng.random() < 0.4, srng.random() < 0.4, "hold", False))
        # lifetimes: contexts (the creating one included) close while others work, others open later
        lrng = random.Random(common.seed() * 19 + 5)
        for k in range(60 if thorough else 4):
            n = [3, 4, 6, 8][k % 4] if k < 8 else lrng.randint(2, 16)
            plan.append((10000 + k, n, False, lrng.random() < 0.4, lrng.random() < 0.3, "mixed", k % 4 != 3))
        # provenance: free-running workers on a restored backup_db() backup / on rollback-journal files, one long-lived reader
        prng = random.Random(common.seed() * 23 + 7)
        for k in range(40 if thorough else 2):
            n = [2, 4][k % 2] if k < 2 else prng.randint(2, 12)
            prov = "lib" if k % 2 == 0 else "rbj"
            plan.append((20000 + k, n, prov == "lib" or prng.random() < 0.5, prng.random() < 0.4, True, "hold", False, prov, prng.randint(1, min(n, 2))))
        # restore beside a live process, free-running: the creating context wrote the backup and is still open; worker 1 restores,
        # the others open the restored database while the creating context lives on its replaced file
        qrng = random.Random(common.seed() * 29 + 13)
        for k in range(12 if thorough else 1):
            n = 4 if k == 0 else qrng.randint(2, 10)
            plan.append((30000 + k, n, True, qrng.random() < 0.4, False, "restore", True, "lib", 0))
        stress = pmap(stress_chunk, plan, nproc=3, chunk=1)
        phase("stress runs")
        # ---- contended first write (spec/LockWait.tla): the waiting worker must get the lock
        lw = tlc("LockWait", "MC_LockWait.cfg", workers=1)
        o.add_tlc("MC_LockWait (NeverLocked, EventuallyWrites)", lw)
        dlw = tlc("LockWait", "Demo_LockWait_short.cfg", workers=1, check=False)
        if not dlw.invariant_violated:
            raise common.TLCError("Demo_LockWait_short lost its counterexample")
        holds = sorted({int(l.split(",")[1].strip(" >")) for l in lw.out.splitlines() if l.startswith('<<"CASE"')})
        chosen = [h for h in holds if h in ((3, 12, 20) if thorough else (3, 12))]
        key = (False, False, "built")
        for hold in chosen:
            rngc = random.Random(common.seed() * 13 + hold)
            orders = [rngc.sample(titles(), NPAGES) for _ in range(2)]
            try:
                finals, store = run_contended(scns[key], Path(root) / f"cont{hold}", orders, hold, hold / 10.0)
            except RuntimeError as e:
                o.note_drift({"contended": hold, "why": str(e)})
                continue
            o.evaluations += 1
            o.traces += 1
            real = [classify_worker(f, ref[key]["results"], od) for f, od in zip(finals, orders)]
            o.shape(("contended", hold, tuple(real)))
            if any(x != "ok" for x in real) or not store_ok(store, ref[key]):
                o.violation({"kind": "contended-write", "hold_s": hold / 10.0, "real": real, "excs": [f and f["exc"] for f in finals]},
                            f"worker 2 attempted its first write while worker 1 held the write lock for {hold / 10.0:.1f} s: outcome {real} (a waiting writer must get the lock: LockWait.NeverLocked)",
                            cls="contended-write")
    phase("contended write")
    # ---- M ------------------------------------------------------------------------
    r = tlc("MC_Workers", "MC_Workers_ideal.cfg", workers=16, timeout=900, coverage=True)
    o.add_tlc("MC_ideal_2", r)
    cov = {k: v[1] for k, v in r.coverage_actions().items()}
    r = tlc("MC_Workers", "MC_Workers_ideal_T.cfg", workers=16, timeout=900)
    o.add_tlc("MC_ideal_3", r)
    r = tlc("MC_Workers", "MC_Workers_ideal_never.cfg", workers=16, timeout=900)
    o.add_tlc("MC_ideal_3_bootcheck_never_hits", r)
    r = tlc("MC_Workers", "MC_Workers_asis_safe.cfg", workers=16, timeout=900)
    o.add_tlc("MC_asis_safe_3", r)
    for demo in ("Demo_Workers_restorerace.cfg", "Demo_Workers_bootsnapshot.cfg", "Demo_Workers_closetidy.cfg"):
        d = tlc("MC_Workers", demo, workers=4, check=False)
        o.add_tlc(demo[:-4], d)
        o.extra.setdefault("demo_counterexample_found", {})[demo[:-4]] = bool(d.invariant_violated)
        if not d.invariant_violated:
            raise common.TLCError(f"{demo} no longer shows the counterexample (vacuity guard)")
    # journal mode: counterexamples of the hypothetical deviations, and each half alone is harmless on library-made files
    sres = jobs.pop("side").results()
    for name, d in sres.items():
        o.add_tlc(name, d)
        if name.startswith("Demo_"):
            o.extra["demo_counterexample_found"][name] = bool(d.invariant_violated)
            want = next((sp.get("expect", "NoFailure") for sp in side if sp["name"] == name), "NoFailure")
            if want not in d.invariant_violated:
                raise common.TLCError(f"{name} no longer shows the counterexample (vacuity guard: {want})")
        elif not d.ok:
            raise common.TLCError(f"TLC did not complete cleanly on {name}\n" + d.out[-1500:])
    d = tlc("MC_Workers", "Demo_Workers_restorerace.cfg", workers=4, check=False, coverage=True, extra=["-continue"])
    for a in ("Unlink", "Rename"):  # these steps exist only in the check-then-act design
        cov[a] = d.coverage_actions().get(a, (0, 0))[1]
    o.extra["action_coverage"] = cov
    never = [a for a, n in cov.items() if n == 0]
    if never:
        o.extra["vacuity_warning"] = never
    phase("model checking + demos (TLC)")
    # ---- V: validate every performed trace ---------------------------------------
    items = []
    for rp in replays:
        if "error" in rp:
            raise RuntimeError("replay failed: " + rp["error"])
        case = gens[rp["cid"]]
        items.append({"tid": len(items) + 1, "scn": case["scn"], "n": len(case["res"]), "events": clean_events(rp["trace"]),
                      "real": rp["real"]})
    nrep = len(items)
    for st in stress:
        if "error" in st:
            raise RuntimeError("stress run failed: " + st["error"])
        items.append({"tid": len(items) + 1, "scn": st["scn"], "n": st["n"], "events": clean_events(st["trace"]), "real": st["real"]})
    verdicts = validate_traces(o, items, "Trace_Workers")
    o.traces += len(items)
    # ---- judge ------------------------------------------------------------------
    stats = {"replay_ok": 0, "replay_bad": 0, "stress_ok": 0, "stress_bad": 0, "diverged_replays": 0, "trace_mismatch": 0, "stress_rbj_drift": 0}
    for i, rp in enumerate(replays):
        case = gens[rp["cid"]]
        v = verdicts[i + 1]
        cj = {"kind": "G", "scn": case["scn"], "workers": len(case["res"]), "sched": [[e["p"], e["l"]] for e in case["sched"]],
              "orders": rp["orders"], "store": rp["store"], "excs": rp["excs"], "drv_exc": rp["drv_exc"], "jm_final": rp["jm_final"], "performed": clean_events(rp["trace"])}
        res = judge(o, cj, rp["real"], rp["store_ok"], case, v)
        stats["replay_" + res] += 1
        if rp["diverged"]:
            stats["diverged_replays"] += 1
            held = [e for e in rp["trace"] if e.get("waited_for")]
            o.note_drift({"why": "the real processes did not follow the model's step sequence"
                          + ("; a worker kept its write transaction open across further operations inside the library call (model: the write is "
                             "immediately followed by the commit) - the other writer waited for it" if held else ""),
                          "scn": case["scn"], "unexpected": [e for e in rp["trace"] if e.get("unexpected")][:3],
                          "writes_that_waited": [{"writer": e["p"], "holders": e["waited_for"], "result": e["r"]} for e in held][:3],
                          "steps_beyond_schedule": rp["diverged"]})
        if v["bad"]:
            stats["trace_mismatch"] += 1
            o.note_drift({"why": "performed operation trace is not a behaviour of the model", "scn": case["scn"], "first": v["bad"][:2]})
        o.shape(("G", json.dumps(case["scn"], sort_keys=True), json.dumps(clean_events(rp["trace"]))))
    # free-running traces whose failure the strict linearisation does not explain: let TLC
    # search over every order compatible with the recorded operation intervals
    retry = []
    for j, st in enumerate(stress):
        holds = all(r == "ok" for r in st["real"]) and st["store_ok"]
        if not holds and not explained_by(verdicts[nrep + j + 1]):
            retry.append({"tid": len(retry) + 1, "scn": st["scn"], "n": st["n"], "events": clean_events(st["trace"], relaxed=True), "real": st["real"], "j": j})
    if retry:
        o.extra["stress_traces_revalidated_with_full_intervals"] = len(retry)
        try:
            rv = validate_traces(o, retry, "Trace_Workers_relaxed", timeout=300 if thorough else 45)
            for it in retry:
                verdicts[nrep + it["j"] + 1] = rv[it["tid"]]
        except common.TLCError as e:  # search too large: keep the strict verdicts
            o.extra["stress_revalidation_failed"] = str(e)[:200]
    for j, st in enumerate(stress):
        v = verdicts[nrep + j + 1]
        cj = {"kind": "V-stress", "scn": st["scn"], "workers": st["n"], "seed_id": st["sid"], "life": st["life"], "store": st["store"],
              "excs": st["excs"], "drv_exc": st["drv_exc"], "jm_final": st["jm_final"], "real": st["real"]}
        # free-running: the linearisation is approximate; use it only to explain failures
        if st["scn"].get("prov") == "rbj" and any(x != "ok" for x in st["real"]) and st["store_ok"]:
            # Files brought to the path in rollback-journal mode by other means are outside the statement (a database the
            # library makes is a WAL database).  Free-running start-ups on such a file race for the exclusive lock the mode
            # switch needs, and SQLite answers the loser "locked" at once (deadlock avoidance, no busy wait): seen on the
            # unchanged tree in 1 of ~10 runs.  The deterministic replays keep the rbj scenarios (one start-up at a time).
            o.note_drift({"why": "free-running start-up on rollback-journal files (outside the statement): a worker failed",
                          "n": st["n"], "real": st["real"], "excs": st["excs"]})
            stats["stress_rbj_drift"] += 1
            continue
        res = judge(o, cj, st["real"], st["store_ok"], None, v, events=clean_events(st["trace"]))
        stats["stress_" + res] += 1
        if v["bad"] and res == "ok":
            o.note_drift({"why": "linearised stress trace is not a behaviour of the model (approximate linearisation)", "n": st["n"], "first": v["bad"][:2]})
        o.shape(("V", st["n"], json.dumps(st["scn"], sort_keys=True), st["life"], tuple(sorted(set(st["real"]))), st["store_ok"]))
    o.extra["judged"] = stats
    phase("trace validation (TLC) + judging")
    o.extra["stress_workers"] = sorted({st["n"] for st in stress})
    if replays:
        rp = replays[0]
        o.sample({"schedule": [[e["p"], e["l"]] for e in gens[rp["cid"]]["sched"]][:12], "performed": clean_events(rp["trace"])[:12], "real": rp["real"]})
    bad = [rp for rp in replays if any(x != "ok" for x in rp["real"])]
    if bad:
        rp = bad[0]
        o.sample({"scn": gens[rp["cid"]]["scn"], "performed": clean_events(rp["trace"]), "real": rp["real"], "store": rp["store"]})
    if stress:
        st = stress[-1]
        o.sample({"stress_workers": st["n"], "scn": st["scn"], "real": st["real"], "store_ok": st["store_ok"]})
    if thorough:  # inductive invariants of the design (Apalache; harness/apalache.py)
        import apalache
        common.with_engine(o, "inductive", lambda: apalache.extend(o, "thorough", PID))
    return o.finish()


# ---------------------------------------------------------------------------
def replay(path: str) -> int:
    v = json.loads(Path(path).read_text())
    case = v["case"]
    print("why:", v["why"])
    common.use_repo()
    with Scratch("c20r-") as root:
        scns = build_scenarios(root)
        ref = serial_reference(scns, root)
        key = scn_key(case["scn"])
        if case["kind"] == "G":
            sched = [(p, l) for p, l in case["sched"]]
            trace, finals, store, diverged = run_controlled(scns[key], root / "d", case["workers"], sched, case["orders"], cursors_of(case["scn"], case["workers"]), 1,
                                                            drv=drv_of(case["scn"]))
            real = [classify_worker(f, ref[key]["results"], o_) for f, o_ in zip(finals, case["orders"])]
            for e in trace:
                print("  ", e)
        else:
            n = case["workers"]
            orders, offsets, lives, drvp = stress_params(case["seed_id"], n, key[1], case.get("life", "hold"), bool(case["scn"].get("drv")))
            trace, finals, store = run_free(scns[key], root / "d", n, orders, cursors_of(case["scn"], n), case["seed_id"], offsets, lives=lives, drv=drvp)
            real = [classify_worker(f, ref[key]["results"], o_) for f, o_ in zip(finals, orders)]
        print("workers:", real, "exceptions:", [f and f["exc"] for f in finals], "creating context:", finals.drv_exc)
        print("store unchanged:", store_ok(store, ref[key]), None if store is None else store["integrity"],
              "; journal mode of the file at the path:", journal_mode_of(root / "d" / DBNAME) or "-",
              "; after the start-up scripts:", [(e["p"], e.get("jm")) for e in trace if e["cls"] == "script"])
        return 1 if any(r != "ok" for r in real) or not store_ok(store, ref[key]) or finals.drv_exc else 0


def selftest() -> int:
    """Binding demo: a recorded operation result is corrupted -> TLC rejects the trace;
    a corrupted worker result -> judged a violation."""
    o = Outcome(PID, "quick")
    r = tlc("Gen_Workers", "Gen_Workers_startup.cfg", workers=1)
    case = next(c for c in r.cases if c["scn"]["bak"] and not c["raced"])
    common.use_repo()
    with Scratch("c20s-") as root:
        scns = build_scenarios(root)
        ref = serial_reference(scns, root)
        _G.update(scns=scns, ref=ref, root=str(root))
        rp = replay_chunk([(0, case)])[0]
        lr = tlc("Gen_Workers", "Gen_Workers_life.cfg", workers=1)
        lcase = next(c for c in lr.cases if c["scn"]["drv"] and c["life"]["lateD"] and not c["scn"]["cursor"])
        lrp = replay_chunk([(1, lcase)])[0]
        br = tlc("Gen_Workers", "Gen_Workers_boot3.cfg", workers=1)
        bcase = next(c for c in br.cases if not c["scn"]["boot"] and c["idlew"][-1] == 2)
        brp = replay_chunk([(2, bcase)])[0]
        sr = tlc("Gen_Workers", "Gen_Workers_restore.cfg", workers=1)
        scase = next(c for c in sr.cases if c["scn"]["bak"] and c["live"] == ["D"] and c["after"] == 2)
        srp = replay_chunk([(3, scase)])[0]
    ev = clean_events(rp["trace"])
    item = {"tid": 1, "scn": case["scn"], "n": 2, "events": ev, "real": rp["real"]}
    good = validate_traces(o, [item], "st")[1]
    bad_ev = json.loads(json.dumps(ev))
    k = next(i for i, e in enumerate(bad_ev) if e["cls"] == "exists" and e["r"] == "yes")
    bad_ev[k]["r"] = "no"
    bad = validate_traces(o, [dict(item, events=bad_ev)], "st_bad")[1]
    print("performed trace:", ev[:6], "...")
    print("unmodified trace: mismatches =", len(good["bad"]), "; with one exists() result flipped:", len(bad["bad"]), bad["bad"][:1])
    o2 = Outcome(PID, "quick")
    res_ok = judge(o2, {"kind": "G"}, rp["real"], rp["store_ok"], case, good)
    res_bad = judge(o2, {"kind": "G"}, ["ok", "missing"], rp["store_ok"], case, good)
    print("real outcome judged:", res_ok, "; corrupted worker result judged:", res_bad, "(violations:", len(o2.violations), ")")
    # lifetimes: the close of the creating context while a worker is open, a later worker after it
    lev = clean_events(lrp["trace"])
    litem = {"tid": 1, "scn": lcase["scn"], "n": 2, "events": lev, "real": lrp["real"]}
    lgood = validate_traces(o, [litem], "st_life")[1]
    lbad_ev = json.loads(json.dumps(lev))
    k = next(i for i, e in enumerate(lbad_ev) if e["cls"] == "close" and e["p"] == 0)
    lbad_ev[k]["r"] = "touch:unlink:wal"
    lbad = validate_traces(o, [dict(litem, events=lbad_ev)], "st_life_bad")[1]
    print("lifetime schedule:", [[e["p"], e["l"]] for e in lcase["sched"]])
    print("performed:", [(e["p"], e["cls"], e["r"]) for e in lev], "real:", lrp["real"], "store ok:", lrp["store_ok"])
    print("unmodified: mismatches =", len(lgood["bad"]), "; close of the creating context reported to remove a side file:", lbad["bad"][:1])
    life_ok = not lgood["bad"] and lbad["bad"] and lbad["bad"][0]["cls"] == "close" and all(x == "ok" for x in lrp["real"]) and lrp["store_ok"]
    # transactions: three workers race for the bootstrap write, the earlier writers stay open (idle) while the last one
    # writes; the transaction state reported with every operation agrees with the model; one idle point reported as
    # "inside a transaction" -> TLC lists the difference, the judge reports the idle context (DRIFT by itself)
    bev = clean_events(brp["trace"])
    bitem = {"tid": 1, "scn": bcase["scn"], "n": 3, "events": bev, "real": brp["real"]}
    bgood = validate_traces(o, [bitem], "st_boot3")[1]
    bbad_ev = json.loads(json.dumps(bev))
    k = next(i for i, e in enumerate(bbad_ev) if e["cls"] == "close" and e["p"] == 2)
    bbad_ev[k]["tx"] = "y"
    bbad = validate_traces(o, [dict(bitem, events=bbad_ev)], "st_boot3_bad")[1]
    o3 = Outcome(PID, "quick")
    judge(o3, {"kind": "G", "performed": bbad_ev}, brp["real"], brp["store_ok"], bcase, bbad)
    print("boot3 schedule:", [[e["p"], e["l"]] for e in bcase["sched"]][9:])
    print("performed (p, op, result, in_transaction):", [(e["p"], e["cls"], e["r"], e["tx"]) for e in bev][9:], "real:", brp["real"])
    print("unmodified: mismatches =", len(bgood["bad"]), "transaction-state differences =", len(tx_obs(bgood)),
          "; idle point of worker 2 reported inside a transaction:", tx_obs(bbad)[:1], "; judged: drift =", o3.drift_count, "violations =", len(o3.violations))
    tx_ok = (not bgood["bad"] and not tx_obs(bgood) and all(x == "ok" for x in brp["real"]) and any(e["tx"] == "y" for e in bev)
             and [b["k"] for b in tx_obs(bbad)] == ["idle"] and o3.drift_count >= 1 and not o3.violations)
    # side files: a restore while the creating context (it wrote the backup) has the replaced database open; the performed trace of
    # the real library (both side files removed) is a behaviour of the model; the same trace with the unlink step reported as
    # having left <db>-shm -> TLC: the first access that follows trusts an index without its log (model: ioerr, recorded: ok)
    sev = clean_events(srp["trace"])
    sitem = {"tid": 1, "scn": scase["scn"], "n": 2, "events": sev, "real": srp["real"]}
    sgood = validate_traces(o, [sitem], "st_restore")[1]
    sbad_ev = json.loads(json.dumps(sev))
    k = next(i for i, e in enumerate(sbad_ev) if e["cls"] == "unlink")
    sbad_ev[k]["ks"] = True
    sbad = validate_traces(o, [dict(sitem, events=sbad_ev)], "st_restore_bad")[1]
    print("restore beside the open creating context:", [[e["p"], e["l"]] for e in scase["sched"]][:8], "... who had the replaced database open:", scase["live"])
    print("performed:", [(e["p"], e["cls"], e["r"]) + ((e.get("rm"),) if e["cls"] == "unlink" else ()) for e in srp["trace"]][:8], "real:", srp["real"], "store ok:", srp["store_ok"])
    print("unmodified: mismatches =", len(sgood["bad"]), "model:", sgood["live"], sgood["stale"], "; unlink step reported to leave <db>-shm:",
          [(b["cls"], b["r"], b["why"], b["expected"]) for b in sbad["bad"][:2]], "model stale =", sbad["stale"], "res =", sbad["res"])
    side_ok = (not sgood["bad"] and sgood["stale"] == "none" and "D" in sgood["live"] and all(x == "ok" for x in srp["real"]) and srp["store_ok"]
               and len(sbad["bad"]) >= 2 and sbad["bad"][0]["cls"] == "unlink" and sbad["bad"][0]["kept"] == ["shm"] and sbad["stale"] == "shm"
               and any(b["cls"] == "script" and b["expected"] == "ioerr" for b in sbad["bad"]))
    return 0 if (not good["bad"] and bad["bad"] and res_ok == "ok" and res_bad == "bad" and o2.violations and life_ok and tx_ok and side_ok) else 1
