"""C18 — parser functions compute their documented values.

Three specifications (spec/Expr.tla, spec/StrFns.tla, spec/FormatNum.tla), each
bound to the real code through `Wtp.expand('{{fn:...}}')`.

#expr
  M  MC_Expr (trees): for every operator pair in both association shapes, every
     unary/binary interaction and the prefix chains, the transcription of the
     code's generic_binary ladder AND the documented operator-precedence
     evaluation both compute Fold(tree) from the minimal and from the full
     parenthesisation.  MC_Expr (soups): on every token sequence up to the bound
     the ladder accepts exactly the documented language and computes the same.
     MC_Expr (tokenizer): every pair of lexemes, in lower or upper case, with any
     blanks between them (or none, unless they would merge) is lexed as itself.
     Demo_Expr_asis: with the as-is behaviours switched on TLC finds the
     counterexample.
  G  Gen_Expr: every tree with TLC's value; each is rendered (min/full x
     spaced/tight/upper-case+irregular blanks) and evaluated by the real code.
     Gen_Expr_ties also enumerates the family "spell": one number written in several ways
     (leading zeros, a fraction of zeros, a bare point; bare, signed, under operators);
     TLC checks that the value does not depend on the spelling, the real code evaluates
     every tree in the 5 renderings and as the number of plural (written tight, with
     blanks, parenthesised, as a template argument, produced by padleft, other digits).
  V  random trees to depth 5 -> TLC renders them (Gen_Expr FileSpec) -> the real
     code evaluates -> (tokens, observed) batches are validated by Trace_Expr.
string functions
  M  MC_StrFns: laws of the reference definitions; the transcription of
     titleparts_fn with all deviations off equals the reference; Demo_* show the
     as-is deviations.
  G  Gen_StrFns: all strings x offsets x search terms with the reference result; integer
     parameters (and the number of plural) also written as non-canonical numerals
     (StrFns!IntArg reads them: leading zeros / blanks are in the statement, "+", ".0",
     "e0" are outside the documentation -> drift).
  V  random calls over a wider alphabet validated by Trace_StrFns (every 5th integer
     parameter written with leading zeros / blanks, plural of such numerals).
formatnum
  M  MC_FormatNum: Reverse(Format(n)) = n for all numerals of the bound and all
     shapes; Demo_FormatNum_asis shows the as-is counterexample.
  G  Gen_FormatNum over the shapes read from the shipped localization.json files.
  V  random 1..12 digit numerals per shape validated by Trace_FormatNum.
"""
from __future__ import annotations

import json
import random
import re
from collections import Counter, defaultdict
from pathlib import Path

import common
import pfcommon
from common import Outcome, Scratch, pmap
from pfcommon import tlc

PID = "C18"

# ---------------------------------------------------------------------------
# #expr
# ---------------------------------------------------------------------------
STYLES = [("min", "spaced"), ("min", "tight"), ("min", "loud"), ("full", "spaced"), ("full", "tight")]


def expr_text(tokens, style):
    return "{{#expr:" + pfcommon.render(tokens, style) + "}}"


def _eval_trees(cases):
    out = []
    with pfcommon.Ctx() as c:
        for case in cases:
            obs = []
            for which, sty in STYLES:
                k, o = c.run(expr_text(case[which], sty))
                a = pfcommon.abstract_expr_output(k, o)
                obs.append(a)
            out.append(obs)
    return out


def _expr_cls(toks, real):
    if real["kind"] == "exc":
        return "expr-exception-" + real["txt"].split(":")[0]
    if "mod" in toks:
        return "expr-mod"
    if "round" in toks:
        return "expr-round"
    if real["kind"] == "err":
        return "expr-rejected"
    return "expr-value"


def judge_tree(case, obs):
    """-> (verdict, why) with verdict in ok | violation | drift | exc-on-error."""
    e = case["exp"]
    first = obs[0]
    texts = {(a["kind"], a["txt"]) for a in obs}
    if e["kind"] == "val":
        kinds = {a["kind"] for a in obs}
        if len(kinds) > 1 or (kinds == {"val"} and len(texts) > 1):
            shown = sorted(texts)[:3]
            return ("violation", f"the result depends on parenthesisation/spacing/letter case: {shown}")
        if first["kind"] == "exc":
            return ("violation", f"well-formed expression raised {first['txt']}")
        if first["kind"] == "err":
            if e["rk"]:
                return ("drift", f"error {first['txt']!r} where the model predicts a value it knows only roughly")
            want = (f"{e['n']}/{e['d']}" if e["d"] != 1 else str(e["n"])) if e["ex"] else "(inexact)"
            return ("violation", f"well-formed expression with value {want} gave {first['txt']!r}")
        if e["ex"] and not pfcommon.value_matches(first["frac"], e["n"], e["d"]):
            want = f"{e['n']}/{e['d']}" if e["d"] != 1 else str(e["n"])
            why = f"value {first['txt']} but the documented semantics give {want}"
            if e["d"] != 1:
                why += f" (= {pfcommon.decimal_text(e['n'], e['d'])})"
            if "round-tie-decimal-only" in case.get("ties", ()):
                why += ("; the left operand of `round` is exactly on a rounding tie as a decimal numeral but has no exact binary "
                        "representation: `round` must round the number as written, half away from zero, not the binary "
                        "expansion of the float that stores it")
            elif "round-tie-exact-in-binary" in case.get("ties", ()):
                why += "; the left operand of `round` is exactly on a rounding tie: documented is half away from zero"
            return ("violation", why)
        return ("ok", "")
    # the model predicts an in-band error (division by zero, domain, overflow)
    if first["kind"] == "exc":
        return ("exc-on-error", first["txt"])
    if first["kind"] == "val":
        return ("drift", f"value {first['txt']} where the model predicts error '{e['what']}'")
    return ("ok", "")


def run_tree_cases(o: Outcome, cases, tag):
    res = pmap(_eval_trees, cases)
    n_exc_err = Counter()
    trace_events = []
    for case, obs in zip(cases, res):
        o.evaluations += len(obs)
        ops = tuple(t for t in case["min"] if not (t[0].isdigit() or t[0] == "." or t in "()"))
        o.shape(("expr", ops, case["exp"]["kind"]))
        v, why = judge_tree(case, obs)
        if v == "violation":
            real = obs[0] if len({(a["kind"], a["txt"]) for a in obs}) == 1 else next(
                (a for a in obs if a["kind"] != "val"), obs[0])
            o.violation(
                {"kind": "G-expr", "gen": tag, "min": case["min"], "full": case["full"], "expected": case["exp"],
                 "wikitext": expr_text(case["min"], "spaced"),
                 "observed": [[a["kind"], a["txt"]] for a in obs]},
                f"#expr {' '.join(case['min'])}: {why}",
                cls=_expr_cls(case["min"], real),
            )
        elif v == "drift":
            o.note_drift({"expr": " ".join(case["min"]), "why": why})
        elif v == "exc-on-error":
            n_exc_err[why.split(":")[0]] += 1
        for (which, sty), a in zip(STYLES[:1] + STYLES[3:4], [obs[0], obs[3]]):
            trace_events.append((case[which], a))
    if n_exc_err:
        o.extra.setdefault("exceptions_where_the_model_demands_an_in_band_error(see C05)", Counter()).update(n_exc_err)
    return trace_events


# ---- the `round` universe (Gen_Expr_ties_*): the value, and what the value selects ----
CARRIERS = [("plural", "{{plural: %s |one|many}}", "one", "many"), ("#ifexpr", "{{#ifexpr: %s |yes|no}}", "yes", "no")]


def _eval_carriers(cases):
    out = []
    with pfcommon.Ctx() as c:
        for case in cases:
            e = pfcommon.render(case["min"], "spaced")
            out.append([c.run(fmt % e) for _, fmt, _, _ in CARRIERS])
    return out


def run_tie_cases(o: Outcome, cases):
    """Trees of the family "ties": value under the 5 renderings (as every tree), then the
    same expression as the number of plural (in the statement: VIOLATION) and as the
    condition of #ifexpr (not named in the statement: DRIFT)."""
    events = run_tree_cases(o, cases, "round-ties")
    kinds = Counter()
    for c in cases:
        for k in c["ties"]:
            kinds[k + ("" if c["exp"]["kind"] == "val" and c["exp"]["ex"] else " (value not decided)")] += 1
    o.extra["round_universe"] = {"trees": len(cases), **dict(kinds)}
    if kinds["round-tie-decimal-only"] < 100 or kinds["round-tie-exact-in-binary"] < 20 or kinds["round-no-tie"] < 100:
        raise common.TLCError(f"Gen_Expr_ties: the universe lost its decided ties (vacuity guard): {dict(kinds)}")
    sel = [c for c in cases if c["exp"]["kind"] == "val" and (c["one"] != "u" or c["truth"] != "u")]
    res = pmap(_eval_carriers, sel)
    n_nonint = 0
    for case, obs in zip(sel, res):
        want = {"plural": None if case["one"] == "u" else ("one" if case["one"] == "eq" else "many"),
                "#ifexpr": None if case["truth"] == "u" else ("yes" if case["truth"] == "t" else "no")}
        e = case["exp"]
        val = pfcommon.decimal_text(e["n"], e["d"]) if e["ex"] else "(inexact)"
        for (name, fmt, _, _), (k, out) in zip(CARRIERS, obs):
            if want[name] is None:
                continue
            o.evaluations += 1
            o.shape(("expr-carrier", name, want[name], tuple(sorted(case["ties"]))))
            if k == "ok" and out.strip() == want[name]:
                continue
            wt = fmt % pfcommon.render(case["min"], "spaced")
            rec = {"kind": "G-expr-carrier", "gen": "round-ties", "fn": name, "min": case["min"], "wikitext": wt,
                   "expected": want[name], "value": val, "ties": case["ties"], "observed": out if k == "ok" else "EXC " + out}
            why = (f"{wt} selected {out!r}; the number is {val}, so the documented selection is {want[name]!r}"
                   + ("; (the expression rounds a decimal tie that has no exact binary representation: round decides on the "
                      "number as written, half away from zero)" if "round-tie-decimal-only" in case["ties"] else ""))
            if k != "ok":
                o.violation(rec, f"{wt} raised {out}", cls=f"{name}-exception")
            elif name == "plural":
                o.violation(rec, why, cls="plural-of-expr")
            elif e["ex"] and e["d"] != 1 and out.strip() == "no":
                # ifexpr_fn takes int() of the printed value: every non-integer value counts as false
                # (MediaWiki: non-zero is true).  #ifexpr is not named in the statement: one aggregated DRIFT item
                n_nonint += 1
            else:
                o.note_drift({"call": wt, "model": want[name], "code": out, "note": "#ifexpr is not named in the statement"})
    if n_nonint:
        o.extra["ifexpr_noninteger_value_taken_as_false"] = n_nonint
        o.note_drift({"call": "{{#ifexpr: 2.5 |yes|no}}", "model": "yes", "code": "no", "cases": n_nonint,
                      "note": "#ifexpr (not named in the statement) takes every non-integer value as false"})
    return events


# ---- numeral spellings (Gen_Expr family "spell"): one number written in several ways ----
SCRIPTS = [("arabic-indic", "\u0660\u0661\u0662\u0663\u0664\u0665\u0666\u0667\u0668\u0669"),
           ("devanagari", "\u0966\u0967\u0968\u0969\u096a\u096b\u096c\u096d\u096e\u096f"),
           ("fullwidth", "\uff10\uff11\uff12\uff13\uff14\uff15\uff16\uff17\uff18\uff19")]
COUNT_TEMPLATE = ("c18count", "{{plural:{{{1}}}|one|many}}")
SPELL_WORDS = {"leading-zeros": "leading zeros", "trailing-fraction-zeros": "a fraction that ends in zeros",
               "bare-trailing-point": "a bare trailing point", "no-integer-part": "no integer part"}


def spell_routes(case, i):
    """The texts through which the expression reaches plural: [(route, wikitext, in the statement?, producer)].
    producer = (wikitext, text it must produce) when the numeral is not written but produced by another function."""
    mn, fl = case["min"], case["full"]
    tight = pfcommon.render(mn, "tight")
    P = "{{plural:%s|one|many}}"
    routes = [("tight", P % tight, True, None), ("blanks", "{{plural: \n %s  |one|many}}" % pfcommon.render(mn, "spaced"), True, None)]
    name, digits = SCRIPTS[i % len(SCRIPTS)]
    rest = [("full-parentheses", P % pfcommon.render(fl, "tight"), True, None),
            ("template-argument", "{{%s|1=%s}}" % (COUNT_TEMPLATE[0], tight), True, None),
            # digits of another script: the documentation does not say that they are digits (DRIFT only)
            ("digits:" + name, P % tight.translate({ord("0") + k: digits[k] for k in range(10)}), False, None)]
    routes += rest if len(mn) <= 2 else [rest[i % 3]]
    if len(mn) == 1 and mn[0].isdigit() and mn[0][0] == "0" and len(mn[0]) > 1:
        # the same text as it comes out of padleft (a count padded to a width)
        prod = "{{padleft:%s|%d}}" % (mn[0].lstrip("0") or "0", len(mn[0]))
        routes.append(("produced-by-padleft", P % prod, True, (prod, mn[0])))
    return routes


def _eval_spell(jobs):
    out = []
    with pfcommon.Ctx() as c:
        c.wtp.add_page("Template:" + COUNT_TEMPLATE[0], 10, COUNT_TEMPLATE[1])
        for routes in jobs:
            res = []
            for _, wt, _, prod in routes:
                if prod is not None and c.run(prod[0]) != ("ok", prod[1]):
                    res.append(("skip", ""))      # the producer does not produce this text: not a case of this family
                    continue
                res.append(c.run(wt))
            out.append(res)
    return out


def describe_spelling(case):
    kinds = [SPELL_WORDS[k] for k in case["spell"] if k in SPELL_WORDS]
    return ("a numeral written with " + ", ".join(kinds)) if kinds else "canonical numerals"


def run_spell_cases(o: Outcome, cases):
    """Trees of the family "spell": the value under the 5 renderings (as every tree); then the expression as the
    number of plural, reaching it written tight / with blanks / fully parenthesised / as a template argument /
    produced by padleft (statement: plural selects by number -> VIOLATION) and in digits of another script (DRIFT)."""
    events = run_tree_cases(o, cases, "numeral-spellings")
    kinds = Counter()
    for c in cases:
        for k in c["spell"] or ["canonical"]:
            kinds[k] += 1
    sel = [c for c in cases if c["exp"]["kind"] == "val" and c["one"] != "u"]
    n_one = sum(1 for c in sel if c["one"] == "eq" and c["spell"])
    n_lz1 = sum(1 for c in sel if c["one"] == "eq" and "leading-zeros" in c["spell"] and len(c["min"]) <= 2)
    o.extra["spelling_universe"] = {"trees": len(cases), "selecting": len(sel), "value_one_noncanonical": n_one, **dict(kinds)}
    if len(cases) < 1500 or n_one < 300 or n_lz1 < 4 or kinds["leading-zeros"] < 500 or kinds["trailing-fraction-zeros"] < 300:
        raise common.TLCError(f"Gen_Expr spell: the universe lost its non-canonical numerals (vacuity guard): {o.extra['spelling_universe']}")
    jobs = [spell_routes(c, i) for i, c in enumerate(sel)]
    res = pmap(_eval_spell, jobs)
    n_routes = Counter()
    for case, routes, obs in zip(sel, jobs, res):
        want = "one" if case["one"] == "eq" else "many"
        e = case["exp"]
        val = pfcommon.decimal_text(e["n"], e["d"]) if e["ex"] else "(inexact)"
        for (route, wt, strict, prod), (k, out) in zip(routes, obs):
            if k == "skip":
                continue
            o.evaluations += 1
            n_routes[route.split(":")[0]] += 1
            o.shape(("plural-of-spelling", route.split(":")[0], want, tuple(case["spell"]), len(case["min"])))
            if k == "ok" and out.strip() == want:
                continue
            rec = {"kind": "G-plural-spelling", "gen": "numeral-spellings", "route": route, "min": case["min"], "wikitext": wt,
                   "expected": want, "value": val, "spelling": case["spell"], "observed": out if k == "ok" else "EXC " + out}
            if k != "ok":
                o.violation(rec, f"{wt} raised {out}", cls="plural-exception")
                continue
            written = " ".join(case["min"])
            why = (f"{wt} selected {out!r}: plural selects by NUMBER; its first parameter is {written!r} ({describe_spelling(case)}"
                   + (f", here produced by {prod[0]}" if prod else "") + f"), the number {val}, for which the documented selection is "
                   f"{want!r} -- the same number in its canonical spelling selects {want!r}, so the spelling of the numeral decided"
                   f" (route: {route})")
            if strict:
                o.violation(rec, why, cls="plural-of-spelling:" + route)
            else:
                o.note_drift({"call": wt, "model": want, "code": out,
                              "note": "numeral in digits of another script: not said to be digits by the documentation"})
    o.extra["spelling_universe"]["plural_routes"] = dict(n_routes)
    return events


def obs_record(a):
    if a["kind"] == "val":
        n, d, close = pfcommon.small_fraction(a["frac"])
        return {"kind": "val", "n": n, "d": d, "close": close}
    return {"kind": a["kind"], "n": 0, "d": 1, "close": False}


def validate_expr_trace(o: Outcome | None, events, cfg="Trace_Expr.cfg", name="Trace_Expr"):
    """events: list of (tokens, abstract observation). -> (bad, drift) lists of TLC records"""
    evs = [{"toks": list(t), "obs": obs_record(a)} for t, a in events]
    with Scratch("c18t-") as d:
        tf = d / "trace.json"
        tf.write_text(json.dumps({"events": evs}))
        r = tlc("Trace_Expr", cfg, workers=1, env={"TRACE_FILE": str(tf)}, timeout=3000)
    if o is not None:
        o.add_tlc(name, r)
    v = r.tagged("VERDICT")
    if not v or v[0]["consumed"] != len(evs):
        raise common.TLCError("Trace_Expr: no verdict / trace not consumed")
    return v[0]["bad"], v[0]["drift"], v[0]["excerr"]


LITS = ["0", "1", "2", "3", "4", "5", "7", "10", "0.5", "1.5", "2.5", "0.25", "0.75", ".5", "2."]
BIN = ["e", "^", "*", "/", "div", "mod", "+", "-", "round", "=", "!=", "<>", "<", ">", "<=", ">=", "and", "or"]
BINW = [1, 2, 6, 4, 2, 4, 8, 8, 4, 3, 2, 2, 3, 3, 2, 2, 4, 4]
UNA = ["-", "+", "not", "abs", "floor", "ceil", "trunc", "sqrt", "exp", "ln", "sin", "cos", "tan", "acos", "asin", "atan"]
UNAW = [8, 3, 6, 5, 4, 4, 4, 1, 1, 1, 1, 1, 1, 1, 1, 1]


# numerals of Expr!TieLitTable: decimal ties without an exact binary representation, near-ties, ...
TIE_LITS = ["0.15", "0.35", "0.45", "1.45", "2.55", "0.005", "0.075", "0.285", "0.995", "1.005", "2.675", "1.445",
            "0.0015", "0.1235", "1.0005", "0.125", "0.375", "0.0625", "2.674", "2.676", "1.0049", "25", "250", "0.1", "0.2"]
DIGITS = [["lit", "0"], ["lit", "1"], ["lit", "2"], ["lit", "3"], ["un", "-", ["lit", "1"]], ["un", "-", ["lit", "2"]],
          ["lit", "1.5"], ["lit", "2.5"]]


def rand_tree(rng, depth):
    if depth == 0 or rng.random() < 0.18:
        return ["lit", rng.choice(LITS)]
    if rng.random() < 0.25:
        return ["un", rng.choices(UNA, UNAW)[0], rand_tree(rng, depth - 1)]
    op = rng.choices(BIN, BINW)[0]
    if op == "round" and rng.random() < 0.6:
        # the left operand of round is a written numeral (possibly negated / halved / doubled / a quotient)
        lit = ["lit", rng.choice(TIE_LITS)]
        left = rng.choice([lit, lit, ["un", "-", lit], ["bin", "/", lit, ["lit", "2"]], ["bin", "*", ["lit", "2"], lit],
                           ["bin", "/", ["lit", rng.choice(["1", "3", "7", "57", "107", "201"])],
                            ["lit", rng.choice(["40", "200", "400"])]]])
        return ["bin", "round", left, rng.choice(DIGITS) if rng.random() < 0.8 else rand_tree(rng, depth - 1)]
    return ["bin", op, rand_tree(rng, depth - 1), rand_tree(rng, depth - 1)]


# other spellings of the literals (all in Expr!SpellChars): the sampled trees write every 5th of these numerals differently
RESPELL = {"0": ["00", "0.0", ".0", "0."], "1": ["01", "001", "1.0", "1.00", "01.0", "1."], "2": ["02", "2.0", "002"],
           "10": ["010", "10.0"], "1.5": ["01.5", "1.50"], "0.5": ["00.5", ".50", "0.50"]}


def respell(t, rng):
    if t[0] == "lit":
        return ["lit", rng.choice(RESPELL[t[1]])] if t[1] in RESPELL and rng.random() < 0.2 else t
    return t[:2] + [respell(x, rng) for x in t[2:]]


def part_expr(o: Outcome, thorough: bool):
    # ---- M
    r = tlc("MC_Expr", "MC_Expr_pairs_T.cfg" if thorough else "MC_Expr_pairs.cfg", workers=16, timeout=3000)
    o.add_tlc("MC_Expr_trees", r)
    r = tlc("MC_Expr", "MC_Expr_soup.cfg", workers=16, timeout=3000)
    o.add_tlc("MC_Expr_soup", r)
    r = tlc("MC_Expr", "MC_Expr_tokenizer.cfg", workers=8, timeout=3000)
    o.add_tlc("MC_Expr_tokenizer", r)
    r = tlc("MC_Expr", "Demo_Expr_asis.cfg", workers=4, check=False)
    o.extra["demo_expr_asis_violates"] = bool(r.invariant_violated)
    if not r.invariant_violated:
        raise common.TLCError("Demo_Expr_asis no longer finds the as-is counterexample (vacuity guard)")
    # ---- G
    r = tlc("Gen_Expr", "Gen_Expr_trees_T.cfg" if thorough else "Gen_Expr_trees_Q.cfg", workers=16, timeout=3000)
    o.add_tlc("Gen_Expr_trees", r)
    cases = r.cases
    if len(cases) < 1000:
        raise common.TLCError("Gen_Expr produced too few cases")
    events = run_tree_cases(o, cases, "exhaustive")
    # ---- M + G, `round` on the number as written: decimal ties without an exact binary representation,
    # ties exact in binary, near-ties, negative / fractional digit counts, reached as numerals, negated, as
    # quotients and scaled by powers of two (the cfg also checks the ladder, the documented evaluation and
    # the declarative "nearest multiple, away from zero at a tie" on every tree of the family)
    r = tlc("Gen_Expr", "Gen_Expr_ties_T.cfg" if thorough else "Gen_Expr_ties_Q.cfg", workers=1, timeout=3000)
    o.add_tlc("Gen_Expr_ties(+MC round reference)", r)
    # (the same TLC run enumerates the family "spell": one number in several spellings, see run_spell_cases)
    spcases = [c for c in r.cases if c.get("fam") == "spell"]
    tcases = [c for c in r.cases if c.get("fam") != "spell"]
    # V: the minimal renderings of every tree with a tie, and of every 4th other one, go through Trace_Expr too
    tie_events = [ev for i, (c, ev) in enumerate(zip(tcases, run_tie_cases(o, tcases)[::2]))
                  if i % 4 == 0 or any(k.startswith("round-tie") for k in c["ties"])]
    # ... and so do the minimal renderings of the spelled numerals (every 2nd tree; all of the short ones)
    tie_events += [ev for i, (c, ev) in enumerate(zip(spcases, run_spell_cases(o, spcases)[::2])) if i % 2 == 0 or len(c["min"]) <= 2]
    cases = cases + tcases + spcases
    # which paths of the model the cases exercise (TLC's -coverage runs out of memory on the
    # recursive evaluators, so the counts are taken from the generated cases)
    cov = Counter()
    for c in cases:
        e = c["exp"]
        cov["expr:" + (("value-exact" if e["ex"] else "value-inexact") if e["kind"] == "val" else "error-" + e["what"])] += 1
        cov["expr:top-operator:" + next((t for t in c["full"] if t not in "()" and not t[0].isdigit()), "literal")] += 0
    for c in cases:
        ops = [t for t in c["min"] if t in BIN or t in UNA]
        for t in set(ops):
            cov["expr:uses:" + t] += 1
    o.extra["action_coverage"] = dict(cov)
    o.sample({"expr_min": " ".join(cases[len(cases) // 3]["min"]), "expr_full": " ".join(cases[len(cases) // 3]["full"]),
              "expected": cases[len(cases) // 3]["exp"]})
    # ---- V: random trees to depth 5, rendered by TLC, evaluated by the code, validated by TLC
    rng = random.Random(common.seed() * 1009 + 18)
    trees = [rand_tree(rng, rng.choice([3, 4, 5, 5])) for _ in range(20000 if thorough else 2500)]
    rng2 = random.Random(common.seed() * 1013 + 19)      # (a second stream: the trees themselves are those of earlier rounds)
    trees = [respell(t, rng2) for t in trees]
    with Scratch("c18a-") as d:
        (d / "asts.json").write_text(json.dumps(trees))
        r = tlc("Gen_Expr", "Gen_Expr_file.cfg", workers=16, timeout=3000, env={"AST_FILE": str(d / "asts.json")})
    o.add_tlc("Gen_Expr_sampled", r)
    scases = r.cases
    sevents = run_tree_cases(o, scases, "sampled-depth5")
    exact = sum(1 for c in scases if c["exp"]["kind"] == "val" and c["exp"]["ex"])
    o.extra["sampled_trees"] = {"n": len(scases), "with_exact_value": exact,
                                "error_predicted": sum(1 for c in scases if c["exp"]["kind"] == "err")}
    if scases:
        o.sample({"sampled_expr": " ".join(max(scases, key=lambda c: len(c["min"]))["min"][:60])})
    allev = sevents + tie_events + events[: (10000 if thorough else 4000)]
    bad, drift, excerr = validate_expr_trace(o, allev)
    o.traces += len(allev)
    seen = 0
    # what kinds of roundings TLC found in the tree the tokens were rendered from (EmitTie)
    ties_of = {tuple(c[w]): c["ties"] for c in scases + tcases if "ties" in c for w in ("min", "full")}
    for b in bad:
        toks, a = allev[b["i"] - 1]
        x = b["expected"]
        why = (f"Trace_Expr rejects the recorded evaluation of #expr {' '.join(toks)[:200]}: observed {a['txt']!r}, specification "
               + (pfcommon.decimal_text(x["n"], x["d"]) if x["kind"] == "val" and x["ex"] else str(x)))
        if "round-tie-decimal-only" in ties_of.get(tuple(toks), ()):
            why += ("; the expression rounds a decimal numeral that is exactly on a tie but has no exact binary representation: "
                    "`round` must round the number as written, half away from zero, not the binary expansion of the float")
        o.violation(
            {"kind": "V-expr", "toks": toks, "observed": [a["kind"], a["txt"]], "expected": b["expected"],
             "ties": ties_of.get(tuple(toks), []), "wikitext": expr_text(toks, "spaced")},
            why,
            cls="V-" + _expr_cls(toks, a),
        )
        seen += 1
    o.extra["trace_expr"] = {"events": len(allev), "rejected": len(bad), "drift": len(drift),
                             "exception_where_error_demanded(see C05)": len(excerr)}


# ---------------------------------------------------------------------------
# string functions
# ---------------------------------------------------------------------------

def conc_atoms(atoms):
    return "".join(" " if a == "SP" else a for a in atoms)


def conc_arg(a):
    return str(a["i"]) if a["k"] == "i" else conc_atoms(a["s"])


def numeral_shape(a):
    """how an integer parameter is written (k = "n"): the classes the spelled universe varies"""
    t = conc_atoms(a["s"])
    core = t.strip()
    body = core.lstrip("+-")
    return (("blanks",) if core != t else ()) + (("sign" + core[0],) if core[:1] in "+-" else ()) + \
           (("leading-zeros",) if len(body) > 1 and body[0] == "0" and body[1].isdigit() else ()) + \
           (("not-plain",) if not body.isdigit() else ())


def call_text(fn, args):
    return "{{" + fn + ":" + "|".join(conc_arg(a) for a in args) + "}}"


def norm_out(out: str, exp: str) -> str:
    # add_newline_to_expansion: results starting with a list/table marker get a newline
    if out.startswith("\n") and out[1:2] in ("*", ";", ":", "#", "{"):
        return out[1:]
    return out


def _eval_calls(cases):
    out = []
    with pfcommon.Ctx() as c:
        for case in cases:
            out.append(c.run(call_text(case["fn"], case["args"])))
    return out


def run_str_cases(o: Outcome, cases, tag):
    res = pmap(_eval_calls, cases)
    ndrift = Counter()
    for case, (k, out) in zip(cases, res):
        o.evaluations += 1
        exp = conc_arg(case["exp"])
        spelled = [a for a in case["args"] if a["k"] == "n"]
        if spelled:
            # integer parameters written as non-canonical numerals: distinct by which parameter and how it is written
            o.shape(("str-numeral", case["fn"], tuple(a["k"] for a in case["args"]), tuple(numeral_shape(a) for a in spelled), case["strict"]))
        else:
            o.shape(("str", case["fn"], len(case["args"]), exp != conc_arg(case["args"][0]) if case["args"] else True))
        if k == "ok":
            out = norm_out(out, exp)
            if out == exp:
                continue
        wt = call_text(case["fn"], case["args"])
        rec = {"kind": "G-str", "gen": tag, "fn": case["fn"], "args": case["args"], "wikitext": wt,
               "expected": exp, "observed": out if k == "ok" else "EXC " + out}
        if k != "ok":
            o.violation(rec, f"{wt} raised {out}", cls=f"{case['fn']}-exception")
            continue
        if not case["strict"]:
            ndrift[case["fn"] + (" (numeral spelling)" if spelled else "")] += 1
            o.note_drift({"call": wt, "model": exp, "code": out, "note": "outside the documented argument domain"
                          + ("".join(f"; parameter {conc_atoms(a['s'])!r} read as {a['i']} by the reference" for a in spelled))})
            continue
        why = f"{wt} returned {out!r}; reference definition: {exp!r}"
        if spelled:
            what = "number" if case["fn"] == "plural" else "integer"
            why += "".join(f"; the parameter written {conc_atoms(a['s'])!r} is the {what} {a['i']}" for a in spelled) + \
                   f": the call must give what the canonical numeral gives ({what} parameters are read by value, not by spelling)"
        if "asis" in case and out == conc_arg(case["asis"]):
            devs = [d for d, w in case["without"].items() if conc_arg(w) != conc_arg(case["asis"])] or list(case["without"])
            o.classify(rec, why, sorted(devs), cls=f"{case['fn']}:" + "+".join(sorted(devs)))
        else:
            o.violation(rec, why, cls=f"{case['fn']}-value" + ("-numeral-spelling" if spelled else ""))
    if ndrift:
        o.extra.setdefault("drift_by_function", Counter()).update(ndrift)


WIDE = list("abcdeXYZ019") + ["é", "É", "ñ", "-", "_", ".", ",", " ", " "]
LOWER = {**{c: c.lower() for c in "abcdeXYZéÉñ"}}
UPPER = {**{c: c.upper() for c in "abcdeXYZéÉñ"}}


def atoms_of(s):
    return ["SP" if ch == " " else ch for ch in s]


def rand_word(rng, lo, hi, alpha=WIDE):
    return "".join(rng.choice(alpha) for _ in range(rng.randint(lo, hi)))


def rand_call(rng):
    fn = rng.choice(["#len", "#pos", "#rpos", "#sub", "#sub", "#replace", "#explode", "#explode", "padleft", "padright",
                     "lc", "uc", "lcfirst", "ucfirst", "urlencode", "#titleparts"])
    s = rand_word(rng, 0, 12)
    if fn == "#len" and rng.random() < 0.5:
        # plural: the number as a numeral of 0, 1, 2, ... with leading zeros / blanks
        fn, n = "plural", rng.choice([0, 1, 1, 1, 2, 3, 10, 11, 21, 100, 101, 1000])
        t = "0" * rng.choice([0, 0, 1, 1, 2, 3]) + str(n)
        num = {"k": "n", "s": atoms_of(rng.choice(["", " "]) + t + rng.choice(["", " "])), "i": 0}
        one, many = rand_word(rng, 1, 3, [c for c in WIDE if c != " "]), rand_word(rng, 0, 3, [c for c in WIDE if c != " "])
        return fn, [num, {"k": "s", "s": atoms_of(one), "i": 0}, {"k": "s", "s": atoms_of(many), "i": 0}]
    S = lambda t: {"k": "s", "s": atoms_of(t), "i": 0}
    inner = [c for c in WIDE if c != " "]

    def I(i):
        # every 5th integer parameter is written as a documented non-canonical numeral (leading zeros, blanks around
        # it); Trace_StrFns reads the numeral itself (StrFns!IntArg)
        if rng.random() < 0.2:
            t = ("-" if i < 0 else "") + "0" * rng.choice([0, 1, 1, 2, 3]) + str(abs(i))
            return {"k": "n", "s": atoms_of(rng.choice(["", " ", "  "]) + t + rng.choice(["", "", " "])), "i": 0}
        return {"k": "i", "s": [], "i": i}

    def needle():
        if s.strip() and rng.random() < 0.7:
            t = s.strip()
            a = rng.randrange(len(t))
            w = t[a:a + rng.randint(1, 3)].strip()
            if w:
                return w
        return rand_word(rng, 1, 2, inner)
    if fn in ("#len", "lc", "uc", "lcfirst", "ucfirst"):
        return fn, [S(s)]
    if fn == "#pos":
        return fn, [S(s), S(needle()), I(rng.randint(0, 12))]
    if fn == "#rpos":
        return fn, [S(s), S(needle())]
    if fn == "#sub":
        return fn, [S(s), I(rng.randint(-14, 14)), I(rng.randint(-14, 14))]
    if fn == "#replace":
        return fn, [S(s), S(needle()), S(rand_word(rng, 0, 3, inner))]
    if fn == "#explode":
        a = [S(s), S(needle()), I(rng.randint(-5, 5))]
        if rng.random() < 0.4:
            a.append(I(rng.randint(1, 4)))
        return fn, a
    if fn in ("padleft", "padright"):
        return fn, [S(s), I(rng.randint(-2, 20)), S(rand_word(rng, 1, 3, inner))]
    if fn == "urlencode":
        t = re.sub(" +", " ", rand_word(rng, 0, 8, list("ab /:&=?%+")))
        return fn, [S(t), {"k": "s", "s": [rng.choice(["QUERY", "WIKI", "PATH"])], "i": 0}]
    if fn == "#titleparts":
        t = "A" + rand_word(rng, 0, 8, list("bcd//"))
        return fn, [S(t), I(rng.randint(-4, 4)), I(rng.randint(-4, 4))]
    raise AssertionError(fn)


INT_FNS = {"#len", "#pos", "#rpos"}


def out_record(fn, out):
    if fn in INT_FNS and re.fullmatch(r"-?\d+", out):
        return {"k": "i", "s": [], "i": int(out)}
    if fn == "urlencode":      # one atom per percent-escape
        return {"k": "s", "s": atoms_of(re.findall(r"%[0-9A-Fa-f]{2}|.", out, re.S)), "i": 0}
    return {"k": "s", "s": atoms_of(out), "i": 0}


def _record_calls(calls):
    out = []
    with pfcommon.Ctx() as c:
        for fn, args in calls:
            k, o_ = c.run(call_text(fn, args))
            out.append((k, o_))
    return out


def validate_str_trace(o: Outcome | None, events):
    with Scratch("c18s-") as d:
        tf = d / "trace.json"
        tf.write_text(json.dumps({"lower": LOWER, "upper": UPPER, "events": events}))
        r = tlc("Trace_StrFns", "Trace_StrFns.cfg", workers=1, env={"TRACE_FILE": str(tf)}, timeout=3000)
    if o is not None:
        o.add_tlc("Trace_StrFns", r)
    v = r.tagged("VERDICT")
    if not v or v[0]["consumed"] != len(events):
        raise common.TLCError("Trace_StrFns: no verdict / trace not consumed")
    return v[0]["bad"]


def record_str_events(rng, n):
    calls = [rand_call(rng) for _ in range(n)]
    res = pmap(_record_calls, calls)
    events, excs = [], []
    for (fn, args), (k, out) in zip(calls, res):
        if k != "ok":
            excs.append((fn, args, out))
            continue
        exp_first = ""
        events.append({"fn": fn, "args": args, "out": out_record(fn, norm_out(out, exp_first))})
    return events, excs


def part_strfns(o: Outcome, thorough: bool):
    r = tlc("MC_StrFns", "MC_StrFns_T.cfg" if thorough else "MC_StrFns.cfg", workers=16, timeout=3000, coverage=not thorough)
    o.add_tlc("MC_StrFns", r)
    o.extra["action_coverage"].update({"MC_StrFns:" + k: v[1] for k, v in r.coverage_actions().items()})
    for cfg, inv in (("Demo_StrFns_titleparts.cfg", "titleparts"), ("Demo_StrFns_plural.cfg", "plural")):
        r = tlc("MC_StrFns", cfg, workers=4, check=False)
        o.extra[f"demo_{inv}_asis_violates"] = bool(r.invariant_violated)
        if not r.invariant_violated:
            raise common.TLCError(f"{cfg} no longer finds the as-is counterexample (vacuity guard)")
    cfgs = ["Gen_StrFns_T.cfg", "Gen_StrFns_T2.cfg"] if thorough else ["Gen_StrFns_Q.cfg"]
    for cfg in cfgs:
        r = tlc("Gen_StrFns", cfg, workers=16, timeout=3000)
        o.add_tlc(cfg[:-4], r)
        cases = r.cases
        if len(cases) < 1000:
            raise common.TLCError("Gen_StrFns produced too few cases")
        run_str_cases(o, cases, cfg[:-4])
        for fn, n in Counter(c["fn"] for c in cases).items():
            o.extra["action_coverage"]["strfn:" + fn] = o.extra["action_coverage"].get("strfn:" + fn, 0) + n
        c = cases[len(cases) // 2]
        o.sample({"call": call_text(c["fn"], c["args"]), "expected": conc_arg(c["exp"])})
    # ---- V
    rng = random.Random(common.seed() * 7919 + 181)
    events, excs = record_str_events(rng, 30000 if thorough else 4000)
    for fn, args, out in excs[:5]:
        o.violation({"kind": "V-str", "fn": fn, "args": args, "wikitext": call_text(fn, args), "observed": "EXC " + out},
                    f"{call_text(fn, args)} raised {out}", cls=f"{fn}-exception")
    bad = validate_str_trace(o, events)
    o.traces += len(events)
    o.evaluations += len(events)
    o.extra["trace_strfns"] = {"events": len(events), "rejected": len(bad)}
    for b in bad:
        e = events[b["i"] - 1]
        wt = call_text(e["fn"], e["args"])
        rec = {"kind": "V-str", "fn": e["fn"], "args": e["args"], "wikitext": wt, "observed": conc_arg(e["out"]),
               "expected": conc_arg(b["expected"])}
        why = f"Trace_StrFns rejects {wt}: returned {conc_arg(e['out'])!r}, reference {conc_arg(b['expected'])!r}"
        for a in e["args"]:
            if a["k"] == "n":
                why += (f"; the parameter written {conc_atoms(a['s'])!r} is a plain decimal numeral ({', '.join(numeral_shape(a)) or 'canonical'}): "
                        f"{'number' if e['fn'] == 'plural' else 'integer'} parameters are read by value, not by spelling")
        if e["fn"] == "#titleparts":
            # the sampled titles have no colon: the two numbering deviations are the candidates
            o.classify(rec, why, ["TitlepartsFirstZeroBased", "TitlepartsNegativeCountFromStart"], cls="V-#titleparts")
        else:
            o.violation(rec, why, cls="V-" + e["fn"])


# ---------------------------------------------------------------------------
# formatnum
# ---------------------------------------------------------------------------
SEPNAME = {"\xa0": "NBSP", "\u202f": "NNBSP", " ": "SP"}
SEPCHAR = {v: k for k, v in SEPNAME.items()}


def num_atoms(s):
    return [SEPNAME.get(ch, ch) for ch in s]


def atoms_num(a):
    return "".join(SEPCHAR.get(x, x) for x in a)


def locale_shapes():
    """Read every shipped localization.json of the working tree, group by shape."""
    data = common.REPO / "src" / "wikitextprocessor" / "data"
    shapes: dict = {}
    langs = defaultdict(list)
    default = ("[\",\"]", ".", "[3, 0]")
    for p in sorted(data.iterdir()):
        if not p.is_dir():
            continue
        f = p / "localization.json"
        if f.is_file():
            d = json.loads(f.read_text(encoding="utf-8"))
            sep = d["grouping_separator"]
            key = (json.dumps(num_atoms(sep)), SEPNAME.get(d["decimal_point"], d["decimal_point"]),
                   json.dumps(list(d["grouping_method"])))
        else:
            key = default
        langs[key].append(p.name)
    keys = sorted(langs)
    shapes = [{"sep": json.loads(k[0]), "dec": k[1], "grp": json.loads(k[2])} for k in keys]
    return shapes, [langs[k] for k in keys]


def _eval_formatnum(jobs):
    """jobs: list of (lang, [raw strings]) -> list of (lang, [(formatted, back)])"""
    out = []
    for lang, raws in jobs:
        res = []
        with pfcommon.Ctx(lang) as c:
            for raw in raws:
                k1, f = c.run("{{formatnum:" + raw + "}}")
                k2, b = c.run("{{formatnum:{{formatnum:" + raw + "}}|R}}")
                res.append((k1, f, k2, b))
        out.append((lang, res))
    return out


def part_formatnum(o: Outcome, thorough: bool):
    r = tlc("MC_FormatNum", "MC_FormatNum.cfg", workers=8, timeout=3000, coverage=True)
    o.add_tlc("MC_FormatNum", r)
    o.extra["action_coverage"].update({"MC_FormatNum:" + k: v[1] for k, v in r.coverage_actions().items()})
    r = tlc("MC_FormatNum", "Demo_FormatNum_asis.cfg", workers=4, check=False)
    o.extra["demo_formatnum_asis_violates"] = bool(r.invariant_violated)
    if not r.invariant_violated:
        raise common.TLCError("Demo_FormatNum_asis no longer finds the as-is counterexample (vacuity guard)")
    shapes, langs = locale_shapes()
    o.extra["locale_shapes"] = [{"shape": s, "n_locales": len(l), "e.g.": l[:3]} for s, l in zip(shapes, langs)]
    with Scratch("c18f-") as d:
        (d / "shapes.json").write_text(json.dumps(shapes))
        r = tlc("Gen_FormatNum", "Gen_FormatNum.cfg", workers=8, timeout=3000, env={"SHAPES_FILE": str(d / "shapes.json")})
    o.add_tlc("Gen_FormatNum", r)
    by_shape = defaultdict(list)
    for c in r.cases:
        by_shape[c["shape"]].append(c)
    jobs, meta = [], []
    for i, ls in enumerate(langs, 1):
        with_file = [l for l in ls if (common.REPO / "src" / "wikitextprocessor" / "data" / l / "localization.json").is_file()]
        use = (with_file or ls[:1]) if thorough else (with_file[:2] or ls[:1])
        for lang in use:
            jobs.append((lang, [atoms_num(c["raw"]) for c in by_shape[i]]))
            meta.append(i)
    res = pmap(_eval_formatnum, jobs, chunk=1)
    for (lang, obs), i in zip(res, meta):
        for c, (k1, f, k2, b) in zip(by_shape[i], obs):
            o.evaluations += 2
            raw = atoms_num(c["raw"])
            o.shape(("fmt", i, len(raw), "." in raw))
            rec = {"kind": "G-formatnum", "lang": lang, "shape": shapes[i - 1], "N": raw,
                   "formatted": f, "back": b, "wikitext": "{{formatnum:{{formatnum:" + raw + "}}|R}}"}
            if k1 != "ok" or k2 != "ok":
                o.violation(rec, f"formatnum raised on {raw} ({lang}): {f if k1 != 'ok' else b}", cls="formatnum-exception")
            elif b != raw:
                o.violation(rec, f"lang {lang}: {{{{formatnum:{{{{formatnum:{raw}}}}}|R}}}} = {b!r}, not {raw!r} "
                                 f"(formatted as {f!r})", cls=f"formatnum-roundtrip-shape{i}")
            elif f != atoms_num(c["fmt"]):
                o.note_drift({"lang": lang, "N": raw, "formatted": f, "model": atoms_num(c["fmt"])})
    c = r.cases[len(r.cases) // 2]
    o.sample({"formatnum_N": atoms_num(c["raw"]), "shape": shapes[c["shape"] - 1], "model_formatted": atoms_num(c["fmt"])})
    # ---- V: random numerals of 1..12 digits
    rng = random.Random(common.seed() * 31 + 183)
    per = 1500 if thorough else 200
    jobs, nums = [], []
    for i, ls in enumerate(langs, 1):
        raws = []
        for _ in range(per):
            k = rng.randint(1, 12)
            ip = "".join(rng.choice("0123456789") for _ in range(k))
            fp = "".join(rng.choice("0123456789") for _ in range(rng.choice([0, 0, 1, 2, 3, 6])))
            raws.append((ip, fp))
        lang = next((l for l in ls if (common.REPO / "src" / "wikitextprocessor" / "data" / l / "localization.json").is_file()), ls[0])
        jobs.append((lang, [ip + ("." + fp if fp else "") for ip, fp in raws]))
        nums.append((i, raws))
    res = pmap(_eval_formatnum, jobs, chunk=1)
    events, where = [], []
    for (lang, obs), (i, raws) in zip(res, nums):
        for (ip, fp), (k1, f, k2, b) in zip(raws, obs):
            if k1 != "ok" or k2 != "ok":
                o.violation({"kind": "V-formatnum", "lang": lang, "N": ip + "." + fp}, f"formatnum raised: {f} {b}", cls="formatnum-exception")
                continue
            events.append({"shape": i, "int": list(ip), "frac": list(fp), "formatted": num_atoms(f), "back": num_atoms(b)})
            where.append((lang, ip + ("." + fp if fp else ""), f, b))
    bad, drift = validate_formatnum_trace(o, shapes, events)
    o.traces += len(events)
    o.evaluations += 2 * len(events)
    o.extra["trace_formatnum"] = {"events": len(events), "rejected": len(bad), "drift": len(drift)}
    for b in bad:
        lang, raw, f, back = where[b["i"] - 1]
        o.violation({"kind": "V-formatnum", "lang": lang, "N": raw, "formatted": f, "back": back,
                     "wikitext": "{{formatnum:{{formatnum:" + raw + "}}|R}}"},
                    f"Trace_FormatNum rejects: lang {lang}: formatnum|R of formatnum of {raw} = {back!r} (formatted {f!r})",
                    cls=f"formatnum-roundtrip-shape{events[b['i'] - 1]['shape']}")
    for dr in drift[:50]:
        lang, raw, f, back = where[dr["i"] - 1]
        o.note_drift({"lang": lang, "N": raw, "formatted": f, "model": atoms_num(dr["expected"])})


def validate_formatnum_trace(o, shapes, events):
    with Scratch("c18n-") as d:
        tf = d / "trace.json"
        tf.write_text(json.dumps({"shapes": shapes, "events": events}))
        r = tlc("Trace_FormatNum", "Trace_FormatNum.cfg", workers=1, env={"TRACE_FILE": str(tf)}, timeout=3000)
    if o is not None:
        o.add_tlc("Trace_FormatNum", r)
    v = r.tagged("VERDICT")
    if not v or v[0]["consumed"] != len(events):
        raise common.TLCError("Trace_FormatNum: no verdict / trace not consumed")
    return v[0]["bad"], v[0]["drift"]


# ---------------------------------------------------------------------------

def extra_known(o: Outcome, pid: str | None = None):
    """VERIF_EXTRA_KNOWN=<json file>: findings not (yet) in known_findings.json, for
    demonstrating the verdict once the recommended entries are added."""
    import os
    p = os.environ.get("VERIF_EXTRA_KNOWN")
    if p:
        for e in json.loads(Path(p).read_text())["findings"]:
            if e["property"] == (pid or o.pid) and e["status"] == "finding":
                o.known[e["deviation"]] = e


def run(tier: str) -> int:
    o = Outcome(PID, tier)
    extra_known(o)
    thorough = tier == "thorough"
    o.rule = (
        "#expr: every tree of the families (operator pairs x 2 shapes, unary/binary interactions, prefix chains) over the "
        "literal set is one case, evaluated in 5 renderings; distinct by (operator sequence, predicted class); plus seeded random "
        "trees to depth 5. Numeral spellings: every tree of the family 'spell' (one number written with leading zeros / a fraction "
        "of zeros / a bare point, bare, signed and under value-preserving operators) is one case, evaluated in 5 renderings and as "
        "the number of plural through up to 6 routes (tight, blanks, parenthesised, template argument, produced by padleft, other "
        "digits); distinct by (route, selection, spelling classes, length). String functions: every (function, subject string, "
        "arguments) of the bounded grid is one case; distinct "
        "by (function, arity, whether the result differs from the subject); calls whose integer parameters are written as "
        "non-canonical numerals are distinct by (function, which parameter, how it is written). formatnum: numeral patterns x locale shapes; distinct "
        "by (shape, length, has fraction). A case is non-trivial when its expected result is not its input."
    )
    o.assumptions = [
        "the documented MediaWiki behaviour (Help:Extension:ParserFunctions, Extension:ParserFunctions/String functions, "
        "Help:Magic words) is encoded from the documentation as known to the author; the pages could not be fetched (no network)",
        "#expr values are exact rationals (|n|,d <= 30000) in the model; the real output is parsed as a decimal and must be within "
        "1e-9 (relative); results that are not exactly representable, and discontinuous operators applied at a discontinuity to "
        "operands that are not exact binary fractions, are not value-checked (only: no exception, same under all renderings)",
        "transcendental functions, float formatting and percent-encoding beyond an ASCII table are not decided by the model",
        "#titleparts subjects are valid titles with a capital first letter (no title normalisation is modelled)",
    ]
    part_expr(o, thorough)
    part_strfns(o, thorough)
    part_formatnum(o, thorough)
    o.exhaustive = True
    for k, v in list(o.extra.items()):
        if isinstance(v, Counter):
            o.extra[k] = dict(v)
    return o.finish()


def replay(path: str) -> int:
    v = json.loads(Path(path).read_text())
    case = v["case"]
    print("why:", v["why"])
    wt = case.get("wikitext")
    if not wt:
        print(json.dumps(case, indent=1)[:2000])
        return 1
    lang = case.get("lang", "en")
    with pfcommon.Ctx(lang) as c:
        k, out = c.run(wt)
    print(f"re-executed on the working tree (lang={lang}): {wt!r} -> {k}: {out!r}")
    print("expected:", case.get("expected", case.get("N")))
    return 1


def selftest() -> int:
    """Binding demo: a corrupted observation / expectation must be rejected."""
    ok = True
    # 1. Trace_Expr: recorded real evaluations of expressions the code gets right
    exprs = [["2", "+", "3", "*", "4"], ["(", "2", "+", "3", ")", "*", "4"], ["2", "^", "3", "^", "2"],
             ["not", "0", "+", "1"], ["7", "-", "2", "-", "1"], ["1", "/", "4"], ["-", "2", "^", "2"]]
    with pfcommon.Ctx() as c:
        ev = [(t, pfcommon.abstract_expr_output(*c.run(expr_text(t, "spaced")))) for t in exprs]
    bad0, _, _ = validate_expr_trace(None, ev)
    from fractions import Fraction
    ev2 = list(ev)
    ev2[2] = (ev2[2][0], {"kind": "val", "txt": "512", "frac": Fraction(512)})   # 2^3^2 read right-associatively
    bad1, _, _ = validate_expr_trace(None, ev2)
    print(f"Trace_Expr: recorded trace rejected={len(bad0)}; with 2^3^2 corrupted to 512: rejected={len(bad1)} {bad1[:1]}")
    ok &= (not bad0) and len(bad1) == 1 and bad1[0]["i"] == 3
    # 1b. round on the number as written: a decimal tie without an exact binary representation is decided
    # (2.68, not the 2.67 of the binary expansion); a tie reached through a sum is not (either answer accepted)
    F = lambda t: {"kind": "val", "txt": t, "frac": Fraction(t)}
    tie = [(["2.675", "round", "2"], F("2.68")), (["-", "1.005", "round", "2"], F("-1.01")), (["107", "/", "40", "round", "2"], F("2.68")),
           (["0.125", "round", "2"], F("0.13")), (["0.5", "+", "0.505", "round", "2"], F("1.01")), (["0.5", "+", "0.505", "round", "2"], F("1"))]
    t0, _, _ = validate_expr_trace(None, tie)
    tie2 = [(t, F({"2.68": "2.67", "-1.01": "-1"}.get(a["txt"], a["txt"]))) for t, a in tie]
    t1, _, _ = validate_expr_trace(None, tie2)
    print(f"Trace_Expr round ties: as documented rejected={len(t0)}; rounded from the binary expansion: rejected at {[b['i'] for b in t1]}")
    ok &= (not t0) and [b["i"] for b in t1] == [1, 2, 3]
    # 2. Trace_StrFns
    S = lambda t: {"k": "s", "s": atoms_of(t), "i": 0}
    I = lambda i: {"k": "i", "s": [], "i": i}
    calls = [("#sub", [S("Icecream"), I(3), I(-3)]), ("#pos", [S("abcabc"), S("c"), I(3)]), ("#explode", [S("a,b,c"), S(","), I(-1)]),
             ("lc", [S(" XbÉ ")]), ("#replace", [S("aaa"), S("aa"), S("b")])]
    res = _record_calls(calls)
    events = [{"fn": fn, "args": args, "out": out_record(fn, out)} for (fn, args), (k, out) in zip(calls, res)]
    b0 = validate_str_trace(None, events)
    events[0]["out"] = out_record("#sub", "cre")      # off by one at the end
    b1 = validate_str_trace(None, events)
    print(f"Trace_StrFns: recorded rejected={len(b0)}; with #sub result corrupted: rejected={len(b1)} {b1[:1]}")
    ok &= (not b0) and len(b1) == 1 and b1[0]["i"] == 1
    # 2b. integer / number parameters written as non-canonical numerals are read by TLC (StrFns!IntArg)
    N = lambda t: {"k": "n", "s": atoms_of(t), "i": 0}
    calls = [("#sub", [S("Icecream"), N(" 03 "), N("-003")]), ("plural", [N("01"), S("day"), S("days")]), ("plural", [N(" 0010"), S("day"), S("days")]),
             ("padleft", [S("7"), N("03"), S("0")]), ("#explode", [S("a,b,c"), S(","), N("-01")])]
    res = _record_calls(calls)
    events = [{"fn": fn, "args": args, "out": out_record(fn, out)} for (fn, args), (k, out) in zip(calls, res)]
    n0 = validate_str_trace(None, events)
    events[1]["out"] = out_record("plural", "days")      # the numeral compared as text: "01" is not "1"
    events[3]["out"] = out_record("padleft", "7")        # the count read as 0
    n1 = validate_str_trace(None, events)
    print(f"Trace_StrFns numerals: recorded rejected={len(n0)}; plural:01 -> 'days' and padleft:7|03 -> '7': rejected at {[b['i'] for b in n1]}")
    ok &= (not n0) and [b["i"] for b in n1] == [2, 4]
    # 2c. G, numeral spellings: the judgement of run_spell_cases on a doctored observation
    sc = {"min": ["01"], "full": ["01"], "exp": {"kind": "val", "what": "", "ex": True, "n": 1, "d": 1, "rk": False}, "one": "eq",
          "truth": "t", "spell": ["leading-zeros"], "ties": [], "fam": "spell"}
    routes = spell_routes(sc, 0)
    obs = _eval_spell([routes])[0]
    good = all(k == "ok" and out == "one" for k, out in obs)
    print(f"G plural of spellings: {len(routes)} routes {[r[0] for r in routes]} all select 'one' on the working tree: {good}")
    ok &= good and len(routes) == 6
    # 3. G comparison: a corrupted expectation must be flagged
    case = {"min": ["2", "*", "3"], "full": ["(", "2", ")", "*", "(", "3", ")"], "exp": {"kind": "val", "what": "", "ex": True, "n": 6, "d": 1, "rk": False}}
    obs = _eval_trees([case])[0]
    v0 = judge_tree(case, obs)[0]
    case["exp"]["n"] = 7
    v1 = judge_tree(case, obs)[0]
    print(f"G judge: true expectation -> {v0}; corrupted expectation -> {v1}")
    ok &= v0 == "ok" and v1 == "violation"
    # 4. Trace_FormatNum
    shapes = [{"sep": [","], "dec": ".", "grp": [3, 0]}]
    evs = [{"shape": 1, "int": list("1234567"), "frac": list("5"), "formatted": num_atoms("1,234,567.5"), "back": num_atoms("1234567.5")}]
    f0, _ = validate_formatnum_trace(None, shapes, evs)
    evs[0]["back"] = num_atoms("12345675")
    f1, _ = validate_formatnum_trace(None, shapes, evs)
    print(f"Trace_FormatNum: good round trip rejected={len(f0)}; corrupted: rejected={len(f1)}")
    ok &= (not f0) and len(f1) == 1
    print("selftest", "passed" if ok else "FAILED")
    return 0 if ok else 1
