"""C14 — all three views of a template call's arguments agree.

M  TLC checks, on every admissible argument list up to the bound, that the three
   transcribed algorithms (ArgViews.tla: ViewNode, ViewExpander, ViewLua) equal the
   reference ArgMap; Demo_ArgViews_lua shows the earlier Lua frame construction does not.
G  each list is written as {{T|...}} / {{#invoke:M|dump|...}} and run through the real
   parse() -> template_parameters, expand(template_fn=...) and a Lua module that
   serialises frame.args; each real map must equal the specification's ArgMap.
V  longer lists (<= 6) sampled with seeded randomness are recorded from the real code and
   validated by TLC (universe FILE).
"""
from __future__ import annotations

import json
import random
from pathlib import Path

import common
import luastub
from common import Outcome, Scratch, pmap, tlc

PID = "C14"
ATOM = {"SP": " ", "NL": "\n"}
RS, US = "\x1e", "\x1f"

MODULE = r"""
local p = {}
function p.dump(frame)
  local out = {}
  for k, v in pairs(frame.args) do
    out[#out + 1] = type(k) .. "\31" .. tostring(k) .. "\31" .. tostring(v)
  end
  table.sort(out)
  return table.concat(out, "\30")
end
return p
"""


def text(atoms):
    return "".join(ATOM.get(a, a) for a in atoms)


def exp_map(entries):
    m = {}
    for e in entries:
        m[e["num"] if e["int"] else text(e["key"])] = text(e["val"])
    return m


def make_ctx(d, name="p"):
    from wikitextprocessor import Wtp

    sub = Path(d) / name
    sub.mkdir(parents=True, exist_ok=True)
    ctx = Wtp(db_path=str(sub / "pages.db"), quiet=True, quiet_output=True)
    luastub.install(ctx)
    luastub.add_module(ctx, "M", MODULE)
    ctx.add_page("Template:T", 10, body="x")
    ctx.db_conn.commit()
    return ctx


def views(ctx, args):
    from wikitextprocessor import NodeKind

    written = "".join("|" + text(a) for a in args)
    res = {}
    # 1. parsed node
    ctx.start_page("Pg")
    try:
        root = ctx.parse("{{T" + written + "}}")
        nodes = [n for n in root.find_child_recursively(NodeKind.TEMPLATE)]
        tp = nodes[0].template_parameters if nodes else None
        res["node"] = dict(tp) if tp is not None else None
    except Exception as e:  # noqa: BLE001
        res["node"] = "EXC " + repr(e)
    # 2. template_fn
    got = []

    def tfn(name, ht):
        got.append(dict(ht))
        return "t"

    try:
        ctx.start_page("Pg")
        ctx.expand("{{T" + written + "}}", template_fn=tfn)
        res["expander"] = got[0] if got else None
    except Exception as e:  # noqa: BLE001
        res["expander"] = "EXC " + repr(e)
    # 3. Lua
    try:
        ctx.start_page("Pg")
        out = ctx.expand("{{#invoke:M|dump" + written + "}}")
        m = {}
        if out:
            for rec in out.split(RS):
                t, k, v = rec.split(US)
                m[int(float(k)) if t == "number" else k] = v
        res["lua"] = m
    except Exception as e:  # noqa: BLE001
        res["lua"] = "EXC " + repr(e)
    return res


_G = {}


def chunk_fn(chunk):
    common.use_repo()
    out = []
    with Scratch("c14-") as d:
        ctx = make_ctx(d)
        try:
            for idx, args in chunk:
                out.append((idx, views(ctx, args)))
        finally:
            ctx.db_conn.close()
    return out


def judge(o, c, v, origin):
    exp = exp_map(c["map"])
    lua_asis = exp_map(c["lua_asis"])
    node_asis = exp_map(c["node_asis"])
    written = "{{T" + "".join("|" + text(a) for a in c["args"]) + "}}"
    for view in ("node", "expander", "lua"):
        o.evaluations += 1
        got = v[view]
        if got == exp:
            continue
        case = {"origin": origin, "call": written, "view": view, "expected": {str(k): x for k, x in exp.items()},
                "got": {str(k): x for k, x in got.items()} if isinstance(got, dict) else got}
        if view == "node" and got == node_asis and node_asis != exp:
            o.classify(case, "the parsed node's argument map lacks the blanks of a blank-only line of the written value",
                       ["NodeViewDropsBlankOnlyLines"], cls="node-known")
        elif view == "lua" and got == lua_asis and lua_asis != exp:
            o.classify(case, "Lua frame.args differs from the argument map", sorted(o.known), cls="lua-known")
        else:
            o.violation(case, f"{view} view of {written!r} is {got!r}; the specification's argument map is {exp!r}", cls=view)
    o.shape(common.json_key(c["args"]))


def run(tier: str) -> int:
    o = Outcome(PID, tier)
    o.rule = "every admissible argument list (distinct names, non-blank values) up to MaxLen over 14 written forms is one case; all are non-trivial"
    o.assumptions = ["plain-text names and values", "Lua runs with pure-Lua stand-ins for ustring/libraryUtil"]
    thorough = tier == "thorough"
    r = tlc("Gen_ArgViews", "Gen_ArgViews_4.cfg" if thorough else "Gen_ArgViews_3.cfg", workers=1, timeout=3000)
    o.add_tlc("Gen_ArgViews[<=4] laws+cases" if thorough else "Gen_ArgViews[<=3] laws+cases", r)
    d = tlc("Gen_ArgViews", "Demo_ArgViews_lua.cfg", workers=1, check=False)
    o.extra["demo_old_lua_view_differs"] = bool(d.invariant_violated)
    if not d.invariant_violated:
        raise common.TLCError("Demo_ArgViews_lua lost its counterexample")
    cases = r.cases
    res = pmap(chunk_fn, [(i, c["args"]) for i, c in enumerate(cases)])
    for idx, v in res:
        judge(o, cases[idx], v, "G")
        o.traces += 1
    if thorough:
        # every admissible list of exactly five arguments over the reduced alphabet (FormsR)
        r5 = tlc("Gen_ArgViews", "Gen_ArgViews_5R.cfg", workers=1, timeout=3000)
        o.add_tlc("Gen_ArgViews[=5, reduced alphabet] laws+cases", r5)
        cases5 = r5.cases        # parsed once: the property re-reads TLC's whole output
        res5 = pmap(chunk_fn, [(i, c["args"]) for i, c in enumerate(cases5)])
        for idx, v in res5:
            judge(o, cases5[idx], v, "G5")
            o.traces += 1
    o.exhaustive = True
    o.sample({"call": "{{T" + "".join("|" + text(a) for a in cases[len(cases) // 2]["args"]) + "}}", "map": {str(k): v for k, v in exp_map(cases[len(cases) // 2]["map"]).items()}})
    # V: longer sampled lists, evaluated by TLC from a file
    rng = random.Random(common.seed() * 977 + 14)
    forms = sorted({common.json_key(a) for c in cases for a in c["args"]})
    forms = [json.loads(f) for f in forms]
    lists = []
    for _ in range(20000 if thorough else 400):
        n = rng.randint(4, 6)
        lists.append([rng.choice(forms) for _ in range(n)])
    with Scratch("c14v-") as dd:
        f = dd / "lists.json"
        f.write_text(json.dumps(lists))
        cfg = "SPECIFICATION SpecF\nCONSTANTS\n  MaxLen = 0\n  Known <- KnownC14\nINVARIANT GenInv\nCHECK_DEADLOCK FALSE\n"
        rv = tlc("Gen_ArgViews", "f.cfg", cfg_text=cfg, workers=1, timeout=1800, env={"LIST_FILE": str(f)})
    o.add_tlc("Gen_ArgViews[FILE]", rv)
    vcases = rv.cases
    res = pmap(chunk_fn, [(i, c["args"]) for i, c in enumerate(vcases)])
    for idx, v in res:
        judge(o, vcases[idx], v, "V")
        o.traces += 1
    return o.finish()


def replay(path: str) -> int:
    v = json.loads(Path(path).read_text())
    print(json.dumps(v, indent=1)[:2000])
    return 1


def selftest() -> int:
    r = tlc("Gen_ArgViews", "Gen_ArgViews_2.cfg", workers=1)
    c = r.cases[5]
    o = Outcome(PID, "quick")
    c["map"][0]["val"] = ["CORRUPT"]
    judge(o, c, chunk_fn([(0, c["args"])])[0][1], "selftest")
    print("violations after corrupting one expected value:", len(o.violations))
    return 0 if o.violations else 1
