"""C13 — selective expansion expands exactly the selected templates and honours the hooks.

M  TLC evaluates the expander twin on pages x libraries x need_pre_expand sets x
   selections (templates_to_expand / templates_to_not_expand subsets, expand_parserfns,
   template_fn in {none, observe, marker}, post_template_fn in {none, replace}) and checks:
   nothing selected + parser functions off => text unchanged; hooks once per expanded call.
G  every case runs on the real expand(): returned string and the exact sequence of hook
   calls (name, final argument map, expansion seen by post_template_fn) must equal the twin's.
R  repeated calls (Gen_ExpanderRep): the SAME call 2x / 3x in one piece of text (page, template body --
   also equal only after {{{n}}} substitution --, argument value, #if branch, link part, unexpanded
   wrapper; with another call between the copies) x hooks that answer per CALL (marker for the first
   call only / for all but the first / numbered markers; a numbering post_template_fn).  The twin threads
   the hook calls through its state, so output and the exact hook-call sequence come from TLC; TLC also
   checks that n copies of a unit make n times the hook calls of one copy.
P  positions (Gen_ExpanderPos): the NAME of a named argument is computed ({{t|{{Key}}=v}}: by a template call that the
   selection of the case selects or not, by a parser function, an argument reference, text next to a call) and the same
   inner content also sits in a named / positional value, in name AND value, in an argument of an argument, in a
   template body, in a default; outer call selected / unselected / non-existent.  An expanded call is expanded from its
   FINAL argument map (names and values fully expanded whatever the selection says about the templates used in them);
   TLC checks that no name handed to template_fn keeps call syntax and that every (name, map) seen under a selection is
   also seen when everything is expanded, and predicts output + hook calls for the replay on the real expand().
"""
from __future__ import annotations

import json
from concurrent.futures import ThreadPoolExecutor
from pathlib import Path

import common
import expander as ex
import transclusion as tr
from c16 import PREBODY
from common import Outcome, Scratch, pmap, tlc

PID = "C13"
_G = {}
HISTORY_POLICIES = {"first", "later", "num", "number"}


def run_case(ctx, c):
    """One expand() call with the hook policies of Expander.tla (banner "C13 repeated calls"): what a hook
    answers is a function of (policy, template name, ordinal of this call of the hook in this expand())."""
    o = c["o"]
    hooks = []
    count = {"t": 0, "p": 0}

    def tfn(name, args):
        hooks.append(("template_fn", name, dict(args)))
        count["t"] += 1
        k, pol = count["t"], o["tfn"]
        if pol == "marker" or (pol == "first" and k == 1) or (pol == "later" and k > 1):
            return f"<MARK:{name}>"
        if pol == "num":
            return f"<MARK:{name}#{k}>"
        return None

    def pfn(name, args, t):
        hooks.append(("post_template_fn", name, dict(args), t))
        count["p"] += 1
        if o["pfn"] == "replace":
            return f"<POST:{name}>"
        if o["pfn"] == "number":
            return f"{t}#{count['p']}"
        return None

    src = tr.render(c["page"])
    exc = None
    out = None
    try:
        out = ctx.expand(
            src,
            pre_expand=o["pre"],
            templates_to_expand=set(o["exp"]) if o["hasExp"] else None,
            templates_to_not_expand=set(o["nots"]) if o["hasNot"] else None,
            expand_parserfns=o["pfns"],
            expand_invoke=o["invoke"],
            template_fn=tfn if o["tfn"] != "none" else None,
            post_template_fn=pfn if o["pfn"] != "none" else None,
        )
    except Exception as e:  # noqa: BLE001
        exc = repr(e)
    return {"src": src, "out": out, "nout": ex.norm_out(out) if isinstance(out, str) else None, "exc": exc, "hooks": hooks}


def hook_diff(got, exp):
    """What is wrong with the hook calls, in the statement's terms ('' when they agree)."""
    if got == exp:
        return ""
    res = []
    for h in ("template_fn", "post_template_fn"):
        g = [x for x in got if x[0] == h]
        e = [x for x in exp if x[0] == h]
        if len(g) == len(e):
            continue
        if len(g) < len(e):
            miss = next((x for i, x in enumerate(e) if i >= len(g) or g[i][:3] != x[:3]), e[-1])
            earlier = sum(1 for x in g if x[:3] == miss[:3])
            res.append(f"{h} was called {len(g)}x for {len(e)} expanded calls: no call for {{{{{miss[1]}}}}} with arguments {miss[2]!r}"
                       + (f" (the same call was expanded {earlier}x before: every occurrence is a call of its own)" if earlier else ""))
        else:
            res.append(f"{h} was called {len(g)}x for {len(e)} expanded calls")
    # the argument map: per template name, the k-th call seen against the k-th call expected
    same_calls = sorted(map(repr, (x[:3] for x in got))) == sorted(map(repr, (x[:3] for x in exp)))   # order-only difference
    for h in () if same_calls else ("template_fn", "post_template_fn"):
        names = []
        for x in exp:
            if x[0] == h and x[1] not in names:
                names.append(x[1])
        for nm in names:
            pair = next(((g, e) for g, e in zip([x for x in got if x[0] == h and x[1] == nm], [x for x in exp if x[0] == h and x[1] == nm])
                         if g[2] != e[2]), None)
            if pair is None:
                continue
            g, e = pair
            extra = [k for k in g[2] if k not in e[2]]
            lost = [k for k in e[2] if k not in g[2]]
            raw = [k for k in extra if isinstance(k, str) and "{{" in k]
            res.append(f"{h} for {{{{{nm}}}}} received the argument map {g[2]!r} instead of the final map {e[2]!r}"
                       + (f": argument name {raw[0]!r} was handed over unexpanded (names and values of an expanded call are expanded "
                          f"completely, whatever the selection says about the templates used in them); parameter {lost[0] if lost else '?'!r} stays unbound"
                          if raw else (f": argument name(s) {extra!r} instead of {lost!r}" if extra or lost else ": other argument values")))
            break
        if any("argument map" in x for x in res):
            break
    if not res:
        same = sorted(map(repr, (x[:2] for x in got))) == sorted(map(repr, (x[:2] for x in exp)))
        res.append("the hooks were called for the same calls in another order" if same and [x[:3] for x in got] != [x[:3] for x in exp]
                   else "the hooks received other arguments / expansions")
    return "; ".join(res)


def replay_chunk(groups):
    common.use_repo()
    cases = _G["cases"]
    res = []
    with Scratch("c13-") as d:
        for gi, idxs in enumerate(groups):
            c0 = cases[idxs[0]]
            ctx = ex.make_ctx(d, c0["lib"], c0["need"], PREBODY, f"g{gi}", enwikt=c0.get("enw", True))
            try:
                for idx in idxs:
                    c = cases[idx]
                    ctx.start_page("Pg")
                    ob = run_case(ctx, c)
                    exp_out = tr.text(c["out"])
                    exp_hooks = ex.expected_hooks(c)
                    ok = ob["exc"] is None and ob["nout"] == exp_out and ob["hooks"] == exp_hooks
                    asis_out = tr.text(c.get("asis_out", c["out"]))
                    if not ok:
                        hd = hook_diff(ob["hooks"], exp_hooks)
                        res.append({"idx": idx, "src": ob["src"], "out": ob["out"], "exc": ob["exc"], "hooks": ob["hooks"][:6],
                                    "exp_out": exp_out, "exp_hooks": exp_hooks[:6], "ok": False, "hookwhy": hd,
                                    "order_only": hd.startswith("the hooks were called for the same calls in another order"),
                                    "asis": ob["exc"] is None and ob["nout"] == asis_out and asis_out != exp_out})
                    else:
                        res.append({"idx": idx, "ok": True, "nh": len(exp_hooks)})
            finally:
                ctx.db_conn.close()
    return res


def _has_call(content):
    for it in content:
        if it["k"] in ("c", "inv"):
            return True
        for k in ("def", "c", "y", "n", "a", "b", "v", "dflt"):
            if isinstance(it.get(k), list) and it.get("k") != "c" and _has_call(it[k]):
                return True
        for a in it.get("args", []) or []:
            if isinstance(a, list):
                if _has_call(a):
                    return True
            elif _has_call(a["val"]) or _has_call(a["key"]):
                return True
        for cs in it.get("cases", []) or []:
            if _has_call(cs["val"]):
                return True
    return False


def _pfn_with_inner_call(content):
    """a parser-function item whose non-first arguments contain a call"""
    for it in content:
        k = it["k"]
        if k == "if" and (_has_call(it["y"]) or _has_call(it["n"])):
            return True
        if k == "eq" and (_has_call(it["b"]) or _has_call(it["y"]) or _has_call(it["n"])):
            return True
        if k == "sw" and (_has_call(it["dflt"]) or any(_has_call(cs["val"]) for cs in it["cases"])):
            return True
        for f in ("def", "c", "y", "n", "a", "b", "v", "dflt"):
            if isinstance(it.get(f), list) and _pfn_with_inner_call(it[f]):
                return True
        for a in it.get("args", []) or []:
            if isinstance(a, list):
                if _pfn_with_inner_call(a):
                    return True
            elif _pfn_with_inner_call(a["val"]):
                return True
    return False


def outside_statement(c):
    """expand_parserfns=False AND a disabled parser function keeps a call in a later argument: the code
    leaves such calls as internal placeholders that are expanded (or not) depending on where the text travels;
    the property does not say what must happen to calls inside a disabled parser function -> DRIFT only."""
    if c["o"]["pfns"]:
        return False
    if _pfn_with_inner_call(c["page"]):
        return True
    return any(_pfn_with_inner_call(seg["c"]) for segs in c["lib"].values() for seg in segs)


def run(tier: str) -> int:
    o = Outcome(PID, tier)
    o.rule = ("each (library, need_pre_expand set, page, selection/switch/hook combination) of Gen_Expander universe C13 is one case; "
              "distinct_nontrivial = distinct (page, options, need) for which at least one call is left unexpanded or a hook fires; "
              "plus Gen_ExpanderRep: (unit call, shape of repetition, need set, selection, per-call hook policy pair) is one case; "
              "plus Gen_ExpanderPos: (position of the inner content in a call, inner content, outer template, need set, selection, hook policy pair) is one case")
    o.assumptions = ["marker strings returned by the hooks are non-empty and do not start with a list marker",
                     "parser-function first arguments are written without leading blanks (expand() strips them when re-emitting)",
                     "text that becomes an argument NAME through argument substitution holds no character a name cannot hold (< > [ ] & = \")",
                     "hooks are deterministic functions of (template name, arguments, number of earlier calls of the hook in this expand())"]
    uni = "C13" if tier == "thorough" else "C13Q"
    runi = "C13R" if tier == "thorough" else "C13RQ"
    # the two generators are independent TLC runs: run them side by side
    puni = "C13P" if tier == "thorough" else "C13PQ"
    with ThreadPoolExecutor(max_workers=2) as pool:
        fut = pool.submit(tlc, "Gen_ExpanderRep", f"Gen_ExpanderRep_{runi}.cfg", workers=1, timeout=3000)
        futp = pool.submit(tlc, "Gen_ExpanderPos", f"Gen_ExpanderPos_{puni}.cfg", workers=1, timeout=3000)
        r = tlc("Gen_Expander", f"Gen_Expander_{uni}.cfg", workers=1, timeout=3000)
        rr = fut.result()
        rp = futp.result()
    o.add_tlc(f"Gen_Expander[{uni}] laws+cases", r)
    o.add_tlc(f"Gen_ExpanderRep[{runi}] repeated calls x per-call hook policies: laws+cases", rr)
    o.add_tlc(f"Gen_ExpanderPos[{puni}] computed argument names / position of a call in a call x selections: laws+cases", rp)
    cases = r.cases + rr.cases + rp.cases
    _G["cases"] = cases
    groups = [g[i:i + 1500] for g in ex.group_cases(cases) for i in range(0, len(g), 1500)]
    results = pmap(replay_chunk, groups, chunk=1)
    rep_shapes = {}
    pos_shapes = {}
    for ob in results:
        c = cases[ob["idx"]]
        o.evaluations += 1
        o.traces += 1
        if ob["ok"]:
            if ob["nh"] or "{{" in "".join(c["out"]):
                o.shape((common.json_key(c["page"]), common.json_key(c["o"]), common.json_key(c["need"])))
            if "shape" in c and ob["nh"]:
                rep_shapes[c["shape"]] = rep_shapes.get(c["shape"], 0) + 1
            if "pos" in c and c["o"]["pre"] and (ob["nh"] or "{{" in "".join(c["out"])):
                k = f"{c['pos']}/{c['inner']}"
                pos_shapes[k] = pos_shapes.get(k, 0) + 1
            continue
        case = {"lib": {k: tr.render_body(v) for k, v in c["lib"].items()}, "need_pre_expand": c["need"], "page": ob["src"],
                "options": c["o"], "expected_out": ob["exp_out"], "got_out": ob["out"], "exception": ob["exc"],
                "expected_hooks": ob["exp_hooks"], "got_hooks": ob["hooks"]}
        hookwhy = ob.get("hookwhy", "")
        if ob["exc"]:
            o.violation(case, f"expand() raised {ob['exc']}", cls="exception")
        elif ob.get("asis") and o.known:
            o.classify(case, "selective expansion differs from the specification", sorted(o.known), cls="known")
        elif outside_statement(c):
            o.note_drift({"page": ob["src"], "options": c["o"], "model_out": ob["exp_out"], "real_out": ob["out"],
                          "note": "call inside a disabled parser function"})
        elif ob.get("order_only") and (c["o"]["tfn"] in HISTORY_POLICIES or c["o"]["pfn"] in HISTORY_POLICIES):
            # same calls, other order, and only the per-call answers make the order visible: the statement
            # fixes how often and with what the hooks are called, not the order between different calls
            o.note_drift({"page": ob["src"], "options": c["o"], "model_out": ob["exp_out"], "real_out": ob["out"],
                          "model_hooks": ob["exp_hooks"], "real_hooks": ob["hooks"], "note": "order of hook calls between different calls"})
        elif ex.norm_out(ob["out"]) != ob["exp_out"]:
            o.violation(case, f"selective expansion of {ob['src']!r} returned {ob['out']!r}; the specification gives {ob['exp_out']!r}"
                        + (f" [{hookwhy}]" if hookwhy else "")
                        + (f" [computed content {c['inner']!r} in position {c['pos']!r} of a call of {c['outer']}: an expanded call is expanded from its "
                           "final argument map, names and values fully expanded]" if "pos" in c else ""), cls="out")
        else:
            o.violation(case, f"hook calls differ for {ob['src']!r}: {hookwhy}: got {ob['hooks']!r}, specification {ob['exp_hooks']!r}", cls="hooks")
    o.extra["repeated_call_cases_with_hook_calls_by_shape"] = rep_shapes
    o.extra["position_cases_under_selection_by_position_and_inner_content"] = pos_shapes
    o.exhaustive = True
    mid = cases[len(cases) // 2]
    o.sample({"page": tr.render(mid["page"]), "options": mid["o"], "need": mid["need"], "expected": tr.text(mid["out"]),
              "expected_hooks": [list(h[:3]) for h in ex.expected_hooks(mid)][:3]})
    return o.finish()


def replay(path: str) -> int:
    v = json.loads(Path(path).read_text())
    print(json.dumps(v, indent=1)[:3000])
    return 1


def selftest() -> int:
    # (the C04M universe used here earlier no longer evaluates: its pages hold item kinds the reference
    #  semantics of Transclusion.tla does not define; the repeated-call universe serves both parts)
    r = tlc("Gen_ExpanderRep", "Gen_ExpanderRep_C13RQ.cfg", workers=1)
    cases = [c for c in r.cases if c["shape"] in ("x2", "mixed") and c["o"]["tfn"] == "observe" and c["o"]["pfn"] == "none" and not c["o"]["pre"]]
    cases[0]["out"] = cases[0]["out"] + ["CORRUPT"]
    _G["cases"] = cases
    res = pmap(replay_chunk, ex.group_cases(cases), chunk=1)
    bad = [x for x in res if not x["ok"]]
    print("corrupted expected output detected:", len(bad), "of", len(cases), "cases")
    if len(bad) != 1:
        return 1
    cases[0]["out"] = cases[0]["out"][:-1]
    # repeated calls: an expectation in which the second copy of a call does not consult the hook must be rejected
    cases = [c for c in r.cases if c["shape"] == "x2" and c["o"]["tfn"] == "observe" and c["o"]["pfn"] == "none" and not c["o"]["pre"]]
    n = 0
    for c in cases:
        if len(c["hooks"]) >= 2 and len(c["hooks"]) % 2 == 0:
            c["hooks"] = c["hooks"][: len(c["hooks"]) // 2]
            n += 1
    _G["cases"] = cases
    res = pmap(replay_chunk, ex.group_cases(cases), chunk=1)
    bad = [x for x in res if not x["ok"]]
    print(f"repeated calls: {n} expectations without the second copy's hook calls, detected:", len(bad),
          "e.g.", bad[0]["hookwhy"] if bad else None)
    if not (n > 0 and len(bad) == n):
        return 1
    # positions: an expectation in which template_fn is handed the WRITTEN name of a computed argument name must be rejected
    rp = tlc("Gen_ExpanderPos", "Gen_ExpanderPos_C13PQ.cfg", workers=1)
    cases = [c for c in rp.cases if c["pos"] == "argname" and c["inner"] == "call" and c["o"]["pre"] and c["o"]["tfn"] == "observe"]
    m = 0
    for c in cases:
        hit = False
        for h in c["hooks"]:
            for b in h["args"]:
                if h["name"] == c["outer"] and b["key"] == ["x"]:
                    b["key"] = ["{{", "Key", "}}"]
                    hit = True
        m += hit
    cases = [c for c in cases if any(b["key"] == ["{{", "Key", "}}"] for h in c["hooks"] for b in h["args"])]
    _G["cases"] = cases
    res = pmap(replay_chunk, ex.group_cases(cases), chunk=1)
    bad = [x for x in res if not x["ok"]]
    print(f"positions: {m} expectations with the written argument name in the hook's map, detected:", len(bad),
          "e.g.", bad[0]["hookwhy"][:200] if bad else None)
    return 0 if m > 0 and len(bad) == m else 1
