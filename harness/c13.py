"""C13 — selective expansion expands exactly the selected templates and honours the hooks.

M  TLC evaluates the expander twin on pages x libraries x need_pre_expand sets x
   selections (templates_to_expand / templates_to_not_expand subsets, expand_parserfns,
   template_fn in {none, observe, marker}, post_template_fn in {none, replace}) and checks:
   nothing selected + parser functions off => text unchanged; hooks once per expanded call.
G  every case runs on the real expand(): returned string and the exact sequence of hook
   calls (name, final argument map, expansion seen by post_template_fn) must equal the twin's.
"""
from __future__ import annotations

import json
from pathlib import Path

import common
import expander as ex
import transclusion as tr
from c16 import PREBODY
from common import Outcome, Scratch, pmap, tlc

PID = "C13"
_G = {}


def replay_chunk(groups):
    common.use_repo()
    cases = _G["cases"]
    res = []
    with Scratch("c13-") as d:
        for gi, idxs in enumerate(groups):
            c0 = cases[idxs[0]]
            ctx = ex.make_ctx(d, c0["lib"], c0["need"], PREBODY, f"g{gi}", enwikt=c0.get("enw", True))
            try:
                for idx in idxs:
                    c = cases[idx]
                    ctx.start_page("Pg")
                    ob = ex.run_case(ctx, c)
                    exp_out = tr.text(c["out"])
                    exp_hooks = ex.expected_hooks(c)
                    ok = ob["exc"] is None and ob["nout"] == exp_out and ob["hooks"] == exp_hooks
                    asis_out = tr.text(c.get("asis_out", c["out"]))
                    if not ok:
                        res.append({"idx": idx, "src": ob["src"], "out": ob["out"], "exc": ob["exc"], "hooks": ob["hooks"][:6],
                                    "exp_out": exp_out, "exp_hooks": exp_hooks[:6], "ok": False,
                                    "asis": ob["exc"] is None and ob["nout"] == asis_out and asis_out != exp_out})
                    else:
                        res.append({"idx": idx, "ok": True, "nh": len(exp_hooks)})
            finally:
                ctx.db_conn.close()
    return res


def _has_call(content):
    for it in content:
        if it["k"] in ("c", "inv"):
            return True
        for k in ("def", "c", "y", "n", "a", "b", "v", "dflt"):
            if isinstance(it.get(k), list) and it.get("k") != "c" and _has_call(it[k]):
                return True
        for a in it.get("args", []) or []:
            if isinstance(a, list):
                if _has_call(a):
                    return True
            elif _has_call(a["val"]) or _has_call(a["key"]):
                return True
        for cs in it.get("cases", []) or []:
            if _has_call(cs["val"]):
                return True
    return False


def _pfn_with_inner_call(content):
    """a parser-function item whose non-first arguments contain a call"""
    for it in content:
        k = it["k"]
        if k == "if" and (_has_call(it["y"]) or _has_call(it["n"])):
            return True
        if k == "eq" and (_has_call(it["b"]) or _has_call(it["y"]) or _has_call(it["n"])):
            return True
        if k == "sw" and (_has_call(it["dflt"]) or any(_has_call(cs["val"]) for cs in it["cases"])):
            return True
        for f in ("def", "c", "y", "n", "a", "b", "v", "dflt"):
            if isinstance(it.get(f), list) and _pfn_with_inner_call(it[f]):
                return True
        for a in it.get("args", []) or []:
            if isinstance(a, list):
                if _pfn_with_inner_call(a):
                    return True
            elif _pfn_with_inner_call(a["val"]):
                return True
    return False


def outside_statement(c):
    """expand_parserfns=False AND a disabled parser function keeps a call in a later argument: the code
    leaves such calls as internal placeholders that are expanded (or not) depending on where the text travels;
    the property does not say what must happen to calls inside a disabled parser function -> DRIFT only."""
    if c["o"]["pfns"]:
        return False
    if _pfn_with_inner_call(c["page"]):
        return True
    return any(_pfn_with_inner_call(seg["c"]) for segs in c["lib"].values() for seg in segs)


def run(tier: str) -> int:
    o = Outcome(PID, tier)
    o.rule = ("each (library, need_pre_expand set, page, selection/switch/hook combination) of Gen_Expander universe C13 is one case; "
              "distinct_nontrivial = distinct (page, options, need) for which at least one call is left unexpanded or a hook fires")
    o.assumptions = ["marker strings returned by the hooks are non-empty and do not start with a list marker",
                     "parser-function first arguments are written without leading blanks (expand() strips them when re-emitting)"]
    uni = "C13" if tier == "thorough" else "C13Q"
    r = tlc("Gen_Expander", f"Gen_Expander_{uni}.cfg", workers=1, timeout=3000)
    o.add_tlc(f"Gen_Expander[{uni}] laws+cases", r)
    cases = r.cases
    _G["cases"] = cases
    results = pmap(replay_chunk, ex.group_cases(cases), chunk=1)
    for ob in results:
        c = cases[ob["idx"]]
        o.evaluations += 1
        o.traces += 1
        if ob["ok"]:
            if ob["nh"] or "{{" in "".join(c["out"]):
                o.shape((common.json_key(c["page"]), common.json_key(c["o"]), common.json_key(c["need"])))
            continue
        case = {"lib": {k: tr.render_body(v) for k, v in c["lib"].items()}, "need_pre_expand": c["need"], "page": ob["src"],
                "options": c["o"], "expected_out": ob["exp_out"], "got_out": ob["out"], "exception": ob["exc"],
                "expected_hooks": ob["exp_hooks"], "got_hooks": ob["hooks"]}
        if ob["exc"]:
            o.violation(case, f"expand() raised {ob['exc']}", cls="exception")
        elif ob.get("asis") and o.known:
            o.classify(case, "selective expansion differs from the specification", sorted(o.known), cls="known")
        elif outside_statement(c):
            o.note_drift({"page": ob["src"], "options": c["o"], "model_out": ob["exp_out"], "real_out": ob["out"],
                          "note": "call inside a disabled parser function"})
        elif ex.norm_out(ob["out"]) != ob["exp_out"]:
            o.violation(case, f"selective expansion of {ob['src']!r} returned {ob['out']!r}; the specification gives {ob['exp_out']!r}", cls="out")
        else:
            o.violation(case, f"hook calls differ for {ob['src']!r}: got {ob['hooks']!r}, specification {ob['exp_hooks']!r}", cls="hooks")
    o.exhaustive = True
    mid = cases[len(cases) // 2]
    o.sample({"page": tr.render(mid["page"]), "options": mid["o"], "need": mid["need"], "expected": tr.text(mid["out"]),
              "expected_hooks": [list(h[:3]) for h in ex.expected_hooks(mid)][:3]})
    return o.finish()


def replay(path: str) -> int:
    v = json.loads(Path(path).read_text())
    print(json.dumps(v, indent=1)[:3000])
    return 1


def selftest() -> int:
    r = tlc("Gen_Expander", "Gen_Expander_C04M.cfg", workers=1)
    cases = r.cases
    cases[0]["out"] = cases[0]["out"] + ["CORRUPT"]
    _G["cases"] = cases
    res = pmap(replay_chunk, ex.group_cases(cases), chunk=1)
    bad = [x for x in res if not x["ok"]]
    print("corrupted expectations detected:", len(bad))
    return 0 if len(bad) == 1 else 1
