"""Replay of Gen_Expander cases into the real expand(): shared by C16, C13, C05(a)."""
from __future__ import annotations

import re
import time
from pathlib import Path

import common
import luastub
import transclusion as tr

MODULE_M = r"""
local p = {}
function p.echo(frame) local a = frame.args[1] if a == nil then a = "" end return "L" .. a end
function p.err(frame) error("boom") end
function p.pre(frame) return frame:preprocess(PREBODY) end
function p.tpl(frame) return frame:expandTemplate{title = "T1", args = {"e"}} end
function p.loop(frame) while true do end end
function p.pyx(frame) return frame:expandTemplate{title = 5, args = {}} end
function p.ext(frame) return frame:extensionTag("nowiki", "x") .. frame:extensionTag("span", "y") .. frame:extensionTag{name = "nowiki", content = "z"} end
function p.pcx(frame) pcall(frame.expandTemplate, frame, {title = 5, args = {}}) return "K" end
return p
"""

ERR_SUBS = [
    (re.compile(r'<strong class="error">too deep recursion while expanding template .*?</strong>', re.S), "<ERR:depth>"),
    (re.compile(r'<strong class="error">Template loop detected: \[\[:Template:(.*?)\]\]</strong>'), r"<ERR:loop:\1>"),
    (re.compile(r'<strong class="error">Lua execution error in Module:M function (\w+)</strong>'), r"<ERR:lua:\1>"),
    (re.compile(r'<strong class="error">Lua timeout error in Module:M function (\w+)</strong>'), r"<ERR:timeout:\1>"),
]


def norm_out(s: str) -> str:
    for rx, rep in ERR_SUBS:
        s = rx.sub(rep, s)
    return s


def lua_long(s: str) -> str:
    eq = "="
    while "]" + eq + "]" in s:
        eq += "="
    return "[" + eq + "[" + s + "]" + eq + "]"


def make_ctx(d, lib, need, prebody, name="p", enwikt=True):
    from wikitextprocessor import Wtp

    sub = Path(d) / name
    sub.mkdir(parents=True, exist_ok=True)
    # a context that is not "English Wiktionary" expands need_pre_expand templates fully
    ctx = Wtp(db_path=str(sub / "pages.db"), quiet=True, quiet_output=True, project="wiktionary" if enwikt else "wikipedia")
    luastub.install(ctx)
    luastub.add_module(ctx, "M", MODULE_M.replace("PREBODY", lua_long(tr.render(prebody))))
    tr.install(ctx, lib, need)
    ctx.db_conn.commit()
    return ctx


def key_of(atoms):
    s = tr.text(atoms)
    return int(s) if s.isdigit() and int(s) > 0 else s


def argmap(bindings):
    m = {}
    for b in bindings:
        m[key_of(b["key"])] = tr.text(b["val"])
    return m


def label_of(s: str):
    if s.startswith("Template:"):
        return ("tmpl", s[9:])
    if s.startswith("ARGVAL-") and s != "ARGVAL-NO-TEMPLATE":
        return ("argval", "")
    m = re.fullmatch(r"Lua:Module:M:(\w+)\(\)", s)
    if m:
        return ("lbl", "Lua:" + m.group(1))
    return ("lbl", s)


class HardLimit(Exception):
    pass


def _alarm(signum, frame):
    raise HardLimit()


def run_case(ctx, c, timeout=None, hard_limit=None):
    """Returns the observation of one expand() call on a started page."""
    import signal

    o = c["o"]
    hooks = []

    def tfn(name, args):
        hooks.append(("template_fn", name, dict(args)))
        return f"<MARK:{name}>" if o["tfn"] == "marker" else None

    def pfn(name, args, t):
        hooks.append(("post_template_fn", name, dict(args), t))
        return f"<POST:{name}>" if o["pfn"] == "replace" else None

    src = tr.render(c["page"])
    before = list(ctx.expand_stack)
    t0 = time.time()
    exc = None
    out = None
    if hard_limit:
        signal.signal(signal.SIGALRM, _alarm)
        signal.alarm(int(hard_limit))
    try:
        out = ctx.expand(
            src,
            pre_expand=o["pre"],
            templates_to_expand=set(o["exp"]) if o["hasExp"] else None,
            templates_to_not_expand=set(o["nots"]) if o["hasNot"] else None,
            expand_parserfns=o["pfns"],
            expand_invoke=o["invoke"],
            template_fn=tfn if o["tfn"] != "none" else None,
            post_template_fn=pfn if o["pfn"] != "none" else None,
            timeout=timeout,
        )
    except HardLimit:
        exc = None
        out = ""
        t0 -= 10 * (hard_limit or 0)  # reported as far beyond the time bound
        ctx.expand_stack[:] = before
    except Exception as e:  # noqa: BLE001
        exc = repr(e)
    finally:
        if hard_limit:
            signal.alarm(0)
    return {
        "src": src,
        "out": out,
        "nout": norm_out(out) if isinstance(out, str) else None,
        "exc": exc,
        "before": before,
        "after": list(ctx.expand_stack),
        "hooks": hooks,
        "wall": time.time() - t0,
    }


def expected_hooks(c):
    res = []
    for h in c["hooks"]:
        if h["hook"] == "template_fn":
            res.append(("template_fn", h["name"], argmap(h["args"])))
        else:
            res.append(("post_template_fn", h["name"], argmap(h["args"]), tr.text(h["t"])))
    return res


def msg_summary(ctx):
    res = []
    for kind, lst in (("error", ctx.errors), ("warning", ctx.warnings)):
        for m in lst:
            res.append((kind, m.get("called_from")))
    return res


MSG_KEYS = {"msg", "trace", "title", "section", "subsection", "called_from", "path"}


def bad_messages(ctx, title):
    """Messages lacking the documented keys or carrying the wrong page title."""
    bad = []
    for lst in (ctx.errors, ctx.warnings, ctx.debugs, ctx.notes, ctx.wiki_notices):
        for m in lst:
            if set(m.keys()) != MSG_KEYS or m["title"] != title or not isinstance(m["path"], tuple):
                bad.append(m)
    return bad


def group_cases(cases):
    groups = {}
    for idx, c in enumerate(cases):
        k = common.json_key([c["lib"], c["need"], c.get("enw", True)])
        groups.setdefault(k, []).append(idx)
    return list(groups.values())
