"""C12 — dump ingestion stores exactly the selected pages, byte for byte.

M  TLC: MC_Ingest (parse_dump_xml's filter + add_page + add_default_templates as a
        sequence of PageStore actions, on every dump of the bound x namespace selection):
        final store = declarative Expected(dump, selection), nothing lost or merged, the
        store after every prefix is what the property demands of the prefix, the functional
        fold agrees, termination; MC_Ingest_asis (deviation on: the fold with "Main:"
        dropped is what the model computes); Demo_Ingest_main: TLC finds the merge of the
        main-namespace pages "Zed" and "Main:Zed".
G  TLC Gen_Ingest: every dump of the bound with the demanded store and the as-is store;
        each is written as a real .xml.bz2 (MediaWiki export layout, proper escaping,
        concrete nasty texts per body identifier; a second family: redirect pages of five
        namespaces x target shapes [main namespace / own / other namespace, canonical /
        alias / lower-case prefix, leading colon, fragment, underscore, itself, chains]
        with and without the pages they point to), ingested by the real parse_dump_xml +
        add_default_templates (every 4th through process_dump with the interwiki fetch
        stubbed), and get_all_pages() is compared row by row, byte by byte.
V  seeded random dumps (longer, titles/bodies from a wider universe, every namespace of
        the site) and a sweep over the namespaces.json of the language folders, recorded and
        validated by Trace_Ingest: TLC ingests the recorded dump through the model's
        actions and judges the recorded store.
"""
from __future__ import annotations

import bz2
import hashlib
import json
import os
import random
import re
import shutil
import tempfile
import threading
from pathlib import Path
from xml.sax.saxutils import quoteattr

import common
from common import Outcome, pmap, Scratch

_JT = None
_JT_LOCK = threading.Lock()


def tlc(*a, **kw):
    """common.tlc with the JVM's temp dir (TLC unpacks its standard modules there and
    never removes them) redirected into one scratch directory removed at exit."""
    global _JT
    with _JT_LOCK:
        if _JT is None:
            import atexit

            _JT = tempfile.mkdtemp(prefix="c12j-")
            atexit.register(shutil.rmtree, _JT, True)
    env = dict(kw.pop("env", None) or {})
    env["JAVA_TOOL_OPTIONS"] = (os.environ.get("JAVA_TOOL_OPTIONS", "") + f" -Djava.io.tmpdir={_JT}").strip()
    return common.tlc(*a, env=env, **kw)


PID = "C12"
DEV_MAIN = "MainPrefixStrippedOnAdd"
ATOM = {"SP": " ", "US": "_"}

# concrete texts behind the body identifiers of MC_Ingest / Gen_Ingest
BODY = {
    "b1": "<&>\"' &amp; &lt;b&gt; </text></revision> <page> & ;",
    "b2": "  two leading blanks, trailing blank and newlines \n\n",
    "b3": "\n\nleading newlines\tand\ttabs \t\n",
    "b4": "astral \U0001F600 \U00010348 \U0001D518, combining é, nbsp , zwj‍, bidi ‮",
    "b5": "]]> <![CDATA[ x ]]> &#65; &amp;#65; %41",
    "b6": "",
    "b7": "line1\r\nline2\rline3\n",
    "b8": " ",
    "t1": "A<NOINCLUDE>doc {{x}}</NoInclude >B",      # tag names are case-insensitive
    "t2": "pre<onlyinclude>X</onlyinclude>mid<onlyinclude>Y</onlyinclude>post",
    "t3": "<includeonly>I</includeonly>V<noinclude>N",
    "t4": "a<!-- c -->b",
    "t1i": "AB",
    "t2i": "XY",
    "t3i": "IV",
    "t4i": "ab",
    "d1": "|",
    "d2": "=",
    "d3": "&lbrace;&lbrace;",
    "d4": "&rbrace;&rbrace;",
    "NULL": None,
}
# identifiers whose concrete value the statement does not pin down: any text is accepted
# there (a difference is drift): the entity spelling of the brace helpers, and whether
# comments of a template are removed when it is stored or when it is expanded
SOFT = {"d3", "d4", "t4i"}


def conc(atoms) -> str:
    return "".join(ATOM.get(a, a) for a in atoms)


def conc_red(r):
    return None if list(r) == ["-"] else conc(r)


# ---------------------------------------------------------------------------
# writing a dump the way MediaWiki does
# ---------------------------------------------------------------------------

def xml_text(s: str) -> str:
    out = []
    for ch in s:
        if ch == "&":
            out.append("&amp;")
        elif ch == "<":
            out.append("&lt;")
        elif ch == ">":
            out.append("&gt;")
        elif ch == "\r":
            out.append("&#13;")
        else:
            out.append(ch)
    return "".join(out)


def write_dump(path: Path, pages, nsnames: dict) -> None:
    """pages: [(title, ns, model, redirect_to, text)]"""
    o = ['<mediawiki xmlns="http://www.mediawiki.org/xml/export-0.10/" '
         'xmlns:xsi="http://www.w3.org/2001/XMLSchema-instance" '
         'xsi:schemaLocation="http://www.mediawiki.org/xml/export-0.10/ http://www.mediawiki.org/xml/export-0.10.xsd" '
         'version="0.10" xml:lang="en">\n  <siteinfo>\n    <sitename>Wiktionary</sitename>\n    <dbname>testwiktionary</dbname>\n'
         '    <base>https://test.wiktionary.org/wiki/Main_Page</base>\n    <generator>MediaWiki 1.42</generator>\n    <case>case-sensitive</case>\n    <namespaces>\n']
    for i, n in sorted(nsnames.items()):
        if n:
            o.append(f'      <namespace key="{i}" case="case-sensitive">{xml_text(n)}</namespace>\n')
        else:
            o.append(f'      <namespace key="{i}" case="case-sensitive" />\n')
    o.append("    </namespaces>\n  </siteinfo>\n")
    for i, (t, ns, model, red, body) in enumerate(pages):
        o.append(f"  <page>\n    <title>{xml_text(t)}</title>\n    <ns>{ns}</ns>\n    <id>{i + 1}</id>\n")
        if red is not None:
            o.append(f"    <redirect title={quoteattr(red)} />\n")
        o.append(f"    <revision>\n      <id>{1000 + i}</id>\n      <parentid>{i}</parentid>\n      <timestamp>2024-01-01T00:00:00Z</timestamp>\n"
                 "      <contributor>\n        <username>U</username>\n        <id>1</id>\n      </contributor>\n      <comment>c &amp; c</comment>\n")
        if model != "":
            o.append(f"      <model>{model}</model>\n")
        o.append("      <format>text/x-wiki</format>\n")
        if body == "":
            o.append('      <text bytes="0" xml:space="preserve" />\n')
        else:
            o.append(f'      <text bytes="{len(body.encode())}" xml:space="preserve">{xml_text(body)}</text>\n')
        o.append("      <sha1>abc</sha1>\n    </revision>\n  </page>\n")
    o.append("</mediawiki>\n")
    path.write_bytes(bz2.compress("".join(o).encode("utf-8"), 1))


# ---------------------------------------------------------------------------
# running the real code on one dump
# ---------------------------------------------------------------------------

class Runner:
    def __init__(self, d: Path, lang: str = "en"):
        self.dir = d
        self.lang = lang
        self.n = 0
        self.ctx = None
        self.path = None
        import wikitextprocessor.dumpparser as dp

        self.dp = dp
        self.can_process_dump = hasattr(dp, "process_dump") and hasattr(dp, "init_interwiki_map")
        if self.can_process_dump:
            dp.init_interwiki_map = lambda wtp: None  # the only network access of process_dump

    def fresh(self):
        from wikitextprocessor import Wtp

        if self.ctx is not None:
            try:
                self.ctx.db_conn.execute("DELETE FROM pages")
                self.ctx.db_conn.commit()
                self.ctx.get_page.cache_clear()
                if not list(self.ctx.get_all_pages()):
                    return self.ctx
            except Exception:
                pass
            self.drop()
        self.n += 1
        sub = self.dir / f"db{self.n}"
        sub.mkdir()
        self.path = sub / "pages.db"
        self.ctx = Wtp(db_path=str(self.path), lang_code=self.lang, quiet=True)
        return self.ctx

    def drop(self):
        if self.ctx is not None:
            try:
                self.ctx.db_conn.close()
            except Exception:
                pass
            self.ctx = None

    def nsnames(self):
        ctx = self.ctx or self.fresh()
        return {v["id"]: (v["name"] if v["id"] != 0 else "") for v in ctx.NAMESPACE_DATA.values()}

    def ingest(self, pages, sel, how: int):
        """-> (rows | None, note).  rows: sorted list of (title, ns, redirect_to, body, model)."""
        ctx = self.fresh()
        dump = self.dir / "dump.xml.bz2"
        write_dump(dump, pages, self.nsnames())
        try:
            if how % 4 == 0 and self.can_process_dump:
                self.dp.process_dump(ctx, str(dump), set(sel))
            else:
                self.dp.parse_dump_xml(ctx, str(dump), set(sel))
                self.dp.add_default_templates(ctx)
            if how % 16 == 1:
                # what a new context on the same file sees (the ingestion must be committed)
                from wikitextprocessor import Wtp

                c2 = Wtp(db_path=str(self.path), lang_code=self.lang, quiet=True)
                try:
                    got = list(c2.get_all_pages())
                finally:
                    c2.db_conn.close()
            else:
                got = list(ctx.get_all_pages())
        except Exception as e:  # noqa: BLE001
            self.drop()
            return None, "exception " + repr(e)
        rows = sorted(((p.title, p.namespace_id, p.redirect_to, p.body, p.model) for p in got), key=repr)
        return rows, ""


def row_of(r):
    """expected row (atoms, body identifier) -> concrete tuple"""
    return (conc(r["title"]), r["ns"], conc_red(r["redirect"]), BODY[r["body"]], r["model"])


def diff_rows(obs, exp_rows, soft_keys):
    """-> (missing, unexpected) with soft bodies tolerated; second result: drift used"""
    exp = sorted((row_of(r) for r in exp_rows), key=repr)
    if obs == exp:
        return [], [], False
    # tolerate another text for the soft identifiers
    soft = {(conc(r["title"]), r["ns"]) for r in exp_rows if r["body"] in SOFT}
    strip = lambda rows: sorted(((t, n, rd, (None if (t, n) in soft else b), m) for (t, n, rd, b, m) in rows), key=repr)  # noqa: E731
    o2, e2 = strip(obs), strip(exp)
    if o2 == e2:
        return [], [], True
    missing = [r for r in e2 if r not in o2]
    unexpected = [r for r in o2 if r not in e2]
    if not missing and not unexpected:  # duplicate rows
        unexpected = [r for r in o2 if o2.count(r) > 1]
    return missing, unexpected, False


def red_diff(missing, unexpected):
    """-> [(title, ns, written target, stored target)] when the two row lists differ in
    nothing but redirect targets, else None"""
    if not missing or len(missing) != len(unexpected):
        return None
    un = {(t, n, b, m): rd for (t, n, rd, b, m) in unexpected}
    if len(un) != len(unexpected):
        return None
    out = []
    for (t, n, rd, b, m) in missing:
        if (t, n, b, m) not in un:
            return None
        out.append((t, n, rd, un[(t, n, b, m)]))
    return out


def red_why(rd):
    return "redirect target altered: " + "; ".join(
        f"page {t!r} (ns {n}): the dump says {w!r}, the store says {g!r}" for (t, n, w, g) in rd[:3])


def text_diff(missing, unexpected):
    """-> [(title, ns, demanded text, stored text)] when the two row lists differ in nothing but
    the texts of pages, else None"""
    if not missing or len(missing) != len(unexpected):
        return None
    un = {(t, n, rd, m): b for (t, n, rd, b, m) in unexpected}
    if len(un) != len(unexpected):
        return None
    out = []
    for (t, n, rd, b, m) in missing:
        if (t, n, rd, m) not in un:
            return None
        out.append((t, n, b, un[(t, n, rd, m)]))
    return out


def text_why(td, tplns):
    return "altered text: " + "; ".join(
        f"page {t!r} (ns {n}, {'the template namespace: the includable part is demanded' if n == tplns else 'not the template namespace: the text must be stored as written, whatever the title looks like'}): "
        f"demanded {w!r}, the store says {g!r}" for (t, n, w, g) in td[:3])


def describe(missing, unexpected):
    rd = red_diff(missing, unexpected)
    if rd:
        return red_why(rd)
    td = text_diff(missing, unexpected)
    if td:
        return text_why(td, 10)  # G uses the English tables
    mk = {(t, n) for (t, n, *_r) in missing}
    uk = {(t, n) for (t, n, *_r) in unexpected}
    if mk & uk:
        kind = "altered"
    elif missing and unexpected:
        kind = "stored under another title"
    elif missing:
        kind = "lost"
    else:
        kind = "extra"
    return kind


_G: dict = {}


def run_chunk(chunk):
    """chunk: list of (k, case) with case = {f, sel, exp, same, asis, amb}."""
    common.use_repo()
    pool = _G["pool"]
    out = []
    d = Path(tempfile.mkdtemp(prefix="c12-"))
    try:
        r = Runner(d)
        for k, c in chunk:
            pages = [pool[i - 1] for i in c["f"]]
            conc_pages = [(conc(p["title"]), p["ns"], p["model"], conc_red(p["red"]), BODY[p["body"]]) for p in pages]
            obs, note = r.ingest(conc_pages, c["sel"], k)
            if obs is None:
                out.append((k, "bad", note, None, [], []))
                continue
            missing, unexpected, soft = diff_rows(obs, c["exp"], None)
            if not missing and not unexpected:
                out.append((k, "drift" if soft else "ok", "soft body", obs if soft else None, [], []))
                continue
            amb = {(conc(a["title"]), a["ns"]) for a in c["amb"]}
            if amb and all((r[0], r[1]) in amb for r in missing + unexpected):
                out.append((k, "drift", "ambiguous exclusion/model", obs, missing, unexpected))
                continue
            # (rows of ambiguous pages set aside) nothing but redirect targets differs:
            rd = red_diff([r for r in missing if (r[0], r[1]) not in amb], [r for r in unexpected if (r[0], r[1]) not in amb])
            if rd:
                # targets not written the way an export writes them: TLC lists the other spellings
                # of the same target; one of those stored instead is not against the statement
                alts = {(conc(a["title"]), a["ns"]): {conc(x) for x in a["alts"]} for a in c.get("redalt", [])}
                if all(g in alts.get((t, n), ()) for (t, n, _w, g) in rd):
                    out.append((k, "drift", "redirect target respelled", obs, missing, unexpected))
                    continue
            if not c["same"]:
                m2, u2, _ = diff_rows(obs, c["asis"], None)
                if not m2 and not u2:
                    out.append((k, "asis", describe(missing, unexpected), obs, missing, unexpected))
                    continue
            out.append((k, "bad", describe(missing, unexpected), obs, missing, unexpected))
        r.drop()
    finally:
        shutil.rmtree(d, ignore_errors=True)
    return out


MAXV = 40


def case_record(pool, c, obs, missing, unexpected, gen):
    pages = [pool[i - 1] for i in c["f"]]
    return {
        "kind": "G", "gen": gen,
        "dump": [{"title": conc(p["title"]), "ns": p["ns"], "model": p["model"], "redirect": conc_red(p["red"]),
                  "text": BODY[p["body"]]} for p in pages],
        "selected_namespaces": c["sel"],
        "abstract": {"f": c["f"], "sel": c["sel"], "pages": pages, "exp": c["exp"], "asis": c["asis"], "same": c["same"], "amb": c["amb"],
                     "redalt": c.get("redalt", [])},
        "missing": missing, "unexpected": unexpected,
    }


def report(o: Outcome, pool, cases, results, counts, gen="exhaustive"):
    for k, kind, why, obs, missing, unexpected in results:
        c = cases[k]
        o.evaluations += 1
        if c["f"]:
            o.shapes.add((gen, k))
        if kind == "ok":
            continue
        rec = case_record(pool, c, obs, missing, unexpected, gen)
        if kind == "drift":
            o.note_drift({"why": why, **{x: rec[x] for x in ("dump", "selected_namespaces", "missing", "unexpected")}})
            continue
        key = kind + ":" + why.split(" ")[0]
        counts[key] = counts.get(key, 0) + 1
        if counts[key] > MAXV:
            continue
        if kind == "asis":
            o.classify(rec, f"ingestion {why}: missing {missing}, unexpected {unexpected} (a leading 'Main:' of a title is dropped by add_page)",
                       [DEV_MAIN], cls="asis")
        else:
            o.violation(rec, f"ingestion: {'' if why.startswith(('redirect', 'altered text')) else 'page '}{why}: missing {missing}, unexpected {unexpected}", cls=why.split(" ")[0])


GEN_CFG = """SPECIFICATION GSpec
CONSTANTS
  PfxNs <- T_PfxNs
  CanonPfx <- T_CanonPfx
  UpperOf <- T_UpperOf
  ArgU <- NoArgs
  TplNs = 10
  Defaults <- T_Defaults
  OkModels <- T_OkModels
  Dev <- DevIdeal
  MaxLen = {maxlen}
  Pool <- {pool}
  Sels <- {sels}
  Parts = {parts}
  Part = {part}
INVARIANT GenInv
CHECK_DEADLOCK FALSE
"""


def par(jobs: dict) -> dict:
    res, err = {}, []

    def one(k, f):
        try:
            res[k] = f()
        except Exception as e:  # noqa: BLE001
            err.append(e)

    th = [threading.Thread(target=one, args=kv) for kv in jobs.items()]
    for t in th:
        t.start()
    for t in th:
        t.join()
    if err:
        raise err[0]
    return {k: res[k] for k in jobs}


def gen_jobs(name, maxlen, pool, sels, parts):
    return {
        f"{name}[{i}]": (lambda i=i: tlc("Gen_Ingest", f"gen{i}.cfg", workers=1, timeout=3000,
                                         cfg_text=GEN_CFG.format(maxlen=maxlen, pool=pool, sels=sels, parts=parts, part=i)))
        for i in range(parts)
    }


# ---------------------------------------------------------------------------
# V: recorded ingestions validated by TLC
# ---------------------------------------------------------------------------

MARKERS = ("/documentation", "/testcases")


def tok(title: str, ns: int, canon: dict) -> list:
    """Concrete title -> atoms: canonical prefix atom (ns # 0), a leading "Main:" atom,
    "/documentation" and "/testcases" as atoms of their own."""
    atoms = []
    pre = canon.get(str(ns))
    if ns != 0 and pre and title.startswith(pre):
        atoms.append(pre)
        title = title[len(pre):]
    if title.startswith("Main:"):
        atoms.append("Main:")
        title = title[5:]
    while title:
        idx = [(title.find(m), m) for m in MARKERS if title.find(m) >= 0]
        if not idx:
            atoms.append(title)
            break
        i, m = min(idx)
        if i > 0:
            atoms.append(title[:i])
        atoms.append(m)
        title = title[i + len(m):]
    return atoms


def tok_red(red: str, site) -> list:
    """Concrete redirect target -> atoms: the marker "=>", a leading ":" atom, a namespace-prefix
    atom (any spelling of the language data, longest match), then the rest cut at every
    "_", " " and "#" (each an atom of its own).  Equal strings <=> equal atom sequences."""
    atoms = ["=>"]
    if red.startswith(":"):
        atoms.append(":")
        red = red[1:]
    pre = max((q for q in site["pfxns"] if red.startswith(q)), key=len, default=None)
    if pre:
        atoms.append(pre)
        red = red[len(pre):]
    atoms.extend(x for x in re.split(r"([_ #])", red) if x)
    return atoms


def site_of(lang: str):
    """Tables of one language folder."""
    common.use_repo()
    from wikitextprocessor import Wtp

    with Scratch("c12s-") as d:
        (d / "x").mkdir()
        w = Wtp(db_path=str(d / "x" / "p.db"), lang_code=lang, quiet=True)
        nsd = w.NAMESPACE_DATA
        w.db_conn.close()
    canon, pfxns, names = {}, {}, {}
    for key, v in nsd.items():
        names[v["id"]] = v["name"]
        if v["id"] != 0:
            canon[str(v["id"])] = v["name"] + ":"
        for n in [v["name"]] + v["aliases"] + [key]:
            if v["id"] != 0:
                pfxns[n + ":"] = v["id"]
                pfxns.setdefault(n.lower() + ":", v["id"])
    tpl = nsd["Template"]
    defaults = [{"title": [tpl["name"] + ":", t], "body": b} for t, b in (("!", "d1"), ("=", "d2"), ("((", "d3"), ("))", "d4"))]
    return {"lang": lang, "canon": canon, "pfxns": pfxns, "upper": {"z": "Z", "Z": "Z"}, "tplns": tpl["id"],
            "modns": nsd.get("Module", {"id": None})["id"], "defaults": defaults, "names": names}


FRAGS = ["<", ">", "&", "\"", "'", "&amp;", "]]>", "<![CDATA[", " ", "  ", "\n", "\n\n", "\t", "\r\n", "\r", "x", "Zed", "{{t|1=a}}",
         "[[l]]", "\U0001F600", "\U00010348", "é", " ", "==h==", "* i", "</text>", "<page>", "&#60;", "%26", "é", "ß", "日本"]


def rand_text(rng, n=None):
    return "".join(rng.choice(FRAGS) for _ in range(rng.randint(0, 8) if n is None else n))


def rand_template_text(rng):
    """-> (text, includable part) built from segments with a known meaning"""
    if rng.random() < 0.5:
        return (lambda s: (s, s))(rand_text(rng).replace("<!--", ""))
    raw, inc = [], []
    if rng.random() < 0.3:  # onlyinclude: only these parts are transcluded
        for _ in range(rng.randint(1, 3)):
            a, b = rand_text(rng, 2), rand_text(rng, 2)
            raw += [a, "<onlyinclude>", b, "</onlyinclude>"]
            inc.append(b)
        raw.append(rand_text(rng, 1))
    else:
        for _ in range(rng.randint(1, 4)):
            k = rng.random()
            s = rand_text(rng, 2)
            if k < 0.4:
                raw.append(s)
                inc.append(s)
            elif k < 0.7:
                raw += ["<noinclude>", s, "</noinclude>"]
            else:
                raw += ["<includeonly>", s, "</includeonly>"]
                inc.append(s)
    return "".join(raw), "".join(inc)


def rand_title(rng, site, ns, earlier):
    if earlier and rng.random() < 0.2:
        cands = [t for (t, n) in earlier if n == ns]
        if cands:
            return rng.choice(cands)
    base = rng.choice(["Zed", "zed", "Ünï-çø", "日本語", "A:B", "a: b", "x/y", "x/y/z", "w", "Foo bar", "T:x", "Template:Q", "!", "=", "((", "))", "-", "documentation", "testcases"])
    if rng.random() < 0.12:
        # the text of the title equals / begins with the local name of a namespace (the template namespace
        # mostly) without the page being in that namespace: "Template", "Templates", "Template talk", "Module-x"
        word = site["names"][rng.choice([site["tplns"], site["tplns"], rng.choice(sorted(int(k) for k in site["names"] if int(k) != 0))])]
        base = word + rng.choice(["", "s", "x", "-based", " talk", " " + base, "/" + base])
    r = rng.random()
    if r < 0.08:
        base += "/documentation"
    elif r < 0.16:
        base += "/testcases"
    elif r < 0.2:
        base += rng.choice(["/testcases/x", "/testcases2", "/documentation/x", "/doc", " documentation", "/Documentation"])
    if ns == 0 and rng.random() < 0.1:
        base = "Main:" + base
    if ns != 0:
        if rng.random() < 0.05:
            base = "Main:" + base
        base = site["canon"][str(ns)] + base
    return base


RED_BASES = ["Zed", "zed", "dog", "Ünï-çø", "x/y", "A:B", "Foo bar", "Main:Zed", "日本語"]


def rand_red(rng, site, ns, title, earlier):
    """A redirect target: a page of any namespace seen from a page of any namespace, spelled the way
    an export spells it (bare main-namespace title, canonical prefix) or a way an export never uses
    (alias / lower-case prefix, leading colon, fragment, underscores)."""
    r = rng.random()
    if r < 0.3:
        return rand_title(rng, site, ns, earlier)  # same namespace, canonical prefix
    if r < 0.45 and earlier:
        return rng.choice(earlier)[0]  # a page of the dump, any namespace (chains, itself)
    canon = site["canon"]
    own = canon.get(str(ns), "")
    bare = title[len(own):] if own and title.startswith(own) else title
    base = bare if rng.random() < 0.3 else rng.choice(RED_BASES)
    ids = sorted(int(k) for k in site["names"])
    tns = rng.choice([0, 0, 0, ns, site["tplns"], rng.choice(ids)])
    spell = sorted(q for q, i in site["pfxns"].items() if i == tns)
    if tns == 0:
        t = base
    elif rng.random() < 0.7 or not spell:
        t = canon[str(tns)] + base
    else:
        t = rng.choice(spell) + base
    x = rng.random()
    if x < 0.08:
        t = ":" + t
    elif x < 0.16:
        t = t + "#" + rng.choice(["Sec", "a b", "x_y", ""])
    elif x < 0.24:
        t = t.replace(" ", "_") if " " in t else t + "_x"
    return t


def rand_dump(rng, site, bodies):
    """-> (concrete pages, abstract pages, selection).  `bodies`: text -> identifier."""
    ids = sorted(int(k) for k in site["names"])
    tpl, mod = site["tplns"], site["modns"]
    common_ns = [0, 0, 0, tpl, tpl, mod if mod is not None else 0]

    def bid(s):
        if s is None:
            return "NULL"
        if s not in bodies:
            bodies[s] = f"s{len(bodies)}"
        return bodies[s]

    conc_pages, abs_pages, earlier = [], [], []
    for _ in range(rng.randint(1, 20)):
        ns = rng.choice(common_ns) if rng.random() < 0.7 else rng.choice(ids)
        t = rand_title(rng, site, ns, earlier)
        earlier.append((t, ns))
        model = rng.choice(["wikitext"] * 5 + ["Scribunto", "json", "css", "javascript", "sanitized-css", ""])
        red = None
        if rng.random() < 0.2:
            red = rand_red(rng, site, ns, t, earlier)
        if ns == tpl:
            text, inc = rand_template_text(rng)
        else:
            text = rand_text(rng) if rng.random() < 0.8 else rand_template_text(rng)[0]
            inc = text
        conc_pages.append((t, ns, model, red, text))
        abs_pages.append({"title": tok(t, ns, site["canon"]), "ns": ns, "model": model,
                          "red": ["-"] if red is None else tok_red(red, site), "body": bid(text), "inc": bid(inc)})
    r = rng.random()
    if r < 0.4:
        sel = sorted({0, tpl} | ({mod} if mod is not None else set()))
    elif r < 0.7:
        sel = ids
    else:
        sel = sorted(set(rng.sample(ids, rng.randint(1, min(6, len(ids))))))
    return conc_pages, abs_pages, sel


def sweep_dumps(site):
    """One page per namespace of the language data (all selected), then the helper templates
    already present (as page / as redirect) with only some namespaces selected, then redirect
    pages of every namespace: to the main namespace (no prefix) and one of: template namespace,
    alias / lower-case spelling, own namespace with leading colon, fragment, own namespace with
    underscore, main namespace."""
    canon, tpl = site["canon"], site["tplns"]
    tp = canon[str(tpl)]
    pages = []
    for i, name in sorted(site["names"].items()):
        pre = "" if int(i) == 0 else canon[str(i)]
        pages.append((pre + "Zed", int(i), "wikitext", None, BODY["b1"] + name))
        pages.append((pre + "Ünï/sub: x", int(i), "wikitext", None, BODY["b3"]))
    yield pages, sorted(int(i) for i in site["names"])
    # title text x namespace x inclusion-control markup: in every namespace of the language data (talk
    # namespaces included: their names usually extend the subject namespace's name) one page whose title
    # begins with the local name of the template namespace, its text carrying noinclude / onlyinclude /
    # includeonly markup; only the template namespace's own page is reduced to its includable part
    word = site["names"][tpl]
    pages = []
    for k, (i, name) in enumerate(sorted(site["names"].items())):
        pre = "" if int(i) == 0 else canon[str(i)]
        pages.append((pre + word + ["s", "", "x", " talk"][k % 4], int(i), "wikitext", None, BODY[("t1", "t2", "t3")[k % 3]]))
    yield pages, sorted(int(i) for i in site["names"])
    yield [(tp + "!", tpl, "wikitext", None, "own bang"), (tp + "((", tpl, "wikitext", tp + "Zed", ""),
           (tp + "Zed", tpl, "wikitext", None, BODY["t1"]), (tp + "Zed/documentation", tpl, "wikitext", None, "d"),
           ("Zed", 0, "wikitext", None, BODY["t1"])], sorted({0, tpl})
    pages = [("zed", 0, "wikitext", None, "the target")]
    for k, (i, name) in enumerate(sorted(site["names"].items())):
        i = int(i)
        pre = "" if i == 0 else canon[str(i)]
        spell = sorted(q for q, j in site["pfxns"].items() if j == i and q != pre)
        third = [tp + "Zed", (spell[k % len(spell)] if spell else ":") + "zed", ":" + pre + "zed", "zed#S 1", pre + "Foo_bar", "Zed"][k % 6]
        for j, target in enumerate(["zed", third]):
            pages.append((f"{pre}R{j}", i, "wikitext", target, f"#REDIRECT [[{target}]]"))
    yield pages, sorted(int(i) for i in site["names"])


def abstract_of(site, conc_pages, bodies, inc_of=None):
    def bid(s):
        if s is None:
            return "NULL"
        if s not in bodies:
            bodies[s] = f"s{len(bodies)}"
        return bodies[s]

    res = []
    for (t, ns, model, red, text) in conc_pages:
        inc = text
        if ns == site["tplns"]:
            inc = {BODY[b]: BODY[b + "i"] for b in ("t1", "t2", "t3")}.get(text, text)
        res.append({"title": tok(t, ns, site["canon"]), "ns": ns, "model": model,
                    "red": ["-"] if red is None else tok_red(red, site), "body": bid(text), "inc": bid(inc)})
    return res


def observe(site, rows, bodies, unknown):
    out = []
    for (t, ns, red, body, model) in rows:
        if body is None:
            b = "NULL"
        elif body in bodies:
            b = bodies[body]
        else:
            b = "?" + hashlib.sha1(body.encode("utf-8", "surrogatepass")).hexdigest()[:10]
            unknown[b] = body
        out.append({"title": tok(t, ns, site["canon"]), "ns": ns, "redirect": ["-"] if red is None else tok_red(red, site),
                    "body": b, "model": model if model is not None else "NULL"})
    return out


def default_bodies(bodies):
    for k in ("d1", "d2", "d3", "d4"):
        bodies[BODY[k]] = k


def record_site(args):
    """(lang, seed, n_random, with_sweep) -> (site, events, concrete dumps, unknown bodies)"""
    lang, sd, nrand, sweep = args
    common.use_repo()
    site = site_of(lang)
    rng = random.Random(sd)
    bodies: dict = {}
    events, concs, unknown = [], [], {}
    with Scratch("c12v-") as d:
        r = Runner(d, lang)
        todo = []
        if sweep:
            for pages, sel in sweep_dumps(site):
                todo.append((pages, abstract_of(site, pages, bodies), sel))
        for _ in range(nrand):
            todo.append(rand_dump(rng, site, bodies))
        # the default bodies get their identifiers unless a dump text already has that value
        for k in ("d1", "d2", "d3", "d4"):
            bodies.setdefault(BODY[k], k)
        for tid, (cp, ap, sel) in enumerate(todo):
            rows, note = r.ingest(cp, sel, tid)
            ev = {"tid": tid, "sel": sel, "dump": ap, "store": [] if rows is None else observe(site, rows, bodies, unknown)}
            if rows is None:
                ev["error"] = note
            events.append(ev)
            concs.append(cp)
        r.drop()
    # the model's default rows carry the identifier the harness gave to that text
    site = dict(site)
    site["defaults"] = [{"title": dflt["title"], "body": bodies[BODY[dflt["body"]]]} for dflt in site["defaults"]]
    return site, events, concs, unknown


def record_chunk(chunk):
    return [record_site(a) for a in chunk]


def validate_site(site, events):
    with Scratch("c12t-") as d:
        tf = d / "trace.json"
        tf.write_text(json.dumps({"pfxns": site["pfxns"], "canon": site["canon"], "upper": site["upper"],
                                  "tplns": site["tplns"], "defaults": site["defaults"], "events": events}))
        cfg = "SPECIFICATION TSpec\nINVARIANT Verdict\nINVARIANT ModelInv\nCHECK_DEADLOCK FALSE\n"
        r = tlc("Trace_Ingest", "trace.cfg", cfg_text=cfg, workers=1, env={"TRACE_FILE": str(tf)}, timeout=1800)
    vs = r.tagged("VERDICT")
    if not vs:
        raise common.TLCError("trace validation printed no verdict")
    v = vs[0]
    if v["consumed"] != len(events):
        raise common.TLCError(f"trace consumed {v['consumed']} of {len(events)} events")
    return r, v["bad"]


def run_v(o: Outcome, plan, counts):
    """plan: list of (lang, seed, n_random, with_sweep)"""
    recs = pmap(record_chunk, plan, chunk=1)
    results = [None] * len(recs)
    sem = threading.Semaphore(12)
    err = []

    def one(i):
        with sem:
            try:
                results[i] = validate_site(recs[i][0], recs[i][1])
            except Exception as e:  # noqa: BLE001
                err.append(e)

    th = [threading.Thread(target=one, args=(i,)) for i in range(len(recs))]
    for t in th:
        t.start()
    for t in th:
        t.join()
    if err:
        raise err[0]
    tot = common.TLCResult("", 0, 0.0)
    nev = 0
    for (site, events, concs, unknown), (r, bad) in zip(recs, results):
        tot.distinct += r.distinct
        tot.generated += r.generated
        tot.depth = max(tot.depth, r.depth)
        tot.wall += r.wall
        nev += len(events)
        o.traces += len(events)
        o.evaluations += len(events)
        for e, cp in zip(events, concs):
            o.shapes.add((1, site["lang"], e["tid"]))
        for b in bad:
            ev = events[b["i"] - 1]
            if b["why"] == "model":
                raise common.TLCError(f"model ingestion disagrees with its own reference on a recorded dump ({site['lang']}): {ev['dump']}")
            case = {"kind": "V", "lang": site["lang"], "dump": [list(p) for p in concs[b["i"] - 1]], "selected_namespaces": ev["sel"],
                    "missing": b["missing"], "unexpected": b["unexpected"],
                    "altered_texts": {k: v for k, v in unknown.items() if any(r["body"] == k for r in b["unexpected"])}}
            if "error" in ev:
                o.violation(case, "ingestion raised: " + ev["error"], cls="V:exception")
                continue
            if b["why"] == "ambiguous":
                o.note_drift({"why": "ambiguous exclusion/model", **case})
                continue
            if b["why"] in ("respelled", "asis+respelled", "asis+ambiguous"):
                o.note_drift({"why": "ambiguous exclusion/model" if b["why"].endswith("ambiguous") else "redirect target respelled", **case})
                if b["why"] == "respelled":
                    continue
            if b["why"] == "redirect":
                counts["V:redirect"] = counts.get("V:redirect", 0) + 1
                if counts["V:redirect"] <= MAXV:
                    got = {(conc(r["title"]), r["ns"]): conc(r["redirect"][1:]) for r in b["runexpected"]}
                    rd = [(conc(r["title"]), r["ns"], conc(r["redirect"][1:]), got.get((conc(r["title"]), r["ns"]))) for r in b["rmissing"]
                          if (conc(r["title"]), r["ns"]) in got]
                    o.violation(case, f"ingestion ({site['lang']}): " + red_why(rd), cls="V:redirect")
                continue
            soft = {tuple(d["title"]) for d in site["defaults"][2:]}
            if all(tuple(r["title"]) in soft for r in b["missing"] + b["unexpected"]):
                o.note_drift({"why": "soft body", **case})
                continue
            key = "V:" + b["why"].split("+")[0]
            counts[key] = counts.get(key, 0) + 1
            if counts[key] > MAXV:
                continue
            why = f"ingestion ({site['lang']}): missing {[(conc(r['title']), r['ns']) for r in b['missing']]}, unexpected {[(conc(r['title']), r['ns']) for r in b['unexpected']]}"
            key_of = lambda r: (conc(r["title"]), r["ns"], conc(r["redirect"]), r["model"])  # noqa: E731
            if b["missing"] and sorted(map(key_of, b["missing"])) == sorted(map(key_of, b["unexpected"])):
                outside = sorted({(conc(r["title"]), r["ns"]) for r in b["missing"] if r["ns"] != site["tplns"]})
                why += " - altered text: the same pages are stored with another text than demanded" + (
                    f"; {outside[:3]} are not in the template namespace ({site['tplns']}): their text must be stored as written, whatever the title looks like"
                    if outside else "")
            if b["why"].startswith("asis"):
                o.classify(case, why + " (a leading 'Main:' of a title is dropped by add_page)", [DEV_MAIN], cls="V:asis")
            else:
                o.violation(case, why, cls="V:other")
    o.add_tlc(f"Trace_Ingest x{len(recs)}", tot)
    o.extra["trace_dumps"] = o.extra.get("trace_dumps", 0) + nev
    o.extra["trace_languages"] = len({p[0] for p in plan})
    if recs and recs[0][2]:
        o.sample({"recorded_dump_first_pages": [list(p) for p in recs[0][2][-1][:3]]})


# ---------------------------------------------------------------------------

def languages():
    common.use_repo()
    import wikitextprocessor

    d = Path(wikitextprocessor.__file__).parent / "data"
    return sorted(p.name for p in d.iterdir() if (p / "namespaces.json").is_file())


def run(tier: str) -> int:
    o = Outcome(PID, tier)
    thorough = tier == "thorough"
    o.rule = (
        "G: one case = (dump as a sequence of <= MaxLen abstract pages [ns, title kind, model, redirect, body], namespace selection), "
        "all sequences over the pool enumerated by TLC, distinct by (sequence, selection), non-trivial = non-empty dump; second pool GenR: "
        "redirect pages (source namespace x target form [canonical / space / alias / lower-case prefix / leading colon / fragment / underscore] x "
        "target namespace [main / own / other] x target title) plus the pages pointed to, sequences of <= 2; third pool GenN: title text "
        "[plain / equal to / beginning with the word Template or Module / 'Template talk' / 'Template:Zed'] x namespace [main, Template, Template talk, "
        "Appendix, Module, Module talk] x text [noinclude / onlyinclude / includeonly / comment / plain], single pages, and GenNp pairs of them; each is written "
        "as a real .xml.bz2 and ingested. V: random dumps of 1-20 pages over all namespaces of a language + a per-language namespace sweep, distinct by content."
    )
    o.assumptions = [
        "dump titles carry the canonical local namespace prefix of their <ns> (as MediaWiki exports them) and no underscores",
        "one <revision> per <page> (pages-articles dumps); text free of characters XML 1.0 cannot carry",
        "pages with the same (title, ns) occurring twice: the later one is the stored one",
        "redirect targets written the way an export writes them (no prefix for the main namespace, canonical prefix, spaces, no leading colon, "
        "no fragment) must be stored byte for byte; a target written another way may be stored in any spelling of the same target (drift), "
        "a stored value that names another page is a violation",
        "the texts of the brace helper templates and the point at which template comments are dropped are not pinned by the statement (drift only)",
        "sub-subpages of documentation/testcases pages, names merely starting with 'testcases', and redirects with another content model: "
        "the statement can be read both ways, the model follows the code, differences are drift",
    ]
    jobs = {
        "MC_ideal": lambda: tlc("MC_Ingest", "MC_Ingest_T.cfg" if thorough else "MC_Ingest_Q.cfg", workers=6, timeout=3000, coverage=True),
        "MC_live": lambda: tlc("MC_Ingest", "MC_Ingest_live.cfg", workers=2, timeout=3000),
        "MC_asis": lambda: tlc("MC_Ingest", "MC_Ingest_asis.cfg", workers=2, timeout=3000),
        "Demo_Ingest_main.cfg": lambda: tlc("MC_Ingest", "Demo_Ingest_main.cfg", workers=1, check=False),
        # redirect targets x source namespaces
        "MC_red": lambda: tlc("MC_Ingest", "MC_Ingest_redT.cfg" if thorough else "MC_Ingest_red.cfg", workers=2, timeout=3000),
        "Demo_Ingest_red.cfg": lambda: tlc("MC_Ingest", "Demo_Ingest_red.cfg", workers=1, check=False),
        # title text x namespace x inclusion-control markup
        "MC_names": lambda: tlc("MC_Ingest", "MC_Ingest_names.cfg", workers=1, timeout=3000),
        "MC_namepairs": lambda: tlc("MC_Ingest", "MC_Ingest_namepairs.cfg", workers=1, timeout=3000),
        "Demo_Ingest_names.cfg": lambda: tlc("MC_Ingest", "Demo_Ingest_names.cfg", workers=1, check=False),
    }
    if thorough:
        jobs.update(gen_jobs("Gen3", 3, "PoolQ", "SelsT", 2))
        jobs.update(gen_jobs("Gen2", 2, "PoolT", "SelsT", 6))
        jobs.update(gen_jobs("GenR", 2, "PoolRedT", "SelsRed", 3))
        jobs.update(gen_jobs("GenRs", 2, "PoolRed", "SelsRedT", 1))
        jobs.update(gen_jobs("GenN", 1, "PoolNames", "SelsNamesT", 1))
        jobs.update(gen_jobs("GenNp", 2, "PoolNamePairs", "SelsNamesT", 1))
    else:
        jobs.update(gen_jobs("Gen3", 3, "PoolQ", "SelsQ", 3))
        jobs.update(gen_jobs("GenR", 2, "PoolRed", "SelsRed", 1))
        jobs.update(gen_jobs("GenN", 1, "PoolNames", "SelsNames", 1))
        jobs.update(gen_jobs("GenNp", 2, "PoolNamePairs", "SelsNames", 1))
    res = par(jobs)
    for name, r in res.items():
        o.add_tlc(name, r)
    o.extra["action_coverage"] = {k: v[1] for k, v in res["MC_ideal"].coverage_actions().items()}
    r = res["Demo_Ingest_main.cfg"]
    o.extra["demo_main_prefix_merge_found_by_tlc"] = bool(r.invariant_violated)
    if not r.invariant_violated:
        raise common.TLCError("Demo_Ingest_main.cfg no longer shows the Main: merge (vacuity guard)")
    r = res["Demo_Ingest_red.cfg"]
    o.extra["demo_redirect_target_rewritten_found_by_tlc"] = bool(r.invariant_violated)
    if not r.invariant_violated:
        raise common.TLCError("Demo_Ingest_red.cfg: RedirectsVerbatim does not reject a target normalised like a title (vacuity guard)")
    r = res["Demo_Ingest_names.cfg"]
    o.extra["demo_talk_page_reduced_found_by_tlc"] = bool(r.invariant_violated)
    if not r.invariant_violated:
        raise common.TLCError("Demo_Ingest_names.cfg: TextsVerbatim does not reject a talk page reduced like a template (vacuity guard)")
    # ---- G
    counts: dict = {}
    ncases = 0
    for gname in sorted({n.split("[")[0] for n in res if n.startswith("Gen")}):
        parts = [res[n] for n in res if n.startswith(gname + "[")]
        pool = None
        cases = []
        for r in parts:
            p = r.tagged("POOL")
            if p:
                pool = p[0]["pool"]
            cases.extend(r.cases)
        if pool is None:
            raise common.TLCError("generator printed no pool")
        _G["pool"] = pool
        report(o, pool, cases, pmap(run_chunk, list(enumerate(cases))), counts, gen=gname)
        ncases += len(cases)
        if cases:
            c = cases[len(cases) // 2]
            o.sample({"dump": [(conc(pool[i - 1]["title"]), pool[i - 1]["ns"], pool[i - 1]["model"], conc_red(pool[i - 1]["red"]), BODY[pool[i - 1]["body"]]) for i in c["f"]],
                      "selected": c["sel"], "demanded_store": [row_of(x) for x in c["exp"]]})
    o.exhaustive = True
    o.extra["cases_exhaustive"] = ncases
    # ---- V
    sd = common.seed() * 7919 + 12
    langs = languages()
    if thorough:
        plan = [("en", sd + i, 120, i == 0) for i in range(6)] + [(l, sd + 100 + k, 4, True) for k, l in enumerate(langs) if l != "en"]
    else:
        few = ["fr", "de", "ja", "ru", "zh", "ar", "simple", "ku"]
        plan = [("en", sd + i, 30, i == 0) for i in range(3)] + [(l, sd + 100 + k, 3, True) for k, l in enumerate(few) if l in langs]
    run_v(o, plan, counts)
    o.extra["violation_counts"] = counts
    # the dump-processing pipeline one level up (spec/Pipeline.tla): overrides, backup placement, analysis
    import pipeline
    try:
        common.with_engine(o, "pipeline", lambda: pipeline.extend(o, tier, "C12"))
    except Exception as e:  # noqa: BLE001
        # the engine builds its base stores with add_page and refuses to run when they do not come out
        # as written; violations already established by the ingestion part above are reported all the same
        if not o.violations:
            raise
        o.extra["pipeline_engine_failed"] = repr(e)[:600]
        print(f"C12: pipeline engine could not run on this tree ({repr(e)[:200]}); reporting the ingestion verdicts")
    return o.finish()


def replay(path: str) -> int:
    v = json.loads(Path(path).read_text())
    case = v["case"]
    if case.get("engine") == "pipeline":
        import pipeline
        return pipeline.replay(path)
    common.use_repo()
    print("why:", v["why"])
    with Scratch("c12r-") as d:
        if case["kind"] == "G":
            a = case["abstract"]
            pages = [(conc(p["title"]), p["ns"], p["model"], conc_red(p["red"]), BODY[p["body"]]) for p in a["pages"]]
            r = Runner(d)
            obs, note = r.ingest(pages, a["sel"], 1)
            r.drop()
            print("dump:", pages)
            if obs is None:
                print("re-executed:", note)
                return 1
            missing, unexpected, _ = diff_rows(obs, a["exp"], None)
            print("re-executed: stored", obs)
            print("missing", missing, "unexpected", unexpected)
            amb = {(conc(x["title"]), x["ns"]) for x in a["amb"]}
            return 1 if any((r[0], r[1]) not in amb for r in missing + unexpected) else 0
        r = Runner(d, case["lang"])
        obs, note = r.ingest([tuple(p) for p in case["dump"]], case["selected_namespaces"], 1)
        r.drop()
        print("dump:", case["dump"])
        print("re-executed: stored", obs, note)
        print("specification: missing", case["missing"], "unexpected", case["unexpected"])
    return 1


def selftest() -> int:
    """(1) V: a recorded ingestion is accepted as far as the code is right; the same record
    with one altered text / one dropped row / one row under another title is rejected by
    TLC.  (2) G: a case whose expected store is corrupted is flagged by the comparison."""
    site, events, concs, unknown = record_site(("en", 5, 12, True))
    _, bad0 = validate_site(site, events)
    keep = [i for i in range(len(events)) if (i + 1) not in {b["i"] for b in bad0}]
    events = [events[i] for i in keep]
    _, base = validate_site(site, events)
    k = next(i for i, e in enumerate(events) if len(e["store"]) > 5)
    saved = json.loads(json.dumps(events[k]["store"]))
    rejected = []
    j = next(i for i, r in enumerate(saved) if r["body"] not in ("NULL", "d1", "d2", "d3", "d4"))
    for name, mut in (
        ("altered text", lambda s: s[j].update(body="?corrupt")),
        ("lost row", lambda s: s.pop(j)),
        ("other title", lambda s: s[j].update(title=s[j]["title"] + ["x"])),
        ("other model", lambda s: s[j].update(model="json" if s[j]["model"] != "json" else "wikitext")),
    ):
        s = json.loads(json.dumps(saved))
        mut(s)
        events[k]["store"] = s
        _, bad = validate_site(site, events)
        rejected.append((name, [b["i"] for b in bad]))
    events[k]["store"] = saved
    k2, j2 = next((a, b) for a, e in enumerate(events) for b, r in enumerate(e["store"]) if r["redirect"] != ["-"])
    saved2 = json.loads(json.dumps(events[k2]["store"]))
    events[k2]["store"][j2]["redirect"] = ["=>", site["canon"][str(site["tplns"])], "Elsewhere"]
    _, bad = validate_site(site, events)
    rejected.append(("other redirect target", [(b["i"], b["why"]) for b in bad if b["why"] == "redirect"]))
    events[k2]["store"] = saved2
    print(f"V: clean record: {len(base)} rejected; corrupted records rejected: {rejected}")
    r = tlc("Gen_Ingest", "g.cfg", workers=1, cfg_text=GEN_CFG.format(maxlen=1, pool="PoolQ", sels="SelsQ", parts=1, part=0))
    pool = r.tagged("POOL")[0]["pool"]
    _G["pool"] = pool
    cases = r.cases
    res = run_chunk(list(enumerate(cases)))
    good = sum(1 for x in res if x[1] in ("ok", "drift", "asis"))  # asis: the known Main: merge
    c = json.loads(json.dumps(next(c for c in cases if c["f"] and any(x["body"] == "b1" for x in c["exp"]))))
    next(x for x in c["exp"] if x["body"] == "b1")["body"] = "b2"
    c["same"] = True
    res2 = run_chunk([(0, c)])
    print(f"G: {good}/{len(cases)} single-page dumps agree; corrupted expectation judged: {res2[0][1]} ({res2[0][2]})")
    ok = not base and all(b for _, b in rejected) and good == len(cases) and res2[0][1] == "bad"
    return 0 if ok else 1
