"""C17 — template analysis marks exactly the closure of structure-affecting templates.

M  TLC: MC_Analyze (the algorithm of analyze_templates transcribed step by step, run on
        every inclusion graph / flag set / redirect placement / spelling scheme of the
        bound): result = declarative closure + redirect neighbours, never over-marks,
        each page pushed once, termination under fairness (MC_Analyze_live);
        MC_Analyze_asis: with the deviation switched on the model computes the
        exact-string closure; Demo_*: TLC finds the counterexamples of the two modelled
        deviations (names matched as exact strings; memo not cleared in the loop).
G  TLC Gen_Analyze: every structure of the bound with the specification's verdict for
        every flag set (Lower / Upper / as-is sets); each is built in a real Wtp
        (add_page), the real analyze_templates runs with a classifier that reports the
        names written in the bodies, need_pre_expand of all template pages is compared.
   TLC -simulate: random worlds on 8 pages (cycles, diamonds, self-inclusion, redirects).
V  seeded random worlds (<= 8 pages, wider spelling universe taken from the language
        data) run through the real code, recorded, and validated by Trace_Analyze: TLC
        runs the model's algorithm on each recorded world and judges the recorded result.
H  histories / earlier marks (the database already carries need_pre_expand marks when the
        judged call starts: re-analysis after templates were added or overwritten, rows
        written with need_pre_expand=True, overwrite files):
        M  MC_Analyze MCHSpec (analyse, add / overwrite the last page, analyse again; action
           Rerun) and MCPSpec (arbitrary earlier marks); Demo_Analyze_reseed: TLC finds the
           counterexample of the as-is deviation MarkedNotReseeded;
        G  Gen_Analyze GenHInv: every structure x every set of earlier marks x every flag set
           with <<Lower, UpperH, IdealH, AsIsH>>; the earlier marks are produced in three ways
           in rotation (HMODES: add_page(need_pre_expand=True) / a real first analysis after
           which the other templates are added / an overwrite file through
           dumpparser.analyze_and_overwrite_pages); SimH: 8-page worlds with earlier marks;
        V  recorded random histories (add, analyse, add + overwrite, analyse, ...), one event
           per call with the marks read before it, validated by Trace_Analyze.
"""
from __future__ import annotations

import json
import os
import random
import re
import shutil
import signal
import tempfile
import threading
from pathlib import Path

import common
from common import Outcome, pmap, Scratch

_JT = None
_JT_LOCK = threading.Lock()


def tlc(*a, **kw):
    """common.tlc with the JVM's temp dir (TLC unpacks its standard modules there and
    never removes them) redirected into one scratch directory removed at exit."""
    global _JT
    with _JT_LOCK:
        if _JT is None:
            import atexit

            _JT = tempfile.mkdtemp(prefix="c17j-")
            atexit.register(shutil.rmtree, _JT, True)
    env = dict(kw.pop("env", None) or {})
    env["JAVA_TOOL_OPTIONS"] = (os.environ.get("JAVA_TOOL_OPTIONS", "") + f" -Djava.io.tmpdir={_JT}").strip()
    return common.tlc(*a, env=env, **kw)


PID = "C17"
DEV_NAMES = "IncludedNamesMatchedExactly"
ATOM = {"SP": " ", "US": "_"}
TIMEOUT_S = 8  # a call on <= 8 pages normally takes < 1 ms; an expiry is re-tried with 3x
GIVE_UP_AFTER = 3  # confirmed non-terminations after which the remaining real runs are skipped
_nonterm = None  # multiprocessing.Value shared with the forked workers


def conc(atoms) -> str:
    return "".join(ATOM.get(a, a) for a in atoms)


def conc_red(r):
    return None if list(r) == ["-"] else conc(r)


class NonTermination(Exception):
    pass


class FirstAnalysis(Exception):
    pass


# how the marks that exist before the judged call are produced
H_DIRECT, H_HISTORY, H_OVERWRITE = 0, 1, 2
HMODES = {H_DIRECT: "pages written with add_page(need_pre_expand=True)",
          H_HISTORY: "marks left by an earlier analyze_templates call, templates added afterwards",
          H_OVERWRITE: "overwrite file with need_pre_expand: true through dumpparser.analyze_and_overwrite_pages"}


def _alarm(signum, frame):
    raise NonTermination()


# ---------------------------------------------------------------------------
# running the real code on one world
# ---------------------------------------------------------------------------

class Runner:
    """One real Wtp on a scratch SQLite file, re-used for many worlds."""

    def __init__(self, d: Path):
        self.dir = d
        self.n = 0
        self.ctx = None

    def fresh(self):
        from wikitextprocessor import Wtp

        if self.ctx is not None:
            try:  # fast path: empty the table (falls back to a new context)
                self.ctx.db_conn.execute("DELETE FROM pages")
                self.ctx.db_conn.commit()
                self.ctx.get_page.cache_clear()
                if not list(self.ctx.get_all_pages()):
                    return self.ctx
            except Exception:
                pass
            self.drop()
        self.n += 1
        sub = self.dir / f"db{self.n}"
        sub.mkdir()
        self.ctx = Wtp(db_path=str(sub / "pages.db"), quiet=True)
        # durability of the scratch database is irrelevant here: no fsync per commit
        # (a run costs 0.2 ms instead of 3-9 ms on the shared disk)
        self.ctx.db_conn.execute("PRAGMA synchronous=OFF")
        return self.ctx

    def drop(self):
        if self.ctx is not None:
            try:
                self.ctx.db_conn.close()
            except Exception:
                pass
            self.ctx = None

    def run(self, pages, flags: set, via_dump_step: bool = False, pre=frozenset(), hmode: int = 0):
        """pages: [{title, redirect, uses}] (atoms); flags: indices (0-based).
        pre: indices of the pages that carry need_pre_expand = 1 when the judged call
        starts; hmode says how that state is produced (see HMODES).
        Returns (observed mask | None, note)."""
        if _nonterm is not None and _nonterm.value >= GIVE_UP_AFTER:
            return None, "skipped"
        r = self._run(pages, flags, via_dump_step, False, pre, hmode)
        if r[0] == "retry":  # expired once: confirm on a fresh context with a longer limit
            global TIMEOUT_S
            keep, TIMEOUT_S = TIMEOUT_S, 3 * TIMEOUT_S
            try:
                r = self._run(pages, flags, via_dump_step, True, pre, hmode)
            finally:
                TIMEOUT_S = keep
            if r[1] == "nontermination" and _nonterm is not None:
                with _nonterm.get_lock():
                    _nonterm.value += 1
        return r

    def _run(self, pages, flags, via_dump_step, _retry, pre=frozenset(), hmode=0):
        ctx = self.fresh()
        tns = ctx.NAMESPACE_DATA["Template"]["id"]
        titles = [conc(p["title"]) for p in pages]
        flagged = {titles[i] for i in flags}
        if not pre:
            hmode = 0
        now_flagged = set(flagged)  # what the classifier answers at the moment

        def content(p):
            red = conc_red(p["redirect"])
            if red is None:
                return {"body": "intro " + " and ".join("{{%s|1=x}}" % conc(w) for w in p["uses"]) + " end"}
            return {"redirect_to": red}

        def add(i, mark=False):
            if mark:
                ctx.add_page(titles[i], tns, need_pre_expand=True, **content(pages[i]))
            else:
                ctx.add_page(titles[i], tns, **content(pages[i]))

        def classifier(wtp, page):
            used = set(re.findall(r"\{\{([^|{}]+)", page.body)) if page.body else set()
            return used, page.title in now_flagged

        overwrite = None
        if hmode == H_DIRECT:  # rows written with need_pre_expand=True
            for i in range(len(pages)):
                add(i, i in pre)
        elif hmode == H_HISTORY:  # the marks are left behind by an earlier analysis
            for i in sorted(pre):
                add(i)
        else:  # H_OVERWRITE: an overwrite file re-writes the pages with need_pre_expand: true
            for i in range(len(pages)):
                add(i)
            overwrite = self.dir / "overwrite.json"
            overwrite.write_text(json.dumps(
                {titles[i]: dict(namespace_id=tns, need_pre_expand=True, **content(pages[i])) for i in sorted(pre)}),
                encoding="utf-8")

        def call(limit):
            nonlocal now_flagged
            signal.signal(signal.SIGALRM, _alarm)
            signal.setitimer(signal.ITIMER_REAL, limit)
            try:
                if hmode == H_HISTORY:
                    # first analysis: only the pages of `pre` exist, the classifier flags them all
                    now_flagged = {titles[i] for i in pre}
                    ctx.analyze_templates(classifier)
                    first = {p.title for p in ctx.get_all_pages([tns]) if p.need_pre_expand}
                    if first != now_flagged:
                        raise FirstAnalysis(f"first analysis (every page flagged) marked {sorted(first)} of {sorted(now_flagged)}")
                    for i in range(len(pages)):  # templates added afterwards
                        if i not in pre:
                            add(i)
                    now_flagged = set(flagged)
                    ctx.analyze_templates(classifier)
                elif hmode == H_OVERWRITE:
                    from wikitextprocessor.dumpparser import analyze_and_overwrite_pages

                    analyze_and_overwrite_pages(ctx, [overwrite], False, classifier)
                elif via_dump_step:
                    from wikitextprocessor.dumpparser import analyze_and_overwrite_pages

                    analyze_and_overwrite_pages(ctx, None, False, classifier)
                else:
                    ctx.analyze_templates(classifier)
            finally:
                signal.setitimer(signal.ITIMER_REAL, 0)

        try:
            call(TIMEOUT_S)
        except NonTermination:
            if not _retry:
                self.drop()
                return "retry", ""
            self.drop()
            return None, "nontermination"
        except FirstAnalysis as e:
            self.drop()
            return None, str(e)
        except Exception as e:  # noqa: BLE001
            self.drop()
            return None, "exception " + repr(e)
        got = {p.title: bool(p.need_pre_expand) for p in ctx.get_all_pages([tns])}
        if set(got) != set(titles):
            return None, f"page set changed: {sorted(got)}"
        mask = 0
        for i, t in enumerate(titles):
            if got[t]:
                mask |= 1 << i
        return mask, ""


def subset(a: int, b: int) -> bool:
    return a & ~b == 0


def judge(obs, note, lower, upper, asis):
    """-> (kind, why); kind in ok | drift | asis | bad"""
    if obs is None:
        return ("skipped", note) if note == "skipped" else ("bad", note)
    if subset(lower, obs) and subset(obs, upper):
        return ("ok", "") if obs == lower else ("drift", "marked set differs from closure+redirect neighbours but lies within the most generous reading")
    if obs == asis:
        return "asis", "under-marked: names written in another spelling than the stored title are not followed"
    if not subset(lower, obs):
        return "bad", "under-marked"
    return "bad", "over-marked"


def judge_h(obs, note, lower, upper, ideal, asis):
    """A call on a database that already carries marks.
    -> (kind, why); kind in ok | drift | reseed | bad"""
    if obs is None:
        return ("skipped", note) if note == "skipped" else ("bad", note)
    if subset(lower, obs) and subset(obs, upper):
        return ("ok", "") if obs == ideal else ("drift", "marks differ from the closure of flagged + earlier marks but contain everything the statement demands and nothing beyond its most generous reading")
    if obs == asis:
        return "reseed", "under-marked: a template that transitively includes a flagged one only through a template marked before the call stays unmarked"
    if not subset(lower, obs):
        return "bad", "under-marked"
    return "bad", "over-marked"


def names_of(pages, mask):
    return [conc(p["title"]) for i, p in enumerate(pages) if mask >> i & 1]


def run_chunk(chunk):
    """chunk: list of (k, structure); a structure carries the verdicts `res[m]` for every
    flag mask m (or a single `flags` mask).  Returns per structure
    (k, evaluations, non-trivial flag masks, [(flags, res, obs, kind, why)] of the non-ok cases)."""
    common.use_repo()
    out = []
    d = Path(tempfile.mkdtemp(prefix="c17-"))
    try:
        r = Runner(d)
        for k, s in chunk:
            pages = s["pages"]
            linked = any(p["uses"] or p["redirect"] != ["-"] for p in pages)
            if "hres" in s:
                out.append(run_hist(r, k, s, linked))
                continue
            todo = [(s["flags"], s["res"])] if "flags" in s else list(enumerate(s["res"]))
            bad, n, nontriv = [], 0, []
            for m, res in todo:
                flags = {i for i in range(len(pages)) if m >> i & 1}
                obs, note = r.run(pages, flags, via_dump_step=((k + m) % 5 == 0))
                kind, why = judge(obs, note, *res)
                if kind != "skipped":
                    n += 1
                    if m and linked:
                        nontriv.append(m)
                if kind != "ok":
                    bad.append((m, res, obs, kind, why))
            out.append((k, n, nontriv, bad))
        r.drop()
    finally:
        shutil.rmtree(d, ignore_errors=True)
    return out


def run_hist(r, k, s, linked):
    """One structure with verdicts for calls on a database that already carries marks:
    hres[q-1][m] = (Lower, UpperH, IdealH, AsIsH) for earlier marks q and flags m, or a
    single (pre, flags, hres).  The way the earlier marks are produced rotates over HMODES.
    -> (k, evaluations, non-trivial (m, q), [(m, q, mode, res, obs, kind, why, control)])"""
    pages = s["pages"]
    if "pre" in s:
        todo = [(s["flags"], s["pre"], s["hres"])]
    else:
        # (every page marked already / every page flagged: the result cannot differ, not run)
        full = (1 << len(pages)) - 1
        todo = [(m, q, res) for q, row in enumerate(s["hres"], 1) for m, res in enumerate(row)
                if len(pages) < 3 or (q != full and m != full)]
    bad, n, nontriv = [], 0, []
    for m, q, res in todo:
        flags = {i for i in range(len(pages)) if m >> i & 1}
        pre = frozenset(i for i in range(len(pages)) if q >> i & 1)
        mode = s.get("mode", (k + m + q) % 3)
        obs, note = r.run(pages, flags, pre=pre, hmode=mode)
        kind, why = judge_h(obs, note, *res)
        if kind != "skipped":
            n += 1
            if linked:
                nontriv.append((m, q))
        if kind != "ok":
            ctl = None
            if kind == "bad":  # differential diagnosis: the same pages and flags on a fresh database
                ctl = r.run(pages, flags)[0]
            bad.append((m, q, mode, res, obs, kind, why, ctl))
    return (k, n, nontriv, bad)


MAXV = 60  # violating cases kept per class (the count is exact)
DEV_RESEED = "MarkedNotReseeded"


def report_h(o: Outcome, structs, results, gen: str, counts: dict):
    gid = {"exhaustive": 3, "simulate": 4, "selftest": 5}[gen]
    for k, n, nontriv, bad in results:
        o.evaluations += n
        for mq in nontriv:
            o.shapes.add((gid, k) + tuple(mq))
        pages = structs[k]["pages"]
        for m, q, mode, res, obs, kind, why, ctl in bad:
            if kind == "skipped":
                counts["skipped after repeated non-termination"] = counts.get("skipped after repeated non-termination", 0) + 1
                continue
            lower, upper, ideal, asis = res
            case = {
                "kind": "H", "gen": gen,
                "pages": [{"title": conc(p["title"]), "redirect": conc_red(p["redirect"]),
                           "uses": [conc(w) for w in p["uses"]]} for p in pages],
                "abstract": {"pages": pages, "flags": m, "pre": q, "hres": res, "mode": mode},
                "marked_before_the_call": names_of(pages, q),
                "how": HMODES[mode],
                "flagged": names_of(pages, m),
                "marked_by_code": None if obs is None else names_of(pages, obs),
                "required": names_of(pages, lower),
                "closure_of_flagged_and_earlier_marks": names_of(pages, ideal),
                "allowed_at_most": names_of(pages, upper),
            }
            if kind == "drift":
                o.note_drift(case)
                continue
            counts["H:" + kind + ":" + why] = counts.get("H:" + kind + ":" + why, 0) + 1
            if counts["H:" + kind + ":" + why] > MAXV:
                continue
            ctx_txt = (f"analyze_templates on a database that already carries marks (marked before the call: {case['marked_before_the_call']}; "
                       f"{HMODES[mode]}; flagged by the classifier: {case['flagged']})")
            if kind == "reseed":
                o.classify(case, f"{ctx_txt} marked {case['marked_by_code']}, the property requires {case['required']}: {why}",
                           [DEV_RESEED], cls="H:reseed")
                continue
            diag = ""
            if ctl is not None:
                case["marked_on_fresh_database"] = names_of(pages, ctl)
                if why == "under-marked" and subset(lower, ctl):
                    missing = names_of(pages, lower & ~obs)
                    diag = (f"; {missing} (flagged, or transitively including a flagged template) stay(s) unmarked, while the same pages and flags "
                            f"on a fresh database are marked correctly ({case['marked_on_fresh_database']}): the earlier marks make the analysis skip work it has to do")
            o.violation(case, f"{ctx_txt}: {why}; marked {case['marked_by_code']}, required {case['required']} (at most {case['allowed_at_most']}){diag}",
                        cls="H:" + why.split(" ")[0])


def report(o: Outcome, structs, results, gen: str, counts: dict):
    gid = {"exhaustive": 0, "simulate": 1, "selftest": 2}[gen]
    for k, n, nontriv, bad in results:
        o.evaluations += n
        for m in nontriv:
            o.shapes.add((gid, k, m))
        pages = structs[k]["pages"]
        for m, res, obs, kind, why in bad:
            if kind == "skipped":
                counts["skipped after repeated non-termination"] = counts.get("skipped after repeated non-termination", 0) + 1
                continue
            lower, upper, asis = res
            case = {
                "kind": "G", "gen": gen,
                "pages": [{"title": conc(p["title"]), "redirect": conc_red(p["redirect"]),
                           "uses": [conc(w) for w in p["uses"]]} for p in pages],
                "abstract": {"pages": pages, "flags": m, "res": res},
                "flagged": names_of(pages, m),
                "marked_by_code": None if obs is None else names_of(pages, obs),
                "required": names_of(pages, lower),
                "allowed_at_most": names_of(pages, upper),
            }
            if kind == "drift":
                o.note_drift(case)
                continue
            counts[kind + ":" + why] = counts.get(kind + ":" + why, 0) + 1
            if counts[kind + ":" + why] > MAXV:
                continue
            if kind == "asis":
                o.classify(case, f"analyze_templates marked {case['marked_by_code']}, the property requires {case['required']}: {why}",
                           [DEV_NAMES], cls="asis")
            else:
                o.violation(case, f"analyze_templates: {why}; marked {case['marked_by_code']}, required {case['required']} (at most {case['allowed_at_most']})",
                            cls=why.split(" ")[0])


GEN_CFG = """SPECIFICATION GSpec
CONSTANTS
  PfxNs <- T_PfxNs
  CanonPfx <- T_CanonPfx
  UpperOf <- T_UpperOf
  ArgU <- NoArgs
  Dev <- DevIdeal
  TplNs = 10
  MaxN = {maxn}
  MaxRedirects = {maxred}
  Combos <- {combos}
  HistKinds <- KindsQ
  Parts = {parts}
  Part = {part}
  MaxLen = 0
INVARIANT {inv}
CHECK_DEADLOCK FALSE
"""


def par(jobs: dict) -> dict:
    """Run callables in threads (each starts its own TLC process); results by name."""
    res, err = {}, []

    def one(k, f):
        try:
            res[k] = f()
        except Exception as e:  # noqa: BLE001
            err.append(e)

    th = [threading.Thread(target=one, args=kv) for kv in jobs.items()]
    for t in th:
        t.start()
    for t in th:
        t.join()
    if err:
        raise err[0]
    return {k: res[k] for k in jobs}


def gen_parallel(o: Outcome, name, maxn, maxred, combos, parts, inv="GenInv"):
    """Run `parts` TLC generator processes side by side (each -workers 1)."""
    res = [None] * parts
    err = []

    def one(i):
        try:
            res[i] = tlc("Gen_Analyze", f"gen{i}.cfg", workers=1, timeout=3000,
                         cfg_text=GEN_CFG.format(maxn=maxn, maxred=maxred, combos=combos, parts=parts, part=i, inv=inv))
        except Exception as e:  # noqa: BLE001
            err.append(e)

    th = [threading.Thread(target=one, args=(i,)) for i in range(parts)]
    for t in th:
        t.start()
    for t in th:
        t.join()
    if err:
        raise err[0]
    structs = []
    for i, r in enumerate(res):
        o.add_tlc(f"{name}[{i}]", r)
        structs.extend(r.cases)
    return structs


# ---------------------------------------------------------------------------
# V: random worlds recorded from the real code, validated by TLC
# ---------------------------------------------------------------------------

def universe():
    """Atom tables from the language data of the real context (template namespace)."""
    common.use_repo()
    from wikitextprocessor import Wtp

    with Scratch("c17u-") as d:
        (d / "x").mkdir()
        w = Wtp(db_path=str(d / "x" / "p.db"), quiet=True)
        ns = w.NAMESPACE_DATA["Template"]
        w.db_conn.close()
    names = [ns["name"]] + ns["aliases"] + (["Template"] if ns["name"] != "Template" else [])
    pfxns = {}
    for n in names:
        for v in {n, n.lower(), n.upper(), n.capitalize()}:
            pfxns[v + ":"] = ns["id"]
    firsts = ["f", "F", "é", "É", "z", "Z", "ñ", "Ñ", "9", "ß", "Ω", "ω"]
    upper = {c: c.upper() for c in firsts if len(c.upper()) == 1}
    return {"pfxns": pfxns, "canon": {str(ns["id"]): ns["name"] + ":"}, "upper": upper,
            "tplns": ns["id"], "firsts": [c for c in firsts if c in upper],
            "words": ["oo", "ar", "baz", "/doc", "-x", "1", "ü"]}


def rand_name(rng, u):
    atoms = [rng.choice(u["firsts"])]
    for j in range(rng.randint(0, 2)):
        if j or rng.random() < 0.5:
            atoms.append("SP") if rng.random() < 0.5 else None
        atoms.append(rng.choice(u["words"]))
    # no leading/trailing/double blanks in titles
    out = []
    for a in atoms:
        if a == "SP" and (not out or out[-1] == "SP"):
            continue
        out.append(a)
    return out


def spell(rng, u, name):
    """A way of writing `name` in a body (may or may not denote the page)."""
    n = list(name)
    r = rng.random()
    if r < 0.35:
        pass
    elif r < 0.55:
        lo = {v: k for k, v in u["upper"].items() if k != v}
        n[0] = lo.get(n[0], n[0])
    elif r < 0.7:
        n = ["US" if a == "SP" else a for a in n]
    elif r < 0.8:
        n[0] = u["upper"].get(n[0], n[0])
    elif r < 0.9:
        n = [rng.choice(list(u["pfxns"]))] + n
    else:
        n = [rng.choice(list(u["pfxns"]))] + ["US" if a == "SP" else a for a in n]
    return n


def rand_world(rng, u):
    n = rng.randint(2, 8)
    names = []
    while len(names) < n:
        nm = rand_name(rng, u)
        if rng.random() < 0.3 and names:  # case twin of an existing name
            nm = list(rng.choice(names))
            nm[0] = nm[0].lower() if nm[0].upper() == nm[0] else nm[0].upper()
            if nm[0] not in u["upper"]:
                continue
        if nm not in names:
            names.append(nm)
    can = u["canon"][str(u["tplns"])]
    shape = rng.choice(["random", "cycle", "diamond", "chain", "dense", "sparse"])
    edges = set()
    if shape == "cycle":
        k = rng.randint(1, n)
        for i in range(k):
            edges.add((i, (i + 1) % k))
    elif shape == "diamond" and n >= 4:
        edges |= {(1, 0), (2, 0), (3, 1), (3, 2)}
    elif shape == "chain":
        for i in range(n - 1):
            edges.add((i + 1, i))
    p = {"dense": 0.5, "sparse": 0.08}.get(shape, 0.2)
    for i in range(n):
        for j in range(n):
            if rng.random() < p:
                edges.add((i, j))
    order = list(range(n))
    rng.shuffle(order)  # database order is independent of the shape's numbering
    redirects = {}
    for i in range(n):
        if rng.random() < 0.15:
            redirects[i] = rng.choice([j for j in range(n) if j != i])
    pages = []
    for i in order:
        if i in redirects:
            pages.append({"title": [can] + names[i], "redirect": [can] + names[redirects[i]], "uses": [], "flag": rng.random() < 0.2})
        else:
            uses = []
            for (a, b) in sorted(edges):
                if a == i:
                    w = spell(rng, u, names[b])
                    if w not in uses:
                        uses.append(w)
            if rng.random() < 0.2:
                uses.append(rand_name(rng, u))  # a name that may denote nothing
            pages.append({"title": [can] + names[i], "redirect": ["-"], "uses": uses, "flag": rng.random() < 0.25})
    return pages


def record_worlds(rng, u, n):
    events = []
    with Scratch("c17v-") as d:
        r = Runner(d)
        for tid in range(n):
            pages = rand_world(rng, u)
            flags = {i for i, p in enumerate(pages) if p["flag"]}
            obs, note = r.run(pages, flags, via_dump_step=(tid % 4 == 0))
            if note == "skipped":
                break
            ev = {"tid": tid, "pages": pages, "terminated": note != "nontermination",
                  "marked": [] if obs is None else [p["title"] for i, p in enumerate(pages) if obs >> i & 1]}
            if obs is None and note != "nontermination":
                ev["error"] = note
            events.append(ev)
        r.drop()
    return events


def _timed(fn, limit):
    signal.signal(signal.SIGALRM, _alarm)
    signal.setitimer(signal.ITIMER_REAL, limit)
    try:
        fn()
    finally:
        signal.setitimer(signal.ITIMER_REAL, 0)


def record_histories(rng, u, n, tid0):
    """Random histories on one database: pages are added, analysed, further pages are added
    (some with need_pre_expand=True), stored ones overwritten (other inclusions, other
    classifier answer; the row's mark is reset by add_page), analysed again, 2-3 rounds.
    One event per analyze_templates call: the stored pages in database order, the marks
    present before the call (`pre`, as read from the database) and after it."""
    events = []
    with Scratch("c17h-") as d:
        r = Runner(d)
        for h in range(n):
            if _nonterm is not None and _nonterm.value >= GIVE_UP_AFTER:
                break
            pages = rand_world(rng, u)
            ctx = r.fresh()
            tns = ctx.NAMESPACE_DATA["Template"]["id"]
            by = {}

            def put(p, mark=False):
                red = conc_red(p["redirect"])
                kw = {"need_pre_expand": True} if mark else {}
                if red is None:
                    ctx.add_page(conc(p["title"]), tns, body="intro " + " and ".join("{{%s|1=x}}" % conc(w) for w in p["uses"]) + " end", **kw)
                else:
                    ctx.add_page(conc(p["title"]), tns, redirect_to=red, **kw)
                by[conc(p["title"])] = p

            def classifier(wtp, page):
                used = set(re.findall(r"\{\{([^|{}]+)", page.body)) if page.body else set()
                return used, by[page.title]["flag"]

            early = [p for p in pages if rng.random() < 0.6] or pages[:1]
            if not any(p["flag"] for p in early):  # the first analysis should leave marks behind
                early[0]["flag"] = True
            late = [p for p in pages if not any(p is q for q in early)]
            for p in early:
                put(p, mark=rng.random() < 0.1)
            for rd in range(rng.randint(2, 3)):
                if rd:
                    k = rng.randint(1, max(1, len(late)))
                    for p in late[:k]:
                        put(p, mark=rng.random() < 0.15)
                    late = late[k:]
                    for p in list(by.values()):
                        if p["redirect"] == ["-"] and rng.random() < 0.2:  # overwritten with another text
                            uses = [w for w in p["uses"] if rng.random() < 0.6]
                            if rng.random() < 0.6:
                                w = spell(rng, u, rng.choice(pages)["title"][1:])
                                if w not in uses:
                                    uses.append(w)
                            put({"title": p["title"], "redirect": ["-"], "uses": uses, "flag": rng.random() < 0.25})
                rows = list(ctx.get_all_pages([tns]))
                order = [by[x.title] for x in rows]
                pre = [by[x.title]["title"] for x in rows if x.need_pre_expand]
                ev = {"tid": tid0 + len(events), "history": h, "pages": [dict(p) for p in order], "pre": pre, "terminated": True, "marked": []}
                try:
                    _timed(lambda: ctx.analyze_templates(classifier), 3 * TIMEOUT_S)
                    ctx.db_conn.commit()
                    ev["marked"] = [by[x.title]["title"] for x in ctx.get_all_pages([tns]) if x.need_pre_expand]
                except NonTermination:
                    ev["terminated"] = False
                    if _nonterm is not None:
                        with _nonterm.get_lock():
                            _nonterm.value += 1
                except Exception as e:  # noqa: BLE001
                    ev["error"] = "exception " + repr(e)
                events.append(ev)
                if not ev["terminated"] or "error" in ev:
                    r.drop()
                    break
        r.drop()
    return events


def validate_trace(o: Outcome, events, u, drift=None):
    with Scratch("c17t-") as d:
        tf = d / "trace.json"
        tf.write_text(json.dumps({"pfxns": u["pfxns"], "canon": u["canon"], "upper": u["upper"],
                                  "tplns": u["tplns"], "events": events}))
        cfg = "SPECIFICATION TSpec\nINVARIANT Verdict\nINVARIANT ModelInv\nCHECK_DEADLOCK FALSE\n"
        r = tlc("Trace_Analyze", "trace.cfg", cfg_text=cfg, workers=1, env={"TRACE_FILE": str(tf)}, timeout=1800)
    o.add_tlc("Trace_Analyze", r)
    vs = r.tagged("VERDICT")
    if not vs:
        raise common.TLCError("trace validation printed no verdict")
    bad = {}
    for v in vs:
        if v["consumed"] != len(events):
            raise common.TLCError(f"trace consumed {v['consumed']} of {len(events)} events")
        for b in v["bad"]:
            bad[b["i"]] = b
    if drift is not None:
        drift.extend(bad[k] for k in sorted(bad) if bad[k]["why"] == "drift")
    return [bad[k] for k in sorted(bad) if bad[k]["why"] != "drift"]


def vcase(u, ev, b):
    case = {"kind": "V", "universe": {k: u[k] for k in ("pfxns", "canon", "upper", "tplns")}, "event": ev,
            "pages": [{"title": conc(p["title"]), "redirect": conc_red(p["redirect"]), "uses": [conc(w) for w in p["uses"]], "flag": p["flag"]} for p in ev["pages"]],
            "marked_by_code": [conc(t) for t in ev["marked"]],
            "required": sorted(conc(t) for t in b["lower"]),
            "allowed_at_most": sorted(conc(t) for t in b["upper"])}
    if ev.get("pre"):
        case["marked_before_the_call"] = [conc(t) for t in ev["pre"]]
        case["closure_of_flagged_and_earlier_marks"] = sorted(conc(t) for t in b["ideal"])
    return case


def run_v(o: Outcome, n, nh):
    rng = random.Random(common.seed() * 7919 + 17)
    u = universe()
    events = record_worlds(rng, u, n)
    hevents = record_histories(random.Random(common.seed() * 7919 + 29), u, nh, len(events))
    events = events + hevents
    drift = []
    bad = validate_trace(o, events, u, drift)
    o.traces += len(events)
    o.evaluations += len(events)
    o.extra["trace_worlds"] = len(events)
    o.extra["trace_history_calls"] = len(hevents)
    o.extra["trace_history_calls_with_earlier_marks"] = sum(1 for e in hevents if e["pre"])
    for e in events:
        if any(p["flag"] for p in e["pages"]) or e.get("pre"):
            o.shape(("V", common.json_key([e["pages"], e.get("pre", [])])))
    for b in drift:
        o.note_drift(vcase(u, events[b["i"] - 1], b))
    nb = 0
    for b in bad:
        ev = events[b["i"] - 1]
        if b["why"] == "model":
            raise common.TLCError(f"model algorithm disagrees with its own reference on a recorded world: {ev}")
        nb += 1
        if nb > MAXV:
            continue
        case = vcase(u, ev, b)
        hist = (f" on a database that already carries marks (marked before the call: {case['marked_before_the_call']}; recorded history of "
                f"add_page / analyze_templates calls; flagged by the classifier: {[conc(p['title']) for p in ev['pages'] if p['flag']]})"
                if ev.get("pre") else "")
        if "error" in ev:
            o.violation(case, "analyze_templates raised: " + ev["error"], cls="V:exception")
        elif b["why"] == "asis":
            o.classify(case, f"analyze_templates marked {case['marked_by_code']}, the property requires {case['required']}: names written in another spelling than the stored title are not followed",
                       [DEV_NAMES], cls="V:asis")
        elif b["why"] == "reseed":
            o.classify(case, f"analyze_templates{hist} marked {case['marked_by_code']}, the property requires {case['required']}: "
                             "a template that transitively includes a flagged one only through a template marked before the call stays unmarked",
                       [DEV_RESEED], cls="V:reseed")
        elif b["why"] == "nontermination":
            o.violation(case, f"analyze_templates{hist} did not terminate within {3 * TIMEOUT_S}s", cls="V:nontermination")
        else:
            o.violation(case, f"analyze_templates{hist} marked {case['marked_by_code']}, required {case['required']} (at most {case['allowed_at_most']})",
                        cls="V:other-earlier-marks" if hist else "V:other")
    if events:
        e = events[0]
        o.sample({"recorded_world": [{"title": conc(p["title"]), "redirect": conc_red(p["redirect"]), "uses": [conc(w) for w in p["uses"]], "flag": p["flag"]} for p in e["pages"]],
                  "marked": [conc(t) for t in e["marked"]]})
    return len(bad)


# ---------------------------------------------------------------------------

MC_CFG = """SPECIFICATION {spec}
CONSTANTS
  PfxNs <- T_PfxNs
  CanonPfx <- T_CanonPfx
  UpperOf <- T_UpperOf
  ArgU <- NoArgs
  Dev <- {dev}
  TplNs = 10
  MaxN = {maxn}
  MaxRedirects = {maxred}
  Combos <- {combos}
  HistKinds <- {kinds}
{props}
CHECK_DEADLOCK FALSE
"""


def run(tier: str) -> int:
    global _nonterm
    import multiprocessing as mp

    _nonterm = mp.get_context("fork").Value("i", 0)
    o = Outcome(PID, tier)
    thorough = tier == "thorough"
    o.rule = (
        "G: one case = (pages in database order with redirect targets and the names written in each body, flag set); "
        "all structures on <= MaxN pages (every edge set, every redirect placement) x every flag set x name-set/spelling-scheme "
        "combos are enumerated by TLC; distinct by (pages, flags); non-trivial = at least one flagged page and one inclusion or redirect. "
        "Sim/V: random worlds on <= 8 pages, distinct by content. "
        "H: one case = (structure, set of pages marked before the call, flag set): all structures on <= 3 pages x every non-empty set of earlier marks "
        "x every flag set (3-page cases with all pages marked or all flagged are not run), the earlier marks produced by add_page(need_pre_expand=True), "
        "by a real earlier analysis followed by adding the other templates, or by an overwrite file, in rotation; distinct by (pages, earlier marks, flags); "
        "non-trivial = at least one inclusion or redirect. V histories: one event per analyze_templates call of a random add/analyse/overwrite/analyse history."
    )
    o.assumptions = [
        "stored titles carry the canonical namespace prefix and contain no underscores (as dumps deliver them)",
        "the classifier reports names as written in the body; a written name denotes the page get_page(name, template ns) resolves it to",
        "redirect_to holds the canonical full title of the target (as the <redirect title=..> attribute of a dump does)",
        f"non-termination is observed as a call on <= 8 pages exceeding {TIMEOUT_S}s and, re-tried, {3 * TIMEOUT_S}s",
        "the statement's 'plus redirects from or to a marked template' is read as: not less than closure + its redirect neighbours, "
        "not more than the least set closed under inclusion and redirects in both directions",
        "a call on a database that already carries marks: the statement is read as demanding at least closure(flagged now) + redirect neighbours "
        "(whatever the earlier marks are) and allowing at most the full fixpoint from flagged + earlier marks (analysis never removes a mark; "
        "clearing stale marks is not demanded); the model's result, closure(flagged + earlier marks) + redirect neighbours, is demanded only as DRIFT",
        "the classifier's answer for a page may differ between two calls of a history (it depends on the page's current text)",
    ]
    # ---- M and the generators: independent TLC processes side by side
    inv = "INVARIANT ResultIsClosure\nINVARIANT ResultWithinStatement\nINVARIANT NeverOvermarks\nINVARIANT PushedOnce"
    inv_h = ("INVARIANT ResultIsIdealH\nINVARIANT ResultWithinStatementH\nINVARIANT NeverOvermarksH\n"
             "INVARIANT KeepsEarlierMarks\nINVARIANT PushedOnce")
    jobs = {
        "MC_ideal": lambda: tlc("MC_Analyze", "mc.cfg", workers=6, timeout=3000, coverage=True,
                                cfg_text=MC_CFG.format(spec="MCSpec", dev="DevIdeal", maxn=3, maxred=3, kinds="KindsQ",
                                                       combos="CombosAll" if thorough else "CombosQ2", props=inv)),
        # histories (analyse, add / overwrite the last page, analyse again) and calls on a
        # database with arbitrary earlier marks
        "MC_hist": lambda: tlc("MC_Analyze", "mch.cfg", workers=3 if thorough else 2, timeout=3000,
                               cfg_text=MC_CFG.format(spec="MCHSpec", dev="DevIdeal", maxn=3, maxred=1 if thorough else 0,
                                                      kinds="KindsAll" if thorough else "KindsQ",
                                                      combos="CombosQ2" if thorough else "CombosExact",
                                                      props=inv_h + ("\nPROPERTY TerminatesH" if thorough else ""))),
        "MC_pre": lambda: tlc("MC_Analyze", "mcp.cfg", workers=2 if thorough else 1, timeout=3000,
                              cfg_text=MC_CFG.format(spec="MCPSpec", dev="DevIdeal", maxn=3 if thorough else 2, maxred=1, kinds="KindsQ",
                                                     combos="CombosExact" if thorough else "CombosQ2", props=inv_h + "\nPROPERTY Terminates")),
        "MC_hist_asis": lambda: tlc("MC_Analyze", "mcha.cfg", workers=2 if thorough else 1, timeout=3000, coverage=True,
                                    cfg_text=MC_CFG.format(spec="MCHSpec", dev="DevNoReseed", maxn=3 if thorough else 2, maxred=1, kinds="KindsAll",
                                                           combos="CombosExact", props="INVARIANT ResultIsAsIsH\nINVARIANT KeepsEarlierMarks\nINVARIANT PushedOnce")),
        "Demo_Analyze_reseed.cfg": lambda: tlc("MC_Analyze", "Demo_Analyze_reseed.cfg", workers=1, check=False),
        "SimH": lambda: tlc("Gen_Analyze", "SimH_Analyze.cfg", workers=1, timeout=3000,
                            extra=["-simulate", f"num={60 if thorough else 4}", "-depth", "14", "-seed", str(common.seed() + 23)]),
        "MC_live": lambda: tlc("MC_Analyze", "MC_Analyze_live.cfg", workers=3, timeout=3000),
        "MC_asis": lambda: tlc("MC_Analyze", "MC_Analyze_asis.cfg", workers=2, timeout=3000),
        "Demo_Analyze_exact.cfg": lambda: tlc("MC_Analyze", "Demo_Analyze_exact.cfg", workers=1, check=False),
        "Demo_Analyze_stale.cfg": lambda: tlc("MC_Analyze", "Demo_Analyze_stale.cfg", workers=1, check=False),
        "Sim": lambda: tlc("Gen_Analyze", "Sim_Analyze.cfg", workers=1, timeout=3000,
                           extra=["-simulate", f"num={120 if thorough else 8}", "-depth", "14", "-seed", str(common.seed() + 17)]),
    }
    gens = [("Gen3", 3, 3, "CombosAll" if thorough else "CombosQ", 3 if thorough else 2, "GenInv"),
            ("GenH3", 3, 3 if thorough else 1, "CombosQ" if thorough else "CombosB2", 4 if thorough else 1, "GenHInv")]
    for (name, maxn, maxred, combos, parts, ginv) in gens:
        for i in range(parts):
            jobs[f"{name}[{i}]"] = (lambda name=name, maxn=maxn, maxred=maxred, combos=combos, parts=parts, i=i, ginv=ginv:
                                    tlc("Gen_Analyze", f"{name.lower()}{i}.cfg", workers=1, timeout=3000,
                                        cfg_text=GEN_CFG.format(maxn=maxn, maxred=maxred, combos=combos, parts=parts, part=i, inv=ginv)))
    res = par(jobs)
    for name, r in res.items():
        if name in ("Sim", "SimH"):
            m = re.search(r"The number of states generated: (\d+)", r.out)
            r.generated = r.distinct = int(m.group(1)) if m else 0
        o.add_tlc(name, r)
    o.extra["action_coverage"] = {k: v[1] for k, v in res["MC_ideal"].coverage_actions().items()}
    o.extra["action_coverage_histories"] = {k: v[1] for k, v in res["MC_hist_asis"].coverage_actions().items()}
    if not o.extra["action_coverage_histories"].get("Rerun"):
        raise common.TLCError("the history model never took the Rerun action (vacuity guard)")
    for demo in ("Demo_Analyze_exact.cfg", "Demo_Analyze_stale.cfg", "Demo_Analyze_reseed.cfg"):
        r = res[demo]
        found = bool(r.invariant_violated) or r.property_violated or bool(re.search(r"Temporal propert\w+ .*violated", r.out))
        o.extra["demo_" + demo] = found
        if not found:
            raise common.TLCError(f"{demo} no longer shows its counterexample (vacuity guard)")
    # ---- G exhaustive
    structs, hstructs = [], []
    for name, r in res.items():
        if name.startswith("GenH"):
            have = {common.json_key(x["pages"]) for x in hstructs}
            hstructs.extend(x for x in r.tagged("HCASE") if common.json_key(x["pages"]) not in have)
        elif name.startswith("Gen"):
            structs.extend(r.cases)
    if thorough:
        structs += gen_parallel(o, "Gen4", 4, 1, "CombosB", 14)
    counts: dict = {}
    report(o, structs, pmap(run_chunk, list(enumerate(structs))), "exhaustive", counts)
    o.exhaustive = True
    mid = structs[len(structs) // 2]
    mm = len(mid["res"]) - 1
    o.sample({"pages": [{"title": conc(p["title"]), "redirect": conc_red(p["redirect"]), "uses": [conc(w) for w in p["uses"]]} for p in mid["pages"]],
              "flagged": names_of(mid["pages"], mm), "required": names_of(mid["pages"], mid["res"][mm][0])})
    # ---- G simulate: random worlds on 8 pages
    r = res["Sim"]
    seen = set()
    scases = []
    for c in r.tagged("SIM"):
        key = common.json_key([c["pages"], c["flags"]])
        if key in seen:
            continue
        seen.add(key)
        scases.append({"pages": c["pages"], "flags": c["flags"], "res": c["res"]})
    report(o, scases, pmap(run_chunk, list(enumerate(scases))), "simulate", counts)
    # ---- G on databases that already carry marks: exhaustive (structure x earlier marks x flags) and simulated
    hres_ = pmap(run_chunk, list(enumerate(hstructs)))
    report_h(o, hstructs, hres_, "exhaustive", counts)
    hs = hstructs[len(hstructs) // 2]
    hq, hm = (2 if len(hs["hres"]) >= 2 else 1), 1
    o.sample({"pages": [{"title": conc(p["title"]), "redirect": conc_red(p["redirect"]), "uses": [conc(w) for w in p["uses"]]} for p in hs["pages"]],
              "marked_before_the_call": names_of(hs["pages"], hq), "flagged": names_of(hs["pages"], hm),
              "required": names_of(hs["pages"], hs["hres"][hq - 1][hm][0]), "allowed_at_most": names_of(hs["pages"], hs["hres"][hq - 1][hm][1])})
    seen = set()
    shcases = []
    for c in res["SimH"].tagged("SIMH"):
        key = common.json_key([c["pages"], c["flags"], c["pre"]])
        if key in seen:
            continue
        seen.add(key)
        shcases.append({"pages": c["pages"], "flags": c["flags"], "pre": c["pre"], "hres": c["hres"]})
    report_h(o, shcases, pmap(run_chunk, list(enumerate(shcases))), "simulate", counts)
    o.extra["cases_earlier_marks_exhaustive"] = sum(x[1] for x in hres_)
    o.extra["cases_earlier_marks_simulated"] = len(shcases)
    o.extra["cases_exhaustive"] = sum(len(x["res"]) for x in structs)
    o.extra["structures_exhaustive"] = len(structs)
    o.extra["cases_simulated"] = len(scases)
    # ---- V
    run_v(o, 1500 if thorough else 150, 300 if thorough else 25)
    o.extra["violation_counts"] = counts
    if tier == "thorough":  # inductive invariants of the design (Apalache; harness/apalache.py)
        import apalache
        common.with_engine(o, "inductive", lambda: apalache.extend(o, tier, PID))
    return o.finish()


def replay(path: str) -> int:
    v = json.loads(Path(path).read_text())
    case = v["case"]
    print(json.dumps({k: case[k] for k in case if k not in ("abstract", "event", "universe")}, indent=1, ensure_ascii=False))
    common.use_repo()
    if case["kind"] == "H" or (case["kind"] == "V" and case["event"].get("pre")):
        # a call on a database that already carried marks
        if case["kind"] == "H":
            a = case["abstract"]
            pages, flags, pre, res, mode = a["pages"], a["flags"], a["pre"], a["hres"], a["mode"]
        else:
            pages = case["event"]["pages"]
            idx = {conc(p["title"]): i for i, p in enumerate(pages)}
            flags = sum(1 << i for i, p in enumerate(pages) if p["flag"])
            pre = sum(1 << idx[conc(t)] for t in case["event"]["pre"])
            res = [sum(1 << idx[t] for t in case[k]) for k in ("required", "allowed_at_most", "closure_of_flagged_and_earlier_marks")] + [-1]
            mode = H_DIRECT
        with Scratch("c17r-") as d:
            r = Runner(d)
            obs, note = r.run(pages, {i for i in range(len(pages)) if flags >> i & 1},
                              pre=frozenset(i for i in range(len(pages)) if pre >> i & 1), hmode=mode)
            r.drop()
        kind, why = judge_h(obs, note, *res)
        print("re-executed (%s): marked" % HMODES[mode], None if obs is None else names_of(pages, obs), "->", kind, why)
        return 0 if kind in ("ok", "drift") else 1
    if case["kind"] == "G":
        a = case["abstract"]
        pages, flags, res = a["pages"], a["flags"], a["res"]
    else:
        pages = case["event"]["pages"]
        flags = sum(1 << i for i, p in enumerate(pages) if p["flag"])
        idx = {conc(p["title"]): i for i, p in enumerate(pages)}
        lower = sum(1 << idx[t] for t in case["required"])
        upper = sum(1 << idx[t] for t in case["allowed_at_most"])
        res = [lower, upper, -1]
    with Scratch("c17r-") as d:
        r = Runner(d)
        obs, note = r.run(pages, {i for i in range(len(pages)) if flags >> i & 1})
        r.drop()
    kind, why = judge(obs, note, *res)
    print("re-executed: marked", None if obs is None else names_of(pages, obs), "->", kind, why)
    return 0 if kind in ("ok", "drift") else 1


def selftest() -> int:
    """Binding demo: (1) an unmodified recorded trace is accepted as far as the code is
    right, a trace with one corrupted observation is rejected by TLC; (2) a generator
    case with a corrupted expected value is flagged by the comparison."""
    o = Outcome(PID, "quick")
    rng = random.Random(3)
    u = universe()
    ev = record_worlds(rng, u, 25)
    # use only worlds the current tree gets right so that the corruption is the only fault
    ok_bad = {b["i"] for b in validate_trace(o, ev, u)}
    ev = [e for i, e in enumerate(ev, 1) if i not in ok_bad]
    base = validate_trace(o, ev, u)
    k = next(i for i, e in enumerate(ev) if e["marked"] and len(e["marked"]) < len(e["pages"]))
    unmarked = next(p["title"] for p in ev[k]["pages"] if p["title"] not in ev[k]["marked"])
    ev[k]["marked"] = ev[k]["marked"] + [unmarked]  # claim one page too many
    bad1 = validate_trace(o, ev, u)
    ev[k]["marked"] = ev[k]["marked"][1:-1]  # and now one page too few (the spurious one removed as well)
    bad2 = validate_trace(o, ev, u)
    print(f"V: clean trace: {len(base)} rejected; +1 spurious mark: {len(bad1)} rejected {[b['i'] for b in bad1]}; -1 mark: {len(bad2)} rejected")
    # G: corrupt an expected mask
    r = tlc("Gen_Analyze", "g.cfg", workers=1, cfg_text=GEN_CFG.format(maxn=2, maxred=1, combos="CombosExact", parts=1, part=0, inv="GenInv"))
    structs = r.cases
    res = run_chunk(list(enumerate(structs)))
    total = sum(len(x["res"]) for x in structs)
    good = total - sum(1 for x in res for y in x[3] if y[3] != "drift")
    c = next(x for x in structs if x["res"][-1][0] != 0)
    c2 = {"pages": c["pages"], "flags": len(c["res"]) - 1, "res": [0, 0, 0]}
    res2 = run_chunk([(0, c2)])
    verdict = res2[0][3][0][3] if res2[0][3] else "ok"
    print(f"G: {good}/{total} exact-spelling cases agree; corrupted expectation judged: {verdict}")
    # calls on a database that already carries marks: G (expected values of TLC vs a corrupted one) and V
    rh = tlc("Gen_Analyze", "gh.cfg", workers=1, cfg_text=GEN_CFG.format(maxn=2, maxred=1, combos="CombosExact", parts=1, part=0, inv="GenHInv"))
    hs = rh.tagged("HCASE")
    resh = run_chunk(list(enumerate(hs)))
    htotal = sum(x[1] for x in resh)
    hbad = sum(1 for x in resh for y in x[3] if y[5] == "bad")
    c = next(x for x in hs if len(x["pages"]) == 2 and all(p["uses"] == [] and p["redirect"] == ["-"] for p in x["pages"]))
    # two unrelated pages, the first one marked earlier, nothing flagged; corrupted claim: both must be marked
    res3 = run_chunk([(0, {"pages": c["pages"], "flags": 0, "pre": 1, "hres": [3, 3, 3, 3], "mode": H_HISTORY})])
    hverdict = res3[0][3][0][5] if res3[0][3] else "ok"
    print(f"H: {htotal - hbad}/{htotal} cases with earlier marks within the statement; corrupted expectation judged: {hverdict}")
    hev = record_histories(random.Random(5), u, 12, 0)
    rej = {b["i"] for b in validate_trace(o, hev, u)}
    hev = [e for i, e in enumerate(hev, 1) if i not in rej]
    hbase = validate_trace(o, hev, u)
    k = next(i for i, e in enumerate(hev) if e["pre"] and any(p["flag"] for p in e["pages"]))
    flagged_t = next(p["title"] for p in hev[k]["pages"] if p["flag"])
    hev[k]["marked"] = [t for t in hev[k]["marked"] if t != flagged_t]  # claim a flagged page was left unmarked
    hbad1 = validate_trace(o, hev, u)
    print(f"V histories: {sum(1 for e in hev if e['pre'])} recorded calls with earlier marks, clean: {len(hbase)} rejected; "
          f"flagged page unmarked: {len(hbad1)} rejected {[b['i'] for b in hbad1]}")
    return 0 if (not base and bad1 and bad2 and good == total and verdict == "bad"
                 and hbad == 0 and hverdict == "bad" and not hbase and [b["i"] for b in hbad1] == [k + 1]) else 1
