"""C19 — serialising a parse tree back to wikitext preserves it.

M  spec/Unparse.tla transcribes to_wikitext / to_attrs per node kind and defines
   Equiv (same nodes, arguments, attributes, text up to whitespace at block boundaries).
   MC_Unparse runs the round trip inside the model on the table / HTML / call fragment
   (ParserStruct twin: parse -> Unparse -> parse -> Unparse -> parse); Gen_Unparse checks the
   emitter's laws on every generated document; Demo_Unparse_asis shows that the emitter
   as found breaks the in-model round trip.
G  TLC enumerates the document grammar (Gen_Unparse, depth 3 / 4) and prints each
   document in two spellings (compact hand-written, and TLC's Unparse of the tree).  For
   each text the harness runs the REAL chain parse -> node_to_wikitext -> parse ->
   node_to_wikitext -> parse, dumps the three trees and two texts structurally (ptree2),
   and TLC (Trace_Unparse) decides Equiv(t2, t1), Equiv(t3, t2); the real text against
   TLC's Unparse of the abstract tree is DRIFT only.
V  every sub-tree, string and child list of the first trees is also handed directly to
   node_to_wikitext (the API accepts nodes, strings and lists); TLC decides which of them
   are self-contained wikitext and whether parse(to_wikitext(x)) is equivalent to x.
"""
from __future__ import annotations

import json
from pathlib import Path

import common
import ptree2
from common import Outcome, Scratch, pmap, tlc

PID = "C19"
ALL_DEVS = ["CaptionContentOnOwnLine", "DefinitionDropped", "NoincludeKeptInCallArguments"]
TRACE_CFG = "SPECIFICATION Spec\nINVARIANT Verdict\nCHECK_DEADLOCK FALSE\n"


def gen_cfg(depth: int, part: int, parts: int) -> str:
    return (f"SPECIFICATION Spec\nCONSTANTS\n  Depth = {depth}\n  Part = {part}\n  Parts = {parts}\n"
            "INVARIANT GenInv\nINVARIANT Laws\nCHECK_DEADLOCK FALSE\n")


def gen_job(jobs):
    out = []
    for depth, part, parts in jobs:
        r = tlc("Gen_Unparse", "g.cfg", cfg_text=gen_cfg(depth, part, parts), workers=1, timeout=3000)
        out.append((r.distinct, r.generated, r.wall, r.cases))
    return out


# ---------------------------------------------------------------------------
# the real chain
# ---------------------------------------------------------------------------
def sub_values(root):
    """Every node, string child and child list of a real tree (the real objects)."""
    out = []

    def walk_list(xs):
        if xs:
            out.append(list(xs))
        for x in xs:
            walk(x)

    def walk(x):
        out.append(x)
        if isinstance(x, str):
            return
        walk_list(x.children)
        for a in x.largs:
            walk_list(a)
        if x.definition is not None:
            walk_list(x.definition)

    walk_list(root.children)
    return out


def chain_chunk(chunk):
    """chunk: [(idx, text)] -> [(idx, record)], {key: sub-record}"""
    common.use_repo()
    out = []
    subs = {}
    with Scratch("c19-") as d:
        ctx = ptree2.new_ctx(d)
        try:
            for idx, text in chunk:
                try:
                    r1 = ptree2.parse(ctx, text)
                    w1 = ctx.node_to_wikitext(r1)
                    r2 = ptree2.parse(ctx, w1)
                    w2 = ctx.node_to_wikitext(r2)
                    r3 = ptree2.parse(ctx, w2)
                    rec = {"t1": ptree2.node(r1), "w1": ptree2.atoms(w1), "t2": ptree2.node(r2),
                           "w2": ptree2.atoms(w2), "t3": ptree2.node(r3)}
                    for x in sub_values(r1):
                        ax = ptree2.general(x)
                        key = common.json_key(ax)
                        if key in subs:
                            continue
                        w = ctx.node_to_wikitext(x)
                        subs[key] = {"x": ax, "w": ptree2.atoms(w), "t": ptree2.node(ptree2.parse(ctx, w)), "from": idx}
                except Exception as e:  # noqa: BLE001
                    rec = {"exception": repr(e)}
                out.append((idx, rec))
        finally:
            ctx.db_conn.close()
    return [(out, subs)]


def trace_chunk(chunk):
    out = []
    for known, cases, subs in chunk:
        with Scratch("c19t-") as d:
            tf = d / "batch.json"
            tf.write_text(json.dumps({"known": known, "cases": [c for _, c in cases], "subs": [s for _, s in subs]}))
            r = tlc("Trace_Unparse", "t.cfg", cfg_text=TRACE_CFG, workers=1, timeout=3000, env={"TRACE_FILE": str(tf)})
        v = r.tagged("VERDICT")
        if not v or v[0]["cases"] != len(cases) or v[0]["subs"] != len(subs):
            raise common.TLCError("Trace_Unparse did not consume its batch")
        v = v[0]
        out.append({
            "tlc": (r.distinct, r.generated, r.wall),
            "eligible": v["eligible"],
            "bad": [(cases[b["i"] - 1][0], b) for b in v["bad"]],
            "drift": [(cases[b["i"] - 1][0], b) for b in v["drift"]],
            "subbad": [(subs[b["j"] - 1][0], b) for b in v["subbad"]],
            "subdrift": [(subs[b["j"] - 1][0], b) for b in v["subdrift"]],
        })
    return out


def diff_kinds(a, b) -> str:
    ka, kb = ptree2.kinds(a), ptree2.kinds(b)
    if ka == kb:
        return "same kinds"
    return "-" + ",".join(sorted(ka - kb)) + " +" + ",".join(sorted(kb - ka))


def validate(o: Outcome, texts: list, known: list, chunk_size: int = 400):
    """texts: [(label, text)].  Runs the chain and lets TLC judge."""
    res = pmap(chain_chunk, list(enumerate(t for _, t in texts)))
    recs = {}
    subs = {}
    for out, sb in res:
        recs.update(dict(out))
        for k, v in sb.items():
            subs.setdefault(k, v)
    cases = []
    for i, (label, text) in enumerate(texts):
        o.evaluations += 1
        rec = recs[i]
        if "exception" in rec:
            o.violation({"origin": label, "text": text}, f"round trip of {text!r} raised {rec['exception']}", cls="exception")
            continue
        cases.append((i, rec))
        o.shape(ptree2.shape(rec["t1"]))
    sublist = [(k, {"x": v["x"], "w": v["w"], "t": v["t"]}) for k, v in sorted(subs.items())]
    nb = max(1, (len(cases) + chunk_size - 1) // chunk_size)
    per = (len(sublist) + nb - 1) // nb if sublist else 0
    batches = []
    for b in range(nb):
        batches.append((known, cases[b * chunk_size:(b + 1) * chunk_size], sublist[b * per:(b + 1) * per] if per else []))
    results = pmap(trace_chunk, batches, chunk=1)
    tot = common.TLCResult("", 0, 0.0)
    eligible = 0
    for r in results:
        tot.distinct += r["tlc"][0]
        tot.generated += r["tlc"][1]
        tot.wall = max(tot.wall, r["tlc"][2])
        eligible += r["eligible"]
    o.add_tlc(f"Trace_Unparse x{len(batches)}", tot)
    o.traces += len(cases) + eligible
    o.evaluations += eligible
    o.extra["direct_values_recorded"] = o.extra.get("direct_values_recorded", 0) + len(sublist)
    o.extra["direct_values_self_contained"] = o.extra.get("direct_values_self_contained", 0) + eligible
    for r in results:
        for i, b in r["bad"]:
            label, text = texts[i]
            rec = recs[i]
            which = "first round trip" if not b["e12"] else "second round trip (not a fixed point)"
            got, ref = (rec["t2"], rec["t1"]) if not b["e12"] else (rec["t3"], rec["t2"])
            link = b["links"][0] != b["links"][1] or b["links"][1] != b["links"][2]
            case = {"origin": label, "text": text, "wikitext1": ptree2.concretise(rec["w1"]),
                    "wikitext2": ptree2.concretise(rec["w2"]), "before": ptree2.show(ref), "after": ptree2.show(got),
                    "link_nodes": b["links"]}
            why = f"{which} of {text!r} is not equivalent" + (" (number of LINK nodes changed)" if link else "")
            o.classify(case, why, sorted(b["devs"]), cls=("rt1 " if not b["e12"] else "rt2 ") + label.rsplit("/", 1)[0] + (" LINK-count" if link else ""))
        for i, b in r["drift"]:
            rec = recs[i]
            o.note_drift({"text": texts[i][1], "real": ptree2.concretise(rec["w%d" % b["which"]]),
                          "model": ptree2.concretise(b["model"])})
        for k, b in r["subbad"]:
            s = subs[k]
            case = {"origin": "direct", "value": ptree2.show(s["x"]["list"] if "list" in s["x"] else s["x"]),
                    "wikitext": ptree2.concretise(s["w"]), "after": ptree2.show(s["t"]),
                    "from_document": texts[s["from"]][1]}
            o.classify(case, f"node_to_wikitext of a directly passed value re-parses differently: {ptree2.concretise(s['w'])!r}",
                       sorted(b["devs"]), cls="direct " + ("list" if "list" in s["x"] else s["x"].get("kind", "string")))
        for k, b in r["subdrift"]:
            o.note_drift({"direct": ptree2.concretise(subs[k]["w"]), "model": ptree2.concretise(b["model"])})
    return recs


# ---------------------------------------------------------------------------
EXTRA_DOCS = [
    ("hand:definition", "; t1 : d1\n; t2\n: d2\n"),
    ("hand:nested-definition", "* a1\n*; t1 : d1\n"),
    ("hand:brackets", "x1 [[ y1 ]] z1 [[a1\n"),
    ("hand:brackets-in-call", "{{t|a1 [[ b1}} {{#if:x1|]] y1}}\n"),
    ("hand:nowiki-brackets", "<nowiki>[[a1]]</nowiki> &#91;&#91;b1&#93;&#93;\n"),
    ("hand:caption", "{|\n|+ cap\n|-\n| a1\n|}\n"),
    ("hand:void", "a1<br>b1 <br/> c1\n"),
    ("hand:bare-url", "see http://e.x/p and [http://e.x/p]\n"),
]


def run(tier: str) -> int:
    o = Outcome(PID, tier)
    thorough = tier == "thorough"
    o.rule = ("G: every document of Gen_Unparse (families D1 block context x inline, D2 block in block, D3 block pairs, "
              "D4 inline pairs; depth 3 quick / 4 thorough) in two spellings is one case; V: every distinct sub-tree, string "
              "and child list of the first trees passed directly.  distinct_nontrivial = distinct shapes (kinds, tags, "
              "attribute counts, nesting; texts ignored) of the first parse trees.")
    o.assumptions = [
        "attribute values are URL-safe (to_attrs applies quote_plus)",
        "block boundary = edge of / neighbour of ROOT, section, list, list item, table, caption, row, cell, rule, block-level HTML element",
        "a directly passed value is checked when it is self-contained wikitext (TLC operator Eligible): no bare list item / row / cell, no leading blank",
        "the allowed-tag table as of the pinned tree is written into Unparse.tla (childless elements: '>' vs ' />')",
    ]
    known = sorted(o.known)
    depth = 4 if thorough else 3
    parts = 16 if thorough else 4
    res = pmap(gen_job, [(depth, p, parts) for p in range(parts)], chunk=1)
    tot = common.TLCResult("", 0, 0.0)
    docs = []
    for distinct, generated, wall, cases in res:
        tot.distinct += distinct
        tot.generated += generated
        tot.wall = max(tot.wall, wall)
        docs += cases
    o.add_tlc(f"Gen_Unparse[depth {depth}] laws+documents x{parts}", tot)
    fam = {}
    texts = []
    seen = set()
    for c in docs:
        fam[c["fam"]] = fam.get(c["fam"], 0) + 1
        for style in ("w", "u"):
            t = ptree2.concretise(c[style])
            if t not in seen:
                seen.add(t)
                texts.append((f"G:{c['fam']}/{c['ctx']}/{style}", t))
    texts += EXTRA_DOCS
    o.extra["documents_per_family"] = fam
    # M: the round trip inside the model (twin of the table / HTML / call fragment), with coverage
    with Scratch("c19m-") as d:
        import c03

        tags_file = str(d / "tags.json")
        Path(tags_file).write_text(json.dumps(c03.tag_table()))
        mc = tlc("MC_Unparse", "MC_Unparse_T.cfg" if thorough else "MC_Unparse_Q.cfg", workers=16, timeout=3000,
                 env={"TAGS_FILE": tags_file})
        o.add_tlc("MC_Unparse in-model round trip", mc)
        demo = tlc("MC_Unparse", "Demo_Unparse_asis.cfg", workers=1, check=False, env={"TAGS_FILE": tags_file})
        o.add_tlc("Demo_Unparse_asis (counterexample expected)", demo)
        o.extra["demo_asis_counterexample"] = bool(demo.invariant_violated)
        if not demo.invariant_violated:
            raise common.TLCError("Demo_Unparse_asis lost its counterexample")
    recs = validate(o, texts, known)
    o.exhaustive = True
    # which arms of the transcribed emitter were exercised: node kinds of the serialised trees
    arms = {}

    def count(t):
        if "s" in t:
            return
        arms[t["kind"]] = arms.get(t["kind"], 0) + 1
        for a in t["largs"] + t["defn"] + [t["children"]]:
            for x in a:
                count(x)

    for r in recs.values():
        if "t1" in r:
            count(r["t1"])
    o.extra["action_coverage"] = dict(sorted(arms.items()))
    for i in (0, len(texts) // 3, 2 * len(texts) // 3):
        if i in recs and "w1" in recs[i]:
            o.sample({"document": texts[i][1], "to_wikitext": ptree2.concretise(recs[i]["w1"])})
    return o.finish()


def replay(path: str) -> int:
    v = json.loads(Path(path).read_text())
    c = v["case"]
    o = Outcome(PID, "quick")
    if "text" not in c:
        print(json.dumps(c, indent=1)[:3000])
        return 1
    validate(o, [("replay", c["text"])], [])
    for x in o.violations:
        print("still failing:", x["why"])
        print("before:\n" + x["case"].get("before", ""))
        print("after:\n" + x["case"].get("after", ""))
    if not o.violations:
        print("round trip of", repr(c["text"]), "is now equivalent")
    return 1 if o.violations else 0


def selftest() -> int:
    """An intact recorded round trip is accepted; dropping an attribute, changing a text,
    turning text into a LINK or changing inner whitespace in t2 is rejected; adding blank
    lines at block boundaries is accepted."""
    import copy

    common.use_repo()
    text = "== h1 ==\n{| class=\"a-b\"\n|-\n| id=\"x1\" | ''a1 b1'' [[l|x1]]\n|}\n* a1 [[ b1\n"
    with Scratch("c19s-") as d:
        ctx = ptree2.new_ctx(d)
        (_, rec), = chain_chunk([(0, text)])[0][0]
        ctx.db_conn.close()

    def find(t, kind):
        if "s" in t:
            return None
        if t["kind"] == kind:
            return t
        for x in t["children"]:
            r = find(x, kind)
            if r:
                return r
        return None

    variants = [("intact", rec, False)]
    v = copy.deepcopy(rec)
    find(v["t2"], "TABLE_CELL")["attrs"] = []
    variants.append(("cell attribute dropped in t2", v, True))
    v = copy.deepcopy(rec)
    find(v["t2"], "ITALIC")["children"][0]["s"] = ["a1", "SP", "SP", "b1"]
    variants.append(("inner blank doubled in t2", v, True))
    v = copy.deepcopy(rec)
    it = find(v["t2"], "LIST_ITEM")
    it["children"] = [{"s": ["SP", "a1", "SP"]}, {"kind": "LINK", "sarg": [], "largs": [[{"s": ["b1"]}]], "attrs": [], "children": [], "defn": []}]
    variants.append(("literal [[ became a LINK in t2", v, True))
    v = copy.deepcopy(rec)
    v["t3"]["children"].append({"s": ["NL", "NL"]})
    find(v["t3"], "TABLE_CELL")["children"].insert(0, {"s": ["NL", "SP"]}) if "s" not in find(v["t3"], "TABLE_CELL")["children"][0] else None
    variants.append(("extra blank lines at block boundaries in t3", v, False))
    res = trace_chunk([([], [(i, r) for i, (_, r, _) in enumerate(variants)], [])])[0]
    bad = {i for i, _ in res["bad"]}
    ok = True
    for i, (name, _, expect_bad) in enumerate(variants):
        got = i in bad
        print(f"  {name}: {'rejected' if got else 'accepted'}")
        ok &= got == expect_bad
    return 0 if ok else 1
