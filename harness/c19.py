"""C19 — serialising a parse tree back to wikitext preserves it.

M  spec/Unparse.tla transcribes to_wikitext / to_attrs per node kind and defines
   Equiv (same nodes, arguments, attributes, text up to whitespace at block boundaries).
   MC_Unparse runs the round trip inside the model on the table / HTML / call fragment
   (ParserStruct twin: parse -> Unparse -> parse -> Unparse -> parse); Gen_Unparse checks the
   emitter's laws on every generated document; Demo_Unparse_asis shows that the emitter
   as found breaks the in-model round trip.
G  TLC enumerates the document grammar (Gen_Unparse, depth 3 / 4) and prints each
   document in two spellings (compact hand-written, and TLC's Unparse of the tree).  For
   each text the harness runs the REAL chain parse -> node_to_wikitext -> parse ->
   node_to_wikitext -> parse, dumps the three trees and two texts structurally (ptree2),
   and TLC (Trace_Unparse) decides Equiv(t2, t1), Equiv(t3, t2); the real text against
   TLC's Unparse of the abstract tree is DRIFT only.  Family D7 (block adjacency) carries the
   tree TLC's block reader (Gen_Unparse.ReadEls) gives; Gen_Unparse.Seams runs the reader on the
   emitted text inside the model (ideal emitter round-trips; the what-if that drops the blank
   between two lists merges / re-nests them).
V  every sub-tree, string and child list of the first trees is also handed directly to
   node_to_wikitext (the API accepts nodes, strings and lists); TLC decides which of them
   are self-contained wikitext and whether parse(to_wikitext(x)) is equivalent to x.
"""
from __future__ import annotations

import json
from pathlib import Path

import common
import ptree2
from common import Outcome, Scratch, pmap, tlc

PID = "C19"
ALL_DEVS = ["CaptionContentOnOwnLine", "DefinitionDropped", "NoincludeKeptInCallArguments"]
TRACE_CFG = "SPECIFICATION Spec\nINVARIANT Verdict\nCHECK_DEADLOCK FALSE\n"


def gen_cfg(depth: int, part: int, parts: int) -> str:
    return (f"SPECIFICATION Spec\nCONSTANTS\n  Depth = {depth}\n  Part = {part}\n  Parts = {parts}\n"
            "INVARIANT GenInv\nINVARIANT Laws\nCHECK_DEADLOCK FALSE\n")


# ---------------------------------------------------------------------------
# the real chain
# ---------------------------------------------------------------------------
def sub_values(root):
    """Every node, string child and child list of a real tree (the real objects)."""
    out = []

    def walk_list(xs):
        if xs:
            out.append(list(xs))
        for x in xs:
            walk(x)

    def walk(x):
        out.append(x)
        if isinstance(x, str):
            return
        walk_list(x.children)
        for a in x.largs:
            walk_list(a)
        if x.definition is not None:
            walk_list(x.definition)

    walk_list(root.children)
    return out


def chain(ctx, text, subs, idx):
    """parse -> node_to_wikitext -> parse -> node_to_wikitext -> parse, dumped structurally;
    new directly-passable values of the first tree are added to `subs`."""
    r1 = ptree2.parse(ctx, text)
    w1 = ctx.node_to_wikitext(r1)
    r2 = ptree2.parse(ctx, w1)
    w2 = ctx.node_to_wikitext(r2)
    r3 = ptree2.parse(ctx, w2)
    rec = {"t1": ptree2.node(r1), "w1": ptree2.atoms(w1), "t2": ptree2.node(r2), "w2": ptree2.atoms(w2), "t3": ptree2.node(r3)}
    if subs is not None:
        for x in sub_values(r1):
            ax = ptree2.general(x)
            key = common.json_key(ax)
            if key in subs:
                continue
            w = ctx.node_to_wikitext(x)
            subs[key] = {"x": ax, "w": ptree2.atoms(w), "t": ptree2.node(ptree2.parse(ctx, w)), "from": idx}
    return rec


def trace_batch(known, cases, subs):
    """cases: [(idx, rec)], subs: [(key, rec)] -> verdict lists keyed by idx / key."""
    with Scratch("c19t-") as d:
        tf = d / "batch.json"
        tf.write_text(json.dumps({"known": known, "cases": [c for _, c in cases],
                                  "subs": [{"x": s["x"], "w": s["w"], "t": s["t"]} for _, s in subs]}))
        r = tlc("Trace_Unparse", "t.cfg", cfg_text=TRACE_CFG, workers=1, timeout=3000, env={"TRACE_FILE": str(tf)})
    v = r.tagged("VERDICT")
    if not v or v[0]["cases"] != len(cases) or v[0]["subs"] != len(subs):
        raise common.TLCError("Trace_Unparse did not consume its batch")
    v = v[0]
    return {
        "tlc": (r.distinct, r.generated, r.wall),
        "eligible": v["eligible"],
        "bad": [(cases[b["i"] - 1][0], b) for b in v["bad"]],
        "drift": [(cases[b["i"] - 1][0], b) for b in v["drift"]],
        "subbad": [(subs[b["j"] - 1][0], b) for b in v["subbad"]],
        "subdrift": [(subs[b["j"] - 1][0], b) for b in v["subdrift"]],
        "mdrift": [(cases[b["i"] - 1][0], b) for b in v.get("mdrift", [])],
    }


def describe(diag) -> str:
    """Words for TLC's diagnosis (Trace_Unparse.Diff): where and how the two trees differ."""
    if not diag or not diag.get("what"):
        return ""
    at = "/".join(diag["path"])
    what, was, now, n1, n2, e1 = diag["what"], diag["was"], diag["now"], diag["n1"], diag["n2"], diag["empty1"]
    args = f"{n1} argument lists" + (f" ({e1} of them empty)" if e1 else "") + f" before, {n2} after"
    if what == "kind":
        return f": {was} came back as {now} at {at} ({args})"
    if what == "argument-count":
        return f": the argument lists of {was} at {at} are not preserved ({args})"
    if what in ("child-count", "child-kind"):
        return f": the content of {at} differs ({was or 'nothing'} -> {now or 'nothing'}; {n1} children before, {n2} after)"
    if what == "text":
        return f": a text in {at} differs"
    return f": the {what} of {was} at {at} differ" + (f" ({args})" if n1 or n2 else "")


SEAM_WORDS = {
    "lists-merged": "consecutive lists were MERGED into one (the separator between them was lost)",
    "list-nested": "a list that followed another list came back NESTED inside the last item of that list",
    "list-split": "one list came back as several lists",
    "blocks-changed": "the number of block nodes changed",
}


def seam_words(bd, first=True) -> str:
    """Words for TLC's adjacency diagnosis (Trace_Unparse.ListStats / SeamOf)."""
    st = bd.get("stats")
    if not st or not bd.get("seam"):
        return ""
    a, b = (st[0], st[1]) if first or len(st) < 3 else (st[1], st[2])
    return (f"; {SEAM_WORDS[bd['seam']]}: {a['lists']} LIST nodes ({a['nested']} nested) with {a['items']} items and "
            f"{a['blocks']} block nodes before, {b['lists']} LIST nodes ({b['nested']} nested) with {b['items']} items and "
            f"{b['blocks']} block nodes after")


def outside_drift(summ, bd, text, emitted, first=True):
    """Adjacency family only: the document holds a neighbour kind the statement's grammar does not name
    (preformatted text, magic word) - TLC: Trace_Unparse.OutsideKinds - a difference there is DRIFT."""
    summ["drift"] += 1
    summ["outside"] += 1
    if len(summ["drift_samples"]) < 2:
        summ["drift_samples"].append({"text": text, "real": emitted, "outside_the_grammar":
                                      (describe(bd.get("diag")) + seam_words(bd, first)).lstrip(":; ")})


def soft_drift(summ, diag, text, emitted):
    """A difference at / below a LINK or URL with an empty argument (pipe-trick spelling [[a|]],
    [url ]): the statement's grammar does not clearly contain these forms - DRIFT, decided by TLC."""
    summ["drift"] += 1
    summ["soft"] += 1
    if len(summ["drift_samples"]) < 2:
        summ["drift_samples"].append({"text": text, "real": emitted, "empty_link_argument": describe(diag).lstrip(": ")})


def judge_texts(texts, known, summ, chunk_size=400):
    """texts: [(label, text)].  Real chain for each, TLC verdicts, results added to summ."""
    recs = {}
    subs = {}
    with Scratch("c19-") as d:
        ctx = ptree2.new_ctx(d)
        try:
            for i, (label, text, *model) in enumerate(texts):
                try:
                    recs[i] = chain(ctx, text, subs, i)
                    if model and model[0] is not None:
                        recs[i]["m"] = model[0]     # adjacency family: the tree the generator's block reader gives
                except Exception as e:  # noqa: BLE001
                    summ["exceptions"].append({"origin": label, "text": text, "exception": repr(e)})
        finally:
            ctx.db_conn.close()
    summ["n"] += len(texts)
    cases = sorted(recs.items())
    for _, rec in cases:
        summ["shapes"].add(ptree2.shape(rec["t1"]))
        count_arms(rec["t1"], summ["arms"])
    sublist = sorted(subs.items())
    summ["subs"] += len(sublist)
    # (a last batch of less than a quarter of chunk_size is spread over the others: one JVM less)
    nb = max(1, (len(cases) + chunk_size - 1 - chunk_size // 4) // chunk_size)
    cper = (len(cases) + nb - 1) // nb
    per = (len(sublist) + nb - 1) // nb if sublist else 0
    for b in range(nb):
        r = trace_batch(known, cases[b * cper:(b + 1) * cper], sublist[b * per:(b + 1) * per] if per else [])
        summ["trace"][0] += r["tlc"][0]
        summ["trace"][1] += r["tlc"][1]
        summ["trace"][2] += r["tlc"][2]
        summ["eligible"] += r["eligible"]
        for i, bd in r["bad"]:
            label, text = texts[i][0], texts[i][1]
            rec = recs[i]
            first = not bd["e12"]
            got, ref = (rec["t2"], rec["t1"]) if first else (rec["t3"], rec["t2"])
            link = bd["links"][0] != bd["links"][1] or bd["links"][1] != bd["links"][2]
            diag = bd.get("diag") or {}
            if diag.get("soft") and not bd["devs"]:
                soft_drift(summ, diag, text, ptree2.concretise(rec["w1"] if first else rec["w2"]))
                continue
            if label.startswith("G:D7") and bd.get("outside") and not bd["devs"]:
                outside_drift(summ, bd, text, ptree2.concretise(rec["w1"] if first else rec["w2"]), first)
                continue
            summ["bad"].append({
                "case": {"origin": label, "text": text, "wikitext1": ptree2.concretise(rec["w1"]),
                         "wikitext2": ptree2.concretise(rec["w2"]), "before": ptree2.show(ref), "after": ptree2.show(got),
                         "link_nodes": bd["links"]},
                "why": ("first round trip" if first else "second round trip (not a fixed point)") + f" of {text!r} is not equivalent"
                       + (" (number of LINK nodes changed)" if link else "") + describe(diag) + seam_words(bd, first)
                       + f"; emitted {ptree2.concretise(rec['w1'] if first else rec['w2'])!r}",
                "devs": sorted(bd["devs"]),
                "cls": ("rt1 " if first else "rt2 ") + label.rsplit("/", 1)[0] + (" LINK-count" if link else "")
                       + (f" {diag['what']}:{diag['was']}" if diag.get("what") else "")
                       + (f" {bd['seam']}" if bd.get("seam") else "")})
        for i, bd in r["mdrift"]:
            # adjacency family: the real parser reads the document differently from the generator's block reader
            # (a statement about the parser, not about the round trip): DRIFT
            summ["drift"] += 1
            summ["mdrift"] += 1
            if len(summ["drift_samples"]) < 2:
                summ["drift_samples"].append({"text": texts[i][1], "parsed_differently_from_the_block_reader":
                                              describe(bd.get("diag")).lstrip(": "), "parsed": ptree2.show(recs[i]["t1"]["children"])})
        for i, bd in r["drift"]:
            summ["drift"] += 1
            if len(summ["drift_samples"]) < 2:
                summ["drift_samples"].append({"text": texts[i][1], "real": ptree2.concretise(recs[i]["w%d" % bd["which"]]),
                                              "model": ptree2.concretise(bd["model"])})
        for k, bd in r["subbad"]:
            sv = subs[k]
            diag = bd.get("diag") or {}
            if diag.get("soft") and not bd["devs"]:
                soft_drift(summ, diag, texts[sv["from"]][1], ptree2.concretise(sv["w"]))
                continue
            if texts[sv["from"]][0].startswith("G:D7") and bd.get("outside") and not bd["devs"]:
                outside_drift(summ, bd, texts[sv["from"]][1], ptree2.concretise(sv["w"]))
                continue
            summ["bad"].append({
                "case": {"origin": "direct", "value": ptree2.show(sv["x"]["list"] if "list" in sv["x"] else sv["x"]),
                         "wikitext": ptree2.concretise(sv["w"]), "after": ptree2.show(sv["t"]),
                         "from_document": texts[sv["from"]][1]},
                "why": f"node_to_wikitext of a directly passed value re-parses differently: {ptree2.concretise(sv['w'])!r}" + describe(diag)
                       + seam_words(bd),
                "devs": sorted(bd["devs"]),
                "cls": "direct " + ("list" if "list" in sv["x"] else sv["x"].get("kind", "string"))
                       + (f" {diag['what']}:{diag['was']}" if diag.get("what") else "")
                       + (f" {bd['seam']}" if bd.get("seam") else "")})
        for k, bd in r["subdrift"]:
            summ["drift"] += 1
            if len(summ["drift_samples"]) < 2:
                summ["drift_samples"].append({"direct": ptree2.concretise(subs[k]["w"]), "model": ptree2.concretise(bd["model"])})
    if cases and summ["sample"] is None:
        i, rec = cases[len(cases) // 2]
        summ["sample"] = {"document": texts[i][1], "to_wikitext": ptree2.concretise(rec["w1"])}


def count_arms(t, arms):
    if "s" in t:
        return
    arms[t["kind"]] = arms.get(t["kind"], 0) + 1
    for a in t["largs"] + t["defn"] + [t["children"]]:
        for x in a:
            count_arms(x, arms)


def new_summary():
    return {"n": 0, "gen": [0, 0, 0.0], "trace": [0, 0, 0.0], "fam": {}, "shapes": set(), "arms": {}, "subs": 0, "eligible": 0, "soft": 0,
            "mdrift": 0, "outside": 0, "adj": 0, "seams": None,
            "bad": [], "drift": 0, "drift_samples": [], "exceptions": [], "sample": None}


def pipeline_job(jobs):
    """One worker: TLC enumerates its share of the documents, the real chain runs on each text,
    TLC judges the recorded round trips.  Only a summary travels back."""
    common.use_repo()
    out = []
    for job in jobs:
        summ = new_summary()
        if job[0] == "gen":
            _, depth, part, parts, known = job
            g = tlc("Gen_Unparse", "g.cfg", cfg_text=gen_cfg(depth, part, parts), workers=1, timeout=3000)
            summ["gen"] = [g.distinct, g.generated, g.wall]
            texts = []
            seen = set()
            for c in g.cases:
                summ["fam"][c["fam"]] = summ["fam"].get(c["fam"], 0) + 1
                for style in ("w", "u"):
                    t = ptree2.concretise(c[style])
                    if t not in seen:
                        seen.add(t)
                        texts.append((f"G:{c['fam']}/{c['ctx']}/{style}", t, c.get("m")))
                        summ["adj"] += "m" in c
        elif job[0] == "seams":
            # M, block adjacency: the block reader applied to the emitted text of every list-only document
            # (Gen_Unparse.Seams, one state): the ideal emitter round-trips, the what-if that drops the blank
            # between two lists does not (TLC prints its witness), the one that spares lists does
            r = tlc("Gen_Unparse", "Gen_Unparse_S.cfg", workers=1, timeout=3000)
            summ["seams"] = {"tlc": [r.distinct, r.generated, r.wall], "fail": r.tagged("SEAMFAIL"), "whatif": r.tagged("SEAMWHATIF")}
            out.append(summ)
            continue
        else:
            _, texts, known = job
        judge_texts(texts, known, summ)
        out.append(summ)
    return out


def absorb(o: Outcome, summ):
    o.evaluations += summ["n"] + summ["eligible"]
    o.traces += summ["n"] - len(summ["exceptions"]) + summ["eligible"]
    for sh in summ["shapes"]:
        o.shape(sh)
    for e in summ["exceptions"]:
        o.violation({"origin": e["origin"], "text": e["text"]}, f"round trip of {e['text']!r} raised {e['exception']}", cls="exception")
    for b in summ["bad"]:
        o.classify(b["case"], b["why"], b["devs"], cls=b["cls"])
    o.drift_count += max(0, summ["drift"] - len(summ["drift_samples"]))
    for dsm in summ["drift_samples"]:
        o.note_drift(dsm)


# ---------------------------------------------------------------------------
EXTRA_DOCS = [
    ("hand:definition", "; t1 : d1\n; t2\n: d2\n"),
    ("hand:nested-definition", "* a1\n*; t1 : d1\n"),
    ("hand:brackets", "x1 [[ y1 ]] z1 [[a1\n"),
    ("hand:protected-pair", "a1 [<noinclude/>[b1]<noinclude/>] c1 and ''[<noinclude/>[d1]<noinclude/>]''\n"),
    ("hand:brackets-in-call", "{{t|a1 [[ b1}} {{#if:x1|]] y1}}\n"),
    ("hand:nowiki-brackets", "<nowiki>[[a1]]</nowiki> &#91;&#91;b1&#93;&#93;\n"),
    ("hand:caption", "{|\n|+ cap\n|-\n| a1\n|}\n"),
    ("hand:void", "a1<br>b1 <br/> c1\n"),
    ("hand:bare-url", "see http://e.x/p and [http://e.x/p]\n"),
]


def run(tier: str) -> int:
    o = Outcome(PID, tier)
    thorough = tier == "thorough"
    o.rule = ("G: every document of Gen_Unparse (families D1 block context x inline, D2 block in block, D3 block pairs, "
              "D4 inline pairs, D5 literal brackets across text runs, D6 empty parts: templates / parser functions / magic-word "
              "forms / argument references / links whose arguments are all, partly, first-only, last-only empty or blank, in "
              "every block context, inline wrapper and outer block, D7 adjacency: ordered pairs and triples of block kinds (lists "
              "of every marker kind and depth, list with sub-list, term + definition line, table, heading, rule, paragraph, "
              "preformatted line, div, magic word) x separator (line break only, one / two blank lines, a line of blanks, a comment "
              "line with / without a blank line) at top level, under a heading, in a table cell, in a div, in a list item, with the "
              "tree TLC's block reader gives; depth 3 quick / 4 thorough) in two spellings is one case; "
              "V: every distinct sub-tree, string "
              "and child list of the first trees passed directly.  distinct_nontrivial = distinct shapes (kinds, tags, "
              "attribute counts, nesting; texts ignored) of the first parse trees.")
    o.assumptions = [
        "attribute values are URL-safe (to_attrs applies quote_plus)",
        "block boundary = edge of / neighbour of ROOT, section, list, list item, table, caption, row, cell, rule, block-level HTML element",
        "a directly passed value is checked when it is self-contained wikitext (TLC operator Eligible): no bare list item / row / cell, no leading blank",
        "the allowed-tag table as of the pinned tree is written into Unparse.tla (childless elements: '>' vs ' />')",
        "a difference at or below a LINK / URL that has an EMPTY argument ([[a|]] is the pipe-trick spelling, [url ] an "
        "external link with an empty text) is DRIFT (TLC: Trace_Unparse.Diff.soft); empty arguments of templates, parser "
        "functions and argument references are in the statement (same nodes, same arguments)",
        "adjacency family D7: a document that holds a preformatted line or a magic word (kinds the statement's grammar does "
        "not name; TLC: Trace_Unparse.OutsideKinds) is judged like the others but a difference is DRIFT; that the real parser "
        "reads a D7 document as the tree of TLC's block reader (Gen_Unparse.ReadEls) is DRIFT too (a statement about the parser)",
    ]
    known = sorted(o.known)
    depth = 4 if thorough else 3
    parts = 48 if thorough else 12
    jobs = [("gen", depth, p, parts, known) for p in range(parts)] + [("texts", EXTRA_DOCS, known), ("seams",)]
    # M: the round trip inside the model (twin of the table / HTML / call fragment)
    with Scratch("c19m-") as d:
        import c03

        tags_file = str(d / "tags.json")
        Path(tags_file).write_text(json.dumps(c03.tag_table()))
        mc = tlc("MC_Unparse", "MC_Unparse_T.cfg" if thorough else "MC_Unparse_Q.cfg", workers=4, timeout=3000,
                 env={"TAGS_FILE": tags_file})
        o.add_tlc("MC_Unparse in-model round trip", mc)
        demo = tlc("MC_Unparse", "Demo_Unparse_asis.cfg", workers=1, check=False, env={"TAGS_FILE": tags_file})
        o.add_tlc("Demo_Unparse_asis (counterexample expected)", demo)
        o.extra["demo_asis_counterexample"] = bool(demo.invariant_violated)
        if not demo.invariant_violated:
            raise common.TLCError("Demo_Unparse_asis lost its counterexample")
        # M, empty parts (invariant EmptyParts of the same run, evaluated in one state): the ideal emitter round-trips
        # every call / argument reference / link with empty arguments inside the model; every what-if emitter that
        # takes an empty argument for an absent one does not (TLC prints its witness)
        em = mc
        whatifs = em.tagged("WHATIF")
        if em.tagged("EMPTYFAIL") or len(whatifs) != 3:
            raise common.TLCError("MC_Unparse EmptyParts: the in-model round trip of the empty-part pages failed or a what-if lost its witness")
        o.extra["empty_parts_whatif_witnesses"] = [
            {"what_if": w["dev"], "pages_broken": w["pages"], "text": ptree2.concretise(w["text"]),
             "emitted": ptree2.concretise(w["emitted"])} for w in whatifs]
    res = pmap(pipeline_job, jobs, chunk=1)
    gen = common.TLCResult("", 0, 0.0)
    tr = common.TLCResult("", 0, 0.0)
    fam, arms = {}, {}
    subs = eligible = soft = adj = mdrift = outside = 0
    for summ in res:
        if summ["seams"]:
            sm = summ["seams"]
            wi = {w["dev"]: w for w in sm["whatif"]}
            drop, spare = wi.get("BlankBetweenOwnLineNodesDropped"), wi.get("BlankBetweenOwnLineNodesDroppedExceptLists")
            if sm["fail"] or not drop or not spare or not (drop["merged"] and drop["nested"]) or spare["broken"]:
                raise common.TLCError("Gen_Unparse Seams: the in-model round trip of the list-adjacency documents failed, the what-if "
                                      "that drops the blank between two lists lost its witness, or the one that spares lists breaks something")
            st = common.TLCResult("", 0, 0.0)
            st.distinct, st.generated, st.wall = sm["tlc"]
            o.add_tlc("Gen_Unparse Seams (block reader on the emitted text, in the model)", st)
            o.extra["seam_whatif_witnesses"] = [
                {"what_if": w["dev"], "documents": w["docs"], "broken": w["broken"], "lists_merged": w["merged"], "list_nested": w["nested"],
                 "text": ptree2.concretise(w["text"]), "emitted": ptree2.concretise(w["emitted"])} for w in sm["whatif"]]
            continue
        soft += summ["soft"]
        adj += summ["adj"]
        mdrift += summ["mdrift"]
        outside += summ["outside"]
        gen.distinct += summ["gen"][0]
        gen.generated += summ["gen"][1]
        gen.wall = max(gen.wall, summ["gen"][2])
        tr.distinct += summ["trace"][0]
        tr.generated += summ["trace"][1]
        tr.wall = max(tr.wall, summ["trace"][2])
        for k, v in summ["fam"].items():
            fam[k] = fam.get(k, 0) + v
        for k, v in summ["arms"].items():
            arms[k] = arms.get(k, 0) + v
        subs += summ["subs"]
        eligible += summ["eligible"]
        absorb(o, summ)
        if summ["sample"]:
            o.sample(summ["sample"], cap=4)
    o.add_tlc(f"Gen_Unparse[depth {depth}] laws+documents x{parts}", gen)
    o.add_tlc("Trace_Unparse (all batches)", tr)
    o.extra["documents_per_family"] = fam
    o.extra["direct_values_recorded"] = subs
    o.extra["direct_values_self_contained"] = eligible
    o.extra["empty_link_argument_differences_as_drift"] = soft
    o.extra["adjacency_texts_with_model_tree"] = adj
    o.extra["adjacency_texts_parsed_differently_from_the_block_reader_as_drift"] = mdrift
    o.extra["adjacency_differences_outside_the_grammar_as_drift"] = outside
    # which arms of the transcribed emitter were exercised: node kinds of the serialised trees
    o.extra["action_coverage"] = dict(sorted(arms.items()))
    o.exhaustive = True
    # the repository's own test-suite as a trace source (harness/suitetrace.py)
    import suitetrace
    common.with_engine(o, "suite", lambda: suitetrace.extend(o, tier, PID))
    # node_to_html / node_to_text / node_handler_fn (spec/Render.tla, harness/render.py): DRIFT only
    import render
    common.with_engine(o, "render", lambda: render.extend(o, tier, PID))
    return o.finish()


def replay(path: str) -> int:
    v = json.loads(Path(path).read_text())
    if v.get("case", {}).get("engine") == "suite":
        import suitetrace
        return suitetrace.replay(path)
    if v.get("case", {}).get("engine") == "render":
        import render
        return render.replay(path)
    c = v["case"]
    o = Outcome(PID, "quick")
    o.known = {}
    text = c.get("text") or c.get("from_document")
    summ = new_summary()
    judge_texts([("replay", text)], [], summ)
    absorb(o, summ)
    for x in o.violations:
        print("still failing:", x["why"])
        print("before:\n" + x["case"].get("before", ""))
        print("after:\n" + x["case"].get("after", ""))
    if not o.violations:
        print("round trip of", repr(text), "(and of its directly passed parts) is now equivalent")
    return 1 if o.violations else 0


def selftest() -> int:
    """An intact recorded round trip is accepted; dropping an attribute, changing a text,
    turning text into a LINK or changing inner whitespace in t2 is rejected; adding blank
    lines at block boundaries is accepted.  Empty parts: dropping an empty argument of a parser
    function / template / link or turning the parser function into a template is rejected, with
    TLC's diagnosis (the link one marked soft).  Block adjacency: merging the second of two consecutive lists
    into the first one, or hanging a list into the last item of the list before it, in a recorded t2 is rejected and
    TLC names it (lists-merged / list-nested); more blank lines between the lists are accepted."""
    import copy

    common.use_repo()
    text = "== h1 ==\n{| class=\"a-b\"\n|-\n| id=\"x1\" | ''a1 b1'' [[l|x1]]\n|}\n* a1 [[ b1\n"
    with Scratch("c19s-") as d:
        ctx = ptree2.new_ctx(d)
        rec = chain(ctx, text, None, 0)
        ctx.db_conn.close()

    def find(t, kind):
        if "s" in t:
            return None
        if t["kind"] == kind:
            return t
        for x in t["children"]:
            r = find(x, kind)
            if r:
                return r
        return None

    variants = [("intact", rec, False)]
    v = copy.deepcopy(rec)
    find(v["t2"], "TABLE_CELL")["attrs"] = []
    variants.append(("cell attribute dropped in t2", v, True))
    v = copy.deepcopy(rec)
    find(v["t2"], "ITALIC")["children"][0]["s"] = ["a1", "SP", "SP", "b1"]
    variants.append(("inner blank doubled in t2", v, True))
    v = copy.deepcopy(rec)
    it = find(v["t2"], "LIST_ITEM")
    it["children"] = [{"s": ["SP", "a1", "SP"]}, {"kind": "LINK", "sarg": [], "largs": [[{"s": ["b1"]}]], "attrs": [], "children": [], "defn": []}]
    variants.append(("literal [[ became a LINK in t2", v, True))
    v = copy.deepcopy(rec)
    v["t3"]["children"].append({"s": ["NL", "NL"]})
    find(v["t3"], "TABLE_CELL")["children"].insert(0, {"s": ["NL", "SP"]}) if "s" not in find(v["t3"], "TABLE_CELL")["children"][0] else None
    variants.append(("extra blank lines at block boundaries in t3", v, False))
    # empty parts: an empty argument is an argument
    text2 = "a1 {{#if:|}} {{t||b1}} [[l|]]\n"
    with Scratch("c19s-") as d:
        ctx = ptree2.new_ctx(d)
        rec2 = chain(ctx, text2, None, 0)
        ctx.db_conn.close()

    def find_any(t, kind):
        if "s" in t:
            return None
        if t["kind"] == kind:
            return t
        for xs in [t["children"]] + t["largs"]:
            for x in xs:
                r = find_any(x, kind)
                if r:
                    return r
        return None

    variants.append(("intact, with empty arguments", rec2, False))
    v = copy.deepcopy(rec2)
    find_any(v["t2"], "PARSER_FN")["largs"].pop()
    variants.append(("empty last argument of {{#if:|}} missing in t2", v, True))
    v = copy.deepcopy(rec2)
    find_any(v["t2"], "PARSER_FN")["kind"] = "TEMPLATE"
    variants.append(("{{#if:|}} is a TEMPLATE in t2", v, True))
    v = copy.deepcopy(rec2)
    del find_any(v["t2"], "TEMPLATE")["largs"][1]
    variants.append(("empty first argument of {{t||b1}} missing in t2", v, True))
    v = copy.deepcopy(rec2)
    find_any(v["t2"], "LINK")["largs"].pop()
    variants.append(("empty argument of [[l|]] missing in t2 (rejected, marked soft = DRIFT)", v, True))
    # block adjacency: two lists that follow each other are two lists
    text3 = "* a1\n* a2\n\n* b1\n\n# c1\n\n#: d1\n"
    with Scratch("c19s-") as d:
        ctx = ptree2.new_ctx(d)
        rec3 = chain(ctx, text3, None, 0)
        ctx.db_conn.close()
    expect_seam = {}
    variants.append(("intact, four lists separated by blank lines", rec3, False))
    v = copy.deepcopy(rec3)
    kids = v["t2"]["children"]
    lists = [k for k, x in enumerate(kids) if "kind" in x and x["kind"] == "LIST"]
    ok_shape = len(lists) == 4
    if ok_shape:
        kids[lists[0]]["children"] += kids[lists[1]]["children"]
        del kids[lists[0] + 1:lists[1] + 1]
    variants.append(("second list merged into the first one in t2", v, True))
    expect_seam[variants[-1][0]] = "lists-merged"
    v = copy.deepcopy(rec3)
    kids = v["t2"]["children"]
    if ok_shape:
        kids[lists[2]]["children"][-1]["children"].append(kids[lists[3]])
        del kids[lists[2] + 1:lists[3] + 1]
    variants.append(("list #: hung into the last item of the list # before it in t2", v, True))
    expect_seam[variants[-1][0]] = "list-nested"
    v = copy.deepcopy(rec3)
    if ok_shape:
        v["t2"]["children"][lists[0] + 1]["s"] = ["NL", "NL", "NL"]
    variants.append(("more blank lines between two lists in t2", v, False))
    res = trace_batch([], [(i, r) for i, (_, r, _) in enumerate(variants)], [])
    bad = {i: b for i, b in res["bad"]}
    ok = True
    for i, (name, _, expect_bad) in enumerate(variants):
        got = i in bad
        print(f"  {name}: {'rejected' if got else 'accepted'}" + (describe(bad[i].get("diag")) + seam_words(bad[i]) if got else ""))
        ok &= got == expect_bad
        if got:
            ok &= bad[i].get("seam", "") == expect_seam.get(name, "")
        if got and "soft" in name:
            ok &= bad[i]["diag"]["soft"] is True
        elif got:
            ok &= bad[i]["diag"]["soft"] is False and bad[i]["diag"]["what"] != ""
    return 0 if ok and ok_shape else 1
