"""C05 part (b) — every parser function is total on its arguments.

`run_b(o, tier)` adds to an existing Outcome (it never calls o.finish()).

M  MC_Expr (soups): every evaluation of the #expr model — tokeniser classes,
   the whole generic_binary ladder with every error return, the abstract
   arithmetic with division by zero / domain / overflow as explicit outcomes —
   ends in a value or an in-band error, and agrees with the documented
   operator-precedence evaluation.  MC_ParserFns: every call of the dispatch
   model ends in-band.  Demo_*: with the as-is behaviours on, TLC finds the
   escaping exception.
G  Gen_Expr soups: all #expr token sequences up to 3 (quick) / 4 (thorough)
   tokens with the predicted class; Gen_Expr trees (operator pairs over literals
   including 0): both through the real Wtp.expand.  Gen_ParserFns: every key of
   PARSER_FUNCTIONS (read from the working tree) plus unknown names x argument
   vectors x page-title classes, network helpers stubbed to "no result".
   An exception escaping expand() is the violation; a different in-band class
   than predicted is drift.
   Gen_ParserFns_sites: the LANGUAGE CONFIGURATION as a dimension.  The namespace
   tables the contexts of the working tree hold (quick: en, fr, one more chosen by
   the seed, and one with namespaces of attested irregular kinds added; thorough:
   every shipped table) are handed to TLC; ParserFns.tla derives the structure of
   each table (negative ids, subject namespaces without talk namespace, talk
   namespaces without subject, talk keys that are not "<key> talk", local names,
   aliases), enumerates name x namespace of THAT table x spelling (key / local name
   / alias / lower case / no prefix / unknown prefix) x position (page title / first
   argument as title / as id / as bare name), and prints the page title, the
   argument, the predicted class and - beyond the statement - the documented value
   of the namespace magic words.  An exception escaping expand() is the violation;
   another value than documented is drift.
"""
from __future__ import annotations

import json
import random
import threading
from collections import Counter
from pathlib import Path

import common
import pfcommon
from common import Outcome, Scratch, pmap
from pfcommon import tlc

PID = "C05"

ATOM_TEXT = {
    "EMPTY": "", "BLANK": " ", "WORD": "abc", "NEG": "-3", "ZERO": "0", "ONE": "1", "SEVEN": "7",
    "HUGE": "9" * 20, "FRAC": "1.5", "PLUS": "+", "STAR": "*", "LPAR": "(", "EXPEMPTY": "{{#if:||}}",
    "TALK": "Talk:x", "DOTS": "a/b/../../../c", "EPOCH": "@99999999999999999999", "BADDATE": "2020-13-45",
    "LT": "<", "KV": "x=y", "HASH": "#", "UP": "../x", "PCT": "%zz", "E": "e",
    "SUP": "\u00b2", "ARDIG": "\u0663",
    "TS14BAD": "20230230120000", "TS14YR1": "00010101000000", "ATEXP": "@1e30", "DIGITS": "9" * 5000,
    "DEEP": "(" * 200 + "1" + ")" * 200,
    "WORDS": "a b c d", "TWO": "2", "THREE": "3", "NEG1": "-1",
    "NUL": "a\x00b", "CTRL": "\x1f\x7f\x01", "NLIN": "a\nb", "LONGW": "w" * 5000,
}
TITLE_TEXT = {"plain": "Test", "talk": "Talk:x", "nstalk": "Template talk:a/b", "user": "User:foo/bar"}
UNKNOWN_NAMES = ["#nosuchfunction", "#foo bar"]
SKIP = set()            # (#invoke: only the calls that stop before the Lua sandbox, chosen by the model: fewer than 2 arguments)
TLC_UTF8 = {"JAVA_TOOL_OPTIONS": "-Dfile.encoding=UTF-8 -Dstdout.encoding=UTF-8 -Dsun.stdout.encoding=UTF-8"}
SITE_QUICK = ["en", "fr"]          # + one more chosen by the seed, + one with added namespaces
DEV_OF_EXC = {"ValueError": "IntegerStringConversionLimit", "KeyError": "TalkNamespaceLookup", "IndexError": "Rel2absNeedsArgument",
              "OverflowError": "PadCountUnbounded", "ZeroDivisionError": "PadEmptyPaddingDivides"}


def deviation_of(case):
    if case["name"] == "#invoke" and case["asis"]["via"] == "IndexError":
        return "InvokeNeedsModuleName"
    return DEV_OF_EXC.get(case["asis"]["via"], case["asis"]["via"])


def soup_text(toks):
    return "{{#expr:" + pfcommon.render(toks, "spaced") + "}}"


def _eval_soups(cases):
    out = []
    with pfcommon.Ctx() as c:
        for case in cases:
            k, o_ = c.run(soup_text(case["toks"]))
            a = pfcommon.abstract_expr_output(k, o_)
            out.append((a["kind"], a["txt"]))
    return out


def _eval_tree_min(cases):
    out = []
    with pfcommon.Ctx() as c:
        for case in cases:
            k, o_ = c.run(soup_text(case["min"]))
            a = pfcommon.abstract_expr_output(k, o_)
            out.append((a["kind"], a["txt"]))
    return out


def stub_network():
    """The network helpers answer "nothing found" (cf. tests/test_parserfns.py, which
    patches wikitextprocessor.wikidata.query_wikidata).  Returns the function that
    creates the interwiki table of a context (or a no-op if the tree has none)."""
    common.use_repo()
    try:
        import wikitextprocessor.wikidata as wd

        wd.query_wikidata = lambda wtp, query: {}
    except Exception:
        pass
    try:
        import wikitextprocessor.interwiki as iw

        iw.get_interwiki_data = lambda wtp: []
        return getattr(iw, "init_interwiki_map", lambda wtp: None)
    except Exception:
        return lambda wtp: None


def call_text(name, argv):
    return "{{" + name + (":" + "|".join(ATOM_TEXT[a] for a in argv) if argv else "") + "}}"


def _eval_calls(jobs):
    """jobs: list of (title class, [cases])"""
    init_map = stub_network()
    out = []
    for title, cases in jobs:
        res = []
        with pfcommon.Ctx(title=TITLE_TEXT[title]) as c:
            init_map(c.wtp)
            for case in cases:
                k, o_ = c.run(call_text(case["name"], case["argv"]))
                res.append((k, o_[:200], len(c.wtp.errors)))
                if len(c.wtp.errors) > 200:
                    c.wtp.start_page(TITLE_TEXT[title])
        out.append(res)
    return out


def explain_expr(viol):
    """Which of the violating (tokens, observation) pairs does the as-is model
    (Trace_Expr with the as-is deviations on) reproduce?  -> set of indexes"""
    if not viol:
        return set()
    evs = [{"toks": list(t), "obs": {"kind": "exc", "n": 0, "d": 1, "close": False}} for t, _ in viol]
    with Scratch("c05e-") as d:
        tf = d / "trace.json"
        tf.write_text(json.dumps({"events": evs}))
        r = tlc("Trace_Expr", "Trace_Expr_asis.cfg", workers=1, env={"TRACE_FILE": str(tf)}, timeout=3000)
    v = r.tagged("VERDICT")[0]
    notok = {b["i"] - 1 for b in v["bad"]} | {b["i"] - 1 for b in v["excerr"]}
    return set(range(len(viol))) - notok



# --------------------------------------------------------------------------
# the language configuration as a dimension (Gen_ParserFns_sites)
# --------------------------------------------------------------------------

def languages():
    common.use_repo()
    import wikitextprocessor

    d = Path(wikitextprocessor.__file__).parent / "data"
    return sorted(p.name for p in d.iterdir() if (p / "namespaces.json").is_file())


ADDED_NS = {
    # attested in a shipped table (Flow's Topic, id 2600, of the French table): a subject namespace without talk namespace
    "Topic": {"id": 2600, "name": "Topic", "subpages": False, "content": False, "aliases": [], "issubject": True, "istalk": False},
    # a local name with blanks and an alias, again without talk namespace
    "Gadget definition": {"id": 2302, "name": "Gadget definition", "subpages": False, "content": False, "aliases": ["GD"], "issubject": True,
                          "istalk": False},
    # not attested: a talk namespace whose subject is missing (escapes on it are reported as drift)
    "Orphan talk": {"id": 3001, "name": "Orphan talk", "subpages": False, "content": False, "aliases": [], "issubject": False, "istalk": True},
}


def _tables(langs):
    """The namespace table the context of the working tree holds for each language."""
    common.use_repo()
    out = []
    for lang in langs:
        with pfcommon.Ctx(lang_code=lang) as c:
            out.append(json.loads(json.dumps(c.wtp.NAMESPACE_DATA)))
    return out


def site_of(lang, table, syn=False, wide=True):
    return {"lang": lang, "syn": syn, "wide": wide, "table": table,
            "ns": [{"key": k, "id": v["id"], "name": v["name"], "aliases": list(v.get("aliases", [])), "istalk": bool(v.get("istalk", False)),
                    "lower": k.lower()} for k, v in table.items()]}


def site_plan(tier):
    langs = languages()
    rng = random.Random(common.seed() * 7919 + 505)
    main = [l for l in SITE_QUICK if l in langs]
    rest = [l for l in langs if l not in main]
    if rest:
        main.append(rng.choice(rest))
    wanted = main if tier != "thorough" else main + [l for l in langs if l not in main]
    tables = dict(zip(wanted, pmap(_tables, wanted)))
    sites = [site_of(l, tables[l]) for l in main]
    # a shipped table with namespaces of the irregular kinds added (the base: the language chosen by the seed)
    base = main[-1]
    ids = {v["id"] for v in tables[base].values()}
    added = {k: v for k, v in ADDED_NS.items() if k not in tables[base] and not ({v["id"], v["id"] + (-1 if v["istalk"] else 1)} & ids)}
    if added:
        sites.append(site_of(base, {**tables[base], **added}, syn=True))
    groups = {}
    for l in wanted:
        if l not in main:
            groups.setdefault(json.dumps(tables[l], sort_keys=True), []).append(l)
    same = {}
    for ls in groups.values():          # identical tables are run once
        sites.append(site_of(ls[0], tables[ls[0]], wide=False))
        if len(ls) > 1:
            same[ls[0]] = ls[1:]
    return sites, same


def _norm_prefix(out, prefixes):
    low = out
    for p_ in prefixes:
        for v in (p_, p_.lower(), p_.upper(), p_.replace(" ", "_"), p_.replace(" ", "%20")):
            low = low.replace(v, "@")
    return low


def probe_ns_dependent(names):
    """Names of the working tree whose output treats a namespace prefix of the table differently from an
    unknown prefix (as page title or as first argument).  Widens NsFns of the model; no verdict."""
    found = set()
    stub_network()
    for lang in SITE_QUICK:
        try:
            c = pfcommon.Ctx(lang_code=lang)
        except Exception:  # noqa: BLE001
            continue
        with c:
            keys = [k for k in ("Talk", "Template", "Special", "Project") if k in c.wtp.NAMESPACE_DATA]
            prefixes = ["Xyzzy", "Qwert"] + keys + [c.wtp.NAMESPACE_DATA[k]["name"] for k in keys]
            obs = {}
            for pfx in ["Xyzzy", "Qwert"] + keys:
                c.title = pfx + ":Abc/def"
                c.wtp.start_page(c.title)
                for n in names:
                    obs[(n, "title", pfx)] = _norm_prefix("|".join(c.run("{{" + n + "}}")), prefixes)
            c.title = "Abc/def"
            c.wtp.start_page(c.title)
            for pfx in ["Xyzzy", "Qwert"] + keys:
                for n in names:
                    obs[(n, "arg", pfx)] = _norm_prefix("|".join(c.run("{{" + n + ":" + pfx + ":Abc/def}}")), prefixes)
            for n in names:
                if n == "#invoke":
                    continue
                for pos in ("title", "arg"):
                    if obs[(n, pos, "Qwert")] != obs[(n, pos, "Xyzzy")]:
                        continue      # differs between two unknown prefixes already (length, clock): no evidence
                    if any(obs[(n, pos, k)] != obs[(n, pos, "Xyzzy")] for k in keys):
                        found.add(n)
    return sorted(found)


class BgTLC(threading.Thread):
    """One TLC run beside the rest of part (b)."""

    def __init__(self, module, cfg, part=None, **kw):
        super().__init__(daemon=True)
        self.module, self.cfg, self.part, self.kw = module, cfg, part, kw
        self.res = self.err = None

    def run(self):
        try:
            self.res = tlc(self.module, self.cfg, **self.kw)
        except BaseException as e:  # noqa: BLE001  (re-raised by the main thread)
            self.err = e

    def result(self):
        self.join()
        if self.err is not None:
            raise self.err
        return self.res


def site_call_text(case):
    return "{{" + case["name"] + (":" + case["arg"] if case["hasarg"] else "") + "}}"


def _eval_site_calls(jobs):
    """jobs: list of (site, [cases]); the cases of a job are sorted by page title"""
    import os

    init_map = stub_network()
    out = []
    for site, cases in jobs:
        res = []
        with pfcommon.Ctx(lang_code=site["lang"]) as c:
            if site["syn"]:       # the table with the added namespaces, installed the way the context reads its own
                folder = c.dir / "data"
                folder.mkdir()
                (folder / "namespaces.json").write_text(json.dumps(site["table"]), encoding="utf-8")
                c.wtp.data_folder = folder
                c.wtp.init_namespace_data()
            init_map(c.wtp)
            for case in cases:
                if case["title"] != c.title:
                    c.title = case["title"]
                    c.wtp.start_page(c.title)
                k, o_ = c.run(site_call_text(case))
                res.append((k, o_[:200]))
                if len(c.wtp.errors) > 200:
                    c.wtp.start_page(c.title)
        out.append(res)
    return out


def judge_sites(o: Outcome, sites, same, r):
    cases = r.cases
    if len(cases) < 1000:
        raise common.TLCError("Gen_ParserFns_sites: too few cases")
    by = {}
    for c in cases:
        by.setdefault(c["site"], []).append(c)
    jobs = []
    for si, cs in sorted(by.items()):
        cs.sort(key=lambda c: c["title"])
        site = sites[si - 1]
        step = 1500
        for i in range(0, len(cs), step):
            jobs.append((site, cs[i:i + step]))
    res = pmap(_eval_site_calls, jobs, chunk=1)
    vdrift = Counter()
    vsamples = 0
    excs_unattested = Counter()
    structural = set()
    for (site, cs), rs in zip(jobs, res):
        for c, (k, txt) in zip(cs, rs):
            o.evaluations += 1
            o.shape(("site-call", c["name"], site["lang"], site["syn"], c["j"], c["form"], c["pos"]))
            if c["structural"]:
                structural.add((site["lang"], site["syn"], c["key"]))
            wt = site_call_text(c)
            where = (f"a context configured for language {site['lang']!r}" + (" with added namespaces" if site["syn"] else "")
                     + (f" (and the {len(same[site['lang']])} languages with the same table)" if site["lang"] in same and not site["syn"] else ""))
            what = (f"namespace {c['key']!r} (id {c['id']}" + ("; " + "; ".join(sorted(c["facts"])) if c["facts"] else "") + f") spelled as {c['form']}"
                    if c["j"] else ("no namespace prefix" if c["form"] == "bare" else "a prefix that is not in the namespace table"))
            if k == "exc":
                rec = {"kind": "b-site-call", "name": c["name"], "lang": site["lang"], "added_namespaces": site["syn"], "namespace": c["key"],
                       "namespace_id": c["id"], "form": c["form"], "position": c["pos"], "title": c["title"], "wikitext": wt, "observed": txt}
                why = (f"{wt} on page {c['title']!r} in {where} raised {txt} - {what}, used as "
                       f"{'the page title' if c['pos'] == 'title' else 'the first argument'} (specification: every parser function answers in-band "
                       "whatever the namespace table of the configured language holds around the namespace)")
                cls = f"b-site-{c['name']}-{txt.split(':')[0]}"
                if not c["attested"]:
                    excs_unattested[c["name"] + ": " + txt.split(":")[0]] += 1
                    o.note_drift({"call": wt, "title": c["title"], "lang": site["lang"], "raised": txt,
                                  "note": "a namespace kind that no shipped table has (talk namespace without subject)"})
                elif c["asis"]["kind"] == "exc" and txt.split(":")[0] == c["asis"]["via"]:   # the exception the as-is model predicts
                    o.classify(rec, why, [deviation_of(c)], cls=cls)
                else:
                    o.violation(rec, why, cls=cls)
            elif c["val"]["k"] == "text" and txt != c["val"]["txt"][:200]:
                vdrift[f"{c['name']} / {c['form']} / {c['pos']}"] += 1
                if vsamples < 40:
                    vsamples += 1
                    o.note_drift({"call": wt, "title": c["title"], "lang": site["lang"], "documented": c["val"]["txt"], "code": txt[:80]})
    o.extra.setdefault("site_tables", []).append({
        "languages": [s_["lang"] + ("+added" if s_["syn"] else "") for s_ in sites if s_["wide"]] + ([f"... and {sum(1 for s_ in sites if not s_['wide'])} distinct other tables"] if any(not s_["wide"] for s_ in sites) else []),
        "identical_tables_run_once": {k: len(v) for k, v in same.items()},
        "cases": len(cases),
        "namespaces_with_irregular_structure": len(structural),
        "irregular": sorted(f"{l}{'+' if sy else ''}:{k}" for l, sy, k in structural)[:60],
        "value_differs_from_documented": dict(vdrift.most_common(40)),
        "exceptions_on_unattested_namespace_kinds": dict(excs_unattested),
    })
    c = cases[len(cases) // 2]
    o.sample({"call": site_call_text(c), "title": c["title"], "lang": c["lang"], "predicted": c["exp"], "documented_value": c["val"]})


def run_b(o: Outcome, tier: str) -> None:
    with Scratch("c05n-") as nd:
        _run_b(o, tier, nd)


def known_names(o: Outcome):
    common.use_repo()
    try:
        from wikitextprocessor.parserfns import PARSER_FUNCTIONS

        return sorted(k for k in PARSER_FUNCTIONS if k not in SKIP)
    except ImportError:      # the table moved: fall back to a fixed list, and say so
        o.note_drift({"note": "PARSER_FUNCTIONS not importable from wikitextprocessor.parserfns; a fixed list of names is used"})
        return sorted(["#expr", "#ifexpr", "#if", "#switch", "#time", "#titleparts", "#rel2abs", "#pad", "padleft", "padright",
                       "TALKPAGENAME", "TALKSPACE", "PAGENAME", "formatnum", "plural", "lc", "#len", "#sub", "ns", "fullurl"])


def _run_b(o: Outcome, tier: str, nd: Path) -> None:
    import time

    thorough = tier == "thorough"
    t0 = time.time()
    stages = o.extra.setdefault("part_b_stage_seconds", {})

    def stage(name):
        stages[name] = round(time.time() - t0, 1)
    # ---------------- the language configurations: tables of the working tree -> TLC (runs beside the rest)
    known = known_names(o)
    sites, same = site_plan(tier)
    nsfns = probe_ns_dependent(known)
    wide = [s_ for s_ in sites if s_["wide"]]
    light = [s_ for s_ in sites if not s_["wide"]]
    nparts = 6
    parts = [wide] + [light[i::nparts] for i in range(nparts) if light[i::nparts]]
    site_runs = []
    for i, part in enumerate(parts):
        nf = nd / f"names{i}.json"
        nf.write_text(json.dumps({"known": known, "names": known + UNKNOWN_NAMES, "nsfns": nsfns,
                                  "sites": [{k: v for k, v in s_.items() if k != "table"} for s_ in part]}), encoding="utf-8")
        t = BgTLC("Gen_ParserFns", "Gen_ParserFns_sites.cfg", part=part, workers=1, timeout=3000, env={"NAMES_FILE": str(nf), **TLC_UTF8})
        t.start()
        site_runs.append(t)
    mc_sites = BgTLC("MC_ParserFns", "MC_ParserFns_sites.cfg", workers=2, timeout=3000, coverage=True)
    mc_sites.start()
    demo_sites = BgTLC("MC_ParserFns", "Demo_ParserFns_sites_asis.cfg", workers=2, check=False)
    demo_sites.start()
    stage("site tables read, probe done, site generator started")
    o.rule = (o.rule + " | " if o.rule else "") + (
        "(b) every #expr token sequence up to the bound over the token alphabet is one case (distinct by token sequence; "
        "non-trivial when the model does not predict a plain syntax error); every (parser function name, argument vector, "
        "page-title class) is one case (distinct by name x vector x title); every (name, language configuration, namespace of its "
        "table, spelling, position) is one case."
    )
    o.assumptions += [
        "(b) #invoke is exercised only with fewer than two arguments (with more it enters the Lua sandbox: C06-C09); the network helpers wikidata.query_wikidata and "
        "interwiki.get_interwiki_data are stubbed to an empty result in the harness process",
        "(b) a MemoryError/RecursionError-free run is assumed; only exceptions escaping Wtp.expand() are counted",
    ]
    # ---------------- M
    r = tlc("MC_Expr", "MC_Expr_soup_T.cfg" if thorough else "MC_Expr_soup.cfg", workers=16, timeout=3000)
    o.add_tlc("MC_Expr_soup(total, matches documented evaluation)", r)
    r = tlc("MC_Expr", "Demo_Expr_soup_asis.cfg", workers=4, check=False)
    o.extra["demo_expr_no_barrier_reaches_exception"] = bool(r.invariant_violated)
    if not r.invariant_violated:
        raise common.TLCError("Demo_Expr_soup_asis no longer reaches an escaping exception (vacuity guard)")
    r = tlc("MC_ParserFns", "MC_ParserFns.cfg", workers=8, timeout=3000, coverage=True)
    o.add_tlc("MC_ParserFns", r)
    o.extra.setdefault("action_coverage", {}).update({"ParserFns:" + k: v[1] for k, v in r.coverage_actions().items()})
    r = tlc("MC_ParserFns", "Demo_ParserFns_asis.cfg", workers=4, check=False)
    o.extra["demo_dispatch_asis_reaches_exception"] = bool(r.invariant_violated)
    if not r.invariant_violated:
        raise common.TLCError("Demo_ParserFns_asis no longer reaches an escaping exception (vacuity guard)")
    r = mc_sites.result()
    o.add_tlc("MC_ParserFns_sites(every call in-band on every table; talk/subject partner well defined)", r)
    o.extra.setdefault("action_coverage", {}).update({"ParserFns:" + k: v[1] for k, v in r.coverage_actions().items()})
    r = demo_sites.result()
    o.extra["demo_dispatch_sites_asis_reaches_exception"] = bool(r.invariant_violated)
    if not r.invariant_violated:
        raise common.TLCError("Demo_ParserFns_sites_asis no longer reaches an escaping exception (vacuity guard)")

    stage("M done")
    # ---------------- G: #expr token soups
    r = tlc("Gen_Expr", "Gen_Expr_soup_T.cfg" if thorough else "Gen_Expr_soup_Q.cfg", workers=16, timeout=3000)
    o.add_tlc("Gen_Expr_soup", r)
    cases = r.cases
    if len(cases) < 1000:
        raise common.TLCError("Gen_Expr soups: too few cases")
    res = pmap(_eval_soups, cases)
    viol = []
    cls_pred = Counter()
    drift = Counter()
    for case, (k, txt) in zip(cases, res):
        o.evaluations += 1
        e = case["exp"]
        cls_pred[e["kind"] + ":" + e["what"]] += 1
        if not (e["kind"] == "err" and e["what"] == "syntax"):
            o.shape(("soup", tuple(case["toks"])))
        if k == "exc":
            viol.append((case["toks"], txt))
        elif k != e["kind"]:
            drift[f"model {e['kind']}{':' + e['what'] if e['what'] else ''} / code {k}"] += 1
            o.note_drift({"expr": " ".join(case["toks"]), "model": e["kind"] + " " + e["what"], "code": txt[:80]})
    o.extra.setdefault("action_coverage", {}).update({"Expr:predicted " + k: v for k, v in cls_pred.items()})
    o.extra["expr_soup_drift_classes"] = dict(drift)
    o.sample({"expr_tokens": cases[len(cases) // 2]["toks"], "predicted": cases[len(cases) // 2]["exp"]["kind"]})

    # ---------------- G: operator pairs over literals incl. 0 (e.g. 1/0/1)
    r = tlc("Gen_Expr", "Gen_Expr_trees_T.cfg" if thorough else "Gen_Expr_trees_Q.cfg", workers=16, timeout=3000)
    o.add_tlc("Gen_Expr_trees", r)
    tcases = r.cases
    tres = pmap(_eval_tree_min, tcases)
    for case, (k, txt) in zip(tcases, tres):
        o.evaluations += 1
        if case["exp"]["kind"] == "err":
            o.shape(("tree-err", tuple(case["min"])))
        if k == "exc":
            viol.append((case["min"], txt))
    explained = explain_expr(viol)
    o.extra["expr_exceptions"] = {"n": len(viol), "reproduced_by_the_as_is_model": len(explained),
                                  "by_type": dict(Counter(t.split(":")[0] for _, t in viol))}
    for i, (toks, txt) in enumerate(viol):
        rec = {"kind": "b-expr", "toks": list(toks), "wikitext": soup_text(toks), "title": "Test", "observed": txt}
        why = f"{{{{#expr: {' '.join(pfcommon.conc_tok(t)[:24] for t in toks)}}}}} raised {txt}"
        cls = "b-expr-" + txt.split(":")[0]
        if i in explained:
            o.classify(rec, why, ["ExprEIntegerLoopUnbounded" if txt.startswith("Timeout") else "ExprNoExceptionBarrier"], cls=cls)
        else:
            o.violation(rec, why + " (the as-is model does not predict this one)", cls=cls)

    stage("#expr done")
    # ---------------- G: every parser function x argument vectors x titles
    r = tlc("Gen_ParserFns", "Gen_ParserFns.cfg", workers=8, timeout=3000, env={"NAMES_FILE": str(nd / "names0.json"), **TLC_UTF8})
    o.add_tlc("Gen_ParserFns", r)
    pcases = r.cases
    if len(pcases) < len(known) * 50:
        raise common.TLCError("Gen_ParserFns: too few cases")
    jobs = []
    by = {}
    for c in pcases:
        by.setdefault((c["title"], c["name"]), []).append(c)
    for (title, name), cs in sorted(by.items()):
        jobs.append((title, cs))
    res = pmap(_eval_calls, jobs, chunk=max(1, len(jobs) // 64))
    nvec = len({tuple(c["argv"]) for c in pcases})
    o.extra["parser_functions"] = {"names": len(known), "unknown_names": len(UNKNOWN_NAMES), "argument_vectors": nvec,
                                   "title_classes": len(TITLE_TEXT)}
    pdrift = Counter()
    for (title, cs), rs in zip(jobs, res):
        for c, (k, txt, nerr) in zip(cs, rs):
            o.evaluations += 1
            o.shape(("call", c["name"], tuple(c["argv"]), title))
            wt = call_text(c["name"], c["argv"])
            if k == "exc":
                rec = {"kind": "b-call", "name": c["name"], "argv": c["argv"], "title": TITLE_TEXT[title], "wikitext": wt,
                       "observed": txt}
                why = f"{wt} on page {TITLE_TEXT[title]!r} raised {txt}"
                if c["asis"]["kind"] == "exc" and (c["asis"]["via"] != "ValueError" or "4300 digits" in txt):
                    o.classify(rec, why, [deviation_of(c)], cls=f"b-call-{c['name']}-{txt.split(':')[0]}")
                else:
                    o.violation(rec, why + " (not predicted by the as-is model)", cls=f"b-call-{c['name']}-{txt.split(':')[0]}")
            elif c["asis"]["kind"] == "exc":
                pdrift[c["name"]] += 1      # the as-is model predicted an escape that did not happen (fixed tree)
            elif c["exp"]["via"] == "error" and not ("error" in txt.lower()):
                pdrift[c["name"] + ": value where an error string is predicted"] += 1
    # the same conversion outside call_parser_function: numeric argument names
    with pfcommon.Ctx() as cx:
        for wt in ("{{t|" + ATOM_TEXT["DIGITS"] + "=x}}", "{{{" + ATOM_TEXT["DIGITS"] + "}}}", "{{t|" + ATOM_TEXT["SUP"] + "=x}}", "{{{" + ATOM_TEXT["ARDIG"] + "|d}}}"):
            k, txt = cx.run(wt)[:2]
            o.evaluations += 1
            if k == "exc":
                rec = {"kind": "b-call", "name": "argument name", "argv": [], "title": "Test", "wikitext": wt[:60] + ("..." if len(wt) > 60 else ""), "observed": txt}
                why = f"{wt[:40]}... raised {txt}"
                if "4300 digits" in txt:
                    o.classify(rec, why, ["IntegerStringConversionLimit"], cls="b-argname-ValueError")
                else:
                    o.violation(rec, why, cls="b-argname")
    o.extra["dispatch_notes"] = dict(pdrift)
    stage("calls done")
    # ---------------- G: name x namespace of the table x spelling x position, per language configuration
    o.extra["ns_dependent_names"] = {"probe_of_the_working_tree": nsfns}
    for i, t in enumerate(site_runs):
        r = t.result()
        o.add_tlc("Gen_ParserFns_sites" + (f"[{i}]" if len(site_runs) > 1 else ""), r)
        judge_sites(o, t.part, same, r)
        t.res = r = None      # (thorough: several hundred thousand cases per run)
    stage("sites done")
    c = pcases[len(pcases) // 2]
    o.sample({"call": call_text(c["name"], c["argv"]), "title": TITLE_TEXT[c["title"]], "predicted": c["exp"]})


def replay_b(case: dict) -> int:
    stub_network()
    with pfcommon.Ctx(title=case.get("title", "Test")) as c:
        k, out = c.run(case["wikitext"])
    print(f"re-executed on the working tree: {case['wikitext'][:200]!r} on page {case.get('title', 'Test')!r} -> {k}: {out[:300]!r}")
    return 1


# ---- stand-alone use (./check C05b ...): evidence goes to evidence/C05b.json ----
def run(tier: str) -> int:
    o = Outcome("C05b", tier)
    o.known = common.known_for("C05")
    import c18
    c18.extra_known(o, "C05")
    run_b(o, tier)
    o.exhaustive = True
    return o.finish()


def replay(path: str) -> int:
    v = json.loads(Path(path).read_text())
    print("why:", v["why"])
    return replay_b(v["case"])


def selftest() -> int:
    """A call that raises must be flagged by the judging code; one that does not, must not."""
    stub_network()
    with pfcommon.Ctx() as c:
        good = c.run("{{#expr: 1/0}}")
        exprs = [["exp", "5000"], ["1", "+", "2"]]
        got = [c.run(soup_text(t)) for t in exprs]
    print("1/0 ->", good, "; exp 5000 ->", got[0], "; 1+2 ->", got[1])
    ok = good[0] == "ok" and got[1] == ("ok", "3")
    # the as-is model must reproduce an exception for exp 5000 and not for 1+2
    ex = explain_expr([(t, "x") for t in exprs])
    print("as-is model predicts an escaping exception for:", [exprs[i] for i in sorted(ex)])
    ok &= ex == {0}
    print("selftest", "passed" if ok else "FAILED")
    return 0 if ok else 1
