"""C05 part (b) — every parser function is total on its arguments.

`run_b(o, tier)` adds to an existing Outcome (it never calls o.finish()).

M  MC_Expr (soups): every evaluation of the #expr model — tokeniser classes,
   the whole generic_binary ladder with every error return, the abstract
   arithmetic with division by zero / domain / overflow as explicit outcomes —
   ends in a value or an in-band error, and agrees with the documented
   operator-precedence evaluation.  MC_ParserFns: every call of the dispatch
   model ends in-band.  Demo_*: with the as-is behaviours on, TLC finds the
   escaping exception.
G  Gen_Expr soups: all #expr token sequences up to 3 (quick) / 4 (thorough)
   tokens with the predicted class; Gen_Expr trees (operator pairs over literals
   including 0): both through the real Wtp.expand.  Gen_ParserFns: every key of
   PARSER_FUNCTIONS (read from the working tree) plus unknown names x argument
   vectors x page-title classes, network helpers stubbed to "no result".
   An exception escaping expand() is the violation; a different in-band class
   than predicted is drift.
"""
from __future__ import annotations

import json
from collections import Counter
from pathlib import Path

import common
import pfcommon
from common import Outcome, Scratch, pmap
from pfcommon import tlc

PID = "C05"

ATOM_TEXT = {
    "EMPTY": "", "BLANK": " ", "WORD": "abc", "NEG": "-3", "ZERO": "0", "ONE": "1", "SEVEN": "7",
    "HUGE": "9" * 20, "FRAC": "1.5", "PLUS": "+", "STAR": "*", "LPAR": "(", "EXPEMPTY": "{{#if:||}}",
    "TALK": "Talk:x", "DOTS": "a/b/../../../c", "EPOCH": "@99999999999999999999", "BADDATE": "2020-13-45",
    "LT": "<", "KV": "x=y", "HASH": "#", "UP": "../x", "PCT": "%zz", "E": "e",
    "SUP": "\u00b2", "ARDIG": "\u0663",
    "TS14BAD": "20230230120000", "TS14YR1": "00010101000000", "ATEXP": "@1e30", "DIGITS": "9" * 5000,
    "DEEP": "(" * 200 + "1" + ")" * 200,
    "WORDS": "a b c d", "TWO": "2", "THREE": "3", "NEG1": "-1",
    "NUL": "a\x00b", "CTRL": "\x1f\x7f\x01", "NLIN": "a\nb", "LONGW": "w" * 5000,
}
TITLE_TEXT = {"plain": "Test", "talk": "Talk:x", "nstalk": "Template talk:a/b", "user": "User:foo/bar"}
UNKNOWN_NAMES = ["#nosuchfunction", "#foo bar"]
SKIP = {"#invoke"}      # dispatched to the Lua sandbox, not to call_parser_function (see C06..C09)


def soup_text(toks):
    return "{{#expr:" + pfcommon.render(toks, "spaced") + "}}"


def _eval_soups(cases):
    out = []
    with pfcommon.Ctx() as c:
        for case in cases:
            k, o_ = c.run(soup_text(case["toks"]))
            a = pfcommon.abstract_expr_output(k, o_)
            out.append((a["kind"], a["txt"]))
    return out


def _eval_tree_min(cases):
    out = []
    with pfcommon.Ctx() as c:
        for case in cases:
            k, o_ = c.run(soup_text(case["min"]))
            a = pfcommon.abstract_expr_output(k, o_)
            out.append((a["kind"], a["txt"]))
    return out


def stub_network():
    """The network helpers answer "nothing found" (cf. tests/test_parserfns.py, which
    patches wikitextprocessor.wikidata.query_wikidata).  Returns the function that
    creates the interwiki table of a context (or a no-op if the tree has none)."""
    common.use_repo()
    try:
        import wikitextprocessor.wikidata as wd

        wd.query_wikidata = lambda wtp, query: {}
    except Exception:
        pass
    try:
        import wikitextprocessor.interwiki as iw

        iw.get_interwiki_data = lambda wtp: []
        return getattr(iw, "init_interwiki_map", lambda wtp: None)
    except Exception:
        return lambda wtp: None


def call_text(name, argv):
    return "{{" + name + (":" + "|".join(ATOM_TEXT[a] for a in argv) if argv else "") + "}}"


def _eval_calls(jobs):
    """jobs: list of (title class, [cases])"""
    init_map = stub_network()
    out = []
    for title, cases in jobs:
        res = []
        with pfcommon.Ctx(title=TITLE_TEXT[title]) as c:
            init_map(c.wtp)
            for case in cases:
                k, o_ = c.run(call_text(case["name"], case["argv"]))
                res.append((k, o_[:200], len(c.wtp.errors)))
                if len(c.wtp.errors) > 200:
                    c.wtp.start_page(TITLE_TEXT[title])
        out.append(res)
    return out


def explain_expr(viol):
    """Which of the violating (tokens, observation) pairs does the as-is model
    (Trace_Expr with the as-is deviations on) reproduce?  -> set of indexes"""
    if not viol:
        return set()
    evs = [{"toks": list(t), "obs": {"kind": "exc", "n": 0, "d": 1, "close": False}} for t, _ in viol]
    with Scratch("c05e-") as d:
        tf = d / "trace.json"
        tf.write_text(json.dumps({"events": evs}))
        r = tlc("Trace_Expr", "Trace_Expr_asis.cfg", workers=1, env={"TRACE_FILE": str(tf)}, timeout=3000)
    v = r.tagged("VERDICT")[0]
    notok = {b["i"] - 1 for b in v["bad"]} | {b["i"] - 1 for b in v["excerr"]}
    return set(range(len(viol))) - notok


def run_b(o: Outcome, tier: str) -> None:
    thorough = tier == "thorough"
    o.rule = (o.rule + " | " if o.rule else "") + (
        "(b) every #expr token sequence up to the bound over the token alphabet is one case (distinct by token sequence; "
        "non-trivial when the model does not predict a plain syntax error); every (parser function name, argument vector, "
        "page-title class) is one case (distinct by name x vector x title)."
    )
    o.assumptions += [
        "(b) #invoke is not exercised here (Lua sandbox, C06-C09); the network helpers wikidata.query_wikidata and "
        "interwiki.get_interwiki_data are stubbed to an empty result in the harness process",
        "(b) a MemoryError/RecursionError-free run is assumed; only exceptions escaping Wtp.expand() are counted",
    ]
    # ---------------- M
    r = tlc("MC_Expr", "MC_Expr_soup_T.cfg" if thorough else "MC_Expr_soup.cfg", workers=16, timeout=3000)
    o.add_tlc("MC_Expr_soup(total, matches documented evaluation)", r)
    r = tlc("MC_Expr", "Demo_Expr_soup_asis.cfg", workers=4, check=False)
    o.extra["demo_expr_no_barrier_reaches_exception"] = bool(r.invariant_violated)
    if not r.invariant_violated:
        raise common.TLCError("Demo_Expr_soup_asis no longer reaches an escaping exception (vacuity guard)")
    r = tlc("MC_ParserFns", "MC_ParserFns.cfg", workers=8, timeout=3000, coverage=True)
    o.add_tlc("MC_ParserFns", r)
    o.extra.setdefault("action_coverage", {}).update({"ParserFns:" + k: v[1] for k, v in r.coverage_actions().items()})
    r = tlc("MC_ParserFns", "Demo_ParserFns_asis.cfg", workers=4, check=False)
    o.extra["demo_dispatch_asis_reaches_exception"] = bool(r.invariant_violated)
    if not r.invariant_violated:
        raise common.TLCError("Demo_ParserFns_asis no longer reaches an escaping exception (vacuity guard)")

    # ---------------- G: #expr token soups
    r = tlc("Gen_Expr", "Gen_Expr_soup_T.cfg" if thorough else "Gen_Expr_soup_Q.cfg", workers=16, timeout=3000)
    o.add_tlc("Gen_Expr_soup", r)
    cases = r.cases
    if len(cases) < 1000:
        raise common.TLCError("Gen_Expr soups: too few cases")
    res = pmap(_eval_soups, cases)
    viol = []
    cls_pred = Counter()
    drift = Counter()
    for case, (k, txt) in zip(cases, res):
        o.evaluations += 1
        e = case["exp"]
        cls_pred[e["kind"] + ":" + e["what"]] += 1
        if not (e["kind"] == "err" and e["what"] == "syntax"):
            o.shape(("soup", tuple(case["toks"])))
        if k == "exc":
            viol.append((case["toks"], txt))
        elif k != e["kind"]:
            drift[f"model {e['kind']}{':' + e['what'] if e['what'] else ''} / code {k}"] += 1
            o.note_drift({"expr": " ".join(case["toks"]), "model": e["kind"] + " " + e["what"], "code": txt[:80]})
    o.extra.setdefault("action_coverage", {}).update({"Expr:predicted " + k: v for k, v in cls_pred.items()})
    o.extra["expr_soup_drift_classes"] = dict(drift)
    o.sample({"expr_tokens": cases[len(cases) // 2]["toks"], "predicted": cases[len(cases) // 2]["exp"]["kind"]})

    # ---------------- G: operator pairs over literals incl. 0 (e.g. 1/0/1)
    r = tlc("Gen_Expr", "Gen_Expr_trees_T.cfg" if thorough else "Gen_Expr_trees_Q.cfg", workers=16, timeout=3000)
    o.add_tlc("Gen_Expr_trees", r)
    tcases = r.cases
    tres = pmap(_eval_tree_min, tcases)
    for case, (k, txt) in zip(tcases, tres):
        o.evaluations += 1
        if case["exp"]["kind"] == "err":
            o.shape(("tree-err", tuple(case["min"])))
        if k == "exc":
            viol.append((case["min"], txt))
    explained = explain_expr(viol)
    o.extra["expr_exceptions"] = {"n": len(viol), "reproduced_by_the_as_is_model": len(explained),
                                  "by_type": dict(Counter(t.split(":")[0] for _, t in viol))}
    for i, (toks, txt) in enumerate(viol):
        rec = {"kind": "b-expr", "toks": list(toks), "wikitext": soup_text(toks), "title": "Test", "observed": txt}
        why = f"{{{{#expr: {' '.join(pfcommon.conc_tok(t)[:24] for t in toks)}}}}} raised {txt}"
        cls = "b-expr-" + txt.split(":")[0]
        if i in explained:
            o.classify(rec, why, ["ExprEIntegerLoopUnbounded" if txt.startswith("Timeout") else "ExprNoExceptionBarrier"], cls=cls)
        else:
            o.violation(rec, why + " (the as-is model does not predict this one)", cls=cls)

    # ---------------- G: every parser function x argument vectors x titles
    common.use_repo()
    try:
        from wikitextprocessor.parserfns import PARSER_FUNCTIONS

        known = sorted(k for k in PARSER_FUNCTIONS if k not in SKIP)
    except ImportError:      # the table moved: fall back to a fixed list, and say so
        known = sorted(["#expr", "#ifexpr", "#if", "#switch", "#time", "#titleparts", "#rel2abs", "#pad", "padleft", "padright",
                        "TALKPAGENAME", "TALKSPACE", "PAGENAME", "formatnum", "plural", "lc", "#len", "#sub", "ns", "fullurl"])
        o.note_drift({"note": "PARSER_FUNCTIONS not importable from wikitextprocessor.parserfns; a fixed list of names is used"})
    with Scratch("c05n-") as d:
        (d / "names.json").write_text(json.dumps({"known": known, "names": known + UNKNOWN_NAMES}))
        r = tlc("Gen_ParserFns", "Gen_ParserFns.cfg", workers=8, timeout=3000, env={"NAMES_FILE": str(d / "names.json")})
    o.add_tlc("Gen_ParserFns", r)
    pcases = r.cases
    if len(pcases) < len(known) * 50:
        raise common.TLCError("Gen_ParserFns: too few cases")
    jobs = []
    by = {}
    for c in pcases:
        by.setdefault((c["title"], c["name"]), []).append(c)
    for (title, name), cs in sorted(by.items()):
        jobs.append((title, cs))
    res = pmap(_eval_calls, jobs, chunk=max(1, len(jobs) // 64))
    nvec = len({tuple(c["argv"]) for c in pcases})
    o.extra["parser_functions"] = {"names": len(known), "unknown_names": len(UNKNOWN_NAMES), "argument_vectors": nvec,
                                   "title_classes": len(TITLE_TEXT)}
    pdrift = Counter()
    for (title, cs), rs in zip(jobs, res):
        for c, (k, txt, nerr) in zip(cs, rs):
            o.evaluations += 1
            o.shape(("call", c["name"], tuple(c["argv"]), title))
            wt = call_text(c["name"], c["argv"])
            if k == "exc":
                rec = {"kind": "b-call", "name": c["name"], "argv": c["argv"], "title": TITLE_TEXT[title], "wikitext": wt,
                       "observed": txt}
                why = f"{wt} on page {TITLE_TEXT[title]!r} raised {txt}"
                if c["asis"]["kind"] == "exc" and (c["asis"]["via"] != "ValueError" or "4300 digits" in txt):
                    dev = {"ValueError": "IntegerStringConversionLimit","KeyError": "TalkNamespaceLookup", "IndexError": "Rel2absNeedsArgument",
                           "OverflowError": "PadCountUnbounded", "ZeroDivisionError": "PadEmptyPaddingDivides"}.get(c["asis"]["via"], c["asis"]["via"])
                    o.classify(rec, why, [dev], cls=f"b-call-{c['name']}-{txt.split(':')[0]}")
                else:
                    o.violation(rec, why + " (not predicted by the as-is model)", cls=f"b-call-{c['name']}-{txt.split(':')[0]}")
            elif c["asis"]["kind"] == "exc":
                pdrift[c["name"]] += 1      # the as-is model predicted an escape that did not happen (fixed tree)
            elif c["exp"]["via"] == "error" and not ("error" in txt.lower()):
                pdrift[c["name"] + ": value where an error string is predicted"] += 1
    # the same conversion outside call_parser_function: numeric argument names
    with pfcommon.Ctx() as cx:
        for wt in ("{{t|" + ATOM_TEXT["DIGITS"] + "=x}}", "{{{" + ATOM_TEXT["DIGITS"] + "}}}", "{{t|" + ATOM_TEXT["SUP"] + "=x}}", "{{{" + ATOM_TEXT["ARDIG"] + "|d}}}"):
            k, txt = cx.run(wt)[:2]
            o.evaluations += 1
            if k == "exc":
                rec = {"kind": "b-call", "name": "argument name", "argv": [], "title": "Test", "wikitext": wt[:60] + ("..." if len(wt) > 60 else ""), "observed": txt}
                why = f"{wt[:40]}... raised {txt}"
                if "4300 digits" in txt:
                    o.classify(rec, why, ["IntegerStringConversionLimit"], cls="b-argname-ValueError")
                else:
                    o.violation(rec, why, cls="b-argname")
    o.extra["dispatch_notes"] = dict(pdrift)
    c = pcases[len(pcases) // 2]
    o.sample({"call": call_text(c["name"], c["argv"]), "title": TITLE_TEXT[c["title"]], "predicted": c["exp"]})


def replay_b(case: dict) -> int:
    stub_network()
    with pfcommon.Ctx(title=case.get("title", "Test")) as c:
        k, out = c.run(case["wikitext"])
    print(f"re-executed on the working tree: {case['wikitext'][:200]!r} on page {case.get('title', 'Test')!r} -> {k}: {out[:300]!r}")
    return 1


# ---- stand-alone use (./check C05b ...): evidence goes to evidence/C05b.json ----
def run(tier: str) -> int:
    o = Outcome("C05b", tier)
    o.known = common.known_for("C05")
    import c18
    c18.extra_known(o, "C05")
    run_b(o, tier)
    o.exhaustive = True
    return o.finish()


def replay(path: str) -> int:
    v = json.loads(Path(path).read_text())
    print("why:", v["why"])
    return replay_b(v["case"])


def selftest() -> int:
    """A call that raises must be flagged by the judging code; one that does not, must not."""
    stub_network()
    with pfcommon.Ctx() as c:
        good = c.run("{{#expr: 1/0}}")
        exprs = [["exp", "5000"], ["1", "+", "2"]]
        got = [c.run(soup_text(t)) for t in exprs]
    print("1/0 ->", good, "; exp 5000 ->", got[0], "; 1+2 ->", got[1])
    ok = good[0] == "ok" and got[1] == ("ok", "3")
    # the as-is model must reproduce an exception for exp 5000 and not for 1+2
    ex = explain_expr([(t, "x") for t in exprs])
    print("as-is model predicts an escaping exception for:", [exprs[i] for i in sorted(ex)])
    ok &= ex == {0}
    print("selftest", "passed" if ok else "FAILED")
    return 0 if ok else 1
