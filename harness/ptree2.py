"""Dumb structural abstraction of real WikiNode trees to JSON (the child / node
records of spec/Unparse.tla) and concretisation of atom sequences.

Nothing here interprets or normalises a tree: every field of a WikiNode is copied
(kind name, sarg, largs, attrs in dict order, children, definition); strings are
cut into atoms by one fixed, context-free rule.  All judgements (expected tree,
whitespace equivalence, expected wikitext) are made by TLC.

atoms:  " " -> "SP", "\\n" -> "NL", a maximal run [A-Za-z0-9][A-Za-z0-9_.~-]* -> one atom,
        every other character -> one atom.   concretise(atoms) is the inverse.
"""
from __future__ import annotations

import re

_ATOM_RE = re.compile(r"[A-Za-z0-9][A-Za-z0-9_.~-]*|.", re.S)
_SPECIAL = {" ": "SP", "\n": "NL"}
_UNSPECIAL = {"SP": " ", "NL": "\n"}


def atoms(s: str) -> list[str]:
    return [_SPECIAL.get(a, a) for a in _ATOM_RE.findall(s)]


def concretise(ats) -> str:
    return "".join(_UNSPECIAL.get(a, a) for a in ats)


def child(x):
    if isinstance(x, str):
        return {"s": atoms(x)}
    return node(x)


def kids(xs):
    return [child(x) for x in xs]


def node(n) -> dict:
    return {
        "kind": n.kind.name,
        "sarg": atoms(n.sarg) if isinstance(n.sarg, str) else atoms(str(n.sarg)),
        "largs": [kids(a) for a in n.largs],
        "attrs": [{"n": str(k), "v": str(v)} for k, v in n.attrs.items()],
        "children": kids(n.children),
        "defn": [] if n.definition is None else [kids(n.definition)],
    }


def general(x):
    """Abstraction of what node_to_wikitext accepts: node, string or list."""
    if isinstance(x, (list, tuple)):
        return {"list": [child(y) for y in x]}
    return child(x)


# ---------------------------------------------------------------------------
# helpers for reports / replays (presentation only, never used for verdicts)
# ---------------------------------------------------------------------------

def show(t, ind=0) -> str:
    """Indented rendering of an abstract tree for messages."""
    pad = " " * ind
    if isinstance(t, list):
        return "\n".join(show(x, ind) for x in t)
    if "s" in t:
        return pad + repr(concretise(t["s"]))
    head = pad + t["kind"]
    if t["sarg"]:
        head += " " + concretise(t["sarg"])
    if t["attrs"]:
        head += " {" + ", ".join(f"{a['n']}={a['v']!r}" for a in t["attrs"]) + "}"
    lines = [head]
    for a in t["largs"]:
        lines.append(pad + "  arg:")
        lines += [show(x, ind + 4) for x in a]
    for d in t["defn"]:
        lines.append(pad + "  definition:")
        lines += [show(x, ind + 4) for x in d]
    lines += [show(x, ind + 2) for x in t["children"]]
    return "\n".join(lines)


def kinds(t) -> set:
    if isinstance(t, list):
        return set().union(*[kinds(x) for x in t]) if t else set()
    if "s" in t:
        return set()
    r = {t["kind"]}
    for a in t["largs"] + t["defn"] + [t["children"]]:
        for x in a:
            r |= kinds(x)
    return r


def shape(t) -> str:
    """Structure without texts (for counting distinct cases)."""
    if isinstance(t, list):
        return "[" + ",".join(shape(x) for x in t) + "]"
    if "s" in t:
        return "s"
    return (t["kind"] + concretise(t["sarg"]) + ("@%d" % len(t["attrs"]) if t["attrs"] else "")
            + "(" + ";".join(",".join(shape(x) for x in a) for a in t["largs"]) + ")"
            + "[" + ",".join(shape(x) for x in t["children"]) + "]"
            + ("{" + ",".join(shape(x) for x in t["defn"][0]) + "}" if t["defn"] else ""))


_CTX = {}


def new_ctx(d, name="p"):
    """A real Wtp on a scratch database below directory d."""
    from pathlib import Path

    from wikitextprocessor import Wtp

    sub = Path(d) / name
    sub.mkdir(parents=True, exist_ok=True)
    return Wtp(db_path=str(sub / "pages.db"), quiet=True, quiet_output=True)


def parse(ctx, text: str):
    ctx.start_page("Pg")
    return ctx.parse(text)
