"""C06 — Lua code from pages is confined to the sandbox.

M  TLC, design level (spec/MC_SandboxReach.tla, hand-written object graph of the sandbox
   with one switch per known deviation): Confined holds for the ideal design under every
   order of attacker moves (SpecOne) and with the saturating step (SpecSat); the closure
   reached by single moves equals the declarative fixed point.  Demo_SandboxReach_*.cfg:
   with a deviation switched on TLC itself finds the forbidden reference.
V  extraction: every run boots the REAL sandbox of the working tree, captures the
   environment and frame a module receives, extracts the edge relation from the live
   objects (harness/c06_extract.py) and hands it to TLC as the constant of
   spec/Gen_SandboxReach.tla: the model IS the live object graph.  TLC computes the
   closure, checks `held \\cap Forbidden = {}` and prints a shortest path per forbidden
   reference.  The executed attack corpus is validated by TLC against the same model
   (a real success the model cannot explain = extractor GAP).
G  every TLC path is compiled into a Lua probe module, installed in the page store and
   invoked through #invoke in the same runtime; it only counts when the module REALLY
   ends up holding the very object (identity checked from the Python side).
   Attack corpus (harness/c06_corpus.py): ~55 hostile modules executed for real in child
   processes with before/after snapshots of the scratch file system and the pages table.
Gate engine (harness/c06_gate.py, spec/SandboxGate.tla): the graph above is extracted once,
   in one order; whatever decides an edge on every lookup (the attribute filter of the
   bridge) may have a memory.  Second model: a runtime as the HISTORY of attribute lookups
   (object x name x get/set x same invocation / later #invoke / later page); TLC enumerates
   every history up to a bound over the Python objects found in the live sandbox, each is
   run in a fresh context; random longer histories are replayed by TLC.
Load engine (harness/c06_load.py, spec/SandboxReachLoad.tla): both engines above take the environment of
   a NORMALLY loaded module as the root.  Third model: HOW page-supplied source comes to run - the
   loader (compile -> bind with setfenv -> cache -> run; caches with three lifetimes) over entry point
   x SHAPE OF THE SOURCE (BOM, '#!' line, binary signature, NUL, CR/CRLF, compile failures, what the
   chunk returns) x history of loads; TLC enumerates every case with the demanded outcome, each is
   executed with a probe body that reports from the inside which forbidden names it sees, and the
   Python side reads the real global table of the runtime.
Stack engine (harness/c06_stack.py, spec/SandboxReachStack.tla): the load engine assumes a WELL-FORMED environment
   stack.  Fourth model: the sandbox bookkeeping as ATTACKER-CONTROLLED state - the helpers exported into every module
   environment (_python_append_env, _lua_reset_env, _save_mod, _new_loader ...) called by page code with hostile
   arguments before an entry point is used, also while the stack is really empty (trap firing in the environment
   reset); the fallbacks of the loader paths ("_python_top_env() or ...") are explicit in the model.
"""
from __future__ import annotations

import json
import multiprocessing as mp
import os
import re
import sys
import time
from pathlib import Path

import common
import luafix
import c06_extract
import c06_corpus
import c06_gate
import c06_load
import c06_stack
from common import Outcome, Scratch, tlc

PID = "C06"
DEV_RET = c06_corpus.RET
DEV_PAR = c06_corpus.PAR
DEV_ABS = c06_corpus.ABS


# ---------------------------------------------------------------------------
# probes compiled from TLC paths
# ---------------------------------------------------------------------------

def lstr(s) -> str:
    return json.dumps(s, ensure_ascii=False)


def lua_arg(a, vars_, i, g, path_nodes):
    if isinstance(a, dict):
        k = a["$"]
        if k == "frame":
            return "frame"
        if k == "env":
            return "_G"
        if k == "tbl":
            return "{}"
        if k == "self":
            # the object the function was taken from must be the previous-but-one node
            if i >= 2 and path_nodes[i - 2] == a["n"]:
                return vars_[i - 2]
            raise ValueError("self argument not on the path")
    if isinstance(a, str):
        return lstr(a)
    if isinstance(a, bool):
        return "true" if a else "false"
    if isinstance(a, (int, float)):
        return repr(a)
    raise ValueError(f"argument {a!r}")


def render_probe(g, edge_ids) -> str:
    """Lua module whose main() follows the edges and keeps what it gets."""
    edges = [g["edges"][i - 1] for i in edge_ids]
    start = edges[0]["src"] if edges else None
    role = g["nodes"][start].get("role") if start != "S" else "S"
    lines = ["local p = {}", "function p.main(frame)", "  local nxt = _orig_next or next"]
    first = {"env": "_G", "frame": "frame", "S": '""'}[role]
    vars_ = ["x0"]
    path_nodes = [start]
    lines.append(f"  local x0 = {first}")
    for i, e in enumerate(edges, start=1):
        lab = e["label"]
        cur, new = vars_[-1], f"x{i}"
        kind, _, rest = lab.partition(":")
        if kind in ("f", "m", "a"):
            if i == 1 and role == "env" and re.fullmatch(r"[A-Za-z_][A-Za-z0-9_]*", rest) and rest not in ("end", "nil", "true", "false", "and", "or", "not", "if", "then", "else", "for", "do", "while", "function", "local", "return", "in", "repeat", "until", "break", "elseif"):
                expr = rest  # a plain global variable of the module
            else:
                expr = f"{cur}[{lstr(rest)}]"
        elif kind == "i":
            expr = f"{cur}[{rest}]"
        elif kind == "b":
            expr = f"{cur}[{rest}]"
        elif kind == "x":
            expr = f"{cur}[{rest}]"
        elif kind == "mt":
            expr = f"getmetatable({cur})"
        elif kind in ("k", "v"):
            j = int(rest)
            pick = "k" if kind == "k" else "v"
            lines.append(f"  local {new}")
            lines.append(
                f"  do local c = 0 for k, v in nxt, {cur} do local tk = type(k) "
                f"if tk ~= 'string' and tk ~= 'number' and tk ~= 'boolean' then c = c + 1 "
                f"if c == {j} then {new} = {pick} break end end end end"
            )
            expr = None
        elif kind == "c":
            sel = 1
            m = re.fullmatch(r"(.*)#(\d+)", rest)
            if m:
                rest, sel = m.group(1), int(m.group(2))
            args = json.loads(rest)
            al = ", ".join(lua_arg(a, vars_, i, g, path_nodes) for a in args)
            expr = f"{cur}({al})" if sel == 1 else f"(select({sel}, {cur}({al})))"
        else:
            raise ValueError(f"edge label {lab!r}")
        if expr is not None:
            lines.append(f"  local {new} = {expr}")
        lines.append(f"  if {new} == nil then return 'NIL@{i}' end")
        vars_.append(new)
        path_nodes.append(e["dst"])
    last = vars_[-1]
    lines.append(f"  __c06_witness = {last}")
    lines.append(f"  return 'WIT:' .. type({last}) .. '|' .. tostring({last})")
    lines.append("end")
    lines.append("return p")
    return "\n".join(lines) + "\n"


def path_labels(g, edge_ids):
    return [g["edges"][i - 1]["label"] for i in edge_ids]


def deviation_of_path(g, edge_ids, cls) -> str:
    if cls == "host:file-read":
        return DEV_ABS
    for i in edge_ids:
        e = g["edges"][i - 1]
        src = g["nodes"][e["src"]]
        if e["label"].startswith("a:") and src["desc"].startswith("functools.partial"):
            return DEV_PAR
    for i in edge_ids:
        e = g["edges"][i - 1]
        if e["label"].startswith("c:") and g["nodes"][e["src"]].get("role") in ("require", "_cached_mod", "_new_loader"):
            if g["nodes"][e["dst"]]["cls"].startswith(("host:", "bridge:")):
                return DEV_RET
    return ""


def group(dev: str, cls: str) -> str:
    """Report class: deviation + forbidden class (Python objects other than the context pooled)."""
    if cls.startswith("py:") and cls != "py:Wtp":
        cls = "py:other-object"
    return f"{dev or 'unexplained'}|{cls}"


def run_probe(ctx, ex, g, k, p):
    """Install + #invoke the probe for TLC path p; True when the module really held the object."""
    try:
        src = render_probe(g, p["edges"])
    except ValueError as e:
        return {"src": None, "out": f"unrenderable: {e}", "held": False}
    name = f"c06probe{k}"
    luafix.add_modules(ctx, {name: src})
    ctx.start_page("Tt")
    nseen = len(ctx.lua_env_stack.seen)
    out = ctx.expand("{{c06tplp|pa|pk=pv|m=%s}}" % name)
    held = False
    how = ""
    if out.startswith("WIT:") and len(ctx.lua_env_stack.seen) > nseen:
        env = ctx.lua_env_stack.seen[-1]
        w = env["__c06_witness"]
        if w is not None:
            target = p["target"]
            wid = ex.nid(w)
            if wid == target or w is ex.objs.get(target):
                held, how = True, "identity"
            else:
                tn = g["nodes"][target]
                if ex.classify(w, wid) == tn["cls"] and (tn["kind"] != "table" or sorted(k for k in w.keys() if isinstance(k, str))[:40] == tn["sig"]):
                    held, how = True, "same class and shape (object re-created after the environment reset)"
    return {"src": src, "out": out, "held": held, "how": how}


# ---------------------------------------------------------------------------
# attack corpus, executed for real in child processes
# ---------------------------------------------------------------------------

def fs_snapshot(d: Path) -> dict:
    res = {}
    for p in sorted(d.rglob("*")):
        if p.is_file() and "ctx" not in p.relative_to(d).parts:
            try:
                res[str(p.relative_to(d))] = p.read_bytes()[:200].decode("utf-8", "replace")
            except OSError:
                res[str(p.relative_to(d))] = "?"
    return res


def pages_snapshot(ctx) -> dict:
    rows = ctx.db_conn.execute("SELECT title, namespace_id, COALESCE(body, ''), COALESCE(redirect_to, '') FROM pages").fetchall()
    return {f"{r[1]}:{r[0]}": (r[2][:60], r[3]) for r in rows}


def attack_child(a, d: str):
    """Runs in its own process (an attack may kill it)."""
    sys.stdout = open(os.devnull, "w")
    sys.stderr = open(os.devnull, "w")
    _null = os.open(os.devnull, os.O_WRONLY)   # Lua's own print() writes to the C-level stdout
    os.dup2(_null, 1)
    os.dup2(_null, 2)
    d = Path(d)
    (d / "outside").mkdir(parents=True)
    (d / "victim.txt").write_text("victim data")
    (d / "outside" / "secret.lua").write_text('return { secret = "S3CRET" }\n')
    (d / "outside" / "notlua.lua").write_text("TOPSECRET = = 1\n")
    common.use_repo()
    ctx = luafix.make_ctx(d / "ctx", {"c06atk": c06_corpus.module_source(a), "c06victim": "return {}",
                                      "c06warm": "return { main = function() return 'warm' end }"})
    # one page of every kind the store can hold (attacks look at what helpers return for each)
    ctx.add_page("Template:C06tgt", 10, body="target body")
    ctx.add_page("Template:C06rdr", 10, redirect_to="Template:C06tgt")
    ctx.add_page("Template:C06dang", 10, redirect_to="Template:C06gone")
    ctx.db_conn.commit()
    if ctx.expand("{{#invoke:c06warm|main}}") != "warm":  # the first use of Lua adds the library's own guard page
        os._exit(3)
    ctx.start_page("Tt")
    fs0, pg0, title0 = fs_snapshot(d), pages_snapshot(ctx), ctx.title
    res = {"name": a["name"], "ret": None, "exc": None}
    (d / "started").write_text("1")
    try:
        res["ret"] = ctx.expand("{{#invoke:c06atk|main|%s}}" % d, timeout=5)
    except BaseException as e:  # the property is about capabilities, not about exceptions
        res["exc"] = repr(e)[:200]
    fs1, pg1 = fs_snapshot(d), pages_snapshot(ctx)
    fs1.pop("started", None)
    res["fs_added"] = sorted(set(fs1) - set(fs0))
    res["fs_removed"] = sorted(set(fs0) - set(fs1))
    res["fs_changed"] = sorted(k for k in fs0 if k in fs1 and fs0[k] != fs1[k])
    res["pages_added"] = sorted(set(pg1) - set(pg0))
    res["pages_removed"] = sorted(set(pg0) - set(pg1))
    res["pages_changed"] = sorted(k for k in pg0 if k in pg1 and pg0[k] != pg1[k])
    res["ctx_title_changed"] = ctx.title != title0
    (d / "result.json").write_text(json.dumps(res))
    os._exit(0)


def run_corpus(attacks, base: Path, nproc: int = 16) -> list[dict]:
    mpc = mp.get_context("fork")
    pending = list(attacks)
    running = []
    out = {}
    while pending or running:
        while pending and len(running) < nproc:
            a = pending.pop(0)
            d = base / a["name"]
            p = mpc.Process(target=attack_child, args=(a, str(d)))
            p.start()
            running.append((a, d, p, time.time()))
        time.sleep(0.02)
        for item in list(running):
            a, d, p, t0 = item
            if p.is_alive() and time.time() - t0 < 60:
                continue
            hung = p.is_alive()
            if hung:
                p.kill()
            p.join()
            running.remove(item)
            rf = d / "result.json"
            if rf.exists():
                r = json.loads(rf.read_text())
                r["died"] = False
            else:
                started = (d / "started").exists()
                r = {"name": a["name"], "ret": None, "exc": None, "died": started and not hung, "hung": hung,
                     "exitcode": p.exitcode, "fs_added": [], "fs_removed": [], "fs_changed": [],
                     "pages_added": [], "pages_removed": [], "pages_changed": [], "ctx_title_changed": False}
                if not started and not hung:
                    raise RuntimeError(f"attack runner for {a['name']} failed before the invocation (exit {p.exitcode})")
            evid = []
            if isinstance(r.get("ret"), str) and r["ret"].startswith("WIT:"):
                evid.append("witness " + r["ret"][:120])
            for k in ("fs_added", "fs_removed", "fs_changed", "pages_added", "pages_removed", "pages_changed"):
                if r[k]:
                    evid.append(f"{k}={r[k]}")
            if r["ctx_title_changed"]:
                evid.append("processing context modified (ctx.title)")
            if r["died"]:
                evid.append(f"host process terminated from Lua (exit code {r.get('exitcode')})")
            r["ok"] = bool(evid)
            r["evidence"] = evid
            out[a["name"]] = r
    return [out[a["name"]] for a in attacks]


# ---------------------------------------------------------------------------
# benign modules must keep working (guards the proposed fixes and the fixture)
# ---------------------------------------------------------------------------

def smoke() -> list:
    bad = []
    with Scratch("c06s-") as d:
        ctx = luafix.make_ctx(d, luafix.SMOKE_MODULES, luafix.SMOKE_TEMPLATES)
        for text, want in luafix.SMOKE_CASES:
            ctx.start_page("Tt")
            got = ctx.expand(text)
            if got != want:
                bad.append({"text": text, "got": got, "want": want})
        luafix.close_ctx(ctx)
    return bad


# ---------------------------------------------------------------------------

def graph_json(g, attack_results, attacks):
    return {
        "init": g["init"],
        "edges": g["edges"],
        "forbidden": [{"n": n, "c": v["cls"]} for n, v in g["nodes"].items() if v["cls"]],
        "attacks": [{"name": a["name"], "ok": bool(r["ok"]), "needs": a["needs"]} for a, r in zip(attacks, attack_results)],
    }


def tlc_live(o, d: Path, J, tag=""):
    gf = d / f"graph{tag}.json"
    gf.write_text(json.dumps(J))
    r = tlc("Gen_SandboxReach", "Gen_SandboxReach_live.cfg", workers=1, env={"GRAPH_FILE": str(gf)}, timeout=900)
    if o is not None:
        o.add_tlc("Gen_live" + tag, r)
    reach = r.tagged("REACH")
    if len(reach) != 1:
        raise common.TLCError("live reachability run printed no REACH record")
    return r.tagged("PATH"), reach[0], gf


def run(tier: str) -> int:
    o = Outcome(PID, tier)
    # second engine: the gate on the bridge as a state machine over HISTORIES of lookups (c06_gate.py);
    # its TLC runs work in the background while the reachability engine runs
    gate = c06_gate.Gate(o, tier)
    # third engine: how page-supplied source comes to run (c06_load.py); its TLC runs work in the background too
    load = c06_load.Load(o, tier)
    # fourth engine: the sandbox bookkeeping as attacker-controlled state (c06_stack.py); TLC in the background too
    stack = c06_stack.Stack(o, tier)
    try:
        gate.start()   # forks (random histories) before any thread exists
        load.start()   # threads only
        stack.start()  # threads only
        return _run(o, tier, gate, load, stack)
    finally:
        gate.close()
        load.close()
        stack.close()


def _run(o, tier: str, gate, load, stack) -> int:
    thorough = tier == "thorough"
    o.rule = (
        "V/G: one case per forbidden reference that TLC finds reachable in the live object graph "
        "(distinct by forbidden class + chain of edge labels), compiled to a Lua probe and executed; "
        "plus one case per module of the attack corpus (distinct by name). Non-trivial = the probe/attack "
        "really ran through #invoke. The graph itself (nodes, edges) is the exhaustive part: every object "
        "reachable from the captured environment and frame is a node. "
        "Gate engine: one case per HISTORY of attribute lookups (object x name x get/set x boundary same/invoke/page, "
        "every history up to the bound, enumerated by TLC from spec/SandboxGate.tla over the objects found in the live "
        "sandbox), each run in a fresh context; distinct by the sequence of lookups, non-trivial = more than one lookup "
        "and not every answer a plain denial; plus seeded random longer histories replayed by TLC. "
        "Load engine: one case per (source shape [prefix x returned value x line ends x ending], history of loads of the module "
        "[entry point x same invocation/later #invoke/later page]) enumerated by TLC from spec/SandboxReachLoad.tla, the module "
        "text written into the page store with a probe body and loaded through the real entry points; distinct by shape + "
        "history, non-trivial = the model lets the chunk run or the source does not compile as it stands. "
        "Stack engine: one case per (context of the page code [top-level / nested invocation / inside the environment reset], "
        "history of bookkeeping manipulations [_python_append_env(nil|false|number|own table), pushes popped by the dispatcher, "
        "_lua_reset_env, _save_mod, helpers without influence] and loads [8 in-module entry points x same invocation / later "
        "#invoke / later page]) ending in a load, enumerated by TLC from spec/SandboxReachStack.tla and performed with the real "
        "helpers of a real module environment; distinct by context + history, non-trivial = at least one manipulation or a "
        "context other than the top-level invocation."
    )
    o.assumptions = [
        "object-capability view: exploits of the C Lua VM / lupa memory safety are out of scope",
        "functions of the standard C library and the sandbox's Lua helpers hand out references only as summarised "
        "(real calls of require/_cached_mod/_new_loader/_new_loadData/_python_top_env/current_frame_python/"
        "frame getters over a name dictionary); helpers without a summary are reported, not called",
        "offline stand-ins for ustring/libraryUtil are part of the trusted base",
        "forbidden = host io/os(beyond clock,date,difftime,time)/package/debug(beyond traceback)/_G/load*/setfenv,getfenv/"
        "lupa python table, contents of host *.lua files outside the library, every Python object that is not a "
        "plain function, a partial or an immutable value",
        "load engine: which source shapes the Lua 5.1 compiler accepts is a modelled fact (loadstring skips neither a byte "
        "order mark nor a '#' line; CR/CRLF end a line); a difference there while the code stays confined is DRIFT",
    ]
    # ---- M: design-level model
    r = tlc("MC_SandboxReach", "MC_SandboxReach_T.cfg" if thorough else "MC_SandboxReach.cfg", workers=16, timeout=1500, coverage=True)
    o.add_tlc("MC_every_order", r)
    o.extra["action_coverage"] = luafix.coverage_actions(r.out)
    r = tlc("MC_SandboxReach", "MC_SandboxReach_sat.cfg", workers=1, coverage=True)
    o.add_tlc("MC_saturate", r)
    o.extra["action_coverage"].update(luafix.coverage_actions(r.out))
    never = [a for a in ('FollowOne', 'Saturate') if not o.extra["action_coverage"].get(a)]
    if never:
        raise common.TLCError(f"actions never taken in the model-checking runs (vacuity): {never}")
    demos = {}
    for name in ("asis", "retained", "partial", "loader"):
        r = tlc("MC_SandboxReach", f"Demo_SandboxReach_{name}.cfg", workers=1, check=False)
        demos[name] = bool(r.invariant_violated)
        if not r.invariant_violated:
            raise common.TLCError(f"Demo_SandboxReach_{name} no longer violates Confined (vacuity guard)")
    o.extra["demo_deviation_violates_Confined"] = demos

    bad = smoke()
    o.extra["benign_smoke"] = {"cases": len(luafix.SMOKE_CASES), "failed": bad[:3]}
    if bad:
        raise RuntimeError(f"sandbox smoke test failed, the environment under test does not run benign modules: {bad[:2]}")

    # ---- load engine: wait for its TLC runs and end its threads (nothing may fork while they live)
    load.collect()
    stack.collect()
    # ---- gate engine: collect its TLC runs, run every generated history for real (before anything else forks)
    gate.finish()
    # ---- load engine: every generated (shape, history) on the real loader
    load.finish()
    # ---- stack engine: every generated (context, history of manipulations and loads) with the real helpers
    stack.finish()

    with Scratch("c06-") as d:
        # ---- V: extraction from the live sandbox
        if thorough:
            c06_extract.MAX_GEN = 3
        t0 = time.time()
        ctx, ex, g = c06_extract.extract(d, thorough)
        o.extra["graph"] = {
            "nodes": len(g["nodes"]), "edges": len(g["edges"]),
            "python_objects": sum(1 for n in g["nodes"].values() if n["kind"] == "py"),
            "require_names_tried": len(g["names"]), "extract_s": round(time.time() - t0, 2),
        }
        o.evaluations += len(g["edges"])
        for note in g["notes"]:
            o.note_drift({"extractor": note})
        # ---- attack corpus for real
        attacks = c06_corpus.corpus(tier)
        results = run_corpus(attacks, d / "atk")
        o.evaluations += len(results)
        o.traces += len(results)
        # ---- TLC on the live graph
        J = graph_json(g, results, attacks)
        paths, reach, gf = tlc_live(o, d, J)
        r = tlc("Gen_SandboxReach", "MC_SandboxReach_live.cfg", workers=1, env={"GRAPH_FILE": str(gf)}, timeout=900, check=False)
        o.add_tlc("MC_live_Confined", r)
        if bool(r.invariant_violated) == bool(reach["confined"]):
            raise common.TLCError("Confined invariant run and REACH record disagree")
        o.extra["live"] = {"held": reach["held"], "rounds": reach["rounds"], "confined": reach["confined"],
                           "forbidden_classes_reached": reach["classes"], "unconfirmed_by_corpus": reach["unconfirmed"]}
        # ---- G: every TLC path as a real Lua probe
        seen_shapes = set()
        nrep = 0
        for k, p in enumerate(paths, start=1):
            labels = path_labels(g, p["edges"])
            shape = (p["cls"], tuple(re.sub(r"/tmp/[^/\":]+", "/tmp/X", l) for l in labels))
            pr = run_probe(ctx, ex, g, k, p)
            o.evaluations += 1
            o.shape(("path",) + shape)
            dev = deviation_of_path(g, p["edges"], p["cls"])
            case = {"kind": "path", "forbidden_class": p["cls"], "target": g["nodes"][p["target"]]["desc"],
                    "path": labels, "lua": pr["src"], "returned": pr["out"][:200], "identity": pr.get("how", "")}
            if pr["held"]:
                nrep += 1
                if shape not in seen_shapes:
                    o.sample({"path": labels, "class": p["cls"], "probe_returned": pr["out"][:80]})
                o.classify(case, f"a module obtains {p['cls']} ({g['nodes'][p['target']]['desc'][:60]}) via " + " -> ".join(labels),
                           [dev] if dev else [], cls=group(dev, p["cls"]))
            else:
                o.note_drift({"model_path_not_reproduced": labels, "class": p["cls"], "probe": pr["out"][:120]})
            seen_shapes.add(shape)
        o.extra["paths"] = {"tlc_paths": len(paths), "reproduced_by_probe": nrep}
        # ---- corpus verdicts
        byname = {a["name"]: a for a in attacks}
        for a, res in zip(attacks, results):
            o.shape(("attack", a["name"]))
            if res["ok"]:
                reached = [c for c in a["needs"] if c in reach["classes"]]
                case = {"kind": "attack", "name": a["name"], "lua": c06_corpus.module_source(a), "evidence": res["evidence"]}
                if a["name"] in reach["gaps"]:
                    o.violation(case, f"EXTRACTOR GAP: attack {a['name']} succeeded for real ({'; '.join(res['evidence'])[:200]}) but the model reaches none of {a['needs']}",
                                cls="GAP|" + a["name"])
                else:
                    o.classify(case, f"attack {a['name']} succeeded: {'; '.join(res['evidence'])[:240]}",
                               [a["dev"]] if a["dev"] else [], cls=group(a["dev"], reached[0] if reached else "?"))
        o.extra["corpus"] = {"attacks": len(attacks), "succeeded": sorted(r["name"] for r in results if r["ok"]),
                             "gaps": reach["gaps"]}
        o.sample({"attack": results[0]["name"], "evidence": results[0]["evidence"]})
        luafix.close_ctx(ctx)
    o.exhaustive = True
    return o.finish()


def replay(path: str) -> int:
    v = json.loads(Path(path).read_text())
    case = v["case"]
    print("why:", v["why"])
    if case["kind"] == "gate":
        print("history of lookups, re-executed in a fresh context:")
        return c06_gate.replay_case(case)
    if case["kind"] == "load":
        print("source shape", case["shape"], "loaded through", [c06_load.fmt_step(x) for x in case["steps"]], "in a fresh context:")
        return c06_load.replay_case(case)
    if case["kind"] == "stack":
        print("context", case["cx"], "history", [c06_stack.fmt_step(x) for x in case["steps"]], "in a fresh context:")
        return c06_stack.replay_case(case)
    with Scratch("c06r-") as d:
        if case["kind"] == "attack":
            a = next(a for a in c06_corpus.A if a["name"] == case["name"])
            res = run_corpus([a], d / "atk")[0]
            print("re-executed attack", a["name"], "->", res["ret"], res["evidence"])
            return 1 if res["ok"] else 0
        ctx = luafix.make_ctx(d, {"c06replay": case["lua"]}, {"c06tplp": "{{#invoke:c06replay|main|inner}}"})
        out = ctx.expand("{{c06tplp|pa|pk=pv}}")
        print("probe module:\n" + case["lua"])
        print("re-executed in a fresh sandbox ->", out)
        luafix.close_ctx(ctx)
        return 1 if out.startswith("WIT:") else 0


def selftest() -> int:
    """Binding demo: corrupt the recorded graph / the expected object and show rejection."""
    ok = True
    with Scratch("c06t-") as d:
        ctx, ex, g = c06_extract.extract(d, False)
        attacks = [a for a in c06_corpus.A if a["name"] in ("req_io_write", "partial_args_ctx", "global_io")]
        results = run_corpus(attacks, d / "atk")
        J = graph_json(g, results, attacks)
        paths, reach, _ = tlc_live(None, d, J)
        print("unmodified graph: forbidden classes reached =", reach["classes"], "gaps =", reach["gaps"])
        succeeded = [r["name"] for r in results if r["ok"]]
        if succeeded:
            # (1) drop the edges that explain a real success: TLC must report an extractor gap
            cut = {"req_io_write": "host:io", "partial_args_ctx": "py:Wtp"}[succeeded[0]]
            tgt = {f["n"] for f in J["forbidden"] if f["c"] == cut}
            J2 = dict(J, edges=[e for e in J["edges"] if e["dst"] not in tgt])
            _, reach2, _ = tlc_live(None, d, J2, "-cut")
            print(f"edges into {cut} removed from the recorded graph: gaps =", reach2["gaps"])
            ok &= succeeded[0] in reach2["gaps"] and not reach["gaps"]
            # (2) corrupt the expected object of a path: the identity check must reject the probe
            p = dict(paths[0])
            good = run_probe(ctx, ex, g, 900, p)
            other = next(n for n, v in g["nodes"].items() if v["cls"] and v["cls"] != p["cls"])
            p["target"] = other
            badp = run_probe(ctx, ex, g, 901, p)
            print("probe with the recorded target: held =", good["held"], "; with a corrupted target: held =", badp["held"])
            ok &= good["held"] and not badp["held"]
        else:
            # tree without the known defects: plant a forbidden edge and expect TLC to find it
            J2 = dict(J, edges=J["edges"] + [{"src": g["init"][0], "dst": "HOSTIO", "label": "f:io", "req": []}],
                      forbidden=J["forbidden"] + [{"n": "HOSTIO", "c": "host:io"}])
            p2, reach2, _ = tlc_live(None, d, J2, "-planted")
            print("planted edge env.io -> host io: classes =", reach2["classes"])
            ok &= "host:io" in reach2["classes"] and "host:io" not in reach["classes"]
            # and claim a success the model cannot explain
            J3 = dict(J, attacks=[{"name": "fake", "ok": True, "needs": ["host:io"]}])
            _, reach3, _ = tlc_live(None, d, J3, "-fake")
            print("claimed success without a model path: gaps =", reach3["gaps"])
            ok &= reach3["gaps"] == ["fake"]
        luafix.close_ctx(ctx)
    ok &= c06_gate.selftest()
    ok &= c06_load.selftest()
    ok &= c06_stack.selftest()
    print("selftest", "ok" if ok else "FAILED")
    return 0 if ok else 1
