"""Entry point: ./check <ID> --tier quick|thorough [--replay FILE] [--selftest]"""
import argparse
import importlib
import os
import sys
import traceback
from pathlib import Path

sys.path.insert(0, str(Path(__file__).resolve().parent))
import common  # noqa: E402


def main() -> int:
    ap = argparse.ArgumentParser()
    ap.add_argument("pid")
    ap.add_argument("--tier", default=os.environ.get("VERIF_TIER", "quick"), choices=["quick", "thorough"])
    ap.add_argument("--replay")
    ap.add_argument("--selftest", action="store_true")
    a = ap.parse_args()
    pid = a.pid.upper()
    common.use_repo()
    try:
        mod = importlib.import_module(pid.lower())
    except ModuleNotFoundError as e:
        print(f"no check for {pid}: {e}", file=sys.stderr)
        return 2
    try:
        if a.replay:
            return mod.replay(a.replay)
        if a.selftest:
            return mod.selftest()
        return mod.run(a.tier)
    except common.TLCError as e:
        print(f"MACHINERY-FAILURE {pid}: {e}", file=sys.stderr)
        return 2
    except Exception:
        traceback.print_exc()
        print(f"MACHINERY-FAILURE {pid}", file=sys.stderr)
        return 2


if __name__ == "__main__":
    sys.exit(main())
