#!/bin/sh
# tools/lua_suite.sh [<patch.diff>] : runs the repository's Lua-dependent tests (which cannot run offline because the
# Scribunto submodule is absent) with the offline ustring/libraryUtil stand-ins installed into every Wtp by a pytest
# plugin, on a scratch copy of /repo (optionally patched), and compares the set of failing tests with the pinned tree
# (84bb8ad).  Extra regression evidence for fixes that touch the Lua side; not part of any check.
set -e
D=$(mktemp -d /tmp/luas-XXXXXX); trap 'git -C /repo worktree remove --force "$D/pin" 2>/dev/null; rm -rf "$D"' EXIT
mkdir -p "$D/cur"; cp -r /repo/src /repo/tests /repo/pyproject.toml "$D/cur/"
[ -n "$1" ] && ( cd "$D/cur" && patch -s -p1 < "$1" )
git -C /repo worktree add --detach "$D/pin" 84bb8ad -q
T="tests/test_lua.py tests/test_wikiprocess.py tests/test_node_expand.py tests/test_parser.py tests/test_parserfns.py"
for w in pin cur; do
  ( cd "$D/$w" && PYTHONPATH=/verif/tools/luaplug:$D/$w/src timeout 3000 /venv/bin/python -m pytest -q -p verif_lua_plugin -p no:cacheprovider $T -q 2>&1 | grep "^FAILED" | sed 's/ - .*//' | sort > "$D/$w.fail" ) || true
done
echo "failing with stand-ins: pinned $(wc -l < $D/pin.fail), current$( [ -n "$1" ] && echo '+patch') $(wc -l < $D/cur.fail)"
echo "newly failing:"; comm -13 "$D/pin.fail" "$D/cur.fail"
echo "newly passing:"; comm -23 "$D/pin.fail" "$D/cur.fail"
