#!/venv/bin/python
"""tools/store_seed.py <ID> <outdir> <slug> <needs> <detected_by> <note> : keep a confirmed seeded change under seeded/<ID>-<slug>/"""
import json, shutil, sys
from pathlib import Path
pid, out, slug, needs, det, note = sys.argv[1:7]
d = Path("/verif/seeded") / f"{pid}-{slug}"
d.mkdir(parents=True, exist_ok=True)
for f in ("patch.diff", "demo.py", "README.md"):
    shutil.copy(Path(out) / f, d / f)
meta = {"id": d.name, "breaks_property": pid, "needs_to_manifest": needs,
        "confirmed": "tools/seeded.sh: demo exits 0 on /repo/src and 1 with the patch; tools/run_baseline.py --repo <patched copy>: 729/729 stable tests pass",
        "ran": f"tools/seeded.sh {pid} {out}", "detected_by": det, "note": note}
(d / "meta.json").write_text(json.dumps(meta, indent=1) + "\n")
print("stored", d)
