#!/bin/sh
# tools/seeded.sh <ID> <outdir> <check-id> : verify a seeded change and run a check against it.
#  1. demo passes on /repo/src  2. demo fails with the patch  3. baseline passes with the patch  4. the check
ID="$1"; OUT="$2"; CHK="${3:-$1}"
D=$(mktemp -d /tmp/mut-XXXXXX); trap 'rm -rf "$D"' EXIT
mkdir -p "$D/repo"; cp -r /repo/src /repo/tests /repo/pyproject.toml "$D/repo/"
find "$D" -name __pycache__ -type d -exec rm -rf {} + 2>/dev/null
( cd "$D/repo" && patch -s -p1 < "$OUT/patch.diff" ) || { echo "PATCH DOES NOT APPLY"; exit 3; }
echo "--- demo on unchanged tree:"; ( cd "$OUT" && PYTHONPATH=/repo/src timeout 600 /venv/bin/python demo.py >/tmp/seed_demo0.$$ 2>&1; echo "exit=$?"; tail -2 /tmp/seed_demo0.$$ )
echo "--- demo on changed tree:"; ( cd "$OUT" && PYTHONPATH="$D/repo/src" timeout 600 /venv/bin/python demo.py >/tmp/seed_demo1.$$ 2>&1; echo "exit=$?"; tail -2 /tmp/seed_demo1.$$ )
rm -f /tmp/seed_demo0.$$ /tmp/seed_demo1.$$
if [ -z "$SKIP_BASELINE" ]; then echo "--- baseline with change:"; /verif/tools/run_baseline.py --repo "$D/repo" | tail -2; fi
echo "--- check $CHK against changed tree:"
VERIF_REPO="$D/repo" /verif/check "$CHK" --tier "${TIER:-quick}" > /tmp/seed_chk.$$ 2>&1; echo "check exit=$?"; grep -c VIOLATION /tmp/seed_chk.$$; grep "why:" /tmp/seed_chk.$$ | head -3 | cut -c1-300; tail -1 /tmp/seed_chk.$$ | cut -c1-200; rm -f /tmp/seed_chk.$$
