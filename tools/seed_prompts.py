#!/venv/bin/python
"""tools/seed_prompts.py <round> [ids...] : (re)create /tmp/seedtools (baseline runner, Lua stub, one prompt per
property) for a round of seeding by fresh sub-agents.  Each prompt holds only the property text, the rules of the
exercise and one line per change that earlier rounds already produced (so that a new round looks elsewhere).
Worktrees: git -C /repo worktree add --detach /tmp/seed<round>-<ID> HEAD ; outputs: /tmp/seed-out<round>/<ID>/."""
import glob, json, os, re, shutil, sys
from pathlib import Path

V = Path("/verif")
T = Path("/tmp/seedtools")
rnd = sys.argv[1]
ids = sys.argv[2:] or [f"C{i:02d}" for i in range(1, 21)]
T.mkdir(exist_ok=True)
shutil.copy(V / "tools/run_baseline.py", T / "run_baseline.py")
shutil.copy(V / "harness/luastub.py", T / "luastub.py")
tmpl = (V / "tools/seed_prompt.txt").read_text()
props = {}
for line in (V / "properties.jsonl").read_text().splitlines():
    d = json.loads(line)
    props[d["id"]] = d
used = {}
for m in sorted(glob.glob(str(V / "seeded/*/meta.json"))):
    d = json.load(open(m))
    patch = open(os.path.dirname(m) + "/patch.diff").read()
    files = sorted(set(re.findall(r"^\+\+\+ b/(\S+)", patch, re.M)))
    funcs = sorted(set(re.findall(r"^@@.*@@\s*(?:def|class)?\s*(\w+)", patch, re.M)))
    used.setdefault(d["breaks_property"], []).append(
        f"- {d['id']}: {', '.join(files)} ({', '.join(funcs[:4])}); manifests with: {d['needs_to_manifest']}")
for pid in ids:
    d = props[pid]
    q = d.get("quantifier") or {}
    a = d.get("anchors") or {}
    text = (f"{pid}: {d.get('title')}\n\nStatement: {d.get('statement')}\n\n"
            f"Quantified over: {q.get('text', q) if isinstance(q, dict) else q}\n\n"
            f"Why the existing tests cannot settle it: {d.get('why_tests_cant', '')}\n\n"
            f"Code anchors: {json.dumps(a.get('files', []))}\n"
            f"Mechanisms: {json.dumps(a.get('mechanism', []))}\n\n")
    p = tmpl.replace("{WT}", f"/tmp/seed{rnd}-{pid}").replace("{OUT}", f"/tmp/seed-out{rnd}/{pid}").replace("{PROP}", text)
    extra = ("\n\nChanges already produced by earlier rounds for this property (do NOT repeat them; choose a DIFFERENT code "
             "site, mechanism and manifestation - e.g. another clause of the statement, another mechanism of the list, "
             "another API entry point):\n" + "\n".join(used.get(pid, [])) + "\n")
    p = p.replace("\nTask: make a small change", extra + "\nTask: make a small change", 1)
    (T / f"prompt{rnd}_{pid}.txt").write_text(p)
    Path(f"/tmp/seed-out{rnd}/{pid}").mkdir(parents=True, exist_ok=True)
print("prompts:", ", ".join(f"/tmp/seedtools/prompt{rnd}_{i}.txt" for i in ids))
