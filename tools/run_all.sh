#!/bin/sh
# tools/run_all.sh [quick|thorough] [ids...] : runs the registered checks against /repo, rewriting evidence/
cd "$(dirname "$0")/.."
TIER="${1:-quick}"; shift 2>/dev/null
IDS="$@"
[ -z "$IDS" ] && IDS=$(python3 -c "import json; print(' '.join(c['property_id'] for c in json.load(open('MANIFEST.json'))['checks']))")
for c in $IDS; do
  s=$(date +%s)
  ./check $c --tier $TIER > /tmp/run_all_$c.log 2>&1; rc=$?
  echo "$c rc=$rc $(( $(date +%s) - s ))s $(tail -1 /tmp/run_all_$c.log | cut -c1-160)"
done
