#!/usr/bin/env python3
"""Regenerates MANIFEST.json from the table below (single source of truth)."""
import json, os, subprocess
from pathlib import Path

V = Path(__file__).resolve().parent.parent
props = [json.loads(l) for l in (V / "properties.jsonl").read_text().splitlines() if l.strip()]

# id -> (engine modules, technique, level text, level note, design ref)
CLAIMED = {
    "C10": (
        ["PageStore", "MC_PageStore", "Gen_PageStore", "Trace_PageStore", "PageStoreInd"],
        "namespace tables of the shipped language configurations as the model's constant (prefix tables derived by TLC: Gen_PageStore_M); Apalache inductive invariant for memo coherence (spec/apalache/PageStoreInd.tla, thorough tier); "
        "TLA+ state machine of the page store (rows, pending/committed, get_page memo) checked by TLC; "
        "the add/lookup histories of the repository's own test-suite (recorded per context) validated by Trace_PageStore; "
        "TLC-generated add/redirect/commit histories with reference lookup tables replayed into a real Wtp+SQLite file; "
        "recorded random histories validated by TLC trace spec",
        "Bounded-exhaustive model checking of the store design (read-side normalisation == reference on every reachable store; memo coherence; "
        "commit publishes exactly the pending rows) plus conformance of the real add_page/get_page/page_exists/get_page_body/"
        "get_page_resolve_redirect on every history of the bounded model (eager, lazy and new-context probing schedules) and on recorded random histories.",
        "Bounded universe (3 bases x {main, Template, Module}, all prefix spellings, underscores); titles are added with spaces; SQLite/TLC trusted.",
        "DESIGN.md §5 C10",
    ),
    "C04": (
        ["Transclusion", "Gen_Transclusion", "Trace_Transclusion", "Includable", "Gen_Includable"],
        "denotational TLA+ reference of MediaWiki transclusion (Eval over an AST) evaluated by TLC on every (library, page) of a bounded universe; "
        "each case replayed through the real expand(); random deeper cases recorded from the real code and validated by TLC",
        "TLC enumerates every (library, page) pair of the bounded universe (47k quick / more thorough), checks laws of the reference, and emits the required output; "
        "the real expand() must return exactly that string. Seeded random pairs (<=5 templates, depth <=4) are validated in the other direction by a TLC trace spec.",
        "Reference = the rules in the property statement; alphabet of atoms concretised one-to-one; acyclic libraries only; parser functions limited to #if/#ifeq/#switch.",
        "DESIGN.md §5 C04",
    ),
    "C16": (
        ["Expander", "Gen_Expander", "Gen_ExpanderWidth", "Gen_ExpanderNames", "Session", "MC_Session", "Gen_Session", "Trace_Session", "Trace_SuiteStack"],
        "per-context call traces recorded from the repository's own test-suite (pytest plugin wrapping the public Wtp methods, one event per call at its return) validated by the trace spec Trace_SuiteStack; "
        "TLA+ transcription of expand_recurse/expand_args/expand_parserfn/call_lua_sandbox with every expand_stack push/pop site explicit (state-threading twin); "
        "TLC checks StackRestored on every (page, library, 16 option combinations), on wide pages (Gen_ExpanderWidth) and on 24 forms of the called name (Gen_ExpanderNames: leading colon, namespace prefixes, case/underscore/blank variants, redirects, missing pages; page store printed with every case); each case replayed on the real code incl. 300 repeated calls; push/pop event traces compared; "
        "plus the per-page session state machine (Session.tla: start_page/start_section/start_subsection/messages/expand/parse/to_return as actions) model-checked, its behaviours replayed on one real context and recorded random sessions validated by TLC",
        "Bounded-exhaustive: TLC evaluates the twin on every case of the universe and checks that the expansion path is restored (the old early-return design is shown to violate it); "
        "the real expand() is run on every case, with Lua (offline stand-ins), failing Lua, time-outs and loops, and repeated 300x per page without start_page.",
        "Lua module behaviour (echo/err/pre/tpl/loop) is assumed as modelled; ustring/libraryUtil replaced by stand-ins; labels of the path are internal (event mismatches are DRIFT).",
        "DESIGN.md §5 C16",
    ),
    "C13": (
        ["Expander", "Gen_Expander", "Gen_ExpanderRep", "Gen_ExpanderPos"],
        "same expander twin; TLC enumerates pages x need_pre_expand sets x templates_to_expand/not_expand subsets x switches x hook policies, checks 'nothing selected => unchanged' and hook-count laws; "
        "each case replayed on the real expand() comparing the returned text and the exact hook call sequence",
        "Bounded-exhaustive over selections and hook policies (65k cases quick, 200k thorough): real output and the arguments the hooks receive must equal the twin's prediction.",
        "Marker strings are non-empty and not list markers; 'unchanged' is read modulo blanks around the first argument of a disabled parser function.",
        "DESIGN.md §5 C13",
    ),
    "C14": (
        ["ArgViews", "Gen_ArgViews"],
        "the three argument-map algorithms (TemplateNode.template_parameters, expander loop, Lua make_frame+frame_args_index) transcribed separately in TLA+ and "
        "checked by TLC against the reference ArgMap on all admissible lists; every list replayed through parse(), expand(template_fn) and a Lua dump module",
        "Exhaustive over all admissible argument lists up to length 3 over 14 written forms (1853 lists) plus sampled longer lists evaluated by TLC from a file; "
        "each real view must equal the specification's map (keys typed int/str, values exact).",
        "plain-text names/values; Lua through offline stand-ins; the documented clamp of numeric names > 1000 is a listed finding.",
        "DESIGN.md §5 C14",
    ),
    "C11": (
        ["Backup", "MC_Backup", "Gen_Backup", "Trace_Backup", "BackupPaths", "Pipeline", "Gen_Pipeline", "Trace_Pipeline"],
        "TLA+ crash model of the database files (main, -wal, -shm, rollback journal, backup, temp; journal mode stored in every file header; start states: library database / rollback-mode database / empty file / absent) with one action per file-visible step of open/backup/overwrite (also one that spills before its commit)/commit/close and a Crash action at every step; "
        "TLC checks 'fresh => visible = expected'; the real flows are killed at every executed source line (sys.settrace + os._exit) in child processes, reopened in another process and "
        "compared with the model by observed file state; observed file-state traces validated by TLC",
        "Bounded-exhaustive model checking over every call order and crash position (3-4 consecutive process runs) plus fault enumeration of the real code: kill at every executed line of "
        "create_db/backup_db/close_db_conn/add_page/overwrite flows (quick: stride + step boundaries; thorough: every line, two levels of crashes), reopen, compare pages and integrity_check with the model.",
        "process death (os._exit), not power loss; SQLite WAL / rollback-journal semantics as encoded (validated by replay); deviation switches StaleWalKept/BackupNotAtomic/JournalModeKept kept for Demo configs.",
        "DESIGN.md §5 C11, notes/C11.md",
    ),
    "C20": (
        ["Workers", "MC_Workers", "Gen_Workers", "Trace_Workers", "LockWait", "LockWaitInd", "WorkersLockInd"],
        "transaction state per connection (NoIdleTransaction) and the three-worker bootstrap race; Apalache inductive invariants for the lock core and LockWait (spec/apalache/WorkersLockInd.tla, LockWaitInd.tla, thorough tier); "
        "TLA+ model of N worker processes (start-up restore steps, connect, schema, reads, bootstrap-page write, commit, close; the creating context as a process that only closes) under SQLite locking and checkpoint rules (WAL, and rollback-journal mode for databases whose provenance - restored from a backup, header mode dropped - leaves them in it; the journal mode is state every open re-establishes); TLC explores all interleavings of 2-3 workers and every placement of the closes; "
        "TLC-generated schedules are replayed on real forked processes under harness-side schedule control (wrappers on os/sqlite3 operations), recorded (process, op, result) traces validated by a TLC trace spec; free-running stress with 2..16 workers",
        "Bounded-exhaustive interleavings in the model; schedule replay + trace validation on the real code; stress runs. Two listed findings (restore race on start-up, bootstrap write under an open cursor) are reported as KNOWN-FINDING; any failure not explained by them is a VIOLATION.",
        "schedule points are the wrapped operations; existing populated database; stress linearisation approximate (re-validated over interval-compatible orders).",
        "DESIGN.md §5 C20, notes/C20.md",
    ),
    "C17": (
        ["Analyze", "MC_Analyze", "Gen_Analyze", "Trace_Analyze", "AnalyzeInd"],
        "Apalache inductive invariant for the worklist (marked = least closure; spec/apalache/AnalyzeInd.tla, thorough tier); "
        "TLA+ state machine of analyze_templates (classifier pass, included_map, worklist, cache clearing, the two redirect updates) over PageStore; TLC checks termination and marked = least closure + redirect neighbours; "
        "all inclusion graphs up to the bound x flag sets x redirect placements x name spellings run on the real analyze_templates; random 8-template worlds recorded and validated by TLC; a call may start from earlier marks (add_page(need_pre_expand=True), an earlier analysis, an overwrite file) and histories add / analyse / overwrite / analyse again are model-checked (Rerun) and replayed / recorded",
        "Bounded-exhaustive (<=3 templates quick, <=4 thorough, simulated 8-template worlds) model checking plus conformance of the real need_pre_expand marks on every generated world and on recorded random worlds.",
        "classifier returns the written names of the graph; redirect semantics read literally (one application of each update); PageStore title resolution reused.",
        "DESIGN.md §5 C17, notes/C17.md",
    ),
    "C12": (
        ["Ingest", "MC_Ingest", "Gen_Ingest", "Trace_Ingest", "Pipeline", "MC_Pipeline", "Gen_Pipeline", "Trace_Pipeline"],
        "TLA+ model of dump ingestion as a fold (namespace/doc/testcases/content-model filter, add_page with includable-part reduction, default templates) over PageStore, checked by TLC against a declarative Expected(dump, selection); "
        "every TLC-enumerated abstract dump written as a real .xml.bz2 with nasty bodies/titles and ingested by the real parse_dump_xml + add_default_templates, get_all_pages compared exactly; recorded dumps over all language namespace tables validated by TLC",
        "Bounded-exhaustive over abstract dumps (<=3 pages quick, <=4 thorough) with real XML/bz2 round trip and byte comparison; namespace sweep over the shipped language folders.",
        "byte equality is the harness's comparison of concretised bodies; which pages/versions must be present is the model's; 'Main:' stripping is a listed finding.",
        "DESIGN.md §5 C12, notes/C12.md",
    ),
    "C08": (
        ["Gen_LuaFrame", "Transclusion", "ArgViews", "PageStore"],
        "TLA+ statement of the frame API in terms of the transclusion reference Eval (frame.args = Bind in the caller's frame, parent frame, preprocess/expandTemplate/callParserFunction = Expand of the equivalent wikitext), "
        "evaluated by TLC for every case; generated Lua echo modules run through the real #invoke directly and via one/two wrapper templates; every observed field compared with TLC's value and with the real expansion of the equivalent wikitext",
        "Bounded-exhaustive over argument values (incl. nested calls, padding, newlines) x wrapper depth 0..2 x fragments x Lua strings (1.6k quick, 10k thorough) with two oracles (specification and metamorphic).",
        "Lua through offline stand-ins; expandTemplate's equivalent call is the all-named form; callParserFunction gets plain strings.",
        "DESIGN.md §5 C08",
    ),
    "C15": (
        ["Nowiki", "Gen_Nowiki", "Trace_Nowiki"],
        "TLA+ statement of nowiki quoting (documented entity table, Quote/Decode), required expansion and parse leaf for five embedding contexts, and comment deletion; TLC checks recoverability/inertness laws and enumerates all payloads; "
        "every case run through the real expand()/parse() with a template_fn spy; random longer payloads recorded and validated by TLC",
        "Bounded-exhaustive over payloads of <=2 (quick) / <=3 (thorough) tokens from a 27-token alphabet x 5 contexts (+ template-body context), comment documents, and TLC trace validation of random payloads up to 12 tokens over a 47-token alphabet.",
        "payloads over the wikitext token alphabet (no private-use placeholder characters, a documented assumption of the package); comment payloads without '-->' and nowiki tags.",
        "DESIGN.md §5 C15",
    ),
    "C09": (
        ["Context", "Gen_Context", "Trace_Context", "ContextInvoke", "Gen_ContextInvoke", "Trace_ContextInvoke"],
        "ContextInvoke models the invocations inside one page (environment stack, package.loaded instances, failing and nested invocations; reference: every top-level invocation gives what it gives alone on a fresh context), TLC-generated invocation histories run on one page of a real context in three renderings, recorded random histories validated by TLC; objects handed out by the constructors of retained libraries (mw.title.*, mw.language.*, mw.html.create, mw.message.new) are state of the model (writer/reader kinds per constructor, ObjKey, later page via the cell lobjects); "
        "TLA+ model of every retained cell of the context (scope, reset point) and page kinds as readers/writers; TLC checks non-interference over all histories and emits every history with the cells the as-is model says interfere; "
        "each history run on one real context vs fresh contexts (separate processes), comparing trees, expansions and messages; random long histories attributed by a TLC trace spec",
        "Bounded-exhaustive over histories of 17-18 page kinds (<=2 quick, <=3 thorough; model: <=4) plus random histories up to 30 pages; differences are reported unless the as-is model explains them by a listed finding.",
        "one concrete page per page kind; Lua through offline stand-ins; retained-library and string-metatable sharing are listed findings (deliberate retention of modules).",
        "DESIGN.md §5 C09",
    ),
    "C05": (
        ["Expander", "Gen_Expander", "Gen_ExpanderDepth", "Expr", "ParserFns", "MC_ParserFns", "Gen_ParserFns"],
        "nesting ladders (what is nested x how deep x split over page and template bodies) generated from Gen_ExpanderDepth with the depth limit stated for every kind of nesting, run on the real expand() under a CPU bound; "
        "(a) expander twin evaluated by TLC on cyclic libraries / deep nests (termination, work bound, cuts reported) and replayed on the real expand() under a wall-clock bound; random cyclic libraries validated by the twin from a file; part O: the documented options of expand() (three switches, template selections, hooks returning None / a string) x histories of three calls on one started page, predictions per call by TLC (StackRestored makes them independent of predecessors); "
        "(b) TLA+ model of #expr tokenizer/ladder with explicit error outcomes and parser-function argument classes, every TLC-enumerated call run through the real expand()",
        "Bounded-exhaustive termination/in-band reporting over cyclic template libraries, nests to depth 100, #expr token sequences and every parser function x argument classes.",
        "wall-clock bound 20 s per small page; network helpers stubbed; Lua via offline stand-ins.",
        "DESIGN.md §5 C05, notes/C05b.md",
    ),
    "C06": (
        ["SandboxReach", "MC_SandboxReach", "Gen_SandboxReach", "SandboxGate", "MC_SandboxGate", "Gen_SandboxGate", "Trace_SandboxGate",
         "SandboxReachLoad", "MC_SandboxReachLoad", "Gen_SandboxReachLoad", "SandboxReachStack", "MC_SandboxReachStack", "Gen_SandboxReachStack"],
        "SandboxReachStack models the sandbox bookkeeping (environment stack, caches) as attacker-controlled state: page code calls the exported helpers with hostile arguments before an entry point is used, invariant StackConfined; "
        "TLA+ attacker model (set of held references, Next = follow an edge) instantiated on every run with the object graph extracted from the LIVE sandbox (tables, metatables, require() results, attributes of reachable Python objects per the attribute filter); "
        "TLC computes reachability of forbidden capabilities; every TLC path is compiled to a Lua probe and executed through #invoke; an attack corpus is executed for real and must be covered by the model; "
        "SandboxGate models the attribute gate of the Lua-Python bridge over HISTORIES of lookups (gate memory, objects with lifetimes): TLC enumerates every bounded history with the demanded answers, each is run in a fresh context, random longer histories are validated by TLC; "
        "SandboxReachLoad models HOW page-supplied source comes to run (loader: compile, bind with setfenv, cache, run) over entry point x shape of the source x history of loads with the invariant that every chunk from the page store runs confined; each case is written into a real page store with a probe that reports which forbidden names it sees from the inside",
        "Exhaustive reachability over the extracted live object graph (~1000 objects) and an every-order model check; real-code confirmation of every counterexample path; 56-module attack corpus with file-system/database snapshots.",
        "object-capability model: VM-level exploits and C library internals trusted; call summaries for a fixed list of callables; offline stand-ins for ustring/libraryUtil.",
        "DESIGN.md §5 C06, notes/C06.md",
    ),
    "C07": (
        ["LuaTimeout", "MC_LuaTimeout", "Gen_LuaTimeout", "Trace_LuaTimeout", "LuaSession", "Gen_LuaSession", "LuaSessionLoad", "Gen_LuaSessionLoad"],
        "TLA+ small-step machine of the count hook / deadline / protected-call stack / coroutines with liveness DeadlinePassed ~> Done under weak fairness, plus big-step Pred(body, wrapper, Dev); TLC enumerates the program grammar with predicted outcome classes; "
        "every program rendered to Lua and run through expand(timeout=...) in child processes with a hard kill; event traces of running programs validated by a TLC trace spec; follow-up invocations compared with a fresh context",
        "Model checking incl. liveness of the ideal design; bounded-exhaustive program grammar (wrapper depth 2 quick / 3 thorough) on the real sandbox; outcomes must match what the property demands unless explained by one of four listed findings.",
        "os.time() granularity 1 s (limit 1 s => abort within 1-2 s); hard kill at limit + 6 s; four listed findings (pcall, coroutine, hook control, nested invoke); proposed fix kept in proposed_fixes/ (judged too large to apply blindly without the Lua test-suite).",
        "DESIGN.md §5 C07, notes/C07.md",
    ),
    "C18": (
        ["Expr", "MC_Expr", "Gen_Expr", "Trace_Expr", "StrFns", "MC_StrFns", "Gen_StrFns", "Trace_StrFns", "FormatNum", "MC_FormatNum", "Gen_FormatNum", "Trace_FormatNum", "ParserFns"],
        "TLA+ models of #expr (exact rational Fold over ASTs, documented-precedence renderers, transcription of the generic_binary ladder and tokenizer), of the string functions over Seq(Atom), and of formatnum grouping / reverse; "
        "TLC checks Ladder(RenderMin(a)) = Ladder(RenderFull(a)) = Fold(a) on operator pairs/shapes, string-function laws and Reverse(Format(n)) = n; every enumerated case evaluated by the real expand() in five renderings; random deeper ASTs / calls / numerals recorded and validated by TLC trace specs",
        "Bounded-exhaustive operator pairs x association shapes x operand triples, token soups, strings x offsets, numerals x every locale shape read from the working tree; V: ASTs to depth 5, wider alphabets.",
        "exact rationals only (transcendental functions, float formatting and full-Unicode percent-encoding are not decided: stated limitation); documentation encoded from memory (no network); three #titleparts deviations are listed findings (pinned by existing tests).",
        "DESIGN.md §5 C18, notes/C18.md",
    ),
    "C01": (
        ["Parser", "WikiTree", "Gen_Parser", "Trace_WikiTree", "TagToken", "ExtUrl", "Gen_ExtUrl", "Trace_SuiteStack"],
        "the trees the repository's own test-suite obtains (recorded by a pytest plugin) and every text it parses validated by Trace_WikiTree; "
        "TLA+ transcription of the token-driven push-down parser (one operator per handler, token_iter incl. the apostrophe state machine) and of the tree well-formedness rules; TLC checks dispatch totality, WellFormed and clean final state on every chunk sequence of six universes; "
        "every sequence parsed by the real parse() in several spellings and three modes; ExtUrl.tla models how the url part of an external link is collected piece by piece and merged (context x label x head x tails over 14 atoms; WellFormed now also forbids adjacent strings inside argument fields); TagToken.tla enumerates tag-token spellings; random soups / grammar documents / mutated real pages / nesting ladders dumped structurally and validated by TLC against the same WellFormed operator",
        "Bounded-exhaustive chunk sequences (70 k quick / 550 k thorough) on model and code, plus TLC validation of the distinct tree shapes of ~20 k (quick) / 500 k (thorough) random soups, grammar documents and page mutations.",
        "Unicode outside the token alphabet is sampled; per-parse CPU limit 5 s (slower parses are counted, not judged); trees deeper than 50 levels validated as one-level slices.",
        "DESIGN.md §5 C01, notes/C01.md",
    ),
    "C02": (
        ["Parser", "ParserRef", "ParserRefDoc", "Gen_ParserRef", "Trace_ParserRef"],
        "the same parser transcription restricted to line-structured documents and a declarative nesting model (section parent, containment, item parent, same list); TLC checks Relations(MachineTree(doc)) = RefRelations(doc) on every document; "
        "every document concretised with unique marker words and filler blocks and parsed by the real parser, relations extracted and compared; universe W spells the white space around the tokens of every structure line (after the opening/closing = run, after list markers, at line ends; blank, TAB, CR strict, FF/VT/NBSP/U+3000 DRIFT) under 14 schemes; long random documents validated by a TLC trace spec",
        "Bounded-exhaustive heading sequences <=4, marker sequences <=3 lines, mixed documents <=4 lines x filler catalogue (57 k documents quick), plus 4 000 (60 000 thorough) long documents validated by TLC.",
        "filler blocks are balanced markup from a catalogue; full-tree disagreement with the machine twin is DRIFT.",
        "DESIGN.md §5 C02, notes/C02.md",
    ),
    "C03": (
        ["ParserStruct", "Gen_ParserStruct", "Trace_ParserStruct"],
        "TLA+ twin of the table / HTML element / link / template-call fragment of the parser: the written structure (grid, element, call) is the value TLC starts from, Render produces the token sequence, MachineTree transcribes the handlers, TreeOf is the tree the property demands; "
        "TLC checks MachineTree(Render(g, style)) = TreeOf(g); every structure concretised and parsed by the real parser; universe SEP writes the separator sequences of the table grammar (!!, !, ||, |-, |+, |}) inside inline constructs (link label/target, call arguments, argument references, parser functions, external-link labels, HTML elements, bold/italic runs) of header and data cells; random larger pages recorded and validated by a TLC trace spec",
        "Bounded-exhaustive grids <=3x3 (quick) / <=4x4 (thorough) x two separator styles x attribute maps x content catalogue, every paired tag of the allowed-tag table read from the working tree, calls/links with written argument lists.",
        "cell contents from a catalogue; whitespace at block boundaries normalised by the TLA+ Equiv-style operator; preconditions listed in notes/C03.md (pipes inside HTML inside template arguments etc.).",
        "DESIGN.md §5 C03, notes/C03.md",
    ),
    "C19": (
        ["Unparse", "MC_Unparse", "Gen_Unparse", "Trace_Unparse", "Render", "MC_Render", "Gen_Render", "Trace_Render"],
        "the round trips of the texts parsed by the repository's own test-suite validated by Trace_Unparse (suite engine); Render.tla (node_to_html / node_to_text / node_handler_fn by composition of Unparse and Transclusion) as a DRIFT-only engine; "
        "TLA+ transcription of to_wikitext / to_attrs per node kind, a document grammar enumerated by TLC, and the Equiv operator (whitespace at block boundaries); MC round trip inside the model; "
        "for every generated document the real chain parse -> node_to_wikitext -> parse -> node_to_wikitext -> parse is run and the tree triples validated by TLC (Equiv, fixed point); subtrees / child lists passed directly; literal '[[' text",
        "Bounded-exhaustive document grammar to depth 3 (quick) / 4 (thorough), two spellings, ~50 k (quick) / 300 k (thorough) evaluated texts and directly passed values.",
        "URL-safe attribute values; whitespace equivalence lives only in the TLA+ operator Equiv.",
        "DESIGN.md §5 C19, notes/C19.md",
    ),
}
NOT_YET = "check not built yet in this round (see DESIGN.md §10 build order); nothing is claimed for it"

checks, na, engines = [], [], {}
for p in props:
    pid = p["id"]
    if pid in CLAIMED:
        mods, tech, text, note, ref = CLAIMED[pid]
        checks.append({
            "property_id": pid,
            "quick_cmd": f"./check {pid} --tier quick",
            "thorough_cmd": f"./check {pid} --tier thorough",
            "evidence_file": f"/verif/evidence/{pid}.json",
            "replay_cmd_template": f"./check {pid} --replay {{path}}",
            "engine": mods[0],
            "level_claimed": {"category": "model_checking", "text": text, "design_ref": ref},
            "level_note": note,
            "technique": tech,
        })
        for m in mods:
            engines.setdefault(m, []).append(pid)
    else:
        na.append({"property_id": pid, "reason": NOT_YET})

hook_commits = []
try:
    out = subprocess.run(["git", "-C", "/repo", "log", "--format=%H %s"], capture_output=True, text=True).stdout
    hook_commits = [l.split()[0] for l in out.splitlines() if l.split(" ", 1)[1].startswith("verif-hook:")]
except Exception:
    pass

man = {
    "version": 1,
    "setup_cmd": "./setup.sh",
    "hooks": {
        "guard": "WIKITEXTPROCESSOR_VERIF",
        "enable": "checks import /repo/src directly (no build step); they set WIKITEXTPROCESSOR_VERIF=1 in their own process; all observation is harness-side unless source_commits lists a hook",
        "baseline_off_cmd": "/verif/tools/run_baseline.py",
        "source_commits": hook_commits,
        "add_only": True,
    },
    "engines": [
        {"name": m, "path": f"spec/{m}.tla" if os.path.exists(f"/verif/spec/{m}.tla") else f"spec/apalache/{m}.tla", "serves_properties": sorted(set(ps)),
         "kind_free_text": "TLA+ module checked with TLC 1.8" if os.path.exists(f"/verif/spec/{m}.tla") else "typed TLA+ abstraction, inductive invariant checked with Apalache 0.58 (thorough tier)"}
        for m, ps in sorted(engines.items())
    ],
    "checks": checks,
    "not_applicable": na,
    "notes": "All checks: ./check <ID> --tier quick|thorough; exit 0 ok, 1 + VIOLATION line, 2 machinery failure. Known findings: known_findings.json.",
}
(V / "MANIFEST.json").write_text(json.dumps(man, indent=1) + "\n")
print("claimed:", [c["property_id"] for c in checks])
