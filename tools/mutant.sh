#!/bin/sh
# tools/mutant.sh <patch.diff> [-R] -- <check-id> [tier]
# Runs one check against a scratch copy of /repo with the patch applied
# (the copy lives under /tmp and is removed afterwards; /repo is untouched).
set -e
PATCH="$1"; shift
REV=""
if [ "$1" = "-R" ]; then REV="-R"; shift; fi
[ "$1" = "--" ] && shift
ID="$1"; TIER="${2:-quick}"
D=$(mktemp -d /tmp/mut-XXXXXX)
trap 'rm -rf "$D"' EXIT
mkdir -p "$D/repo"
cp -r /repo/src "$D/repo/src"
find "$D" -name __pycache__ -type d -exec rm -rf {} + 2>/dev/null || true
( cd "$D/repo" && patch -s -p1 $REV < "$PATCH" )
VERIF_REPO="$D/repo" /verif/check "$ID" --tier "$TIER"
