#!/venv/bin/python
"""tools/benign_prompts.py [ids...] : prompts for sub-agents that produce behaviour-preserving changes
(/tmp/seedtools/benign_<ID>.txt; worktree /tmp/ben-<ID>; output /tmp/ben-out/<ID>/b1..b3.diff)."""
import json, os, shutil, sys
from pathlib import Path
V = Path("/verif"); T = Path("/tmp/seedtools"); T.mkdir(exist_ok=True)
shutil.copy(V / "tools/run_baseline.py", T / "run_baseline.py"); shutil.copy(V / "harness/luastub.py", T / "luastub.py")
tmpl = (V / "tools/benign_prompt.txt").read_text()
R = os.environ.get("BROUND", "")   # "" = first round (/tmp/ben-*), "2" = /tmp/ben2-* ...
ids = sys.argv[1:] or [f"C{i:02d}" for i in range(1, 21)]
for line in (V / "properties.jsonl").read_text().splitlines():
    d = json.loads(line); pid = d["id"]
    if pid not in ids: continue
    q = d.get("quantifier") or {}; a = d.get("anchors") or {}
    text = (f"{pid}: {d.get('title')}\n\nStatement: {d.get('statement')}\n\nQuantified over: {q.get('text')}\n\n"
            f"Code anchors: {json.dumps(a.get('files', []))}\nMechanisms: {json.dumps(a.get('mechanism', []))}\n"
            f"State: {json.dumps(a.get('state', []))}\nObserved at: {json.dumps(a.get('observe_at', []))}\n")
    p = tmpl.replace("{WT}", f"/tmp/ben{R}-{pid}").replace("{OUT}", f"/tmp/ben{R}-out/{pid}").replace("{PROP}", text)
    (T / f"benign{R}_{pid}.txt").write_text(p); Path(f"/tmp/ben{R}-out/{pid}").mkdir(parents=True, exist_ok=True)
print("ok", ids)
