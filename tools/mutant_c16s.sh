#!/bin/sh
# tools/mutant_c16s.sh <patch.diff> [tier]
# Runs the session engine of C16 (harness/c16s.py, standalone) against a scratch copy of
# /repo/src with the patch applied; the copy (and the run's evidence) lives under /tmp and
# is removed afterwards; /repo is untouched.
set -e
PATCH="$(readlink -f "$1")"; TIER="${2:-quick}"
D=$(mktemp -d /tmp/mut-c16s-XXXXXX)
trap 'rm -rf "$D"' EXIT
mkdir -p "$D/repo" "$D/evidence"
cp -r /repo/src "$D/repo/src"
find "$D" -name __pycache__ -type d -exec rm -rf {} + 2>/dev/null || true
( cd "$D/repo" && patch -s -p1 < "$PATCH" )
export PYTHONHASHSEED=0 PYTHONDONTWRITEBYTECODE=1
VERIF_REPO="$D/repo" VERIF_EVIDENCE_DIR="$D/evidence" /venv/bin/python -c "import sys; sys.path.insert(0,'/verif/harness'); import c16s; sys.exit(c16s.run('$TIER'))"
