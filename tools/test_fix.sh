#!/bin/sh
# tools/test_fix.sh <patch.diff> : runs the repository's pinned test-suite on a scratch
# copy of /repo with the patch applied (guard off). /repo itself is not touched.
set -e
D=$(mktemp -d /tmp/fix-XXXXXX)
trap 'rm -rf "$D"' EXIT
mkdir -p "$D/repo"
cp -r /repo/src /repo/tests /repo/pyproject.toml "$D/repo/"
find "$D" -name __pycache__ -type d -exec rm -rf {} + 2>/dev/null || true
( cd "$D/repo" && patch -s -p1 < "$1" )
/verif/tools/run_baseline.py --repo "$D/repo"
