#!/venv/bin/python
"""Runs the repository's pinned test command with the verification guard OFF and
checks that every test of BASELINE.json's stable_pass still passes."""
import json, os, subprocess, sys, tempfile, xml.etree.ElementTree as ET

env = dict(os.environ)
env.pop("WIKITEXTPROCESSOR_VERIF", None)
base = json.load(open("/root/.vp/BASELINE.json"))
repo = "/repo"
if len(sys.argv) > 2 and sys.argv[1] == "--repo":
    repo = sys.argv[2]
    del sys.argv[1:3]
    env["PYTHONPATH"] = repo + "/src"
with tempfile.TemporaryDirectory() as d:
    xmlp = os.path.join(d, "r.xml")
    cmd = ["/venv/bin/python", "-m", "pytest", "-q", "-p", "no:cacheprovider", "--timeout=900",
           "--continue-on-collection-errors", f"--junitxml={xmlp}"] + sys.argv[1:]
    p = subprocess.run(cmd, cwd=repo, env=env, capture_output=True, text=True)
    passed = set()
    for tc in ET.parse(xmlp).getroot().iter("testcase"):
        if not any(c.tag in ("failure", "error", "skipped") for c in tc):
            passed.add(f"{tc.get('classname')}::{tc.get('name')}")
want = set(base["stable_pass"])
missing = sorted(want - passed)
print(f"baseline: {len(want & passed)}/{len(want)} stable tests pass; {len(passed)} passed in total")
for m in missing[:40]:
    print("  NOT PASSING:", m)
sys.exit(1 if missing else 0)
