#!/bin/sh
# tools/pipeline_mutant.sh <patch.diff> [tier] [C12|C11]
# Runs the pipeline engine standalone (harness/pipeline.py) against a scratch copy of
# /repo/src with the patch applied (same pattern as tools/mutant.sh: the copy lives under
# /tmp and is removed afterwards; /repo is untouched; evidence goes to a scratch directory).
set -e
PATCH="$(readlink -f "$1")"; TIER="${2:-quick}"; PID="${3:-C12}"
D=$(mktemp -d /tmp/mut-XXXXXX)
trap 'rm -rf "$D"' EXIT
mkdir -p "$D/repo"
cp -r /repo/src "$D/repo/src"
find "$D" -name __pycache__ -type d -exec rm -rf {} + 2>/dev/null || true
( cd "$D/repo" && patch -s -p1 < "$PATCH" )
export PYTHONHASHSEED=0 PYTHONDONTWRITEBYTECODE=1
VERIF_REPO="$D/repo" /venv/bin/python /verif/harness/pipeline.py "$TIER" "$PID"
