#!/usr/bin/env python3
"""Regenerates the generated tables of DESIGN.md §11 (between <!-- BEGIN GENERATED x --> / <!-- END GENERATED x -->)
from known_findings.json and seeded/*/meta.json."""
import glob, json, re
from pathlib import Path
V = Path(__file__).resolve().parent.parent
kf = json.load(open(V / "known_findings.json"))["findings"]

def esc(s): return str(s).replace("|", "\\|").replace("\n", " ")

fixed = ["| property | deviation switch in the spec | commit | what failed |", "|---|---|---|---|"]
for e in kf:
    if e["status"] == "fixed":
        what = re.sub(r"^fixed: property=\S+ \S+ ", "", e["what"])
        fixed.append(f"| {e['property']} | `{e['deviation']}` | `{e.get('commit','')}` | {esc(what)} |")
find = ["| property | deviation switch | what | witness |", "|---|---|---|---|"]
for e in kf:
    if e["status"] == "finding":
        find.append(f"| {e['property']} | `{e['deviation']}` | {esc(e['what'])} | {esc(e.get('witness',''))} |")
seeds = ["| seeded change | property | needs to manifest | detected by | note |", "|---|---|---|---|---|"]
for f in sorted(glob.glob(str(V / "seeded/*/meta.json"))):
    m = json.load(open(f))
    seeds.append(f"| `{m['id']}` | {m['breaks_property']} | {esc(m['needs_to_manifest'])} | {esc(m['detected_by'])} | {esc(m['note'])} |")

s = (V / "DESIGN.md").read_text()
for name, rows in (("FIXED", fixed), ("FINDINGS", find), ("SEEDED", seeds)):
    b, e = f"<!-- BEGIN GENERATED {name} -->", f"<!-- END GENERATED {name} -->"
    if b in s:
        s = s[: s.index(b) + len(b)] + "\n" + "\n".join(rows) + "\n" + s[s.index(e):]
(V / "DESIGN.md").write_text(s)
print("fixed", len(fixed) - 2, "findings", len(find) - 2, "seeded", len(seeds) - 2)
