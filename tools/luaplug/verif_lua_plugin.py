"""pytest plugin: install the offline ustring/libraryUtil stand-ins into every Wtp created by the tests."""
import sys
sys.path.insert(0, "/verif/harness")
import luastub
import wikitextprocessor.core as core

_orig_init = core.Wtp.__init__

def _init(self, *a, **kw):
    _orig_init(self, *a, **kw)
    try:
        luastub.install(self)
    except Exception:
        pass

core.Wtp.__init__ = _init
