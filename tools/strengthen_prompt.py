#!/usr/bin/env python3
"""tools/strengthen_prompt.py <ID> <seed outdir> [extra notes...] : prompt for a strengthening sub-agent (tools/prompts/STRENGTHEN.txt)."""
import sys
from pathlib import Path
pid, out = sys.argv[1:3]
t = Path("/verif/tools/prompts/STRENGTHEN.txt").read_text().replace("{ID}", pid).replace("{OUT}", out)
if len(sys.argv) > 3:
    t += f"\nExtra notes for {pid}: " + " ".join(sys.argv[3:]) + "\n"
import os
p = Path(f"/verif/tools/prompts/strengthen{os.environ.get('ROUND','6')}_{pid}.txt"); p.write_text(t); print(p)
