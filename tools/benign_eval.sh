#!/bin/sh
# tools/benign_eval.sh <ID>... : run the quick check of <ID> against each behaviour-preserving patch /tmp/ben-out/<ID>/b?.diff.
# The patches were written against commit $BASE of /repo (default b0d2f60): a scratch export of that commit is patched and the
# check runs with VERIF_REPO pointing at it. A non-zero exit is a FALSE ALARM to investigate. Logs: /tmp/ben-out/<ID>/b?.log
BASE="${BASE:-b0d2f60}"; OUT="${OUT:-/tmp/ben-out}"; case "$OUT" in /*) ;; *) OUT="/verif/$OUT";; esac
for c in "$@"; do
  for p in $OUT/$c/b1.diff $OUT/$c/b2.diff $OUT/$c/b3.diff; do
    [ -f "$p" ] || { echo "$c $(basename $p): missing"; continue; }
    (
      D=$(mktemp -d /tmp/benmut-XXXXXX); trap 'rm -rf "$D"' EXIT
      mkdir -p "$D/repo"; git -C /repo archive "$BASE" src | tar -x -C "$D/repo"
      if ( cd "$D/repo" && patch -s -p1 < "$p" ); then
        VERIF_REPO="$D/repo" /verif/check "$c" --tier "${TIER:-quick}" > "/tmp/benign_$(basename $(dirname $p))_$(basename ${p%.diff}).log" 2>&1
        echo "$c $(basename $p): exit=$? $(grep -c VIOLATION /tmp/benign_$(basename $(dirname $p))_$(basename ${p%.diff}).log) violation lines; $(tail -n 1 /tmp/benign_$(basename $(dirname $p))_$(basename ${p%.diff}).log | cut -c1-160)"
      else echo "$c $(basename $p): PATCH DOES NOT APPLY to $BASE"; fi
    ) &
  done
  wait
done
