#!/bin/sh
# tools/benign_eval.sh <ID>... : run the quick check of <ID> against each behaviour-preserving patch /tmp/ben-out/<ID>/b?.diff
# (scratch copy of /repo, tools/mutant.sh); a non-zero exit is a FALSE ALARM to investigate. Logs: /tmp/ben-out/<ID>/b?.log
for c in "$@"; do
  for p in /tmp/ben-out/$c/b1.diff /tmp/ben-out/$c/b2.diff /tmp/ben-out/$c/b3.diff; do
    [ -f "$p" ] || { echo "$c $(basename $p): missing"; continue; }
    ( /verif/tools/mutant.sh "$p" -- "$c" "${TIER:-quick}" > "${p%.diff}.log" 2>&1; echo "$c $(basename $p): exit=$? $(grep -c VIOLATION ${p%.diff}.log) violation lines; $(tail -n 1 ${p%.diff}.log | cut -c1-160)" ) &
  done
  wait
done
