#!/bin/sh
# validates MANIFEST.json and every evidence file against the given schemas
cd "$(dirname "$0")/.." && python3-vt - <<'PY'
import json, jsonschema, glob
jsonschema.validate(json.load(open('MANIFEST.json')), json.load(open('/root/.vp/MANIFEST.schema.json')))
s = json.load(open('/root/.vp/EVIDENCE.schema.json'))
for f in sorted(glob.glob('evidence/C*.json')):
    jsonschema.validate(json.load(open(f)), s)
    print('ok', f)
print('manifest ok')
PY
