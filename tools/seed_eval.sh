#!/bin/sh
# tools/seed_eval.sh <round> <ID>... : run tools/seeded.sh for each (in parallel), write <out>/eval.txt, print the verdict lines
R="$1"; shift
for c in "$@"; do ( /verif/tools/seeded.sh $c /tmp/seed-out$R/$c > /tmp/seed-out$R/$c/eval.txt 2>&1 ) & done
wait
for c in "$@"; do echo "== $c"; grep -A1 "demo on" /tmp/seed-out$R/$c/eval.txt | grep "exit=" | tr '\n' ' '; grep "baseline:" /tmp/seed-out$R/$c/eval.txt | cut -c1-50; sed -n '/--- check/,$p' /tmp/seed-out$R/$c/eval.txt | tail -n +2 | cut -c1-300; done
