SPECIFICATION Spec
CONSTANTS
  Universe = "tagtokT"
  MaxLen = 3
INVARIANT MachineOK
CHECK_DEADLOCK FALSE
