SPECIFICATION GSpec
CONSTANTS
  Procs <- P3
  Dev <- DevAsIs
  Scenarios <- ScnAll
  Focus = "all"
INVARIANT GenInv
CHECK_DEADLOCK FALSE
