SPECIFICATION GSpec
CONSTANTS
  Procs <- P3
  Dev <- DevAsIs
  Scenarios <- ScnAll
  Focus = "all"
INVARIANT GenInv
INVARIANT TxnLockAgree
INVARIANT NoStaleSideFile
INVARIANT DoneMeansCommitted
CHECK_DEADLOCK FALSE
