SPECIFICATION TreeSpec
CONSTANTS
  Dev <- DevAsIs
  Lits <- LitsThree
  Lits2 <- LitsTwo
  UnOps <- UnFew
  BinOps <- BinLevels
  Families <- FamUn
  SoupAlphabet <- SoupSmall
  MaxSoup = 0
INVARIANT LadderComputesFold
CHECK_DEADLOCK FALSE
