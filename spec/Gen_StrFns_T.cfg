SPECIFICATION Spec
CONSTANTS
  LowerOf <- T_Lower
  UpperOf <- T_Upper
  Dev <- DevIdeal
  Alpha <- AlphaAB
  MaxS = 4
  MaxLong = 8
  Offs <- OffsT
  Needles <- NeedlesT
  Fns <- FnsAll
  Spell <- SpellT
INVARIANT Emit
CHECK_DEADLOCK FALSE
