SPECIFICATION Spec
CONSTANTS
  Universe = "I"
  MaxLines = 4
INVARIANT MachineOK
CHECK_DEADLOCK FALSE
