SPECIFICATION Spec
CONSTANTS
  Universe = "SP"
  MaxLines = 2
INVARIANT MachineOK
CHECK_DEADLOCK FALSE
