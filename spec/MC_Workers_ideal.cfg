SPECIFICATION Spec
CONSTANTS
  Procs <- P2
  Dev <- DevIdeal
  Scenarios <- ScnAll
INVARIANT NoFailure
INVARIANT SerialResults
INVARIANT StoreUnchanged
INVARIANT NoDeadlock
CHECK_DEADLOCK FALSE
