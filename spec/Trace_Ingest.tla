--------------------------- MODULE Trace_Ingest ---------------------------
(* Validates recorded ingestions of the real code against Ingest.            *)
(* The trace file (env TRACE_FILE) holds the tables of one site (namespace   *)
(* prefixes, template namespace, default templates) and a list of events,    *)
(* one per ingested dump:                                                    *)
(*   [tid, sel, dump: <<[title, ns, model, red, body, inc]>>,                *)
(*    store: <<[title, ns, redirect, body, model]>>]                         *)
(* (redirect targets as atoms behind the marker "=>", see Ingest)            *)
(* For every event the model ingests the recorded dump action by action; the *)
(* recorded store (get_all_pages) is compared with what the property demands. *)
EXTENDS Naturals, Sequences, FiniteSets, TLC, Json, IOUtils

TraceFile == JsonDeserialize(IOEnv.TRACE_FILE)
Events == TraceFile.events
T_PfxNs == TraceFile.pfxns
T_CanonPfx == TraceFile.canon
T_UpperOf == TraceFile.upper
T_TplNs == TraceFile.tplns
T_Defaults == TraceFile.defaults
T_OkModels == {"wikitext", "Scribunto", "json"}
NoDev == {}
NoArgs == {}

VARIABLES dump, sel, phase, pos, cur, com, memo, l, bad
I == INSTANCE Ingest WITH PfxNs <- T_PfxNs, CanonPfx <- T_CanonPfx, UpperOf <- T_UpperOf,
                          Dev <- NoDev, ArgU <- NoArgs, TplNs <- T_TplNs,
                          Defaults <- T_Defaults, OkModels <- T_OkModels

tvars == <<dump, sel, phase, pos, cur, com, memo, l, bad>>
Range(s) == {s[k] : k \in 1..Len(s)}

DumpOf(e) == [k \in 1..Len(e.dump) |->
                I!DPage(e.dump[k].title, e.dump[k].ns, e.dump[k].model, e.dump[k].red,
                        e.dump[k].body, e.dump[k].inc)]
StoreOf(e) == {I!Row(r.title, r.ns, r.redirect, r.body, r.model) : r \in Range(e.store)}

TInit ==
  /\ l = 1 /\ bad = <<>>
  /\ IF Len(Events) > 0 THEN I!IInit(DumpOf(Events[1]), Range(Events[1].sel))
     ELSE I!IInit(<<>>, {})

Judge ==
  LET e == Events[l]
      obs == StoreOf(e)
      exp == I!Expected(dump, sel)
      asis == I!StoreAfter(dump, sel, TRUE)
      modelOK == cur = exp /\ com = cur
      diff == (exp \ obs) \cup (obs \ exp)
      \* rows of ambiguous pages set aside, the known as-is store is the reference when the
      \* observation is that store up to redirect targets (and the demanded store is not)
      U(S) == I!Unambiguous(dump, S)
      Near(S) == U(obs) = U(S) \/ I!RedirectOnlyDiff(U(S), U(obs))
      useAsis == asis # exp /\ Near(asis) /\ ~Near(exp)
      ref == IF useAsis THEN asis ELSE exp
      why == IF ~modelOK THEN "model"
             ELSE IF obs = asis THEN "asis"
             ELSE IF I!OnlyAmbiguousRows(dump, diff) THEN "ambiguous"
             ELSE IF useAsis /\ U(obs) = U(asis) THEN "asis+ambiguous"
             \* apart from rows of ambiguous pages only redirect targets differ: another spelling of
             \* a target that was not written the way an export writes it (drift), or another target
             ELSE IF I!RespelledOnly(U(ref), U(obs))
                  THEN (IF useAsis THEN "asis+respelled" ELSE "respelled")
             ELSE IF I!RedirectOnlyDiff(U(ref), U(obs)) THEN "redirect"
             ELSE "other"
  IN bad' = IF modelOK /\ obs = exp /\ Len(e.store) = Cardinality(obs) THEN bad
            ELSE Append(bad, [i |-> l, tid |-> e.tid, why |-> why,
                              missing |-> exp \ obs, unexpected |-> obs \ exp,
                              rmissing |-> U(ref \ obs), runexpected |-> U(obs \ ref)])

TNext ==
  /\ l <= Len(Events)
  /\ \/ /\ phase # "done" /\ I!INext /\ UNCHANGED <<l, bad>>
     \/ /\ phase = "done"
        /\ Judge
        /\ l' = l + 1
        /\ IF l + 1 <= Len(Events) THEN I!IReset(DumpOf(Events[l + 1]), Range(Events[l + 1].sel))
           ELSE UNCHANGED <<dump, sel, phase, pos, cur, com, memo>>
TSpec == TInit /\ [][TNext]_tvars

Verdict == (l = Len(Events) + 1) => PrintT(<<"VERDICT", ToJson([consumed |-> l - 1, bad |-> bad])>>)
ModelInv == I!PrefixIsExpected /\ I!FoldAgrees /\ I!RedirectsVerbatim
=============================================================================
