SPECIFICATION SLSpec
CONSTANTS
  Entries <- D_Entries
  Shapes <- D_ShapesCore
  Bounds <- D_Bounds
  MaxLen = 2
  Dev <- DevRecompiledCached
INVARIANT PageCodeConfined
CHECK_DEADLOCK FALSE
