SPECIFICATION Spec
CONSTANTS
  Universe = "S2"
  MaxLines = 2
INVARIANT FlagOK
CHECK_DEADLOCK FALSE
