--------------------------- MODULE LuaSessionLoad ---------------------------
(* C07, second clause: "after a timeout or any Lua error the same context     *)
(* expands subsequent invocations correctly" - WHERE IN THE LOADING MACHINERY *)
(* the abort happens.  LuaTimeout / LuaSession put their endless or failing   *)
(* code into function bodies of the invoked module (or its own chunk); here   *)
(* it sits in the top-level chunk of a LIBRARY module that the invocation     *)
(* reaches through require() / mw.loadData / as the invoked module itself /   *)
(* through require() inside a nested invocation - i.e. the abort unwinds      *)
(* through new_require / new_loadData / _lua_invoke's load step while they    *)
(* are between "looked up the cache" and "stored the value".                  *)
(* State threaded through a session = the caches those steps consult:         *)
(*   pl   package.loaded  (consulted by require() and by _lua_invoke; emptied *)
(*        by _lua_reset_env at the start of every top-level invocation EXCEPT *)
(*        for the names in retained_modules, which live as long as the Lua    *)
(*        runtime = the context)                                              *)
(*   dc   the value cache of mw.loadData (never emptied)                      *)
(* The demanded design stores a value only when the chunk has RETURNED.       *)
EXTENDS Naturals, Sequences, FiniteSets, TLC

CONSTANT Dev      \* "LoadMarkerKept": the loader writes a 'being loaded' entry into its cache BEFORE it runs the
                  \*                   chunk and does not take it back when the chunk does not return

Retained == {"r1", "r2"}          \* names listed in retained_modules (concretised from the live list)
Names == Retained \cup {"o1"}     \* o1: an ordinary name

\* step = [k |-> kind, m |-> name, via |-> way, at |-> place]
\*   k    spin (endless code) | err (error()) | use (benign: asks module m for a value)
\*   via  require (from a function of the invoked module) | nreq (the same inside a NESTED invocation made with
\*        frame:preprocess) | data (mw.loadData) | self (m is the invoked module itself)
\*   at   chunk (the code sits in the top-level chunk of m: runs while m is being LOADED) |
\*        fn (in a function of m, called after the load has finished) | none (k = use)
Vias == {"require", "nreq", "data", "self"}
S0 == [pl |-> [n \in Names |-> "none"], dc |-> [n \in Names |-> "none"]]

\* _lua_reset_env: "cause most packages to be reloaded"
Reset(s) == [s EXCEPT !.pl = [n \in Names |-> IF n \in Retained THEN s.pl[n] ELSE "none"]]

Marker == "LoadMarkerKept" \in Dev

\* one top-level invocation: outcome + state left behind
StepResult(s0, st) ==
  LET s == Reset(s0)
      m == st.m
      abortsInChunk == st.k \in {"spin", "err"} /\ st.at = "chunk"
      abortOut == IF st.k = "spin" THEN "timeout-in-bound" ELSE "error"
      \* what the code after the load makes of the module value
      after(val, s2) == IF val = "marker" THEN [out |-> "error", s |-> s2]     \* 'attempt to index a boolean value'
                        ELSE IF st.k = "use" \/ st.at = "chunk" THEN [out |-> "value", s |-> s2]   \* (chunk already cached: it does not run)
                        ELSE [out |-> abortOut, s |-> s2]
  IN
  IF st.via = "data" THEN
      IF s.dc[m] # "none" THEN after(s.dc[m], s)
      ELSE IF abortsInChunk
           THEN [out |-> abortOut, s |-> IF Marker THEN [s EXCEPT !.dc[m] = "marker"] ELSE s]
           ELSE after("val", [s EXCEPT !.dc[m] = "val"])
  ELSE \* require / nreq / self: package.loaded
      IF s.pl[m] # "none" THEN after(s.pl[m], s)
      ELSE IF abortsInChunk
           THEN [out |-> abortOut,
                 \* _lua_invoke loads the invoked module itself under pcall and saves after success: no marker there
                 s |-> IF Marker /\ st.via # "self" THEN [s EXCEPT !.pl[m] = "marker"] ELSE s]
           ELSE after("val", [s EXCEPT !.pl[m] = "val"])

RECURSIVE Run(_, _, _)
Run(sess, i, s) == IF i > Len(sess) THEN <<>> ELSE LET r == StepResult(s, sess[i]) IN <<r.out>> \o Run(sess, i + 1, r.s)
Outcomes(sess) == Run(sess, 1, S0)

\* what the property demands of each step, independent of what came before (for the sessions of the universe the
\* chunk of an abort step does run: WellFormed)
Demanded(st) == CASE st.k = "spin" -> "timeout-in-bound" [] st.k = "err" -> "error" [] st.k = "use" -> "value"
MeetsDemand(sess) == Outcomes(sess) = [i \in 1..Len(sess) |-> Demanded(sess[i])]
=============================================================================
