SPECIFICATION SLSpec
CONSTANTS
  Entries <- D_Entries
  Shapes <- D_Shapes
  Bounds <- D_Bounds
  MaxLen = 2
  Dev <- DevIdeal
INVARIANT PageCodeConfined
INVARIANT RunsOnlyIfCompiles
INVARIANT LoadsOnlyIfCompiles
INVARIANT RunsInRequestedEnv
INVARIANT CachedChunkBound
INVARIANT RunAgrees
CHECK_DEADLOCK FALSE
