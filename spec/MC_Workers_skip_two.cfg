SPECIFICATION Spec
CONSTANTS
  Procs <- P2
  Dev <- DevSkip
  Scenarios <- ScnBoot3
INVARIANT NoFailure
INVARIANT SerialResults
INVARIANT StoreUnchanged
INVARIANT NoDeadlock
INVARIANT TxnLockAgree
CHECK_DEADLOCK FALSE
