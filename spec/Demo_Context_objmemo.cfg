SPECIFICATION Spec
CONSTANTS
  Dev <- DevObjMemo
  MaxLen = 3
  KindSet <- BaseKinds
  Shape = "all"
INVARIANT NonInterference
CHECK_DEADLOCK FALSE
