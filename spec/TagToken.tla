------------------------------ MODULE TagToken ------------------------------
(* C01 (round 8): the INSIDE of a tag token, on character level.             *)
(*                                                                            *)
(* parser.py recognises HTML-like tags at two sites that must agree:         *)
(*   T  token_list (the TOKEN_RE pair): start-tag and end-tag alternatives of   *)
(*      the tokenizer decide which "<...>" substrings become ONE token;      *)
(*   F  tag_fn re-matches every token that starts with "<" with its OWN copy *)
(*      of the start-tag pattern and of the end-tag pattern; a token that    *)
(*      matches neither makes it raise ("Could not match end tag token").    *)
(* Both sites are transcribed here as recognisers over sequences of          *)
(* characters (StartTag(s, G) / EndTag(s, E), G / E = the character classes  *)
(* of the site), and the declarative requirement is the consistency law      *)
(*   TokenConsistent(s) == T accepts s  =>  F accepts s                      *)
(* (statement of C01: "token regex and tag_fn start/end tag regexes must     *)
(* stay mutually consistent" - parse() never raises).                        *)
(*                                                                            *)
(* A string is a sequence of one-character strings, except                   *)
(*   "span"  a run of letters (concretised as the word span: an allowed tag  *)
(*           name, an attribute name, a value),                              *)
(*   "NL"    a newline.                                                      *)
(* The recognisers compute SETS of positions (the language of the regular    *)
(* expression, independent of the backtracking order).                       *)
EXTENDS Naturals, Sequences, FiniteSets

NameCh  == {"span", "-"}                      \* [-a-zA-Z0-9]
ANameCh == NameCh \cup {":", "_", "."}        \* [-a-zA-Z0-9:_.]
WordCh  == {"span", "_"}                      \* \w
WsCh    == {" ", "NL"}                        \* \s
\* character classes of the two sites (the characters a value may NOT contain)
UnquotedX == {" ", "NL", "\"", "'", "`", "=", "<", ">"}          \* [^ \t\n"'`=<>]*
TokG == [dqx |-> {"\"", "<", ">"}, sqx |-> {"'", "<", ">"}, uqx |-> UnquotedX, name |-> NameCh]   \* token_list
FnG  == [dqx |-> {"\""}, sqx |-> {"'"}, uqx |-> UnquotedX, name |-> NameCh]                       \* tag_fn

ChAt(s, i) == IF i >= 1 /\ i <= Len(s) THEN s[i] ELSE "END"
\* positions reachable from i over C* / over [^X]*
Run(s, i, C)  == { j \in i..(Len(s) + 1) : \A m \in i..(j - 1) : s[m] \in C }
RunX(s, i, X) == { j \in i..(Len(s) + 1) : \A m \in i..(j - 1) : s[m] \notin X }
RunEnd(s, i, C) == CHOOSE j \in Run(s, i, C) : \A k \in Run(s, i, C) : k <= j
AfterWs(s, P) == UNION { Run(s, p, WsCh) : p \in P }
Boundary(s, i) == (ChAt(s, i - 1) \in WordCh) # (ChAt(s, i) \in WordCh)            \* \b
Quoted(s, i, q, X) == IF ChAt(s, i) # q THEN {} ELSE { j + 1 : j \in { j \in RunX(s, i + 1, X) : ChAt(s, j) = q } }
Value(s, i, G) == Quoted(s, i, "\"", G.dqx) \cup Quoted(s, i, "'", G.sqx) \cup RunX(s, i, G.uqx)
\* one round of   \b[-a-zA-Z0-9:_.]+(\s*=\s*(VALUE))?\s*
OneAttr(s, i, G) ==
  IF ~Boundary(s, i) THEN {}
  ELSE LET a1 == AfterWs(s, Run(s, i, ANameCh) \ {i})
           eq == { k + 1 : k \in { k \in a1 : ChAt(s, k) = "=" } }
       IN a1 \cup AfterWs(s, UNION { Value(s, l, G) : l \in AfterWs(s, eq) })
RECURSIVE AttrClosure(_, _, _)                                                     \* ( ... )*
AttrClosure(s, P, G) ==
  LET Q == P \cup UNION { OneAttr(s, p, G) : p \in P } IN IF Q = P THEN P ELSE AttrClosure(s, Q, G)
\*  <NAME+ \s* ATTRS /?>   with the tag name ending before position n
StartOK(s, G, n) ==
  \E e \in AttrClosure(s, Run(s, n, WsCh), G) :
     \/ e = Len(s) /\ s[e] = ">"
     \/ e + 1 = Len(s) /\ s[e] = "/" /\ s[e + 1] = ">"
StartNames(s, G) == IF ChAt(s, 1) # "<" THEN {} ELSE { n \in Run(s, 2, G.name) \ {2} : StartOK(s, G, n) }
StartTag(s, G) == StartNames(s, G) # {}
\*  </NAME+ \s* >
EndTag(s, G) ==
  /\ ChAt(s, 1) = "<" /\ ChAt(s, 2) = "/"
  /\ \E n \in Run(s, 3, G.name) \ {3} : \E e \in Run(s, n, WsCh) : e = Len(s) /\ s[e] = ">"

TokAccepts(s) == StartTag(s, TokG) \/ EndTag(s, TokG)
FnAccepts(s)  == StartTag(s, FnG) \/ EndTag(s, FnG)
TokenConsistent(s) == TokAccepts(s) => FnAccepts(s)

\* Demo (spec/Demo_Parser_taglaw.cfg): the law against a tokenizer whose unquoted value may contain "="
\* while tag_fn's may not - TLC finds the candidate <span span==>
TokGWideUnquoted == [TokG EXCEPT !.uqx = UnquotedX \ {"="}]
TokenConsistentFor(s, GT) == (StartTag(s, GT) \/ EndTag(s, GT)) => FnAccepts(s)

RECURSIVE JoinS(_)
JoinS(seq) == IF seq = <<>> THEN "" ELSE (IF seq[1] = "NL" THEN "\n" ELSE seq[1]) \o JoinS(Tail(seq))
\* what becomes of a candidate "<...>" (no "<" or ">" inside): the tokenizer decides whether it is a token,
\* tag_fn reads name / end / self-closing off its own match (the first match = the longest name)
\* (token_iter cuts the text into lines first: a candidate that still contains a newline is never ONE token)
HasNL(s) == \E i \in 1..Len(s) : s[i] = "NL"
Class(s) == IF HasNL(s) THEN "TEXT" ELSE IF StartTag(s, TokG) THEN "START" ELSE IF EndTag(s, TokG) THEN "END" ELSE "TEXT"
StartNameEnd(s) == CHOOSE n \in StartNames(s, FnG) : \A k \in StartNames(s, FnG) : k <= n
TagTokOf(s) ==
  IF StartTag(s, FnG)
  THEN [k |-> "TAG", txt |-> JoinS(s), name |-> JoinS(SubSeq(s, 2, StartNameEnd(s) - 1)), close |-> FALSE,
        self |-> s[Len(s) - 1] = "/", attrs |-> <<>>]
  ELSE [k |-> "TAG", txt |-> JoinS(s), name |-> JoinS(SubSeq(s, 3, RunEnd(s, 3, NameCh) - 1)), close |-> TRUE,
        self |-> FALSE, attrs |-> <<>>]

(* ------------------------------------------------- token_iter around the tag *)
(* s = "<" chars ">" with no further ">" : only the part from the LAST "<" on  *)
(* can be a tag token (no class of the token pattern contains "<" or ">").     *)
(* inside_html_tags_re: inside "<" allowed-tag-name [^<>]* ">" newlines are    *)
(* deleted (and apostrophes shielded) BEFORE the text is cut into lines.       *)
TxtTok(a) == [k |-> "TXT", a |-> a]
LastLt(s) == CHOOSE k \in 1..Len(s) : s[k] = "<" /\ \A m \in (k + 1)..Len(s) : s[m] # "<"
Shielded(c) == ChAt(c, 2) = "span"
Normalize(s) ==
  LET k == LastLt(s)
      cand == SubSeq(s, k, Len(s)) IN
  IF Shielded(cand) THEN SubSeq(s, 1, k - 1) \o SelectSeq(cand, LAMBDA c : c # "NL") ELSE s
\* plain text: blanks, newlines, ":" and a rule at the line start are tokens of their own
RECURSIVE TextToks(_, _, _, _)
TextToks(s, i, bol, acc) ==
  LET flush == IF acc = <<>> THEN <<>> ELSE <<TxtTok(acc)>> IN
  IF i > Len(s) THEN flush
  ELSE LET c == s[i] IN
    IF c = " " THEN LET j == RunEnd(s, i, {" "}) IN flush \o <<[k |-> "SP", n |-> j - i]>> \o TextToks(s, j, FALSE, <<>>)
    ELSE IF c = "NL" THEN flush \o <<[k |-> "NL"]>> \o TextToks(s, i + 1, TRUE, <<>>)
    ELSE IF c = ":" /\ bol THEN LET j == RunEnd(s, i, {":"}) IN
                                flush \o <<[k |-> "LP", p |-> SubSeq(s, i, j - 1)]>> \o TextToks(s, j, FALSE, <<>>)
    ELSE IF c = ":" THEN flush \o <<[k |-> "LP", p |-> <<":">>]>> \o TextToks(s, i + 1, FALSE, <<>>)
    ELSE IF c = "-" /\ bol /\ RunEnd(s, i, {"-"}) - i >= 4
    THEN flush \o <<[k |-> "HR"]>> \o TextToks(s, RunEnd(s, i, {"-"}), FALSE, <<>>)
    ELSE TextToks(s, i + 1, FALSE, Append(acc, c))
Candidate(s0) == LET s == Normalize(s0) IN SubSeq(s, LastLt(s), Len(s))
TagStrToks(s0) ==
  LET s == Normalize(s0)
      k == LastLt(s)
      cand == SubSeq(s, k, Len(s)) IN
  IF Class(cand) = "TEXT" THEN TextToks(s, 1, FALSE, <<>>)
  ELSE TextToks(SubSeq(s, 1, k - 1), 1, FALSE, <<>>) \o <<TagTokOf(cand)>>

(* the surroundings: running text, a list item, a table cell, a heading line  *)
\* header_re: a "==" inside the line keeps it from being a heading line
NoDoubleEq(s) == \A i \in 1..(Len(s) - 1) : ~(s[i] = "=" /\ s[i + 1] = "=")
W == TxtTok(<<"w">>)
CtxToks(ctx, s) ==
  LET X == TagStrToks(s) IN
  CASE ctx = "cTOP"  -> <<W>> \o X \o <<W>>                                                   \* w<...>w
    [] ctx = "cLI"   -> <<[k |-> "LP", p |-> <<"*">>], W>> \o X \o <<W>>                       \* *w<...>w
    [] ctx = "cCELL" -> <<[k |-> "TS"], [k |-> "NL"], [k |-> "VB"]>> \o X \o <<W, [k |-> "NL"], [k |-> "TE"]>>
    [] ctx = "cHEAD" -> IF NoDoubleEq(s)
                        THEN <<[k |-> "HS", l |-> 2]>> \o X \o <<W, [k |-> "HE", l |-> 2]>>      \* == <...>w ==
                        ELSE <<TxtTok(<<"=", "=">>), [k |-> "SP", n |-> 1]>> \o X
                             \o <<W, [k |-> "SP", n |-> 1], TxtTok(<<"=", "=">>)>>
CtxText(ctx, s) ==
  CASE ctx = "cTOP"  -> <<"w">> \o s \o <<"w">>
    [] ctx = "cLI"   -> <<"*", "w">> \o s \o <<"w">>
    [] ctx = "cCELL" -> <<"{", "|", "NL", "|">> \o s \o <<"w", "NL", "|", "}">>
    [] ctx = "cHEAD" -> <<"=", "=", " ">> \o s \o <<"w", " ", "=", "=">>

\* heads of the enumerated strings (what follows "<"); the tail varies character by character
HeadChars(h) ==
  CASE h = "hS"  -> <<"span">>                          \* <span...
    [] h = "hE"  -> <<"/", "span">>                     \* </span...
    [] h = "hA"  -> <<"span", " ", "span", "=">>        \* <span span=...   (inside an attribute value)
TagString(d) == <<"<">> \o HeadChars(d[2]) \o SubSeq(d, 3, Len(d)) \o <<">">>
=============================================================================
