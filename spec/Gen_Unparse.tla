----------------------------- MODULE Gen_Unparse -----------------------------
(* Document grammar for property C19: sections, * # ; : lists, tables,        *)
(* bold/italic, links, external links, templates, parser functions, argument  *)
(* references, HTML elements with URL-safe attributes, and text with literal  *)
(* [[ / ]].  A document is an abstract tree (Unparse.tla records, with the    *)
(* line ends a parsed tree has) and is written in two ways:                   *)
(*     Write(tree)        compact hand-written wikitext                       *)
(*     Unparse(tree, {})  the text the (ideal) library emitter produces       *)
(* TLC enumerates the documents of nesting depth <= Depth:                    *)
(*   D1  every block context x every inline of depth Depth-1                  *)
(*   D2  block in block (section / div / table cell / list item) x inline of  *)
(*       depth Depth-2                                                        *)
(*   D3  every ordered pair of blocks                                         *)
(*   D4  every ordered pair of depth-1 inlines in one paragraph               *)
(*   D5  literal brackets split over text runs / inside link text / nested    *)
(*   D6  empty parts: calls, argument references, links whose arguments are   *)
(*       all / partly empty (or blank-only), in every block context, inline   *)
(*       wrapper and outer block                                              *)
(*   D7  ADJACENCY: ordered pairs / triples of block kinds x the separator    *)
(*       between them (line break only, blank lines, a line of blanks, a      *)
(*       comment line), in five contexts; the tree comes from the block       *)
(*       reader ReadEls; Seams (SpecS) applies it to the emitted text         *)
EXTENDS Unparse, Json

CONSTANTS Depth, Part, Parts

S(atoms) == Str(atoms)
N0(kind, kids) == Node(kind, <<>>, <<>>, <<>>, kids)
NL == S(<<"NL">>)
A1 == <<Attr("id", "x1")>>
A2 == <<Attr("class", "a-b"), Attr("data-x", "v.1"), Attr("nowrap", "nowrap")>>   \* incl. a value equal to its name

JoinKids(a, b) ==
  IF a # <<>> /\ b # <<>> /\ IsStr(a[Len(a)]) /\ IsStr(b[1])
  THEN SubSeq(a, 1, Len(a) - 1) \o <<Str(a[Len(a)].s \o b[1].s)>> \o Tail(b)
  ELSE a \o b
J3(a, b, c) == JoinKids(JoinKids(a, b), c)

(* ---------------- inline ---------------- *)
Leaf == { <<S(<<"a1">>)>>, <<S(<<"b1", "SP", "c1">>)>> }
\* literal brackets: an opening pair, a closing pair, and both (written through Unparse the last
\* one is the text "[[y1]]", which must not come back as a link)
LeafBr == { <<S(<<"x1", "SP", "[", "[", "SP", "y1">>)>>, <<S(<<"x1", "]", "]", "SP", "y1">>)>>,
            <<S(<<"x1", "SP", "[", "[", "y1", "]", "]", "SP", "z1">>)>> }
CallW == {"T", "N", "P", "A"}
Wrappers(cx) ==
  CallW
  \cup (IF cx \cap CallW = {} /\ "B" \notin cx THEN {"B"} ELSE {})
  \cup (IF cx \cap CallW = {} /\ "I" \notin cx THEN {"I"} ELSE {})
  \cup (IF cx \cap CallW = {} /\ "E" \notin cx THEN {"H"} ELSE {})
  \cup (IF cx \cap {"L", "E"} = {} THEN {"L", "E", "R"} ELSE {})
Url1 == <<"http", ":", "/", "/", "e.x", "/", "p">>
\* bold at the edge of italic (five quotes) is ambiguous wikitext: keep a word between
Pad(x) == IF IsNode(x[1]) /\ x[1].kind \in {"BOLD", "ITALIC"} THEN J3(<<S(<<"p1", "SP">>)>>, x, <<S(<<"SP", "q1">>)>>) ELSE x
Wrap(w, x) ==
  CASE w = "B" -> <<N0("BOLD", Pad(x))>>
    [] w = "I" -> <<N0("ITALIC", Pad(x))>>
    [] w = "H" -> <<Node("HTML", <<"span">>, <<>>, A1, x)>>
    [] w = "L" -> <<Node("LINK", <<>>, <<<<S(<<"l">>)>>, x>>, <<>>, <<>>)>>
    [] w = "R" -> <<Node("LINK", <<>>, <<<<S(<<"l">>)>>>>, <<>>, <<S(<<"s">>)>>)>> \o JoinKids(<<S(<<"SP">>)>>, x)   \* [[l]]s x
    [] w = "E" -> <<Node("URL", <<>>, <<<<S(Url1)>>, x>>, <<>>, <<>>)>>
    [] w = "T" -> <<Node("TEMPLATE", <<>>, <<<<S(<<"t">>)>>, x, <<S(<<"z1">>)>>>>, <<>>, <<>>)>>
    [] w = "N" -> <<Node("TEMPLATE", <<>>, <<<<S(<<"t">>)>>, JoinKids(<<S(<<"k", "=">>)>>, x)>>, <<>>, <<>>)>>
    [] w = "P" -> <<Node("PARSER_FN", <<>>, <<<<S(<<"#", "if">>)>>, x, <<S(<<"y1">>)>>>>, <<>>, <<>>)>>
    [] w = "A" -> <<Node("TEMPLATE_ARG", <<>>, <<<<S(<<"1">>)>>, x>>, <<>>, <<>>)>>
RECURSIVE Inl(_, _)
Inl(d, cx) ==
  LET base == Leaf \cup (IF cx \cap {"L", "E", "R", "nobr"} = {} THEN LeafBr ELSE {})
  IN IF d = 0 THEN base
     ELSE base \cup UNION { { Wrap(w, x) : x \in Inl(d - 1, cx \cup {w}) } : w \in Wrappers(cx) }

(* ---------------- blocks ---------------- *)
Item(m, kids) == Node("LIST_ITEM", m, <<>>, <<>>, kids)
List(m, items) == Node("LIST", m, <<>>, <<>>, items)
Line(x) == J3(<<S(<<"SP">>)>>, x, <<NL>>)            \* " x\n" as list item content
Cell(kind, attrs, kids) == Node(kind, <<>>, <<>>, attrs, kids)
Row(attrs, cells) == Node("TABLE_ROW", <<>>, <<>>, attrs, cells)
Table(attrs, kids) == Node("TABLE", <<>>, <<>>, attrs, kids)
Sec(l, title, body) == Node(CASE l = 2 -> "LEVEL2" [] l = 3 -> "LEVEL3" [] l = 4 -> "LEVEL4", <<>>, <<title>>, <<>>, body)
BlockW == {"para", "title", "secbody", "ul", "ol", "nested", "dterm", "ddef", "indent", "cell", "hcell", "caption", "capattr", "div", "li",
           "dline", "ndline", "dsub", "ndsub"}
\* a block sequence (children of ROOT / a section / a div) holding inline x in context w
Blk(w, x) ==
  CASE w = "para" -> JoinKids(x, <<NL>>)
    [] w = "title" -> <<Sec(2, x, <<S(<<"NL", "z1", "NL">>)>>)>>
    [] w = "secbody" -> <<Sec(3, <<S(<<"h1">>)>>, J3(<<NL>>, x, <<NL>>))>>
    [] w = "ul" -> <<List(<<"*">>, <<Item(<<"*">>, Line(x)), Item(<<"*">>, Line(<<S(<<"z1">>)>>))>>)>>
    [] w = "ol" -> <<List(<<"#">>, <<Item(<<"#">>, Line(<<S(<<"z1">>)>>)), Item(<<"#">>, Line(x))>>)>>
    [] w = "nested" -> <<List(<<"*">>, <<Item(<<"*">>, Line(<<S(<<"z1">>)>>) \o
                                             <<List(<<"*", "#">>, <<Item(<<"*", "#">>, Line(x))>>)>>),
                                         Item(<<"*">>, Line(<<S(<<"z2">>)>>))>>)>>
    [] w = "dterm" -> <<List(<<";">>, <<[Item(<<";">>, J3(<<S(<<"SP">>)>>, x, <<S(<<"SP">>)>>)) EXCEPT !.defn = <<Line(<<S(<<"d1">>)>>)>>]>>)>>
    [] w = "ddef" -> <<List(<<";">>, <<[Item(<<";">>, <<S(<<"SP", "t1", "SP">>)>>) EXCEPT !.defn = <<Line(x)>>]>>)>>
    \* definition on a line of its own (term ends its line), top level and nested in a * list, without and
    \* with a sub-list of the term as the last child of the item
    [] w = "dline" -> <<List(<<";">>, <<[Item(<<";">>, Line(x)) EXCEPT !.defn = <<Line(<<S(<<"d1">>)>>)>>]>>)>>
    [] w = "ndline" -> <<List(<<"*", ";">>, <<[Item(<<"*", ";">>, Line(x)) EXCEPT !.defn = <<Line(<<S(<<"d1">>)>>)>>]>>)>>
    [] w = "dsub" -> <<List(<<";">>, <<[Item(<<";">>, Line(x) \o <<List(<<";", "#">>, <<Item(<<";", "#">>, Line(<<S(<<"z1">>)>>))>>)>>)
                                        EXCEPT !.defn = <<Line(<<S(<<"d1">>)>>)>>]>>)>>
    [] w = "ndsub" -> <<List(<<"*", ";">>, <<[Item(<<"*", ";">>, Line(x) \o <<List(<<"*", ";", "#">>, <<Item(<<"*", ";", "#">>, Line(<<S(<<"z1">>)>>))>>)>>)
                                              EXCEPT !.defn = <<Line(<<S(<<"d1">>)>>)>>]>>)>>
    [] w = "indent" -> <<List(<<":">>, <<Item(<<":">>, Line(x))>>)>>
    [] w = "cell" -> <<Table(A1, <<Row(<<>>, <<Cell("TABLE_CELL", <<>>, x), Cell("TABLE_HEADER_CELL", A1, <<S(<<"h1">>)>>)>>),
                                   Row(A2, <<Cell("TABLE_CELL", A2, <<S(<<"z1">>)>>), Cell("TABLE_CELL", <<>>, x)>>)>>), NL>>
    [] w = "hcell" -> <<Table(<<>>, <<Row(<<>>, <<Cell("TABLE_HEADER_CELL", A1, x), Cell("TABLE_HEADER_CELL", <<>>, x)>>)>>), NL>>
    [] w = "caption" -> <<Table(<<>>, <<Cell("TABLE_CAPTION", <<>>, x), Row(<<>>, <<Cell("TABLE_CELL", <<>>, <<S(<<"z1">>)>>)>>)>>), NL>>
    [] w = "capattr" -> <<Table(A2, <<Cell("TABLE_CAPTION", A1, x), Row(A1, <<Cell("TABLE_HEADER_CELL", <<>>, <<S(<<"z1">>)>>)>>)>>), NL>>
    [] w = "div" -> <<Node("HTML", <<"div">>, <<>>, A2, x), NL>>
    [] w = "li" -> <<Node("HTML", <<"ul">>, <<>>, <<>>, <<Node("HTML", <<"li">>, <<>>, A1, x), Node("HTML", <<"li">>, <<>>, <<>>, <<S(<<"z1">>)>>)>>), NL>>
\* a block sequence holding the block sequence b
OuterW == {"sec", "subsec", "div", "cell", "item"}
Outer(o, b) ==
  CASE o = "sec" -> <<Sec(2, <<S(<<"h1">>)>>, JoinKids(<<NL>>, b))>>
    [] o = "subsec" -> <<Sec(2, <<S(<<"h1">>)>>, <<NL, Sec(3, <<S(<<"h2">>)>>, JoinKids(<<NL>>, b)), Sec(3, <<S(<<"h3">>)>>, <<S(<<"NL", "z1", "NL">>)>>)>>)>>
    [] o = "div" -> <<Node("HTML", <<"div">>, <<>>, A1, JoinKids(<<NL>>, b)), NL>>
    [] o = "cell" -> <<Table(<<>>, <<Row(<<>>, <<Cell("TABLE_CELL", <<>>, JoinKids(<<NL>>, b)), Cell("TABLE_CELL", <<>>, <<S(<<"z1">>)>>)>>)>>), NL>>
    [] o = "item" -> <<List(<<"*">>, <<Item(<<"*">>, JoinKids(Line(<<S(<<"z1">>)>>), b))>>)>>
Rule == <<N0("HLINE", <<>>), NL>>

Doc(kids) == [kind |-> "ROOT", sarg |-> <<>>, largs |-> <<<<S(<<"Pg">>)>>>>, attrs |-> <<>>, children |-> kids, defn |-> <<>>]

\* blocks that may stand inside a list item / cell / div without changing meaning
InnerOK(o, w) == o \notin {"item"} \/ w \in {"ul", "ol", "nested", "indent"}

X1 == <<S(<<"a1">>)>>
D1 == { <<"D1", w, Blk(w, x)>> : w \in BlockW, x \in Inl(Depth - 1, {}) }
D2 == { <<"D2", ow[1], Outer(ow[1], Blk(ow[2], x))>> :
          ow \in {v \in OuterW \X BlockW : InnerOK(v[1], v[2])}, x \in Inl(Depth - 2, {}) }
BlkR(w, x) == IF w = "rule" THEN Rule ELSE Blk(w, x)
D3 == { <<"D3", w1, JoinKids(BlkR(w1, X1), BlkR(w2, <<S(<<"b1">>)>>))>> : w1 \in BlockW \cup {"rule"}, w2 \in BlockW \cup {"rule"} }
D4 == { <<"D4", "para", J3(x, <<S(<<"SP">>)>>, JoinKids(y, <<NL>>))>> : x \in Inl(1, {}), y \in Inl(1, {"nobr"}) }   \* (a [[ and a later ]] in one paragraph would be a link)
\* D5: literal brackets that a per-text-run protection would miss: the opening and the closing pair
\* in different text runs (an inline node between them), literal pairs inside the text of a real
\* link, nested literal pairs in one run.  (The hand-written spelling of these documents reads as
\* links - another tree, which must round-trip all the same; the Unparse spelling gives the text.)
OpenBr == <<S(<<"x1", "SP", "[", "[", "SP", "y1", "SP">>)>>
CloseBr == <<S(<<"SP", "x1", "]", "]", "SP", "y1">>)>>
NestBr == <<S(<<"[", "[", "a1", "SP", "[", "[", "b1", "]", "]", "SP", "c1", "]", "]">>)>>
D5 == { <<"D5", "split", J3(OpenBr, Wrap(w, <<S(<<"a1">>)>>), JoinKids(CloseBr, <<NL>>))>> : w \in {"B", "I", "H", "T", "E", "L"} }
      \cup { <<"D5", "inlink", JoinKids(Wrap("L", x), <<NL>>)>> : x \in LeafBr \cup {NestBr} }
      \cup { <<"D5", "nest", Blk(w, NestBr)>> : w \in {"para", "ul", "cell", "div"} }
\* D6: EMPTY PARTS.  Argument lists of templates, parser functions (also the magic-word spellings),
\* argument references, links and external links in which all / some / only the first / only the
\* last / only the middle arguments are empty - an empty argument is the empty child list - or hold
\* a blank only, an empty named value, or a nested call whose own arguments are all empty; also an
\* empty name / target.  Each such node stands in every block context, inside every inline wrapper
\* (bold, italic, span, link text, external-link text, positional / named template argument,
\* parser-function argument, default of an argument reference; two wrappers deep at Depth >= 4) and
\* inside every outer block.  The tree read back must hold the same node kinds and the same argument
\* lists including the empty ones (Equiv, decided by TLC in Trace_Unparse).
ArgVal(v) ==
  CASE v = "E" -> <<>>                                   \* empty argument
    [] v = "S" -> <<S(<<"SP">>)>>                         \* a blank only
    [] v = "A" -> <<S(<<"a1">>)>>
    [] v = "K" -> <<S(<<"k", "=">>)>>                     \* named, empty value
    [] v = "N" -> <<Node("PARSER_FN", <<>>, <<<<S(<<"lc">>)>>, <<>>>>, <<>>, <<>>)>>   \* {{lc:}} as the argument
ArgPats(vals, lo, hi) == UNION { [1..n -> vals] : n \in lo..hi }
EmptyPats == {p \in ArgPats({"E", "A"}, 1, 3) : \E i \in 1..Len(p) : p[i] = "E"}
BlankPats == {<<"S">>, <<"S", "E">>, <<"E", "S">>, <<"S", "A">>, <<"A", "S">>, <<"K">>, <<"K", "E">>, <<"N">>, <<"N", "E">>, <<"E", "N">>}
ShortPats == {<<"E">>, <<"E", "E">>, <<"E", "E", "E">>, <<"E", "A">>, <<"A", "E">>}
CallOf(kind, name, p) == Node(kind, <<>>, <<name>> \o [i \in 1..Len(p) |-> ArgVal(p[i])], <<>>, <<>>)
EmptyCalls ==
  { CallOf("TEMPLATE", <<S(<<"t">>)>>, p) : p \in EmptyPats \cup BlankPats }
  \cup { CallOf("PARSER_FN", <<S(<<"#", "if">>)>>, p) : p \in EmptyPats \cup BlankPats }
  \cup { CallOf("PARSER_FN", <<S(nm)>>, p) : nm \in {<<"#", "switch">>, <<"lc">>, <<"PAGENAME">>}, p \in ShortPats }
  \cup { CallOf("TEMPLATE_ARG", <<S(<<"1">>)>>, p) : p \in {q \in ShortPats : Len(q) <= 2} \cup {<<"S">>} }
  \cup { CallOf("TEMPLATE_ARG", <<>>, p) : p \in {<<"E">>, <<"A">>} }                          \* {{{|}}} {{{|a1}}}
  \cup { CallOf("LINK", <<S(<<"l">>)>>, p) : p \in {q \in ShortPats : Len(q) <= 2} \cup {<<"S">>} }   \* [[l|]] ...
  \cup { CallOf("LINK", <<>>, <<"A">>) }                                                       \* [[|a1]]
  \cup { CallOf("URL", <<S(Url1)>>, <<"E">>) }                                                 \* [url ]
AllEmpty(e) == \A i \in 2..Len(e.largs) : e.largs[i] = <<>>
D6Blocks == IF Depth >= 4 THEN BlockW ELSE {"para", "title", "ul", "nested", "ddef", "cell", "hcell", "caption", "div", "li"}
D6Wrappers(e) == IF e.kind \in {"LINK", "URL"} THEN {"B", "I", "H", "T", "N", "P", "A"} ELSE {"B", "I", "H", "L", "E", "T", "N", "P", "A"}
D6Wrappers2(w1) == Wrappers({w1}) \ {"R"}
D6 == { <<"D6", w, Blk(w, <<e>>)>> : w \in D6Blocks, e \in EmptyCalls }
      \cup UNION { { <<"D6", "in" \o w, Blk("para", Wrap(w, <<e>>))>> : w \in D6Wrappers(e) } : e \in EmptyCalls }
      \cup UNION { { <<"D6", "mid" \o w, Blk("ul", J3(<<S(<<"p1", "SP">>)>>, Wrap(w, <<e>>), <<S(<<"SP", "q1">>)>>))>> : w \in D6Wrappers(e) \cap {"B", "T", "P"} } :
                   e \in {x \in EmptyCalls : AllEmpty(x)} }
      \cup { <<"D6", ow[1], Outer(ow[1], Blk(ow[2], <<e>>))>> :
               ow \in {v \in OuterW \X {"ul", "cell"} : InnerOK(v[1], v[2])}, e \in {x \in EmptyCalls : AllEmpty(x)} }
      \cup (IF Depth >= 4
            THEN UNION { UNION { { <<"D6", "in" \o w1 \o w2, Blk("para", Wrap(w1, Wrap(w2, <<e>>)))>> :
                                   w2 \in D6Wrappers(e) \cap D6Wrappers2(w1) } : w1 \in D6Wrappers(e) } : e \in EmptyCalls }
            ELSE {})


(* ---------------- compact hand-written rendering ---------------- *)
RECURSIVE Write(_), WriteList(_), WriteArgs(_, _)
WriteList(xs) == IF xs = <<>> THEN <<>> ELSE Write(Head(xs)) \o WriteList(Tail(xs))
WriteArgs(largs, sep) ==
  IF largs = <<>> THEN <<>> ELSE IF Len(largs) = 1 THEN WriteList(largs[1])
  ELSE WriteList(largs[1]) \o sep \o WriteArgs(Tail(largs), sep)
EndNL(t) == IF t # <<>> /\ t[Len(t)] = "NL" THEN t ELSE t \o <<"NL">>
Write(x) ==
  IF IsStr(x) THEN x.s
  ELSE
  LET kids == WriteList(x.children)
      at == AttrsText(x.attrs)
      \* content of a caption / cell: on the marker line, or below it when it starts with a block
      Body == IF x.children # <<>> /\ IsBlock(x.children[1]) THEN <<"NL">> \o kids
              ELSE IF x.children # <<>> /\ IsStr(x.children[1]) /\ x.children[1].s[1] = "NL" THEN kids
              ELSE <<"SP">> \o kids
      AttrPart == IF x.attrs = <<>> THEN <<>> ELSE <<"SP">> \o at \o <<"SP", "|">>
  IN CASE x.kind \in LevelKinds ->
            Eqs(LevelOf(x.kind)) \o WriteArgs(x.largs, <<>>) \o Eqs(LevelOf(x.kind)) \o kids
       [] x.kind = "HLINE" -> <<"-", "-", "-", "-">>
       [] x.kind = "TABLE" -> <<"{", "|">> \o (IF x.attrs = <<>> THEN <<>> ELSE <<"SP">> \o at) \o <<"NL">> \o kids \o <<"|", "}">>
       [] x.kind = "TABLE_CAPTION" -> EndNL(<<"|", "+">> \o AttrPart \o Body)
       [] x.kind = "TABLE_ROW" -> <<"|", "-">> \o (IF x.attrs = <<>> THEN <<>> ELSE <<"SP">> \o at) \o <<"NL">> \o kids
       [] x.kind = "TABLE_HEADER_CELL" -> EndNL(<<"!">> \o AttrPart \o Body)
       [] x.kind = "TABLE_CELL" -> EndNL(<<"|">> \o AttrPart \o Body)
       [] x.kind = "LIST_ITEM" ->
            IF x.defn = <<>> THEN x.sarg \o kids
            ELSE LET head == x.sarg \o kids IN
                 head \o (IF head[Len(head)] = "NL" THEN SubSeq(x.sarg, 1, Len(x.sarg) - 1) ELSE <<>>) \o <<":">> \o WriteList(x.defn[1])
       [] x.kind \in {"LINK", "URL", "TEMPLATE", "TEMPLATE_ARG", "PARSER_FN"} ->
            \* same spelling as the library, children written recursively
            (CASE x.kind = "LINK" -> <<"[", "[">> \o WriteArgs(x.largs, <<"|">>) \o <<"]", "]">> \o kids
              [] x.kind = "URL" -> <<"[">> \o WriteArgs(x.largs, <<"SP">>) \o <<"]">>
              [] x.kind = "TEMPLATE" -> <<"{", "{">> \o WriteArgs(x.largs, <<"|">>) \o <<"}", "}">>
              [] x.kind = "TEMPLATE_ARG" -> <<"{", "{", "{">> \o WriteArgs(x.largs, <<"|">>) \o <<"}", "}", "}">>
              [] x.kind = "PARSER_FN" -> <<"{", "{">> \o WriteList(x.largs[1]) \o <<":">> \o WriteArgs(Tail(x.largs), <<"|">>) \o <<"}", "}">>)
       [] x.kind = "HTML" ->
            <<"<">> \o x.sarg \o (IF x.attrs = <<>> THEN <<>> ELSE <<"SP">> \o at) \o <<">">> \o kids \o <<"<", "/">> \o x.sarg \o <<">">>
       [] x.kind = "BOLD" -> <<"'", "'", "'">> \o kids \o <<"'", "'", "'">>
       [] x.kind = "ITALIC" -> <<"'", "'">> \o kids \o <<"'", "'">>
       [] x.kind \in {"ROOT", "LIST"} -> kids
       [] x.kind = "PREFORMATTED" -> kids
       [] x.kind = "MAGIC_WORD" -> x.sarg

(* ---------------- D7: ADJACENCY of blocks ---------------- *)
\* D1-D6 keep the SEAM between two blocks fixed (the second block starts on the line after the
\* first one) and two lists with the same marker never follow each other.  D7 varies it: every
\* ordered pair (and some triples) of block kinds - lists of every marker kind and depth, a list
\* with a sub-list, a term with its definition line, table, heading, rule, paragraph line,
\* preformatted line, <div>, magic word - x the SEPARATOR between them (nothing but the line
\* break, one blank line, two blank lines, a line of blanks, a comment line followed by a blank
\* line, a comment line alone) at top level, under a heading, inside a table cell, inside a <div>
\* and inside a list item (every marker prefixed, below an item line).
\* The document is a sequence of ELEMENTS  [e, m, b, n]:
\*     e = "line"  a list line: marker m, text n          e = "blk"  a block of kind b, text n
\*     e = "sep"   separator b
\* ReadEls is the block level of the parser as a fold over the elements (list_fn's rules: a line
\* whose marker equals the marker of an open item is its sibling; one that extends it - ':' also
\* matches '*' / '#' - opens a sub-list; `;x` followed by `x:` is the definition; anything that is
\* not a list line closes every open list; a heading takes all that follows as its content).  It
\* gives the tree the document MUST have: in particular how many LIST nodes, with which items,
\* and which of them nested.  The hand-written spelling writes the elements one by one (with the
\* comment / the blanks), the second spelling is Unparse of the tree.
ListKinds == {"ul", "ol", "ind", "dt", "ul2", "ulol", "olind", "ulind", "deep", "dl"}
Markers(k) ==
  CASE k = "ul" -> << <<"*">>, <<"*">> >>          [] k = "ol" -> << <<"#">>, <<"#">> >>
    [] k = "ind" -> << <<":">> >>                   [] k = "dt" -> << <<";">> >>
    [] k = "ul2" -> << <<"*", "*">> >>              [] k = "ulol" -> << <<"*", "#">> >>
    [] k = "olind" -> << <<"#", ":">> >>            [] k = "ulind" -> << <<"*", ":">> >>
    [] k = "deep" -> << <<"*">>, <<"*", "*">> >>    [] k = "dl" -> << <<";">>, <<":">> >>
BlkKinds == {"para", "rule", "table", "pre", "div", "magic", "head"}
AdjKinds == ListKinds \cup BlkKinds
SepKinds == {"none", "nl", "nl2", "blanks", "cmt", "cmt0"}
Comment == <<"<", "!", "-", "-", "SP", "c1", "SP", "-", "-", ">">>
SepTree(s) == CASE s \in {"none", "cmt0"} -> <<>> [] s \in {"nl", "blanks", "cmt"} -> <<"NL">> [] s = "nl2" -> <<"NL", "NL">>
SepText(s) ==
  CASE s = "none" -> <<>> [] s = "nl" -> <<"NL">> [] s = "nl2" -> <<"NL", "NL">> [] s = "blanks" -> <<"SP", "SP", "NL">>
    [] s = "cmt" -> Comment \o <<"NL", "NL">> [] s = "cmt0" -> Comment \o <<"NL">>
El(e, m, b, n) == [e |-> e, m |-> m, b |-> b, n |-> n]
Els(k, tag) ==
  IF k \in ListKinds THEN [i \in 1..Len(Markers(k)) |-> El("line", Markers(k)[i], "", tag \o ToString(i))]
  ELSE <<El("blk", <<>>, k, tag \o "1")>>
SepEl(s) == <<El("sep", <<>>, s, "")>>
MagicWord == <<"_", "_", "NOTOC__">>
BlkKids(b, n) ==
  CASE b = "para" -> <<S(<<n, "NL">>)>>
    [] b = "rule" -> Rule
    [] b = "table" -> <<Table(A1, <<Row(<<>>, <<Cell("TABLE_CELL", <<>>, <<S(<<n>>)>>)>>)>>), NL>>
    [] b = "pre" -> <<N0("PREFORMATTED", <<S(<<"SP", n, "NL">>)>>)>>
    [] b = "div" -> <<Node("HTML", <<"div">>, <<>>, A1, <<S(<<n>>)>>), NL>>
    [] b = "magic" -> <<Node("MAGIC_WORD", MagicWord, <<>>, <<>>, <<>>), NL>>

Extends(p, q) == Len(p) < Len(q) /\ \A i \in 1..Len(p) : q[i] \in {":", p[i]}
OpenKids(it) == IF it.defn = <<>> THEN it.children ELSE it.defn[1]
SetOpenKids(it, kids) == IF it.defn = <<>> THEN [it EXCEPT !.children = kids] ELSE [it EXCEPT !.defn = <<kids>>]
IsListNode(c) == IsNode(c) /\ c.kind = "LIST"
RECURSIVE Attach(_, _, _)
\* the list line (m, x) read directly below the open list L: [ok, list]
Attach(L, m, x) ==
  LET n == Len(L.children)
      it == L.children[n]
      oc == OpenKids(it)
      k == Len(oc)
      deeper == IF k > 0 /\ IsListNode(oc[k]) THEN Attach(oc[k], m, x) ELSE [ok |-> FALSE, list |-> L]
      WithItem(it2) == [L EXCEPT !.children = [L.children EXCEPT ![n] = it2]]
  IN IF deeper.ok THEN [ok |-> TRUE, list |-> WithItem(SetOpenKids(it, [oc EXCEPT ![k] = deeper.list]))]
     ELSE IF it.sarg[Len(it.sarg)] = ";" /\ it.defn = <<>> /\ m = SubSeq(it.sarg, 1, Len(it.sarg) - 1) \o <<":">>
          THEN [ok |-> TRUE, list |-> WithItem([it EXCEPT !.defn = <<Line(x)>>])]
     ELSE IF it.sarg = m THEN [ok |-> TRUE, list |-> [L EXCEPT !.children = Append(L.children, Item(m, Line(x)))]]
     ELSE IF Extends(it.sarg, m) THEN [ok |-> TRUE, list |-> WithItem(SetOpenKids(it, Append(oc, List(m, <<Item(m, Line(x))>>))))]
     ELSE [ok |-> FALSE, list |-> L]
Place(out, el) ==
  LET n == Len(out) IN
  CASE el.e = "sep" -> IF SepTree(el.b) = <<>> THEN out ELSE JoinKids(out, <<S(SepTree(el.b))>>)
    [] el.e = "line" ->
         LET r == IF n > 0 /\ IsListNode(out[n]) THEN Attach(out[n], el.m, <<S(<<el.n>>)>>) ELSE [ok |-> FALSE, list |-> <<>>]
         IN IF r.ok THEN [out EXCEPT ![n] = r.list] ELSE Append(out, List(el.m, <<Item(el.m, Line(<<S(<<el.n>>)>>))>>))
    [] el.e = "blk" ->
         IF el.b = "pre" /\ n > 0 /\ IsNode(out[n]) /\ out[n].kind = "PREFORMATTED"
         THEN [out EXCEPT ![n] = [out[n] EXCEPT !.children = JoinKids(out[n].children, <<S(<<"SP", el.n, "NL">>)>>)]]
         ELSE JoinKids(out, BlkKids(el.b, el.n))
RECURSIVE ReadFrom(_, _, _)
ReadFrom(es, k, out) ==
  IF k > Len(es) THEN out
  ELSE IF es[k].e = "blk" /\ es[k].b = "head"
       THEN \* the section lasts up to the next heading (all headings here have the same level)
            LET later == {j \in k + 1..Len(es) : es[j].e = "blk" /\ es[j].b = "head"}
                stop == IF later = {} THEN Len(es) + 1 ELSE CHOOSE j \in later : \A j2 \in later : j <= j2
            IN ReadFrom(es, stop, Append(out, Sec(2, <<S(<<es[k].n>>)>>, JoinKids(<<NL>>, ReadFrom(SubSeq(es, k + 1, stop - 1), 1, <<>>)))))
       ELSE ReadFrom(es, k + 1, Place(out, es[k]))
ReadEls(es) == ReadFrom(es, 1, <<>>)
WriteEl(el) ==
  CASE el.e = "sep" -> SepText(el.b)
    [] el.e = "line" -> el.m \o <<"SP", el.n, "NL">>
    [] el.e = "blk" -> IF el.b = "head" THEN <<"=", "=", "SP", el.n, "SP", "=", "=", "NL">> ELSE WriteList(BlkKids(el.b, el.n))
RECURSIVE WriteEls(_)
WriteEls(es) == IF es = <<>> THEN <<>> ELSE WriteEl(Head(es)) \o WriteEls(Tail(es))
\* the elements inside a list item: below the line `* z1`, every marker prefixed with `*`
InItem(es) == <<El("line", <<"*">>, "", "z1")>> \o [i \in 1..Len(es) |-> IF es[i].e = "line" THEN [es[i] EXCEPT !.m = <<"*">> \o @] ELSE es[i]]
AdjCtx == {"top", "sec", "cell", "div", "item"}
CtxTree(c, es) ==
  CASE c = "top" -> ReadEls(es)
    [] c = "item" -> ReadEls(InItem(es))
    [] c \in {"sec", "cell", "div"} -> Outer(c, ReadEls(es))
CtxText(c, es) ==
  CASE c = "top" -> WriteEls(es)
    [] c = "item" -> WriteEls(InItem(es))
    [] c = "sec" -> <<"=", "=", "h1", "=", "=", "NL">> \o WriteEls(es)
    [] c = "cell" -> <<"{", "|", "NL", "|", "-", "NL", "|", "NL">> \o WriteEls(es) \o <<"|", "SP", "z1", "NL", "|", "}", "NL">>
    [] c = "div" -> <<"<", "div", "SP", "id", "=", "\"", "x1", "\"", ">", "NL">> \o WriteEls(es) \o <<"<", "/", "div", ">", "NL">>
AdjDoc(name, c, es) == <<"D7", name, CtxTree(c, es), CtxText(c, es)>>
Pair(k1, s, k2) == Els(k1, "a") \o SepEl(s) \o Els(k2, "b")
Triple(k1, s1, k2, s2, k3) == Els(k1, "a") \o SepEl(s1) \o Els(k2, "b") \o SepEl(s2) \o Els(k3, "c")
\* what stands where: a heading / magic word only at top level; in a list item only lists; the line
\* of blanks not next to a paragraph or preformatted line (it would continue / start preformatted text);
\* no table / div / magic word directly below a preformatted line
PairOK(c, k1, s, k2) ==
  /\ c # "top" => {k1, k2} \cap {"head", "magic"} = {}
  /\ c = "item" => {k1, k2} \subseteq ListKinds
  /\ s = "blanks" => {k1, k2} \cap {"para", "pre"} = {}
  /\ (k1 = "pre" /\ s \in {"none", "cmt0"}) => k2 \notin {"table", "div", "magic"}   \* (the parser keeps these inside the preformatted node)
ListQ == {"ul", "ol", "ind", "ul2", "olind", "deep"}
D7(z) ==
  IF Depth >= 4
  THEN UNION { { AdjDoc(c \o ":" \o q[2], c, Pair(q[1], q[2], q[3])) :
                   q \in {v \in AdjKinds \X SepKinds \X AdjKinds : PairOK(c, v[1], v[2], v[3])} } : c \in AdjCtx }
       \cup UNION { { AdjDoc(c \o ":" \o q[2] \o "+" \o q[4], c, Triple(q[1], q[2], q[3], q[4], q[1])) :
                        q \in {v \in ListKinds \X SepKinds \X AdjKinds \X SepKinds :
                                 /\ PairOK(c, v[1], v[2], v[3]) /\ PairOK(c, v[3], v[4], v[1])
                                 /\ c # "top" => {v[2], v[4]} \subseteq {"none", "nl"}} } : c \in {"top", "cell", "div"} }
  ELSE \* quick: the separators that give different TREES (none, one, two blank lines) everywhere; the spellings that give
       \* the tree of `nl` / `none` again (line of blanks, comment lines) only between two lists of the same kind
       { AdjDoc("top:" \o q[2], "top", Pair(q[1], q[2], q[3])) :
           q \in {v \in AdjKinds \X {"none", "nl", "nl2"} \X AdjKinds :
                    PairOK("top", v[1], v[2], v[3]) /\ ({v[1], v[3]} \cap ListKinds = {} => v[2] \in {"none", "nl"})} }
       \cup { AdjDoc("top:" \o q[2], "top", Pair(q[1], q[2], q[1])) : q \in ListKinds \X {"blanks", "cmt", "cmt0"} }
       \cup { AdjDoc(c \o ":" \o q[2], c, Pair(q[1], q[2], q[3])) :
                c \in {"cell", "div"}, q \in ListQ \X {"none", "nl", "nl2"} \X ListQ }
       \cup { AdjDoc(c \o ":" \o q[2], c, Pair(q[1], q[2], q[3])) :
                c \in {"cell", "div"},
                q \in {v \in (ListQ \cup {"table", "rule", "para", "div"}) \X {"nl"} \X (ListQ \cup {"table", "rule", "para", "div"}) :
                         Cardinality({v[1], v[3]} \cap ListQ) = 1} }
       \cup { AdjDoc("sec:nl", "sec", Pair(k1, "nl", k2)) : k1 \in ListQ, k2 \in ListQ }
       \cup { AdjDoc("item:" \o q[2], "item", Pair(q[1], q[2], q[3])) :
                q \in (ListKinds \X {"none"} \X ListKinds) \cup (ListQ \X {"nl"} \X ListQ) }
       \cup { AdjDoc("top:" \o q[2] \o "+" \o q[2], "top", Triple(q[1], q[2], q[3], q[2], q[1])) :
                q \in {v \in ListQ \X {"none", "nl"} \X AdjKinds : v[3] \in BlkKinds \/ v[3] = v[1]} }
       \cup { AdjDoc("top:" \o q[2] \o "+" \o q[3], "top", Triple(q[1], q[2], q[1], q[3], q[1])) :
                q \in ListKinds \X {"nl", "nl2"} \X {"nl", "nl2"} }
AllDocs(z) == D1 \cup D2 \cup D3 \cup D4 \cup D5 \cup D6 \cup D7(z)

(* ---------------- generator ---------------- *)
VARIABLES doc, done
Hash(d) == Len(Write(Doc(d[3])))
Init == doc \in {d \in AllDocs(0) : Hash(d) % Parts = Part} /\ done = FALSE
Next == ~done /\ done' = TRUE /\ UNCHANGED doc
Spec == Init /\ [][Next]_<<doc, done>>
GenInv ==
  done \/ LET t == Doc(doc[3]) IN
          IF Len(doc) = 4   \* D7: the hand-written spelling is given, the tree is the model's reading of it
          THEN PrintT(<<"CASE", ToJson([fam |-> doc[1], ctx |-> doc[2], w |-> doc[4], u |-> Unparse(t, {}), m |-> t])>>)
          ELSE PrintT(<<"CASE", ToJson([fam |-> doc[1], ctx |-> doc[2], w |-> Write(t), u |-> Unparse(t, {})])>>)

(* ---------------- SEAMS inside the model (Gen_Unparse_S.cfg: SpecS, one state) ---------------- *)
\* The block reader is also applied to the EMITTED text of every document made of list lines and
\* separators only (pairs and triples of all list kinds x all separators): split into lines, a line is
\* blank or `marker SP word`.  SeamRoundTrip: with the ideal emitter the tree read back is equivalent to
\* the tree written, twice, and the hand-written spelling reads as the same tree.  SeamWhatIfs: an
\* emitter that does not write the blank-only string between two own-line nodes breaks it when LIST
\* counts as such a node (TLC prints the shortest witness and how many documents come back with merged
\* / re-nested lists), and does not when LIST is left out.
RECURSIVE SplitLines(_, _)
SplitLines(t, cur) ==
  IF t = <<>> THEN (IF cur = <<>> THEN <<>> ELSE <<cur>>)
  ELSE IF Head(t) = "NL" THEN <<cur>> \o SplitLines(Tail(t), <<>>) ELSE SplitLines(Tail(t), Append(cur, Head(t)))
RECURSIVE MarkerRun(_)
MarkerRun(l) == IF l # <<>> /\ Head(l) \in {"*", "#", ":", ";"} THEN <<Head(l)>> \o MarkerRun(Tail(l)) ELSE <<>>
RECURSIVE NoBlank(_)
NoBlank(l) == IF l = <<>> THEN <<>> ELSE IF Head(l) = "SP" THEN NoBlank(Tail(l)) ELSE <<Head(l)>> \o NoBlank(Tail(l))
LineToEl(l) ==
  IF NoBlank(l) = <<>> THEN El("sep", <<>>, "nl", "")
  ELSE IF l[1] = "<" THEN El("sep", <<>>, "none", "")        \* the comment line: nothing
  ELSE El("line", MarkerRun(l), "", l[Len(l)])
ReadText(t) == LET ls == SplitLines(t, <<>>) IN ReadEls([i \in 1..Len(ls) |-> LineToEl(ls[i])])
SeamDocs(z) ==
  { Pair(q[1], q[2], q[3]) : q \in ListKinds \X SepKinds \X ListKinds }
  \cup { Triple(q[1], q[2], q[1], q[3], q[1]) : q \in ListKinds \X SepKinds \X SepKinds }
  \cup { InItem(Pair(q[1], q[2], q[3])) : q \in ListKinds \X {"none", "nl"} \X ListKinds }
SeamRT(es, Dev) ==
  LET t1 == Doc(ReadEls(es))
      t2 == Doc(ReadText(Unparse(t1, Dev)))
      t3 == Doc(ReadText(Unparse(t2, Dev)))
  IN Equiv(t2, t1) /\ Equiv(t3, t2)
RECURSIVE CountLists(_, _), CountListsKids(_, _)
CountListsKids(kids, mode) == IF kids = <<>> THEN 0 ELSE CountLists(Head(kids), mode) + CountListsKids(Tail(kids), mode)
\* number of LIST nodes: mode "all" = all of them; "top" = only those inside a list item ("in" below one)
CountLists(x, mode) ==
  IF IsStr(x) THEN 0
  ELSE LET below == IF mode = "top" /\ x.kind = "LIST_ITEM" THEN "in" ELSE mode IN
       (IF x.kind = "LIST" /\ mode \in {"all", "in"} THEN 1 ELSE 0) + CountListsKids(x.children, below)
         + (IF x.defn = <<>> THEN 0 ELSE CountListsKids(x.defn[1], below))
SeamRoundTrip(z) ==
  \A es \in SeamDocs(z) :
     \/ SeamRT(es, {}) /\ Equiv(Doc(ReadText(WriteEls(es))), Doc(ReadEls(es)))
     \/ ~PrintT(<<"SEAMFAIL", ToJson([text |-> WriteEls(es)])>>)
SeamWhatIfs(z) ==
  /\ LET d == "BlankBetweenOwnLineNodesDropped"
         W0 == {es \in SeamDocs(z) : ~SeamRT(es, {d})}
         Back(es) == Doc(ReadText(Unparse(Doc(ReadEls(es)), {d})))
         merged == {es \in W0 : CountLists(Back(es), "all") < CountLists(Doc(ReadEls(es)), "all")}
         nested == {es \in W0 : CountLists(Back(es), "top") > CountLists(Doc(ReadEls(es)), "top")}
     IN /\ W0 # {}
        /\ LET es == CHOOSE q \in W0 : \A r \in W0 : Len(WriteEls(q)) <= Len(WriteEls(r))
           IN PrintT(<<"SEAMWHATIF", ToJson([dev |-> d, docs |-> Cardinality(SeamDocs(z)), broken |-> Cardinality(W0),
                                             merged |-> Cardinality(merged), nested |-> Cardinality(nested),
                                             text |-> WriteEls(es), emitted |-> Unparse(Doc(ReadEls(es)), {d})])>>)
  /\ LET d == "BlankBetweenOwnLineNodesDroppedExceptLists"
         W0 == {es \in SeamDocs(z) : ~SeamRT(es, {d})}
     IN PrintT(<<"SEAMWHATIF", ToJson([dev |-> d, docs |-> Cardinality(SeamDocs(z)), broken |-> Cardinality(W0), merged |-> 0, nested |-> 0,
                                       text |-> <<>>, emitted |-> <<>>])>>)
Seams == done => (SeamRoundTrip(0) /\ SeamWhatIfs(0))
InitS == doc = <<"S", "", <<>>>> /\ done = TRUE
SpecS == InitS /\ [][Next]_<<doc, done>>

(* ---------------- laws of the emitter model, checked on every document ---------------- *)
RECURSIVE HasPair(_, _)
HasPair(s, ch) == Len(s) >= 2 /\ ((s[1] = ch /\ s[2] = ch) \/ HasPair(Tail(s), ch))
\* text children never leave a literal [[ or ]] in the emitted text
RECURSIVE TextsOf(_), TextsOfKids(_)
TextsOfKids(kids) == UNION {TextsOf(kids[i]) : i \in 1..Len(kids)}
TextsOf(x) == IF IsStr(x) THEN {x.s} ELSE TextsOfKids(x.children) \cup UNION {TextsOfKids(x.largs[i]) : i \in 1..Len(x.largs)}
                                       \cup UNION {TextsOfKids(x.defn[i]) : i \in 1..Len(x.defn)}
Laws ==
  done \/ LET t == Doc(doc[3]) IN
          /\ \A s \in TextsOf(t) : ~HasPair(Protect(s), "[") /\ ~HasPair(Protect(s), "]")
          /\ Equiv(t, t)
          /\ Norm(t) = Norm([t EXCEPT !.children = JoinKids(<<NL>>, JoinKids(t.children, <<NL>>))])   \* outer blank lines are not significant
=============================================================================
