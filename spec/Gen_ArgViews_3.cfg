SPECIFICATION Spec
CONSTANTS
  MaxLen = 3
  Known <- KnownC14
INVARIANT GenInv
CHECK_DEADLOCK FALSE
