SPECIFICATION Spec
CONSTANTS
  Dev <- DevPcall
  B = 3
  RecMax = 1
  Bodies <- BodiesTight
  Kinds <- KindsAll
  MaxDepth = 1
  Progs <- P_deeploop
INVARIANT NeverAborted
CHECK_DEADLOCK FALSE
