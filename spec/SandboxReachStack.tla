------------------------- MODULE SandboxReachStack -------------------------
(* The sandbox BOOKKEEPING as attacker-controlled state (property C06).     *)
(*                                                                          *)
(* SandboxReachLoad models the environment a chunk of page source is bound  *)
(* to as "the environment the entry point asked for" under a WELL-FORMED    *)
(* environment stack: whatever _python_top_env() answers is the clone made  *)
(* by _lua_invoke for the running invocation.  That stack, however, is not  *)
(* private to the dispatcher: every module environment contains the helpers *)
(* the sandbox uses for its own bookkeeping (_python_append_env,            *)
(* _python_top_env, _lua_reset_env, _new_loader, _new_loadData, _cached_mod,*)
(* _save_mod, _lua_set_timeout, ...), and page code may call them with      *)
(* hostile arguments, in any order, BEFORE it uses an entry point:          *)
(*                                                                          *)
(*   _python_append_env(v)  appends whatever it is given (nil, false, a     *)
(*                          number, a table made by page code); the         *)
(*                          dispatcher pops only what lies above the level  *)
(*                          at which the invocation started                 *)
(*   _lua_reset_env()       empties package.loaded                          *)
(*   _save_mod(T, v)        plants a value in package.loaded                *)
(*   _new_loader(T, E)      binds the chunk of T to a table of its choice   *)
(*                                                                          *)
(* and page code can even run while the stack is REALLY empty: a module of  *)
(* an earlier invocation leaves a metatable trap on a table that survives   *)
(* the environment reset (require("mw") hands out the retained one); the    *)
(* trap fires inside the reset of the next top-level #invoke, before the    *)
(* dispatcher pushed anything.  What is pushed THEN is never popped (until  *)
(* the next page) and switches the environment reset off.                   *)
(*                                                                          *)
(* The loader paths all have the form  "_python_top_env() or <fallback>":   *)
(*   new_loader (require, _new_loader(T), package.loaders[2])               *)
(*                       mod_env = top or env       (env = sandbox base)    *)
(*   _lua_invoke         mod_env = clone(top or _G) (phase 2 is loaded      *)
(*                       inside the sandbox: _G there is the sandbox base)  *)
(*   new_loadData        mod_env = clone(env)       (never asks the stack)  *)
(* In phase 1 (executed in the real Lua globals) the very same spelling     *)
(* "or _G" denotes the HOST table.  The fallbacks are therefore modelled    *)
(* explicitly (LoaderFallback, DataBase, InvokeFallback), the stack as a    *)
(* sequence of values page code may extend, and a case is                   *)
(*                                                                          *)
(*   context of the page code x history of (manipulation | load) steps      *)
(*                                                                          *)
(*   context   inv     module code of a top-level #invoke   stack <<inv>>   *)
(*             nested  module code of a nested #invoke      <<inv, nest>>   *)
(*             reset   trap firing in the environment reset <<>>            *)
(*   step      [k, a, b]: push v | reset | save | noop h | npush v (a       *)
(*             nested invocation pushes v and returns: the dispatcher pops  *)
(*             it) | load e;  b = same / a later top-level #invoke / a      *)
(*             later page (the stack is cleared by start_page only)         *)
(*                                                                          *)
(* Property (StackConfined): WHATEVER page code does to the bookkeeping, no *)
(* chunk of page source runs in the host table or a clone of it and no      *)
(* forbidden name becomes visible to page code.                             *)
(* Declarative reference: a chunk runs in a table page code itself put      *)
(* there, in the environment of the running invocation, or in (a clone of)  *)
(* the sandbox base environment (ChunkEnvFromSandbox); when the top of the  *)
(* stack is nil / false / missing the loader falls back to the sandbox base *)
(* (FallbackIsBase); the environment of a data module never depends on the  *)
(* stack (DataEnvIgnoresStack); an invocation leaves nothing on the stack   *)
(* (ResidueOnlyFromReset).                                                  *)
(*                                                                          *)
(* Bounds: MaxLen steps, of which at most MaxLoads loads; a later invocation *)
(* (b # "same") is always a load: it looks at what was left behind.         *)
(*                                                                          *)
(* Deviation switches (dev):                                                *)
(*   HostFallbackLoader    new_loader: "top or <host table>" (the table     *)
(*                         itself, not a clone: global writes land in it)   *)
(*   DataEnvFromStack      new_loadData clones "top or <base>" instead of   *)
(*                         the base environment                             *)
(*   HostFallbackLoadData  (modifier of DataEnvFromStack) ... "top or       *)
(*                         <host table>"                                    *)
(*   FallbackNilOnly       (modifier) the fallback is taken for nil only    *)
(*                         ("if top == nil"): false is used as it is        *)
EXTENDS SandboxReachLoad

CONSTANTS
  Contexts,   \* subset of AllContexts
  Manips,     \* subset of AllManips
  MaxLoads    \* bound on the number of load steps of a history (MaxLen bounds all steps)

(* ---------------------------------------------------------------- atoms *)
AllContexts == {"inv", "nested", "reset"}
\* what page code can hand to _python_append_env: nothing, false, a non-table, a table of its own making
PushVals == {"nil", "false", "scalar", "foreign"}
\* helpers of the module environment that touch bookkeeping without influencing which environment a chunk gets
NoopHelpers == {"_lua_set_timeout", "_lua_clear_timeout_hook", "_lua_set_python_loader", "_lua_io_flush"}
M(k, a) == [k |-> k, a |-> a]
AllManips == {M("push", v) : v \in PushVals} \cup {M("npush", v) : v \in {"nil", "foreign"}}
             \cup {M("reset", "-"), M("save", "-")} \cup {M("noop", h) : h \in NoopHelpers}
\* entry points page code can use from inside a module (the top-level ones are what starts a context)
StackEntries == {"nested", "require", "loadData", "loadJsonData", "loader", "pkgloader", "loaderenv", "cachedmod"}
\* every helper of a module environment the model knows, with its role (the harness compares with the live environment)
HelperRoles == [_python_append_env |-> "push", _python_top_env |-> "observe", _lua_reset_env |-> "reset",
                _save_mod |-> "save", _cached_mod |-> "load:cachedmod", _new_loader |-> "load:loader,loaderenv,pkgloader",
                _new_loadData |-> "load:loadData", _new_loadJsonData |-> "load:loadJsonData",
                _lua_set_timeout |-> "noop", _lua_clear_timeout_hook |-> "noop", _lua_set_python_loader |-> "noop",
                _lua_io_flush |-> "noop", _mw_clone |-> "pure", _orig_format |-> "pure", _orig_gsub |-> "pure",
                _orig_insert |-> "pure", _orig_next |-> "pure", _orig_tostring |-> "pure"]

\* a global only the table made by page code has: lets the probe tell (clones of) that table from the sandbox environments
Marker == "c06foreign"

(* ------------------------------------------------------------ environments *)
\*   base                the sandbox environment built by _lua_reset_env (shared)
\*   inv, nest, nest2    clones made by _lua_invoke (top level, nested, nested in nested)
\*   data                clone of base made by new_loadData
\*   foreign, fclone     a table made by page code (copy of its own environment + Marker) and clones of it
\*   pagedata            not an environment: a value planted with _save_mod
\*   HOST, HOSTCLONE     the real global table and copies of it
\*   scalar              not a table: setfenv refuses it
CloneInv(e) ==
  CASE e = "base" -> "inv" [] e = "inv" -> "nest" [] e \in {"nest", "nest2"} -> "nest2"
    [] e \in {"foreign", "fclone"} -> "fclone" [] e \in {"HOST", "HOSTCLONE"} -> "HOSTCLONE"
    [] e = "data" -> "data" [] OTHER -> e
CloneData(e) == IF e = "base" THEN "data" ELSE CloneInv(e)
SandboxEnvs == {"base", "inv", "nest", "nest2", "data", "foreign", "fclone"}
Visible2(e) == Visible(e) \cup (IF e \in {"foreign", "fclone"} THEN {Marker} ELSE {})

(* ------------------------------------------------------------------ stack *)
TopVal(stk) == IF stk = <<>> THEN "nil" ELSE stk[Len(stk)]
\* Lua truth: "x or y" takes y for nil and false only
Falsy(dev, v) == v = "nil" \/ (v = "false" /\ "FallbackNilOnly" \notin dev)
TopOr(dev, stk, fb) == IF Falsy(dev, TopVal(stk)) THEN fb ELSE TopVal(stk)
\* what type(_python_top_env()) tells page code / what the Python side finds on the deque
TypeOf(v) == CASE v = "nil" -> "nil" [] v = "false" -> "boolean" [] v = "scalar" -> "number" [] OTHER -> "table"
Bindable(e) == e \notin {"scalar", "false", "nil"}

(* -------------------------------------------- the fallbacks of the loader paths *)
\* new_loader: mod_env = _python_top_env() or env
LoaderFallback(dev) == IF "HostFallbackLoader" \in dev THEN "HOST" ELSE "base"
LoaderEnv(dev, stk) == TopOr(dev, stk, LoaderFallback(dev))
\* _lua_invoke: mod_env = _mw_clone(_python_top_env() or _G); _G of phase 2 is the sandbox base
InvokeFallback == "base"
InvokeEnv(stk) == CloneInv(TopOr({}, stk, InvokeFallback))
\* new_loadData: mod_env = mw_clone(env)
DataBase(dev) == IF "HostFallbackLoadData" \in dev THEN "HOST" ELSE "base"
DataEnvS(dev, stk) ==
  IF "DataEnvFromStack" \in dev THEN CloneData(TopOr(dev, stk, DataBase(dev)))
  ELSE CloneData(DataBase(dev))

(* ------------------------------------------------------------------ state *)
\* st caches [lc, pl, dc]; stk the stack as page code finds it; keep = how much of it survives the end of the
\* running top-level invocation; sticky = page code runs outside any invocation (what it pushes stays)
SS(st, stk, keep, sticky) == [st |-> st, stk |-> stk, keep |-> keep, sticky |-> sticky]
SS0 == SS(St0, <<>>, 0, FALSE)
Residue(S) == SubSeq(S.stk, 1, S.keep)

\* a top-level #invoke starts (b = "invoke": later on the same page; "page": after start_page)
Begin(S, cx, b) ==
  LET R == IF b = "page" THEN <<>> ELSE Residue(S)          \* start_page clears the stack
      st1 == IF b = "page" THEN Cross(S.st, "page") ELSE S.st
      \* call_lua_sandbox: the environment is reset (package.loaded emptied) only when the stack is empty
      st2 == IF R = <<>> THEN Cross(st1, "invoke") ELSE st1
      e1 == InvokeEnv(R)
  IN CASE cx = "inv" -> SS(st2, Append(R, e1), Len(R), FALSE)
       [] cx = "nested" -> SS(st2, R \o <<e1, CloneInv(e1)>>, Len(R), FALSE)
       [] cx = "reset" -> SS(st2, R, Len(R), TRUE)            \* inside the reset: nothing pushed yet

(* ----------------------------------------------------------- entry points *)
\* setfenv(fn, <not a table>) raises before the chunk is cached or called
SNewLoader(dev, st, s, modenv) ==
  IF ~Bindable(modenv) THEN L(FALSE, "base", "nil", st) ELSE NewLoader(dev, st, s, modenv)

SInvoke(dev, st, s, envNew) ==
  IF st.pl.has
  THEN O(IF st.pl.kind = "table" THEN "text" ELSE "error", {}, FnEnv(st.pl), st)
  ELSE LET ld == SNewLoader(dev, st, s, envNew) IN
       IF ~ld.ok THEN O("error", {}, {}, ld.st)
       ELSE IF ld.kind \in {"raise", "nil"} THEN O("error", {ld.env}, {}, ld.st)
       ELSE LET v == Val(ld.kind, ld.env) IN
            O(IF ld.kind = "table" THEN "text" ELSE "error", {ld.env}, FnEnv(v), [ld.st EXCEPT !.pl = v])

SRequire(dev, st, s, e) ==
  IF st.pl.has THEN O(st.pl.kind, {}, Carried(st.pl), st)
  ELSE LET ld == SNewLoader(dev, st, s, e) IN
       IF ~ld.ok THEN O("error", {}, {}, ld.st)
       ELSE IF ld.kind = "raise" THEN O("error", {ld.env}, {}, ld.st)
       ELSE IF ld.kind = "nil" THEN O("nil", {ld.env}, {}, ld.st)
       ELSE LET v == Val(ld.kind, ld.env) IN O(ld.kind, {ld.env}, Carried(v), [ld.st EXCEPT !.pl = v])

SLoadData(dev, st, s, e) ==
  IF st.dc.has THEN O(st.dc.kind, {}, Carried(st.dc), st)
  ELSE LET ld == SNewLoader(dev, st, s, e) IN
       IF ~ld.ok THEN O("error", {}, {}, ld.st)
       ELSE IF ld.kind = "raise" THEN O("error", {ld.env}, {}, ld.st)
       ELSE IF ld.kind = "nil" THEN O("nil", {ld.env}, {}, ld.st)
       ELSE LET v == Val(ld.kind, ld.env) IN O(ld.kind, {ld.env}, Carried(v), [ld.st EXCEPT !.dc = v])

SLoaderCall(dev, st, s, e) ==
  LET ld == SNewLoader(dev, st, s, e) IN
  IF ~ld.ok THEN O("error", {}, {}, ld.st)
  ELSE IF ld.kind = "raise" THEN O("error", {ld.env}, {}, ld.st)
  ELSE O(ld.kind, {ld.env}, Carried(Val(ld.kind, ld.env)), ld.st)

\* _cached_mod(T): whatever package.loaded holds; never loads
CachedMod(st) == IF st.pl.has THEN O(st.pl.kind, {}, Carried(st.pl), st) ELSE O("nil", {}, {}, st)

SEnter(dev, S, s, e) ==
  CASE e = "nested" -> SInvoke(dev, S.st, s, InvokeEnv(S.stk))
    [] e = "require" -> SRequire(dev, S.st, s, LoaderEnv(dev, S.stk))
    [] e \in {"loader", "pkgloader"} -> SLoaderCall(dev, S.st, s, LoaderEnv(dev, S.stk))
    [] e = "loaderenv" -> SLoaderCall(dev, S.st, s, "foreign")      \* _new_loader(T, <table made by page code>)
    [] e = "loadData" -> SLoadData(dev, S.st, s, DataEnvS(dev, S.stk))
    [] e = "loadJsonData" -> LoadJson(dev, S.st, s)
    [] e = "cachedmod" -> CachedMod(S.st)

\* the environment the design demands for the chunk of this load (declarative reference, ideal fallbacks)
RequestedEnvS(top, e) ==
  CASE e = "nested" -> CloneInv(IF top \in {"nil", "false"} THEN "base" ELSE top)
    [] e \in {"require", "loader", "pkgloader"} -> IF top \in {"nil", "false"} THEN "base" ELSE top
    [] e = "loaderenv" -> "foreign"
    [] e = "loadData" -> "data"
    [] OTHER -> "none"

(* ------------------------------------------------------------------ steps *)
Push(S, v) == [S EXCEPT !.stk = Append(@, v), !.keep = IF S.sticky THEN @ + 1 ELSE @]

SOutOf(o, S2) ==
  [got |-> o.got,
   ran |-> o.chunkenv # {},
   cenv |-> o.chunkenv,
   envs |-> o.chunkenv \cup o.fnenv,
   sees |-> UNION {Visible2(x) : x \in o.chunkenv \cup o.fnenv},
   hostwrite |-> \E x \in o.chunkenv : IsHostTable(x),
   top |-> TypeOf(TopVal(S2.stk)),                               \* what type(_python_top_env()) says afterwards
   residue |-> [i \in 1..S2.keep |-> TypeOf(S2.stk[i])]]         \* what the deque holds when the invocation has ended
Quiet(S2) == SOutOf(O("ok", {}, {}, S2.st), S2)

\* x = [k, a, b]; pre = top of the stack as the step finds it
SStep(dev, S, s, x) ==
  LET S1 == IF x.b = "same" THEN S ELSE Begin(S, "inv", x.b) IN
  CASE x.k = "load" ->
         (LET o == SEnter(dev, S1, s, x.a)
              S2 == [S1 EXCEPT !.st = o.st]
          IN [S |-> S2, out |-> SOutOf(o, S2), pre |-> TopVal(S1.stk)])
    [] x.k = "push" -> (LET S2 == Push(S1, x.a) IN [S |-> S2, out |-> Quiet(S2), pre |-> TopVal(S1.stk)])
    \* pushed by a nested invocation that returns: call_lua_sandbox pops down to the level it started at
    [] x.k = "npush" -> [S |-> S1, out |-> Quiet(S1), pre |-> TopVal(S1.stk)]
    [] x.k = "reset" -> (LET S2 == [S1 EXCEPT !.st.pl = NoVal] IN [S |-> S2, out |-> Quiet(S2), pre |-> TopVal(S1.stk)])
    [] x.k = "save" -> (LET S2 == [S1 EXCEPT !.st.pl = Val("string", "pagedata")]
                        IN [S |-> S2, out |-> Quiet(S2), pre |-> TopVal(S1.stk)])
    [] x.k = "noop" -> [S |-> S1, out |-> Quiet(S1), pre |-> TopVal(S1.stk)]

RECURSIVE SRunFrom(_, _, _, _, _)
SRunFrom(dev, S, s, steps, i) ==
  IF i > Len(steps) THEN <<>>
  ELSE LET r == SStep(dev, S, s, steps[i]) IN <<r.out>> \o SRunFrom(dev, r.S, s, steps, i + 1)
SRun(dev, cx, s, steps) == SRunFrom(dev, Begin(SS0, cx, "page"), s, steps, 1)

(* ------------------------------------------------------------------ *)
(* the state machine (shape, lst, hist are those of SandboxReachLoad)  *)
(* ------------------------------------------------------------------ *)
VARIABLES
  cx,    \* the context in which the page code of the first segment runs
  sst    \* [st, stk, keep, sticky]

stvars == <<shape, lst, hist, cx, sst>>

\* what page code can do next.  In the reset context there is no frame (no nested invocation) and a non-table left on
\* the stack for good makes every later invocation fail before any page code runs (nothing left to observe).
Allowed(S, x) ==
  /\ (S.sticky /\ x.b = "same") => ~(x.k = "npush" \/ (x.k = "load" /\ x.a = "nested") \/ (x.k = "push" /\ x.a = "scalar"))
  /\ x.b # "same" => x.k = "load"          \* a later invocation is there to look at what was left behind
  \* a nested invocation cannot even start under a non-table top (setfenv refuses it: see SNewLoader): nothing to pop
  /\ x.k = "npush" => TopVal(S.stk) # "scalar"
StepsS(k) ==
  {[k |-> m.k, a |-> m.a, b |-> "same"] : m \in Manips}
  \cup {[k |-> "load", a |-> e, b |-> b] : e \in Entries, b \in IF k = 1 THEN {"same"} ELSE Bounds}

STInit == /\ shape \in Shapes /\ cx \in Contexts
          /\ sst = Begin(SS0, cx, "page") /\ lst = St0 /\ hist = <<>>

STDo(x) ==
  LET r == SStep(Dev, sst, shape, x)
  IN /\ hist' = Append(hist, [step |-> x, out |-> r.out, pre |-> r.pre])
     /\ sst' = r.S
     /\ lst' = r.S.st
     /\ UNCHANGED <<shape, cx>>

NLoads == Cardinality({i \in DOMAIN hist : hist[i].step.k = "load"})
STNext == Len(hist) < MaxLen
          /\ \E x \in StepsS(Len(hist) + 1) : Allowed(sst, x) /\ (x.k = "load" => NLoads < MaxLoads) /\ STDo(x)
STSpec == STInit /\ [][STNext]_stvars

(* ---- the property ---- *)
StackConfined ==
  \A i \in DOMAIN hist : /\ hist[i].out.sees \cap ForbiddenNames = {}
                         /\ ~hist[i].out.hostwrite
                         /\ \A x \in hist[i].out.envs : x \notin {"HOST", "HOSTCLONE"}

(* ---- declarative reference ---- *)
ChunkEnvFromSandbox == \A i \in DOMAIN hist : hist[i].out.cenv \subseteq SandboxEnvs
\* the chunk body runs in the environment this entry point asks for, given what page code made of the stack
RunsInRequestedEnvS ==
  \A i \in DOMAIN hist : (hist[i].step.k = "load" /\ hist[i].out.ran) =>
     hist[i].out.cenv = {RequestedEnvS(hist[i].pre, hist[i].step.a)}
FallbackIsBase ==
  \A i \in DOMAIN hist : (hist[i].step.k = "load" /\ hist[i].out.ran
                          /\ hist[i].pre \in {"nil", "false"} /\ hist[i].step.a \in {"require", "loader", "pkgloader"})
                         => hist[i].out.cenv = {"base"}
DataEnvIgnoresStack ==
  \A i \in DOMAIN hist : (hist[i].step.k = "load" /\ hist[i].step.a = "loadData" /\ hist[i].out.ran) => hist[i].out.cenv = {"data"}
\* module code of an invocation cannot leave anything on the stack: only page code running outside one can
ResidueOnlyFromReset == sst.keep > 0 => cx = "reset"
SRunAgrees == [i \in DOMAIN hist |-> hist[i].out] = SRun(Dev, cx, shape, [i \in DOMAIN hist |-> hist[i].step])
TypeOKS == /\ sst.keep <= Len(sst.stk) /\ lst = sst.st
           /\ \A i \in DOMAIN hist : hist[i].out.top \in {"nil", "boolean", "number", "table"}
=============================================================================
