SPECIFICATION SSpec
CONSTANTS
  PfxNs <- T_PfxNs
  CanonPfx <- T_CanonPfx
  UpperOf <- T_UpperOf
  ArgU <- NoArgs
  Dev <- DevIdeal
  TplNs = 10
  MaxN = 8
  MaxRedirects = 8
  Combos <- CombosQ
  HistKinds <- KindsQ
  Parts = 1
  Part = 0
  MaxLen = 14
INVARIANT SimInv
CHECK_DEADLOCK FALSE
