--------------------------- MODULE Gen_Includable ---------------------------
EXTENDS Includable, Json
CONSTANTS MaxTok, MaxSeg, Mode     \* Mode = "soup" | "segs"
Tags == {"NO", "NC", "IO", "IC", "OO", "OC", "OS", "CO", "CC"}
Toks == Tags \cup {"a", "b"}
Soups == UNION { [1..n -> Toks] : n \in 0..MaxTok }
Wrappers == {"plain", "noinclude", "includeonly", "onlyinclude", "comment"}
Contents == { <<>>, <<"a">>, <<"b", "a">> }
\* a comment may mention wrapper tags (maintainer notes): it stays a comment, the tags in it are inert
CommentContents == Contents \cup { <<"NO">>, <<"NC">>, <<"a", "NO", "b">>, <<"OO">>, <<"OC">>, <<"IO">> }
SegU == [w : Wrappers \ {"comment"}, c : Contents] \cup [w : {"comment"}, c : CommentContents]
SegLists == UNION { [1..n -> SegU] : n \in 0..MaxSeg }
VARIABLE case
Init == IF Mode = "soup" THEN case \in { [toks |-> s] : s \in Soups } ELSE case \in { [segs |-> g] : g \in SegLists }
Next == UNCHANGED case
Spec == Init /\ [][Next]_case
\* the transcribed code meets the reference on every well-formed, non-nested body
Law == Mode = "segs" => TemplateToBody(RenderSegs(case.segs)) = RefIncludable(case.segs)
\* the result never contains a tag of a removed construct when the input was well-formed
Emit == IF Mode = "soup"
        THEN PrintT(<<"CASE", ToJson([toks |-> case.toks, out |-> TemplateToBody(case.toks), wf |-> FALSE])>>)
        ELSE PrintT(<<"CASE", ToJson([toks |-> RenderSegs(case.segs), out |-> RefIncludable(case.segs), wf |-> TRUE])>>)
GenInv == Law /\ Emit
=============================================================================
