SPECIFICATION Spec
CONSTANTS
  Procs <- P2
  Dev <- DevKeepsWal
  Scenarios <- ScnRestoreLiveQ
INVARIANT NoFailure
INVARIANT SerialResults
INVARIANT StoreUnchanged
INVARIANT NoDeadlock
CHECK_DEADLOCK FALSE
