------------------------------- MODULE Unparse -------------------------------
(* Abstract parse trees of wikitextprocessor, the TLA+ transcription of      *)
(* node_expand.to_wikitext / to_attrs (one CASE arm per node kind, written   *)
(* from node_expand.py:41-208), and the equivalence of property C19/C03:     *)
(* "same nodes, arguments, attributes and text up to whitespace at block     *)
(* boundaries".                                                              *)
(*                                                                           *)
(*   atom   : STRING.  "SP" = one blank, "NL" = one newline, a word          *)
(*            [A-Za-z0-9][A-Za-z0-9_.~-]* is one atom, every other character *)
(*            is its own atom (canonical tokenisation, harness/ptree2.py).   *)
(*   child  : [s |-> Seq(atom)]                       a string child         *)
(*          | [kind, sarg : Seq(atom), largs : Seq(Seq(child)),              *)
(*             attrs : Seq([n |-> STRING, v |-> STRING]),                    *)
(*             children : Seq(child), defn : Seq(Seq(child))]   a WikiNode   *)
(*            (defn = <<>> when node.definition is None, else <<definition>>)*)
(*                                                                           *)
(* `Dev` (a set of names) selects as-is behaviours that deviate from the     *)
(* property; Dev = {} is the ideal (repaired) emitter.                       *)
EXTENDS Naturals, Sequences, FiniteSets, TLC

WS == {"SP", "NL"}
IsStr(c) == "s" \in DOMAIN c
IsNode(c) == "kind" \in DOMAIN c
IsList(c) == "list" \in DOMAIN c      \* [list |-> Seq(child)]: a list handed to node_to_wikitext
Str(atoms) == [s |-> atoms]
Node(kind, sarg, largs, attrs, children) ==
  [kind |-> kind, sarg |-> sarg, largs |-> largs, attrs |-> attrs, children |-> children, defn |-> <<>>]
Attr(n, v) == [n |-> n, v |-> v]

AllUnparseDevs == {"CaptionContentOnOwnLine", "DefinitionDropped"}
\* What-if switches (never part of a Dev the harness passes; MC_Unparse_E.cfg lets TLC show that
\* each of them breaks the in-model round trip on the empty-part universe): ways an emitter can
\* mistake an EMPTY argument (the empty child list) for an ABSENT one
\*   "ColonNeedsNonEmptyArgument"     the ':' after a parser-function name only when some argument has content
\*   "TrailingEmptyArgumentsDropped"  separators of empty arguments at the end of a list are not written
\*   "EmptyArgumentsSkipped"          only arguments with content are joined
WhatIfEmptyArgDevs == {"ColonNeedsNonEmptyArgument", "TrailingEmptyArgumentsDropped", "EmptyArgumentsSkipped"}

\* What-if switches for the SEAM between two blocks (never passed by the harness; Gen_Unparse.Seams lets
\* TLC show what each of them does to the in-model round trip of the list-adjacency universe).  The
\* emitters of headings, rules, tables and magic words write a line break before and after themselves;
\* a list does not: between two lists the blank-only string child IS the separator.
\*   "BlankBetweenOwnLineNodesDropped"             a blank-only string between two nodes that are written
\*                                                 on lines of their own (LEVELn, HLINE, TABLE, MAGIC_WORD,
\*                                                 LIST) is not written
\*   "BlankBetweenOwnLineNodesDroppedExceptLists"  the same without LIST in the set: harmless
WhatIfSeamDevs == {"BlankBetweenOwnLineNodesDropped", "BlankBetweenOwnLineNodesDroppedExceptLists"}

RECURSIVE Concat(_)
Concat(ss) == IF ss = <<>> THEN <<>> ELSE Head(ss) \o Concat(Tail(ss))

RECURSIVE LStrip(_)
LStrip(s) == IF Len(s) > 0 /\ s[1] \in WS THEN LStrip(Tail(s)) ELSE s
RECURSIVE RStrip(_)
RStrip(s) == IF Len(s) > 0 /\ s[Len(s)] \in WS THEN RStrip(SubSeq(s, 1, Len(s) - 1)) ELSE s

LevelKinds == {"LEVEL1", "LEVEL2", "LEVEL3", "LEVEL4", "LEVEL5", "LEVEL6"}
LevelOf(kind) == CASE kind = "LEVEL1" -> 1 [] kind = "LEVEL2" -> 2 [] kind = "LEVEL3" -> 3
                   [] kind = "LEVEL4" -> 4 [] kind = "LEVEL5" -> 5 [] kind = "LEVEL6" -> 6
Eqs(n) == [i \in 1..n |-> "="]

(* ------------------------------------------------------------------------ *)
(* to_wikitext                                                              *)
(* ------------------------------------------------------------------------ *)
\* wikihtml.ALLOWED_HTML_TAGS entries with "no-end-tag" (node_expand.py:187 reads the
\* module-level table; an unknown tag defaults to no-end-tag = True)
NoEndTags == {"br", "hr", "wbr", "templatestyles"}
KnownTags ==
  {"a", "abbr", "b", "big", "bdi", "bdo", "blockquote", "br", "caption", "center", "chem", "cite", "code",
   "data", "dd", "del", "dfn", "div", "dl", "dt", "dynamicpagelist", "em", "font", "gallery", "h1", "h2",
   "h3", "h4", "h5", "h6", "hiero", "hr", "i", "imagemap", "includeonly", "indicator", "inputbox", "ins",
   "kbd", "langconvert", "li", "math", "mark", "noinclude", "ol", "onlyinclude", "p", "q", "rb", "ref",
   "references", "rp", "rt", "rtc", "ruby", "s", "samp", "small", "span", "strike", "strong", "sub", "sup",
   "table", "tbody", "td", "templatestyles", "tfoot", "th", "thead", "time", "tr", "tt", "u", "ul", "var",
   "wbr"}
EmitsBareClose(sarg) ==   \* ">" instead of " />" for a childless element
  IF Len(sarg) = 1 /\ sarg[1] \in KnownTags THEN sarg[1] \in NoEndTags ELSE TRUE

\* re.sub(r"\[\[", "[<noinclude/>[", s): non-overlapping, left to right
RECURSIVE ProtectPair(_, _)
ProtectPair(s, ch) ==
  IF Len(s) < 2 THEN s
  ELSE IF s[1] = ch /\ s[2] = ch
       THEN <<ch, "<", "noinclude", "/", ">", ch>> \o ProtectPair(SubSeq(s, 3, Len(s)), ch)
       ELSE <<s[1]>> \o ProtectPair(Tail(s), ch)
Protect(s) == ProtectPair(ProtectPair(s, "["), "]")

\* to_attrs (node_expand.py:41-50); quote_plus is the identity on URL-safe values
RECURSIVE AttrsText(_)
AttrsText(attrs) ==
  IF attrs = <<>> THEN <<>>
  ELSE LET a == Head(attrs)
           one == IF a.v = "" THEN <<a.n>> ELSE <<a.n, "=", "\"", a.v, "\"">>
       IN IF Len(attrs) = 1 THEN one ELSE one \o <<"SP">> \o AttrsText(Tail(attrs))

RECURSIVE Unparse(_, _), UnparseSeq(_, _), JoinArgs(_, _, _), JoinAll(_, _, _)

\* what-if only: the child list without the blank-only strings between two own-line nodes
IsBlankStr(c) == IsStr(c) /\ c.s # <<>> /\ \A k \in 1..Len(c.s) : c.s[k] \in WS
OwnLine(c, Dev) ==
  IsNode(c) /\ c.kind \in LevelKinds \cup {"HLINE", "TABLE", "MAGIC_WORD"}
                              \cup (IF "BlankBetweenOwnLineNodesDropped" \in Dev THEN {"LIST"} ELSE {})
RECURSIVE DropSeamBlanks(_, _)
DropSeamBlanks(xs, Dev) ==
  IF Len(xs) < 3 THEN xs
  ELSE IF OwnLine(xs[1], Dev) /\ IsBlankStr(xs[2]) /\ OwnLine(xs[3], Dev) THEN <<xs[1]>> \o DropSeamBlanks(SubSeq(xs, 3, Len(xs)), Dev)
  ELSE <<xs[1]>> \o DropSeamBlanks(Tail(xs), Dev)

\* recurse() on a list / tuple: "".join(map(recurse, node))
UnparseSeq(xs, Dev) == IF xs = <<>> THEN <<>> ELSE Unparse(Head(xs), Dev) \o UnparseSeq(Tail(xs), Dev)
UnparseList(xs, Dev) == IF Dev \cap WhatIfSeamDevs = {} THEN UnparseSeq(xs, Dev) ELSE UnparseSeq(DropSeamBlanks(xs, Dev), Dev)

\* sep.join(map(recurse, largs))
RECURSIVE DropTrailingEmpty(_)
DropTrailingEmpty(largs) == IF largs # <<>> /\ largs[Len(largs)] = <<>> THEN DropTrailingEmpty(SubSeq(largs, 1, Len(largs) - 1)) ELSE largs
JoinAll(largs, sep, Dev) ==
  IF largs = <<>> THEN <<>>
  ELSE IF Len(largs) = 1 THEN UnparseList(largs[1], Dev)
  ELSE UnparseList(largs[1], Dev) \o sep \o JoinArgs(Tail(largs), sep, Dev)
JoinArgs(largs, sep, Dev) ==
  IF Dev \cap WhatIfEmptyArgDevs = {} THEN JoinAll(largs, sep, Dev)
  ELSE IF "EmptyArgumentsSkipped" \in Dev /\ largs # <<>> /\ largs[1] = <<>> THEN JoinArgs(Tail(largs), sep, Dev)
  ELSE IF "EmptyArgumentsSkipped" \in Dev /\ Len(largs) > 1 /\ largs[2] = <<>> THEN JoinArgs(<<largs[1]>> \o SubSeq(largs, 3, Len(largs)), sep, Dev)
  ELSE IF "TrailingEmptyArgumentsDropped" \in Dev /\ largs # <<>> /\ largs[Len(largs)] = <<>> THEN JoinArgs(DropTrailingEmpty(largs), sep, Dev)
  ELSE JoinAll(largs, sep, Dev)

\* recurse(node): node may be a string child, a node, or a (wrapped) list of those
Unparse(x, Dev) ==
  IF IsStr(x) THEN Protect(x.s)
  ELSE IF IsList(x) THEN UnparseList(x.list, Dev)
  ELSE
  LET kind == x.kind
      kids == UnparseList(x.children, Dev)
      at == AttrsText(x.attrs)
  IN CASE kind \in LevelKinds ->
            LET tag == Eqs(LevelOf(kind)) IN
            <<"NL">> \o tag \o <<"SP">> \o JoinArgs(x.largs, <<>>, Dev) \o <<"SP">> \o tag \o <<"NL">> \o kids
       [] kind = "HLINE" -> <<"NL", "-", "-", "-", "-", "NL">>
       [] kind = "LIST" -> kids
       [] kind = "LIST_ITEM" ->
            IF x.defn = <<>> \/ "DefinitionDropped" \in Dev THEN x.sarg \o kids
            ELSE LET head == x.sarg \o kids
                     \* proposed emitter: `;term:def` on one line, or `;term NL ;-prefix:def`
                     colon == IF head[Len(head)] = "NL"
                              THEN SubSeq(x.sarg, 1, Len(x.sarg) - 1) \o <<":">> ELSE <<":">>
                 IN head \o colon \o UnparseList(x.defn[1], Dev)
       [] kind = "PRE" -> <<"<", "pre", ">">> \o kids \o <<"<", "/", "pre", ">">>
       [] kind = "PREFORMATTED" -> kids
       [] kind = "LINK" -> <<"[", "[">> \o JoinArgs(x.largs, <<"|">>, Dev) \o <<"]", "]">> \o kids
       [] kind = "TEMPLATE" -> <<"{", "{">> \o JoinArgs(x.largs, <<"|">>, Dev) \o <<"}", "}">>
       [] kind = "TEMPLATE_ARG" -> <<"{", "{", "{">> \o JoinArgs(x.largs, <<"|">>, Dev) \o <<"}", "}", "}">>
       [] kind = "PARSER_FN" ->
            <<"{", "{">> \o UnparseList(x.largs[1], Dev)
              \o (IF Len(x.largs) > 1 /\ ("ColonNeedsNonEmptyArgument" \notin Dev \/ \E k \in 2..Len(x.largs) : x.largs[k] # <<>>)
                  THEN <<":">> ELSE <<>>)
              \o JoinArgs(Tail(x.largs), <<"|">>, Dev) \o <<"}", "}">>
       [] kind = "URL" ->
            <<"[">> \o JoinArgs(x.largs, <<"SP">>, Dev) \o <<"]">>
       [] kind = "TABLE" -> <<"NL", "{", "|", "SP">> \o at \o <<"NL">> \o kids \o <<"NL", "|", "}", "NL">>
       [] kind = "TABLE_CAPTION" ->
            \* as found: the caption text always starts a line of its own.  Repaired: text that
            \* starts with a blank stays on the marker line (it would read back as preformatted)
            LET nl == IF "CaptionContentOnOwnLine" \notin Dev /\ kids # <<>> /\ kids[1] = "SP" THEN <<>> ELSE <<"NL">>
            IN (IF at # <<>> THEN <<"NL", "|", "+", "SP">> \o at \o <<"SP", "|">> ELSE <<"NL", "|", "+">>) \o nl \o kids
       [] kind = "TABLE_ROW" -> <<"NL", "|", "-", "SP">> \o at \o <<"NL">> \o kids
       [] kind = "TABLE_HEADER_CELL" ->
            IF x.attrs # <<>> THEN <<"NL", "!", "SP">> \o at \o <<"SP", "|">> \o kids \o <<"NL">>
            ELSE <<"NL", "!">> \o kids \o <<"NL">>
       [] kind = "TABLE_CELL" ->
            IF x.attrs # <<>> THEN <<"NL", "|", "SP">> \o at \o <<"SP", "|">> \o kids \o <<"NL">>
            ELSE <<"NL", "|">> \o kids \o <<"NL">>
       [] kind = "MAGIC_WORD" -> <<"NL">> \o x.sarg \o <<"NL">>
       [] kind = "HTML" ->
            LET open == <<"<">> \o x.sarg \o (IF x.attrs # <<>> THEN <<"SP">> \o at ELSE <<>>) IN
            IF x.children # <<>> THEN open \o <<">">> \o kids \o <<"<", "/">> \o x.sarg \o <<">">>
            ELSE open \o (IF EmitsBareClose(x.sarg) THEN <<">">> ELSE <<"SP", "/", ">">>)
       [] kind = "ROOT" -> kids
       [] kind = "BOLD" -> <<"'", "'", "'">> \o kids \o <<"'", "'", "'">>
       [] kind = "ITALIC" -> <<"'", "'">> \o kids \o <<"'", "'">>

(* ------------------------------------------------------------------------ *)
(* Equivalence up to whitespace at block boundaries                         *)
(* ------------------------------------------------------------------------ *)
\* Block nodes: their own edges and the edges of their siblings are block
\* boundaries.  Everything else (bold, italic, links, templates, parser
\* functions, urls, inline HTML) is inline: text inside and next to it is exact.
BlockKinds == LevelKinds \cup
  {"ROOT", "HLINE", "LIST", "LIST_ITEM", "PRE", "PREFORMATTED", "TABLE", "TABLE_CAPTION", "TABLE_ROW",
   "TABLE_HEADER_CELL", "TABLE_CELL", "MAGIC_WORD"}
BlockTags ==   \* wikihtml entries whose parents are flow / structural only (not phrasing)
  {"blockquote", "center", "div", "dl", "dd", "dt", "ol", "ul", "li", "p", "table", "caption", "tbody",
   "thead", "tfoot", "tr", "td", "th", "h1", "h2", "h3", "h4", "h5", "h6", "hr", "gallery", "references",
   "dynamicpagelist"}
IsBlock(c) == IsNode(c) /\ (c.kind \in BlockKinds \/ (c.kind = "HTML" /\ Len(c.sarg) = 1 /\ c.sarg[1] \in BlockTags))

AttrMap(attrs) == {<<attrs[i].n, attrs[i].v>> : i \in 1..Len(attrs)}

RECURSIVE Norm(_), NormKids(_, _)
\* trim = the list is the content of a block: leading/trailing blanks of a text that
\* touches the edge of the block or a block sibling are not significant
NormKids(kids, trim) ==
  LET n == Len(kids)
      One(i) ==
        IF IsStr(kids[i])
        THEN LET lb == trim /\ (i = 1 \/ IsBlock(kids[i - 1]))
                 rb == trim /\ (i = n \/ IsBlock(kids[i + 1]))
                 t1 == IF lb THEN LStrip(kids[i].s) ELSE kids[i].s
                 t2 == IF rb THEN RStrip(t1) ELSE t1
             IN IF t2 = <<>> THEN <<>> ELSE <<Str(t2)>>
        ELSE <<Norm(kids[i])>>
  IN Concat([i \in 1..n |-> One(i)])

Norm(x) ==
  [kind |-> x.kind, sarg |-> x.sarg,
   largs |-> [i \in 1..Len(x.largs) |-> NormKids(x.largs[i], FALSE)],
   attrs |-> AttrMap(x.attrs),
   children |-> NormKids(x.children, IsBlock(x)),
   defn |-> [i \in 1..Len(x.defn) |-> NormKids(x.defn[i], TRUE)]]

Equiv(t1, t2) == Norm(t1) = Norm(t2)

(* ------------------------------------------------------------------------ *)
(* helpers for reports                                                      *)
(* ------------------------------------------------------------------------ *)
RECURSIVE KindsIn(_), KindsInKids(_)
KindsInKids(kids) == UNION {KindsIn(kids[i]) : i \in 1..Len(kids)}
KindsIn(x) ==
  IF IsStr(x) THEN {}
  ELSE {x.kind} \cup KindsInKids(x.children)
       \cup UNION {KindsInKids(x.largs[i]) : i \in 1..Len(x.largs)}
       \cup UNION {KindsInKids(x.defn[i]) : i \in 1..Len(x.defn)}
=============================================================================
