--------------------------- MODULE Trace_Backup ---------------------------
(* Validates observed executions of the real code against Backup.          *)
(*                                                                          *)
(* The harness kills the real flow at every executed line; the file states *)
(* observed at successive kill points form the sequence of file states     *)
(* along the real execution (consecutive duplicates removed).  A trace is  *)
(*   [tid, start, runs: <<[flow, obs: <<file state, ...>>, killed]>>]      *)
(* (start = kind of the initial state, see Backup!InitOf)                  *)
(* where all runs but the last are complete prefixes (killed in their last *)
(* observed state, or ended by a clean close).  TLC searches for model     *)
(* behaviours whose observable file states follow the recorded sequence    *)
(* (steps that change nothing observable are free).  For every search      *)
(* state of the last run it prints what the specification demands and      *)
(* predicts for a kill in that state:                                      *)
(*   PRED [tid, oi, pc, expected, pred, sound]                             *)
(* and DONE [tid] when the whole sequence has been matched.  A trace with  *)
(* no DONE line is not a behaviour of the model.                           *)
EXTENDS Naturals, Sequences, FiniteSets, TLC, Json, IOUtils

TraceFile == JsonDeserialize(IOEnv.TRACE_FILE)
Traces == TraceFile.traces
SeqToSet(q) == {q[i] : i \in DOMAIN q}
T_Dev == SeqToSet(TraceFile.dev)
T_FlowDef == TraceFile.flowdef
T_MaxRuns == 99

VARIABLES s, pc, todo, runs, nw, fresh, tid, ri, oi
T_Starts == {"base", "basedel", "zero", "absent"}
B == INSTANCE Backup WITH Dev <- T_Dev, MaxRuns <- T_MaxRuns, FlowDef <- T_FlowDef, Starts <- T_Starts

tvars == <<s, pc, todo, runs, nw, fresh, tid, ri, oi>>

Run == Traces[tid].runs[ri]
NRuns == Len(Traces[tid].runs)

FileEq(o, f) == o.st = f.st /\ SeqToSet(o.c) = f.c /\ o.m = f.m
ObsEq(o, t) ==
  LET m == B!Obs(t) IN
  /\ FileEq(o.main, m.main) /\ o.wal = m.wal /\ SeqToSet(o.vis) = m.vis
  /\ FileEq(o.bak, m.bak) /\ FileEq(o.tmp, m.tmp) /\ o.shm = m.shm /\ o.jrn = m.jrn

TInit == /\ tid \in 1..Len(Traces) /\ B!InitWith(Traces[tid].start) /\ ri = 1 /\ oi = 1

\* after a model step the observable state is still the current one or the next recorded one
Advance ==
  \/ ObsEq(Run.obs[oi], s') /\ oi' = oi
  \/ oi < Len(Run.obs) /\ ObsEq(Run.obs[oi + 1], s') /\ oi' = oi + 1

TStart == /\ ri <= NRuns /\ pc = "idle" /\ ObsEq(Run.obs[1], s)
          /\ B!Start(Run.flow) /\ oi' = 1 /\ UNCHANGED <<tid, ri>>

TStep == /\ ri <= NRuns /\ pc # "idle"
         /\ (B!O1 \/ B!Ow \/ B!Os \/ B!O2 \/ B!O3 \/ B!O4 \/ B!O5 \/ B!O6
             \/ B!CallBackup \/ B!CallWrite \/ B!CallBigWrite \/ B!CallClose
             \/ B!B1 \/ B!B2 \/ B!Bt \/ B!B3 \/ B!B4 \/ B!B5 \/ B!B6 \/ B!W1 \/ B!W2 \/ B!V1 \/ B!V2 \/ B!C1)
         /\ Advance /\ UNCHANGED <<tid, ri>>

\* clean end of the process (close_db_conn returned; a kill after that changes nothing)
TDone == /\ ri <= NRuns /\ B!C2 /\ Advance /\ oi' = Len(Run.obs)
         /\ ri' = ri + 1 /\ UNCHANGED tid

\* the process was killed in the last recorded file state
TCrash == /\ ri <= NRuns /\ Run.killed /\ pc # "idle" /\ oi = Len(Run.obs)
          /\ B!Crash /\ ri' = ri + 1 /\ UNCHANGED <<tid, oi>>

TNext == TStart \/ TStep \/ TDone \/ TCrash
TSpec == TInit /\ [][TNext]_tvars

Verdict ==
  /\ (ri = NRuns /\ pc # "idle") =>
       LET r == B!Reopened(s) IN
       PrintT(<<"PRED", ToJson([tid |-> tid, oi |-> oi, pc |-> pc, expected |-> s.expected,
                                pred |-> B!Pages(B!Visible(r)),
                                sound |-> (r.main.st = "db" /\ ~r.mixed)])>>)
  /\ (ri = NRuns + 1) =>
       LET r == B!Reopened(s) IN
       PrintT(<<"DONE", ToJson([tid |-> tid, expected |-> s.expected,
                                pred |-> B!Pages(B!Visible(r)),
                                sound |-> (r.main.st = "db" /\ ~r.mixed)])>>)
=============================================================================
