SPECIFICATION SGSpec
CONSTANTS
  PfxNs <- T_PfxNs
  CanonPfx <- T_CanonPfx
  UpperOf <- T_UpperOf
  ArgU <- NoArgs
  TplNs = 10
  ModNs = 828
  Defaults <- T_Defaults
  OkModels <- T_OkModels
  NsByLocal <- T_NsByLocal
  ColonPre <- T_ColonPre
  ColonLast <- T_ColonLast
  IncOfBody <- T_IncOfBody
  BodyUses <- T_BodyUses
  BodyPre <- T_BodyPre
  WinName <- T_WinName
  Dev <- DevAsIs
  MaxOv = 0
  Bases <- BasesQ
  PoolJ <- PoolJ_Q
  PoolD <- PoolD_Q
  Dumps <- DumpsQ
  Parts = 1
  Part = 0
  TitleU <- TitlesAll
  MaxPages = 2
  Wins <- WinBoth
INVARIANT SGenInv
CHECK_DEADLOCK FALSE
