SPECIFICATION Spec
CONSTANTS
  Universe = "I"
  MaxLines = 3
INVARIANT NestOK
CHECK_DEADLOCK FALSE
