------------------------- MODULE MC_SandboxReachStack -------------------------
(* Design-level instances of SandboxReachStack: universes of contexts,       *)
(* bookkeeping manipulations, entry points, source shapes and the named      *)
(* deviation sets.                                                           *)
EXTENDS SandboxReachStack

K_Contexts == AllContexts
K_Entries == StackEntries
\* quick generator: without the entry point that never compiles anything (mw.loadJsonData; it shares the cache of
\* mw.loadData)
K_EntriesQ == StackEntries \ {"loadJsonData"}
K_Bounds == {"same", "invoke"}
K_BoundsAll == {"same", "invoke", "page"}
\* quick: what decides which environment a chunk gets (+ the cache manipulations)
K_Manips == {M("push", v) : v \in PushVals} \cup {M("reset", "-"), M("save", "-"), M("npush", "nil")}
K_ManipsAll == AllManips
\* thorough generator, longest histories: everything that can change an environment or a cache
K_ManipsT == K_Manips \cup {M("npush", "foreign")}
\* the stack dimension is crossed with few shapes: what is cached differs by what the chunk hands back
K_Shapes == {Shape("none", "table", "lf", "none"), Shape("none", "string", "lf", "none")}
K_ShapesQ == {Shape("none", "table", "lf", "none")}
K_CtxInv == {"inv"}
K_ShapesT == K_Shapes \cup {Shape("none", "raise", "lf", "none"), Shape("bom", "table", "lf", "none"),
                            Shape("none", "nothing", "lf", "none")}

\* thorough generator: without the shape that returns nothing (observable through the host table only)
K_ShapesT4 == K_ShapesT \ {Shape("none", "nothing", "lf", "none")}

KDevIdeal == {}
KDevLoader == {"HostFallbackLoader"}
KDevLoaderNil == {"HostFallbackLoader", "FallbackNilOnly"}
KDevData == {"DataEnvFromStack", "HostFallbackLoadData"}
KDevDataNil == {"DataEnvFromStack", "HostFallbackLoadData", "FallbackNilOnly"}
KDevDataStack == {"DataEnvFromStack"}
=============================================================================
