SPECIFICATION SpecMemo
CONSTANTS
  PfxNs <- T_PfxNs
  CanonPfx <- T_CanonPfx
  UpperOf <- T_UpperOf
  ArgU <- ArgSet
  Dev <- DevMemo
  Namespaces <- NsTen
  Bases <- BasesTwo
  Bodies <- BodiesOne
  MaxLen = 0
  LookupPfx <- PfxNone
  WithUnderscore = FALSE
  WithNoNs = FALSE
  NrSet <- NrFalse
INVARIANT ObservedLookupsCorrect
CHECK_DEADLOCK FALSE
