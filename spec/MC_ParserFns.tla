---------------------------- MODULE MC_ParserFns ----------------------------
(* Bounded instance of ParserFns: every registered name (plus unknown ones) *)
(* x the argument vectors x the title classes.                              *)
EXTENDS ParserFns

CONSTANT Names    \* names to call (Known plus some that are not registered)
VARIABLE x

DevIdeal == {}
DevAsIs == {"TalkNamespaceLookup", "Rel2absNeedsArgument", "Rel2absResolvesOnHost", "PadCountUnbounded", "PadEmptyPaddingDivides", "IntegerStringConversionLimit",
            "InvokeNeedsModuleName"}
\* the registered names as read at the time of writing (the harness passes the
\* real list of the working tree to Gen_ParserFns)
KnownBuiltin ==
  Unimplemented \cup
  {"TALKPAGENAME", "TALKSPACE", "#rel2abs", "padleft", "padright", "#pad", "#expr", "#time",
   "#timel", "#dateformat", "#formatdate", "#property", "#statements", "fullurl", "fullurle",
   "PAGENAME", "#len", "#if", "#switch", "formatnum", "plural", "#titleparts", "lc", "ns", "int",
   "SUBJECTSPACE", "NAMESPACE", "NAMESPACENUMBER", "FULLPAGENAME", "nse", "localurl", "#ifexist", "#invoke"}
NamesBuiltin == KnownBuiltin \cup {"#nosuchfunction", "#foo"}

Numeric == {"NEG", "ZERO", "SEVEN", "HUGE", "WORD", "EMPTY", "SUP", "ARDIG"}
Vectors ==
  {<<>>} \cup {<<a>> : a \in Atoms}
  \cup {<<a, b>> : a \in {"WORD", "SEVEN", "EMPTY"}, b \in Numeric \cup {"FRAC", "BLANK", "EXPEMPTY", "PLUS", "EPOCH", "BADDATE", "TS14BAD", "TS14YR1", "ATEXP", "DIGITS", "DEEP", "NUL", "CTRL", "NLIN", "LONGW"}}
  \cup {<<a, b, c>> : a \in {"WORD", "EMPTY"}, b \in {"SEVEN", "NEG", "HUGE"}, c \in {"EMPTY", "EXPEMPTY", "WORD", "DIGITS"}}

\* four-argument calls (text, delimiter, position / start, limit / length), on the plain title only
Vectors4 ==
  {<<a, b, c, d>> : a \in {"WORDS", "WORD"}, b \in {"BLANK", "EMPTY"}, c \in {"ZERO", "THREE", "SEVEN", "NEG1", "HUGE", "WORD"},
                    d \in {"ONE", "TWO", "NEG", "EMPTY", "WORD"}}
St(ph, name, argv, title) == [ph |-> ph, name |-> name, argv |-> argv, title |-> title]
Init == x = St("root", "", <<>>, "plain")
PickName == x.ph = "root" /\ \E n \in Names : x' = St("fn", n, <<>>, "plain")
\* #invoke with two or more arguments runs Lua (C06..C09): only the calls that stop before it
Admitted(name, v) == name = "#invoke" => Len(v) <= 1
MakeCall == x.ph = "fn" /\ (\/ \E v \in Vectors, t \in Titles : Admitted(x.name, v) /\ x' = St("call", x.name, v, t)
                            \/ \E v \in Vectors4 : Admitted(x.name, v) /\ x' = St("call", x.name, v, "plain"))
Next == PickName \/ MakeCall
Spec == Init /\ [][Next]_x

EveryCallEndsInBand == x.ph = "call" => Total(x.name, x.argv, x.title)

(* ================= the language-configuration dimension ================= *)
\* names whose result depends on the namespace of the page title / of a title argument (read off
\* parserfns.py; the harness adds what a probe of the working tree finds besides)
NsFnsBuiltin == {"TALKPAGENAME", "TALKSPACE", "SUBJECTSPACE", "ARTICLESPACE", "NAMESPACE", "NAMESPACENUMBER", "FULLPAGENAME", "ns", "nse"}
\* a small instance for M: an English-like table, a table with local names, aliases, the irregular
\* key pattern and a subject namespace without talk namespace, and one with an orphan talk namespace
Ns(key, id, name, aliases, istalk, lower) == [key |-> key, id |-> id, name |-> name, aliases |-> aliases, istalk |-> istalk, lower |-> lower]
SitesBuiltin == <<
  [lang |-> "en", syn |-> FALSE, wide |-> TRUE, ns |-> <<
     Ns("Media", 0 - 2, "Media", <<>>, FALSE, "media"), Ns("Special", 0 - 1, "Special", <<>>, FALSE, "special"),
     Ns("Main", 0, "Main", <<>>, FALSE, "main"), Ns("Talk", 1, "Talk", <<>>, TRUE, "talk"),
     Ns("Project", 4, "Wiktionary", <<"WT">>, FALSE, "project"), Ns("Project talk", 5, "Wiktionary talk", <<>>, TRUE, "project talk"),
     Ns("Template", 10, "Template", <<"T">>, FALSE, "template"), Ns("Template talk", 11, "Template talk", <<>>, TRUE, "template talk")>>],
  [lang |-> "xx", syn |-> FALSE, wide |-> TRUE, ns |-> <<
     Ns("Special", 0 - 1, "Speciale", <<>>, FALSE, "special"),
     Ns("Main", 0, "", <<>>, FALSE, "main"), Ns("Talk", 1, "Diskuto", <<>>, TRUE, "talk"),
     Ns("Template", 10, "Modelo", <<>>, FALSE, "template"), Ns("Template talk", 11, "Diskuto Modelo", <<>>, TRUE, "template talk"),
     Ns("Portalo", 104, "Portalo", <<"P">>, FALSE, "portalo"), Ns("Diskuto Portalo", 105, "Diskuto Portalo", <<>>, TRUE, "diskuto portalo"),
     Ns("Topic", 2600, "Temo", <<>>, FALSE, "topic")>>],
  [lang |-> "yy", syn |-> TRUE, wide |-> FALSE, ns |-> <<
     Ns("Main", 0, "", <<>>, FALSE, "main"), Ns("Talk", 1, "Talk", <<>>, TRUE, "talk"),
     Ns("Template", 10, "Template", <<>>, FALSE, "template"), Ns("Template talk", 11, "Template talk", <<>>, TRUE, "template talk"),
     Ns("Orphan talk", 711, "Orphan talk", <<>>, TRUE, "orphan talk")>>] >>

\* which namespaces / spellings / positions a name is called with: everything for the names of NsFns;
\* for the others the namespaces without partner, the first pair with an irregular key, Talk and Template,
\* as written in the table, as page title and as argument
\* (a site that is not "wide" -- the bulk of the shipped tables in the thorough tier -- gets the spellings
\*  of the table only and, for the other names, the non-negative namespaces that have no partner)
Full(name) == name \in NsFns
Wide(s) == Sites[s].wide
NoPartner(s, j) == Negative(s, j) \/ NoTalkPartner(s, j) \/ NoSubject(s, j)
FirstIrregular(s, j) == IrregularKey(s, j) /\ \A k \in DOMAIN Tab(s) : IrregularKey(s, k) => E(s, k).id >= E(s, j).id
NsSel(name, s) == IF Full(name) THEN DOMAIN Tab(s)
                  ELSE IF Wide(s) THEN {j \in DOMAIN Tab(s) : NoPartner(s, j) \/ E(s, j).id \in {1, 10, 11} \/ FirstIrregular(s, j)
                                                               \/ (E(s, j).istalk /\ ~NoSubject(s, j) /\ FirstIrregular(s, SubjectIdx(s, j)))}
                  ELSE {j \in DOMAIN Tab(s) : NoTalkPartner(s, j) \/ NoSubject(s, j)}
FormSel(name, s, j) == IF ~Full(name) THEN {"key"} ELSE IF Wide(s) THEN FormsOf(s, j) ELSE FormsOf(s, j) \ {"lower", "alias"}
PosSel(name, s, j, form) ==
  IF ~Full(name) THEN {"title", "arg"}
  ELSE IF Wide(s) THEN (IF form = "key" THEN Positions ELSE Positions \ {"argid"})
  ELSE IF form = "key" /\ Structural(s, j) THEN Positions ELSE {"title", "arg"}
PseudoForms(name, s) == IF Wide(s) THEN {"bare", "unknown"} ELSE IF Full(name) THEN {"unknown"} ELSE {}
StS(ph, name, s, j, form, pos) == [ph |-> ph, name |-> name, s |-> s, j |-> j, form |-> form, pos |-> pos]
InitS == x = StS("root", "", 0, 0, "none", "none")
\* (#invoke does not look at titles: it stays in the first universe)
PickNameSite == x.ph = "root" /\ \E n \in Names \ {"#invoke"}, s \in DOMAIN Sites : x' = StS("fn", n, s, 0, "none", "none")
MakeCallS == x.ph = "fn" /\ (\/ \E j \in NsSel(x.name, x.s) : \E form \in FormSel(x.name, x.s, j) : \E pos \in PosSel(x.name, x.s, j, form) :
                                   x' = StS("call", x.name, x.s, j, form, pos)
                             \/ \E form \in PseudoForms(x.name, x.s), pos \in {"title", "arg"} : x' = StS("call", x.name, x.s, 0, form, pos))
NextS == PickNameSite \/ MakeCallS
SpecS == InitS /\ [][NextS]_x

EverySiteCallEndsInBand == x.ph = "call" => TotalS(x.name, x.s, x.j, x.form, x.pos)
\* the reference is well defined on every table: the talk / subject namespace of a namespace is a
\* namespace of the table, it is a talk / subject namespace unless the namespace has none, and
\* taking it twice changes nothing
PartnersWellDefined ==
  x.ph = "fn" => \A j \in DOMAIN Tab(x.s) :
     LET t == TalkIdx(x.s, j)
         u == SubjectIdx(x.s, j)
     IN /\ t \in DOMAIN Tab(x.s) /\ u \in DOMAIN Tab(x.s)
        /\ (E(x.s, t).istalk \/ Negative(x.s, j) \/ NoTalkPartner(x.s, j))
        /\ (~E(x.s, u).istalk \/ NoSubject(x.s, j))
        /\ TalkIdx(x.s, t) = t /\ SubjectIdx(x.s, u) = u
\* the unknown prefix is unknown in every table
UnknownIsUnknown == x.ph = "fn" => UnknownPrefix \notin KeySet(x.s) /\ \A j \in DOMAIN Tab(x.s) : E(x.s, j).name # UnknownPrefix
=============================================================================
