---------------------------- MODULE MC_ParserFns ----------------------------
(* Bounded instance of ParserFns: every registered name (plus unknown ones) *)
(* x the argument vectors x the title classes.                              *)
EXTENDS ParserFns

CONSTANT Names    \* names to call (Known plus some that are not registered)
VARIABLE x

DevIdeal == {}
DevAsIs == {"TalkNamespaceLookup", "Rel2absNeedsArgument", "Rel2absResolvesOnHost", "PadCountUnbounded", "PadEmptyPaddingDivides", "IntegerStringConversionLimit"}
\* the registered names as read at the time of writing (the harness passes the
\* real list of the working tree to Gen_ParserFns)
KnownBuiltin ==
  Unimplemented \cup
  {"TALKPAGENAME", "TALKSPACE", "#rel2abs", "padleft", "padright", "#pad", "#expr", "#time",
   "#timel", "#dateformat", "#formatdate", "#property", "#statements", "fullurl", "fullurle",
   "PAGENAME", "#len", "#if", "#switch", "formatnum", "plural", "#titleparts", "lc", "ns", "int"}
NamesBuiltin == KnownBuiltin \cup {"#nosuchfunction", "#foo"}

Numeric == {"NEG", "ZERO", "SEVEN", "HUGE", "WORD", "EMPTY", "SUP", "ARDIG"}
Vectors ==
  {<<>>} \cup {<<a>> : a \in Atoms}
  \cup {<<a, b>> : a \in {"WORD", "SEVEN", "EMPTY"}, b \in Numeric \cup {"FRAC", "BLANK", "EXPEMPTY", "PLUS", "EPOCH", "BADDATE", "TS14BAD", "TS14YR1", "ATEXP", "DIGITS", "DEEP", "NUL", "CTRL", "NLIN", "LONGW"}}
  \cup {<<a, b, c>> : a \in {"WORD", "EMPTY"}, b \in {"SEVEN", "NEG", "HUGE"}, c \in {"EMPTY", "EXPEMPTY", "WORD", "DIGITS"}}

\* four-argument calls (text, delimiter, position / start, limit / length), on the plain title only
Vectors4 ==
  {<<a, b, c, d>> : a \in {"WORDS", "WORD"}, b \in {"BLANK", "EMPTY"}, c \in {"ZERO", "THREE", "SEVEN", "NEG1", "HUGE", "WORD"},
                    d \in {"ONE", "TWO", "NEG", "EMPTY", "WORD"}}
St(ph, name, argv, title) == [ph |-> ph, name |-> name, argv |-> argv, title |-> title]
Init == x = St("root", "", <<>>, "plain")
PickName == x.ph = "root" /\ \E n \in Names : x' = St("fn", n, <<>>, "plain")
MakeCall == x.ph = "fn" /\ (\/ \E v \in Vectors, t \in Titles : x' = St("call", x.name, v, t)
                            \/ \E v \in Vectors4 : x' = St("call", x.name, v, "plain"))
Next == PickName \/ MakeCall
Spec == Init /\ [][Next]_x

EveryCallEndsInBand == x.ph = "call" => Total(x.name, x.argv, x.title)
=============================================================================
