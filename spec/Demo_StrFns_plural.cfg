SPECIFICATION Spec
CONSTANTS
  LowerOf <- T_Lower
  UpperOf <- T_Upper
  Dev <- DevPlural
  Alpha <- AlphaAB
  MaxS = 2
  MaxLong = 2
  Offs <- OffsQ
  Needles <- NeedlesQ
  Fns <- FnsAll
  Spell <- NoSpell
INVARIANT PluralAsIsAgrees
CHECK_DEADLOCK FALSE
