SPECIFICATION Spec
CONSTANTS
  Universe = "nestL"
  MaxLen = 4
INVARIANT MachineOK
CHECK_DEADLOCK FALSE
