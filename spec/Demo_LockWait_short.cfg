SPECIFICATION Spec
CONSTANTS
  BusyTimeout = 1
  MaxHold = 20
INVARIANT NeverLocked
CHECK_DEADLOCK FALSE
