SPECIFICATION Spec
CONSTANTS
  Dev <- DevHookCtl
  B = 3
  RecMax = 1
  Bodies <- BodiesTight
  Kinds <- KindsAll
  MaxDepth = 1
  Progs <- P_clear
PROPERTY AbortedAfterDeadline
CHECK_DEADLOCK FALSE
