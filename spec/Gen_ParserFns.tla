---------------------------- MODULE Gen_ParserFns ----------------------------
(* Cases for the totality of call_parser_function: NAMES_FILE holds          *)
(* {"known": [...], "names": [...]} read from PARSER_FUNCTIONS of the         *)
(* working tree by the harness.                                               *)
EXTENDS MC_ParserFns, Json, IOUtils

NamesFile == JsonDeserialize(IOEnv.NAMES_FILE)
FileKnown == {NamesFile.known[i] : i \in 1..Len(NamesFile.known)}
FileNames == {NamesFile.names[i] : i \in 1..Len(NamesFile.names)}
\* (the indirection keeps TLC from re-reading the file at every reference of the constant)
FileSitesV == TLCEval(NamesFile.sites)
FileSites == FileSitesV
FileNsFnsV == TLCEval(NsFnsBuiltin \cup {NamesFile.nsfns[i] : i \in 1..Len(NamesFile.nsfns)})
FileNsFns == FileNsFnsV
Emit == x.ph = "call" =>
  PrintT(<<"CASE", ToJson([name |-> x.name, argv |-> x.argv, title |-> x.title,
                           exp |-> Call(x.name, x.argv, x.title),
                           asis |-> CallD(x.name, x.argv, x.title, DevAsIs)])>>)
EmitS == x.ph = "call" =>
  PrintT(<<"CASE", ToJson([name |-> x.name, site |-> x.s, lang |-> Sites[x.s].lang, syn |-> Sites[x.s].syn, j |-> x.j, form |-> x.form, pos |-> x.pos,
                           id |-> IF x.j = 0 THEN 0 ELSE E(x.s, x.j).id,
                           key |-> IF x.j = 0 THEN "" ELSE E(x.s, x.j).key,
                           facts |-> IF x.j = 0 THEN {} ELSE FactsOf(x.s, x.j),
                           structural |-> IF x.j = 0 THEN FALSE ELSE Structural(x.s, x.j),
                           attested |-> IF x.j = 0 THEN TRUE ELSE ~NoSubject(x.s, x.j),
                           title |-> PageTitle(x.s, x.j, x.form, x.pos),
                           hasarg |-> x.pos # "title", arg |-> Arg1(x.s, x.j, x.form, x.pos),
                           exp |-> CallS(x.name, x.s, x.j, x.form, x.pos),
                           asis |-> CallSD(x.name, x.s, x.j, x.form, x.pos, DevAsIs),
                           val |-> ValS(x.name, x.s, x.j, x.form, x.pos)])>>)
=============================================================================
