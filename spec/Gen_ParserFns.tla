---------------------------- MODULE Gen_ParserFns ----------------------------
(* Cases for the totality of call_parser_function: NAMES_FILE holds          *)
(* {"known": [...], "names": [...]} read from PARSER_FUNCTIONS of the         *)
(* working tree by the harness.                                               *)
EXTENDS MC_ParserFns, Json, IOUtils

NamesFile == JsonDeserialize(IOEnv.NAMES_FILE)
FileKnown == {NamesFile.known[i] : i \in 1..Len(NamesFile.known)}
FileNames == {NamesFile.names[i] : i \in 1..Len(NamesFile.names)}
Emit == x.ph = "call" =>
  PrintT(<<"CASE", ToJson([name |-> x.name, argv |-> x.argv, title |-> x.title,
                           exp |-> Call(x.name, x.argv, x.title),
                           asis |-> CallD(x.name, x.argv, x.title, DevAsIs)])>>)
=============================================================================
