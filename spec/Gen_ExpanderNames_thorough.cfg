SPECIFICATION SpecN
CONSTANTS
  Universe = "NAMES"
  Known <- NoDev
  DepthLimit = 100
  PreBody <- ThePreBody
  LogEvents = TRUE
  Tier = "thorough"
INVARIANT GenInvN
CHECK_DEADLOCK FALSE
