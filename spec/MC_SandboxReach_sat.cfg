SPECIFICATION SpecSat
CONSTANTS
  Edges <- D_Edges
  Init0 <- D_Init
  Forbidden <- D_Forbidden
  WholeDesign = TRUE
  WithLeaves = TRUE
  Dev <- DevIdeal
INVARIANT Confined
INVARIANT WithinClosure
INVARIANT EndsInClosure
CHECK_DEADLOCK FALSE
