--------------------------- MODULE Gen_LuaFrame ---------------------------
(* C08: what a Lua module must see and get from the frame API, stated with  *)
(* the transclusion reference (Transclusion.tla):                           *)
(*   frame.args          = the #invoke call's arguments bound in the frame   *)
(*                         of the caller (positional verbatim, named trimmed)*)
(*   frame:getParent()   = title and argument map of the enclosing template  *)
(*   frame:preprocess(t) = Expand(t)                                          *)
(*   frame:expandTemplate{title, args} = Expand({{title|k=v...}})             *)
(*   frame:callParserFunction(name, a...) = Expand({{name:a|...}})            *)
(* The #invoke call sits on the page (depth 0), in template W1 (depth 1), or  *)
(* in W1 called from W2 (depth 2); W1/W2 forward {{{1}}}, {{{x}}} and the     *)
(* routing parameters m, f.                                                   *)
EXTENDS Transclusion, Json

CONSTANT Universe

Txt(s) == [k |-> "t", s |-> s]
Par(n) == [k |-> "p", name |-> n, hasDef |-> FALSE, def |-> <<>>]
ParD(n, d) == [k |-> "p", name |-> n, hasDef |-> TRUE, def |-> d]
Call(n, args) == [k |-> "c", name |-> n, args |-> args]
Pos(v) == [named |-> FALSE, key |-> <<>>, val |-> v]
Named(key, v) == [named |-> TRUE, key |-> <<Txt(key)>>, val |-> v]
If(c, y, n) == [k |-> "if", c |-> c, y |-> y, n |-> n]
IfEq(a, b, y, n) == [k |-> "eq", a |-> a, b |-> b, y |-> y, n |-> n]
Plain(c) == <<[w |-> "plain", c |-> c]>>

T1Show == Plain(<<Txt(<<"(">>), Par(<<"1">>), Txt(<<",">>), ParD(<<"x">>, <<Txt(<<"d">>)>>), Txt(<<")">>)>>)
SpBody == Plain(<<Txt(<<"SP", "v", "SP">>)>>)
StarBody == Plain(<<Txt(<<"*">>), Par(<<"1">>)>>)
\* the helper templates (( and )) expand to literal braces: a value built from them is text
\* that looks like a call and must not be expanded a second time
Lib == ("T1" :> T1Show) @@ ("Sp" :> SpBody) @@ ("St" :> StarBody)
       @@ ("((" :> Plain(<<Txt(<<"{{">>)>>)) @@ ("))" :> Plain(<<Txt(<<"}}">>)>>))
Braced == <<Call("((", <<>>), Txt(<<"Sp">>), Call("))", <<>>)>>

\* an otherwise plain value holding a self-closing nowiki tag (atom NWS = "<nowiki />"): the module must
\* see the expanded text, not an internal placeholder (the harness lets the module report lengths)
NwsVal == <<Txt(<<"k", "NWS">>)>>
Values == { Braced, <<Txt(<<"a">>)>>, <<Txt(<<"SP", "b", "SP">>)>>, <<Txt(<<"NL", "c">>)>>, <<Txt(<<"c", "NL">>)>>, <<Call("Sp", <<>>)>>,
            <<Call("T1", <<Pos(<<Txt(<<"i">>)>>)>>)>>, <<Txt(<<"p">>), Call("Sp", <<>>), Txt(<<"q">>)>>,
            <<Call("NOPE", <<>>)>>, <<Call("St", <<Pos(<<Txt(<<"s">>)>>)>>)>>, NwsVal }
ValuesQ == { Braced, <<Txt(<<"a">>)>>, <<Txt(<<"SP", "b", "SP">>)>>, <<Txt(<<"c", "NL">>)>>, <<Call("Sp", <<>>)>>,
             <<Call("T1", <<Pos(<<Txt(<<"i">>)>>)>>)>>, <<Call("St", <<Pos(<<Txt(<<"s">>)>>)>>)>>, NwsVal }
Frags == { <<Txt(<<"t">>)>>, <<Call("T1", <<Pos(<<Txt(<<"z">>)>>), Named(<<"x">>, <<Call("Sp", <<>>)>>)>>)>>,
           <<If(<<Call("Sp", <<>>)>>, <<Txt(<<"SP", "y">>)>>, <<Txt(<<"n">>)>>)>>,
           <<Call("NOPE", <<Pos(<<Txt(<<"a">>)>>)>>), Txt(<<"SP">>), Call("St", <<Pos(<<Txt(<<"w">>)>>)>>)>>,
           <<ParD(<<"u">>, <<Call("T1", <<Pos(<<Txt(<<"q">>)>>)>>)>>)>>, <<Txt(<<"t", "NWS", "u">>)>> }
\* plain strings handed to expandTemplate / callParserFunction from Lua
Strs == { <<"e">>, <<"SP", "g", "SP">>, <<>> }

V == IF Universe = "Q" THEN ValuesQ ELSE Values
\* values of the numeric-named argument 2=...
V3 == { Braced, <<Txt(<<"g">>)>>, <<Call("Sp", <<>>)>>, <<Txt(<<"NL">>), Call("T1", <<Pos(<<Txt(<<"j">>)>>)>>), Txt(<<"SP">>)>> }
Cases == { [depth |-> d, a1 |-> a1, a2 |-> a2, a3 |-> a3, frag |-> fr, s1 |-> s1, s2 |-> s2] :
             d \in 0..2, a1 \in V, a2 \in V, a3 \in V3, fr \in (IF Universe = "Q" THEN {<<Txt(<<"t">>)>>, <<Call("T1", <<Pos(<<Txt(<<"z">>)>>), Named(<<"x">>, <<Call("Sp", <<>>)>>)>>)>>} ELSE Frags),
             s1 \in Strs, s2 \in (IF Universe = "Q" THEN {<<"e">>} ELSE Strs) }

VARIABLE case
Init == case \in Cases
Next == UNCHANGED case
Spec == Init /\ [][Next]_case

\* the #invoke arguments as written at the call site, and the frame they are bound in
PageArgs(c) == <<Pos(c.a1), Named(<<"x">>, c.a2), Named(<<"2">>, c.a3)>>
Fwd == <<Pos(<<Par(<<"1">>)>>), Named(<<"x">>, <<Par(<<"x">>)>>), Named(<<"2">>, <<Par(<<"2">>)>>)>>
Route == <<Named(<<"m">>, <<Txt(<<"M">>)>>), Named(<<"f">>, <<Txt(<<"F">>)>>)>>
W2Frame(c) == Frame(Bind(PageArgs(c) \o Route, 1, 1, TopFrame, Lib, {}))
W1Frame(c) == IF c.depth = 1 THEN Frame(Bind(PageArgs(c) \o Route, 1, 1, TopFrame, Lib, {}))
              ELSE Frame(Bind(Fwd \o <<Named(<<"m">>, <<Par(<<"m">>)>>), Named(<<"f">>, <<Par(<<"f">>)>>)>>, 1, 1, W2Frame(c), Lib, {}))
LuaArgs(c) == IF c.depth = 0 THEN Bind(PageArgs(c), 1, 1, TopFrame, Lib, {})
              ELSE Bind(Fwd, 1, 1, W1Frame(c), Lib, {})
\* final map view of a binding list (later duplicates win) as a sequence for JSON

Expected(c) ==
  [args |-> LuaArgs(c),
   hasParent |-> c.depth > 0,
   ptitle |-> IF c.depth > 0 THEN "Template:W1" ELSE "",
   pargs |-> IF c.depth > 0 THEN W1Frame(c).b ELSE <<>>,
   pre |-> Expand(c.frag, Lib, {}),
   et |-> Expand(<<Call("T1", <<Named(<<"1">>, <<Txt(c.s1)>>), Named(<<"x">>, <<Txt(c.s2)>>)>>)>>, Lib, {}),
   pf |-> Expand(<<If(<<Txt(c.s1)>>, <<Txt(c.s2)>>, <<Txt(<<"n">>)>>)>>, Lib, {}),
   \* a call with an EMPTY positional argument in the middle: {{#ifeq:s1||same|diff}} (arguments keep their positions)
   pf2 |-> Expand(<<IfEq(<<Txt(c.s1)>>, <<>>, <<Txt(<<"same">>)>>, <<Txt(<<"diff">>)>>)>>, Lib, {})]

\* laws: the frame construction is independent of the wrapper depth (arguments are
\* forwarded verbatim / trimmed exactly once)
DepthIndependent == LuaArgs(case) = LuaArgs([case EXCEPT !.depth = 0])
Emit == PrintT(<<"CASE", ToJson([case |-> case, exp |-> Expected(case)])>>)
GenInv == DepthIndependent /\ Emit
=============================================================================
