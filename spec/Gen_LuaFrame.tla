--------------------------- MODULE Gen_LuaFrame ---------------------------
(* C08: what a Lua module must see and get from the frame API, stated with  *)
(* the transclusion reference (Transclusion.tla):                           *)
(*   frame.args          = the #invoke call's arguments bound in the frame   *)
(*                         of the caller (positional verbatim, named trimmed)*)
(*   frame:getParent()   = title and argument map of the enclosing template  *)
(*   frame:preprocess(t) = Expand(t)                                          *)
(*   frame:expandTemplate{title, args} = Expand({{title|k=v...}})             *)
(*   frame:callParserFunction(name, a...) = Expand({{name:a|...}})            *)
(* The #invoke call sits on the page (depth 0), in template W1 (depth 1), or  *)
(* in W1 called from W2 (depth 2); W1/W2 forward {{{1}}}, {{{x}}} and the     *)
(* routing parameters m, f.                                                   *)
(* The template holding the #invoke is a page of the page store             *)
(* (PageStore.tla); the call that reaches it may spell its name in any way   *)
(* the store accepts (first-letter case, underscores, explicit / aliased     *)
(* namespace prefix, leading colon for the main namespace) or name a         *)
(* redirect page; the parent frame's title is the STORED title of the page   *)
(* whose body is expanded (PageStore's reference RefResolve), whatever was   *)
(* written at the call site, at depth 1 and 2 and when the template is       *)
(* reached through frame:expandTemplate{title = ...}.                        *)
(* Family "holes" (round 7): argument vectors whose numeric keys leave HOLES  *)
(* (explicit numeric names beside positional arguments in every order, no 1,  *)
(* names 0 / 00 / -1 that stay strings) x the WAY a module reads a frame's    *)
(* arguments (index by number, index by string, getArgument, ipairs, pairs,   *)
(* argumentPairs, next; in several orders - reading is pure) x the frame that *)
(* is read (the module's own, the parent, a frame made by newChild) x depth.  *)
(* Every read is a view of ONE argument map (HView).                          *)
(* Family "refs" (round 8): the text handed to preprocess / expandTemplate /  *)
(* callParserFunction is built in Lua and holds ARGUMENT REFERENCES whose     *)
(* names are arguments of the enclosing template call / of the #invoke / of   *)
(* neither; a wrapper call's argument written on the page may itself be a     *)
(* reference.  The expectation is the expansion in the PAGE context (no       *)
(* frame); the readings against the #invoke's own / the enclosing call's      *)
(* arguments are computed for the report only (RExpected).                    *)
EXTENDS Transclusion, Json

CONSTANT Universe

Txt(s) == [k |-> "t", s |-> s]
Par(n) == [k |-> "p", name |-> n, hasDef |-> FALSE, def |-> <<>>]
ParD(n, d) == [k |-> "p", name |-> n, hasDef |-> TRUE, def |-> d]
Call(n, args) == [k |-> "c", name |-> n, args |-> args]
Pos(v) == [named |-> FALSE, key |-> <<>>, val |-> v]
Named(key, v) == [named |-> TRUE, key |-> <<Txt(key)>>, val |-> v]
If(c, y, n) == [k |-> "if", c |-> c, y |-> y, n |-> n]
IfEq(a, b, y, n) == [k |-> "eq", a |-> a, b |-> b, y |-> y, n |-> n]
Plain(c) == <<[w |-> "plain", c |-> c]>>

T1Show == Plain(<<Txt(<<"(">>), Par(<<"1">>), Txt(<<",">>), ParD(<<"x">>, <<Txt(<<"d">>)>>), Txt(<<")">>)>>)
SpBody == Plain(<<Txt(<<"SP", "v", "SP">>)>>)
StarBody == Plain(<<Txt(<<"*">>), Par(<<"1">>)>>)
\* the helper templates (( and )) expand to literal braces: a value built from them is text
\* that looks like a call and must not be expanded a second time
Lib == ("T1" :> T1Show) @@ ("Sp" :> SpBody) @@ ("St" :> StarBody)
       @@ ("((" :> Plain(<<Txt(<<"{{">>)>>)) @@ ("))" :> Plain(<<Txt(<<"}}">>)>>))
Braced == <<Call("((", <<>>), Txt(<<"Sp">>), Call("))", <<>>)>>

\* an otherwise plain value holding a self-closing nowiki tag (atom NWS = "<nowiki />"): the module must
\* see the expanded text, not an internal placeholder (the harness lets the module report lengths)
NwsVal == <<Txt(<<"k", "NWS">>)>>
Values == { Braced, <<Txt(<<"a">>)>>, <<Txt(<<"SP", "b", "SP">>)>>, <<Txt(<<"NL", "c">>)>>, <<Txt(<<"c", "NL">>)>>, <<Call("Sp", <<>>)>>,
            <<Call("T1", <<Pos(<<Txt(<<"i">>)>>)>>)>>, <<Txt(<<"p">>), Call("Sp", <<>>), Txt(<<"q">>)>>,
            <<Call("NOPE", <<>>)>>, <<Call("St", <<Pos(<<Txt(<<"s">>)>>)>>)>>, NwsVal }
ValuesQ == { Braced, <<Txt(<<"a">>)>>, <<Txt(<<"SP", "b", "SP">>)>>, <<Txt(<<"c", "NL">>)>>, <<Call("Sp", <<>>)>>,
             <<Call("T1", <<Pos(<<Txt(<<"i">>)>>)>>)>>, <<Call("St", <<Pos(<<Txt(<<"s">>)>>)>>)>>, NwsVal }
Frags == { <<Txt(<<"t">>)>>, <<Call("T1", <<Pos(<<Txt(<<"z">>)>>), Named(<<"x">>, <<Call("Sp", <<>>)>>)>>)>>,
           <<If(<<Call("Sp", <<>>)>>, <<Txt(<<"SP", "y">>)>>, <<Txt(<<"n">>)>>)>>,
           <<Call("NOPE", <<Pos(<<Txt(<<"a">>)>>)>>), Txt(<<"SP">>), Call("St", <<Pos(<<Txt(<<"w">>)>>)>>)>>,
           <<ParD(<<"u">>, <<Call("T1", <<Pos(<<Txt(<<"q">>)>>)>>)>>)>>, <<Txt(<<"t", "NWS", "u">>)>> }
\* plain strings handed to expandTemplate / callParserFunction from Lua
Strs == { <<"e">>, <<"SP", "g", "SP">>, <<>> }

(* ---------------- the wrapper as a page of the page store ---------------- *)
\* atom tables of PageStore (same shape as MC_PageStore's)
R_PfxNs == ("Template:" :> 10) @@ ("template:" :> 10) @@ ("TEMPLATE:" :> 10) @@ ("T:" :> 10) @@ ("t:" :> 10)
           @@ ("Module:" :> 828) @@ ("module:" :> 828) @@ ("MOD:" :> 828)
R_CanonPfx == ("10" :> "Template:") @@ ("828" :> "Module:")
R_UpperOf == ("w" :> "W") @@ ("W" :> "W") @@ ("l" :> "L") @@ ("L" :> "L") @@ ("m" :> "M") @@ ("M" :> "M")
\* only the constant-level operators of PageStore are used (title normalisation on add, candidate
\* titles of get_page, the declarative reference RefGet/RefResolve); its variables are not
PS == INSTANCE PageStore WITH PfxNs <- R_PfxNs, CanonPfx <- R_CanonPfx, UpperOf <- R_UpperOf, Dev <- {},
                              ArgU <- {}, cur <- {}, com <- {}, memo <- {}

WrapBox == <<"W", "rap", "SP", "box">>
LowBox == <<"l", "ow", "SP", "box">>
TWrapBox == <<"Template:">> \o WrapBox
\* the add_page calls that build the store, in order (title as written by the caller, namespace,
\* redirect target as written, body tag; "W1" = the wrapper body holding the #invoke)
Adds == <<
  [title |-> TWrapBox, ns |-> 10, redirect |-> PS!NoRedirect, body |-> "W1"],
  \* added without the prefix (add_page supplies it); redirect to the wrapper
  [title |-> <<"W", "b">>, ns |-> 10, redirect |-> TWrapBox, body |-> ""],
  \* a redirect page with a blank in its own name whose target is written in another spelling
  [title |-> <<"Template:", "W", "SP", "u">>, ns |-> 10, redirect |-> <<"Template:", "w", "rap", "US", "box">>, body |-> ""],
  \* a wrapper stored with a lower-case first letter, and a redirect to it
  [title |-> <<"Template:">> \o LowBox, ns |-> 10, redirect |-> PS!NoRedirect, body |-> "W1"],
  [title |-> <<"Template:", "L", "b">>, ns |-> 10, redirect |-> <<"Template:">> \o LowBox, body |-> ""],
  \* a main-namespace page of the SAME name as the template ({{:Wrap box}} transcludes it), and a redirect to it
  [title |-> WrapBox, ns |-> 0, redirect |-> PS!NoRedirect, body |-> "W1"],
  [title |-> <<"M", "r">>, ns |-> 0, redirect |-> WrapBox, body |-> ""],
  [title |-> <<"Module:", "M">>, ns |-> 828, redirect |-> PS!NoRedirect, body |-> "M"] >>
RECURSIVE StoreAfter(_)
StoreAfter(k) == IF k = 0 THEN {}
                 ELSE PS!Upsert(StoreAfter(k - 1), PS!Row(PS!NormAdd(Adds[k].title, Adds[k].ns), Adds[k].ns,
                                                         Adds[k].redirect, Adds[k].body, "wikitext"))
Store == StoreAfter(Len(Adds))

\* a route = the way the call names the template: {{name|...}} or {{:name|...}}
Underscored(t) == [i \in 1..Len(t) |-> IF t[i] = "SP" THEN "US" ELSE t[i]]
LowerFirst(b) == [b EXCEPT ![1] = CASE b[1] = "W" -> "w" [] b[1] = "L" -> "l" [] b[1] = "M" -> "m" [] OTHER -> b[1]]
UpperFirstB(b) == [b EXCEPT ![1] = IF b[1] \in DOMAIN R_UpperOf THEN R_UpperOf[b[1]] ELSE b[1]]
TBases == {WrapBox, <<"W", "b">>, <<"W", "SP", "u">>, LowBox, <<"L", "b">>}
MBases == {WrapBox, <<"M", "r">>}
CaseSp(B) == B \cup {LowerFirst(b) : b \in B} \cup {UpperFirstB(b) : b \in B}
UnderSp(S) == S \cup {Underscored(t) : t \in S}
TPfx == {"Template:", "template:", "TEMPLATE:", "T:", "t:"}
TSpellings == UnderSp(CaseSp(TBases) \cup {<<p>> \o b : p \in TPfx, b \in CaseSp(TBases)})
MSpellings == UnderSp(CaseSp(MBases))
\* the namespace the call denotes (core.py: template namespace unless the name starts with a colon)
CallNs(r) == IF r.colon THEN 0 ELSE 10
AllRoutes == {[colon |-> FALSE, name |-> s] : s \in TSpellings} \cup {[colon |-> TRUE, name |-> s] : s \in MSpellings}
\* the page that supplies the body, per the statement's reference of the page store
Supplier(r) == PS!RefResolve(Store, r.name, CallNs(r))
\* routes that reach a wrapper (the others go nowhere: no #invoke is run, nothing to observe here)
Routes == {r \in AllRoutes : Supplier(r).found /\ Supplier(r).body = "W1"}
CanonRoute == [colon |-> FALSE, name |-> WrapBox]
\* the page the written name denotes before redirects are followed
FirstPage(r) == PS!RefGet(Store, r.name, CallNs(r), FALSE)
\* transcription of the code path (get_page_resolve_redirect over get_page's candidate titles)
CodeResolve(r) ==
  LET g1 == PS!DbGet(Store, r.name, CallNs(r), FALSE) IN
  IF g1.found /\ g1.redirect # PS!NoRedirect THEN PS!DbGet(Store, g1.redirect, CallNs(r), TRUE) ELSE g1

V == IF Universe = "Q" THEN ValuesQ ELSE Values
\* values of the numeric-named argument 2=...
V3 == { Braced, <<Txt(<<"g">>)>>, <<Call("Sp", <<>>)>>, <<Txt(<<"NL">>), Call("T1", <<Pos(<<Txt(<<"j">>)>>)>>), Txt(<<"SP">>)>> }
\* family "args": the argument / fragment universe, the wrapper called by its stored name
ArgCases == { [fam |-> "args", depth |-> d, via |-> FALSE, route |-> CanonRoute, a1 |-> a1, a2 |-> a2, a3 |-> a3, frag |-> fr, s1 |-> s1, s2 |-> s2] :
             d \in 0..2, a1 \in V, a2 \in V, a3 \in V3, fr \in (IF Universe = "Q" THEN {<<Txt(<<"t">>)>>, <<Call("T1", <<Pos(<<Txt(<<"z">>)>>), Named(<<"x">>, <<Call("Sp", <<>>)>>)>>)>>} ELSE Frags),
             s1 \in Strs, s2 \in (IF Universe = "Q" THEN {<<"e">>} ELSE Strs) }
\* family "route": every way of reaching a wrapper x depth 1..2 x (called from wikitext | through
\* frame:expandTemplate{title = ...} of a module invoked on the page); few argument values.
\* Values handed on through expandTemplate carry no outer blanks (the equivalent call is all-named).
RV(via) == IF via THEN {<<Txt(<<"a">>)>>} ELSE {<<Txt(<<"a">>)>>, <<Txt(<<"SP", "b", "SP">>)>>}
RV2(via) == IF Universe = "Q" THEN {<<Txt(<<"g">>)>>} ELSE RV(via) \cup {<<Txt(<<"g">>)>>}
RouteCasesOf(via) == { [fam |-> "route", depth |-> d, via |-> via, route |-> r, a1 |-> a1, a2 |-> a2, a3 |-> <<Txt(<<"g">>)>>,
                        frag |-> <<Txt(<<"t">>)>>, s1 |-> <<"e">>, s2 |-> <<"e">>] :
                      d \in 1..2, r \in Routes, a1 \in RV(via), a2 \in RV2(via) }
RouteCases == RouteCasesOf(TRUE) \cup RouteCasesOf(FALSE)
Cases0 == ArgCases \cup RouteCases

(* ---------------- family "holes": argument maps with holes x the way they are read ---------------- *)
\* One element of a vector is a positional argument (name <<>>) or a named one.  Numeric names leave holes
\* in the numbering; "0", "00", "-1" look numeric but are not positive decimal numerals and stay strings.
HNamesQ == { <<"1">>, <<"2">>, <<"3">>, <<"5">>, <<"0">>, <<"x">> }
HNamesT == HNamesQ \cup { <<"4">>, <<"0", "0">>, <<"-", "1">> }
HNames == IF Universe = "Q" THEN HNamesQ ELSE HNamesT
\* the value of the i-th written argument: pairwise distinct, one with outer blanks (kept when positional, trimmed
\* when named), one produced by a nested call
HVal == << <<Txt(<<"p">>)>>, <<Txt(<<"SP", "q", "SP">>)>>, <<Call("Sp", <<>>)>>, <<Txt(<<"s">>)>> >>
HShapes == UNION {[1..n -> HNames \cup {<<>>}] : n \in 1..3}
           \cup (IF Universe = "Q" THEN {} ELSE [1..4 -> {<<>>, <<"2">>, <<"4">>, <<"x">>}])
HVec(f) == [i \in DOMAIN f |-> IF f[i] = <<>> THEN Pos(HVal[i]) ELSE Named(f[i], HVal[i])]
\* the call that hands a vector on unchanged from inside a template: the same shape, every value {{{key}}}
RECURSIVE HFwdFrom(_, _, _)
HFwdFrom(vec, i, pos) ==
  IF i > Len(vec) THEN <<>>
  ELSE IF vec[i].named
       THEN <<[named |-> TRUE, key |-> vec[i].key, val |-> <<Par(vec[i].key[1].s)>>]>> \o HFwdFrom(vec, i + 1, pos)
       ELSE <<Pos(<<Par(<<NumAtoms[pos]>>)>>)>> \o HFwdFrom(vec, i + 1, pos + 1)
HFwd(vec) == HFwdFrom(vec, 1, 1)
\* the ways of reading, and the orders in which one module function applies them to a frame
HReaders == {"num", "str", "get", "ipairs", "pairs", "apairs", "next"}
\* (a frame is fresh in every invocation: the FIRST read of an order meets arguments nothing has touched yet, the later
\* ones meet what earlier reads left behind; quick: indexing / pairs / argumentPairs first, thorough: every reader first)
HOrdersQ == { <<"num", "str", "get", "ipairs", "pairs", "apairs", "next">>,
              <<"pairs", "apairs", "next", "ipairs", "num", "str", "get", "pairs">>,
              <<"apairs", "get", "ipairs", "next", "str", "num", "pairs">> }
HOrdersT == HOrdersQ \cup { <<"ipairs", "pairs", "num", "pairs", "str", "apairs", "get", "next">>,
                            <<"next", "get", "pairs", "str", "apairs", "num", "ipairs", "next">>,
                            <<"get", "next", "apairs", "ipairs", "pairs", "str", "num">>,
                            <<"str", "ipairs", "apairs", "pairs", "next", "get", "num", "apairs">> }
HOrders == IF Universe = "Q" THEN HOrdersQ ELSE HOrdersT
\* depth 0: {{#invoke:M|h|vec}} on the page; depth 1: the page calls {{Hw|vec}}, Hw holds {{#invoke:M|h|fwd}};
\* depth 2: the page calls {{Hv|vec}}, Hv holds {{Hw|fwd}}
HoleCases == { [fam |-> "holes", depth |-> d, vec |-> HVec(f), fwd |-> HFwd(HVec(f)), reads |-> o] :
               d \in 0..2, f \in HShapes, o \in HOrders }
\* bindings of the frame the module is invoked with / of its parent frame
HTopB(c) == Bind(c.vec, 1, 1, TopFrame, Lib, {})
HParentB(c) == IF c.depth = 1 THEN HTopB(c) ELSE Bind(c.fwd, 1, 1, Frame(HTopB(c)), Lib, {})
HOwnB(c) == IF c.depth = 0 THEN HTopB(c) ELSE Bind(c.fwd, 1, 1, Frame(HParentB(c)), Lib, {})
\* the argument MAP of a binding list: later duplicates win; a key that is a positive decimal numeral is an integer key
HDigits == {"0", "1", "2", "3", "4", "5", "6", "7", "8", "9"}
IntKeyed(k) == Len(k) > 0 /\ (\A i \in 1..Len(k) : k[i] \in HDigits) /\ (\E i \in 1..Len(k) : k[i] # "0")
RECURSIVE LastWins(_, _)
LastWins(b, i) ==
  IF i > Len(b) THEN <<>>
  ELSE (IF \E j \in (i + 1)..Len(b) : b[j].key = b[i].key THEN <<>>
        ELSE <<[key |-> b[i].key, int |-> IntKeyed(b[i].key), val |-> b[i].val]>>) \o LastWins(b, i + 1)
ArgMapOf(b) == LastWins(b, 1)
HLookup(m, k) == IF \E i \in 1..Len(m) : m[i].key = k
                 THEN [has |-> TRUE, val |-> m[CHOOSE i \in 1..Len(m) : m[i].key = k].val]
                 ELSE [has |-> FALSE, val |-> <<>>]
\* the probes of the indexing reads: numbers 1..HNumMax, and strings (a numeral string denotes the integer key)
HNumMax == 5
HStrProbes == << <<"1">>, <<"2">>, <<"3">>, <<"4">>, <<"5">>, <<"0">>, <<"0", "0">>, <<"-", "1">>, <<"x">>, <<"y">> >>
\* ipairs: the values at 1, 2, ... up to the first hole (Lua semantics; NOT all numeric keys)
RECURSIVE HPrefix(_, _)
HPrefix(m, n) == IF n <= Len(NumAtoms) /\ HLookup(m, <<NumAtoms[n]>>).has
                 THEN <<HLookup(m, <<NumAtoms[n]>>).val>> \o HPrefix(m, n + 1) ELSE <<>>
\* every way of reading is a view of the one map:  pairs / argumentPairs / next yield exactly `map` (as a SET; the order
\* is not specified), args[n] / args["n"] / getArgument(n) answer `num` / `str`, ipairs yields `seq`
HView(b) == LET m == ArgMapOf(b) IN
  [map |-> m,
   num |-> [n \in 1..HNumMax |-> HLookup(m, <<NumAtoms[n]>>)],
   str |-> [i \in 1..Len(HStrProbes) |-> HLookup(m, HStrProbes[i])],
   seq |-> HPrefix(m, 1)]
HExpected(c) ==
  [own |-> HView(HOwnB(c)),
   hasParent |-> c.depth > 0,
   parent |-> IF c.depth > 0 THEN HView(HParentB(c)) ELSE <<>>,
   \* frame:newChild{args = a table holding the frame's own arguments}: the view `own` again (beyond the statement)
   childIsOwn |-> TRUE]
\* laws.  The map does not depend on the depth (the same shape forwarded with {{{key}}} values) ...
HolesDepthIndependent(c) == ArgMapOf(HOwnB(c)) = ArgMapOf(HOwnB([c EXCEPT !.depth = 0]))
                            /\ (c.depth > 0 => ArgMapOf(HParentB(c)) = ArgMapOf(HOwnB(c)))
\* ... and is the reference argument map of ArgViews.tla (C14) of the written argument texts
AV == INSTANCE ArgViews WITH Dev <- {}
HFlat(vec) == [i \in 1..Len(vec) |-> (IF vec[i].named THEN vec[i].key[1].s \o <<"=">> ELSE <<>>) \o Expand(vec[i].val, Lib, {})]
HAsAV(m) == {IF m[i].int THEN AV!IntKey(AV!NumVal(m[i].key), m[i].val) ELSE AV!StrKey(m[i].key, m[i].val) : i \in 1..Len(m)}
HolesAgreeWithArgViews(c) == AV!ArgMap(HFlat(c.vec)) = HAsAV(ArgMapOf(HTopB(c)))
                             /\ AV!ViewLua(HFlat(c.vec)) = AV!ArgMap(HFlat(c.vec))
\* ... and the universe is not vacuous: it holds vectors with a numeric key behind a hole, without any key 1, with a
\* numeric name filling / overriding a position, and with string keys that look numeric
HHasHole(m) == \E i \in 1..Len(m) : m[i].int /\ Len(HPrefix(m, 1)) < AV!NumVal(m[i].key)
HolesUniverseLaws ==
  LET maps == {ArgMapOf(HTopB(c)) : c \in {x \in HoleCases : x.depth = 0}} IN
  /\ \E m \in maps : HHasHole(m) /\ Len(HPrefix(m, 1)) > 0
  /\ \E m \in maps : HHasHole(m) /\ Len(HPrefix(m, 1)) = 0
  /\ \E m \in maps : ~HHasHole(m) /\ Len(HPrefix(m, 1)) = 3
  /\ \E m \in maps : \E i \in 1..Len(m) : ~m[i].int /\ m[i].key = <<"0">>
  /\ \E c \in HoleCases : Len(ArgMapOf(HTopB(c))) < Len(c.vec)
  /\ \A o \in HOrders : {o[i] : i \in 1..Len(o)} = HReaders
  /\ {"num", "pairs", "apairs"} \subseteq {o[1] : o \in HOrders}
  /\ (Universe # "Q" => {o[1] : o \in HOrders} = HReaders)

(* ---------------- family "refs" (round 8): ARGUMENT REFERENCES in the texts handed to the frame API ---------------- *)
\* The text t handed to frame:preprocess / expandTemplate / callParserFunction is built in Lua (nothing substitutes it on
\* the way) and holds {{{n}}} / {{{n|d}}} - bare, as argument of a call, inside #if, in a default - where the NAME n is
\*   "1", "k": an argument of the enclosing template call AND of the #invoke;  "w", "f": of the enclosing call only;
\*   "i": of the #invoke only;  "n": of neither
\* x wrapper depth 0..2 x (wrapper called from wikitext | through frame:expandTemplate) x the value of the wrapper call's
\* first argument as written on the page (plain, or itself a reference {{{k}}} - a page has no arguments, it stays as
\* written and the frames carry that text) x whether the module reads the arguments before or after it calls the API.
\* The statement: preprocess(t) = t expanded in the calling PAGE context: Eval in TopFrame, whatever the frames hold.
RNamesQ == { <<"1">>, <<"k">>, <<"w">>, <<"i">>, <<"n">> }
RNamesT == RNamesQ \cup { <<"f">>, <<"2">>, <<"SP", "k", "SP">> }
RNames == IF Universe = "Q" THEN RNamesQ ELSE RNamesT
TD == <<Txt(<<"d">>)>>
RShapesOf(n) == { <<Par(n)>>, <<ParD(n, TD)>>,
                  <<Call("T1", <<Pos(<<ParD(n, TD)>>), Named(<<"x">>, <<Par(n)>>)>>)>>,
                  <<If(<<ParD(n, <<>>)>>, <<Txt(<<"yes">>)>>, <<Txt(<<"no">>)>>)>> }
RShapesT(n) == { <<Txt(<<"a">>), Par(n), Txt(<<"SP">>), ParD(n, <<Call("Sp", <<>>)>>), Txt(<<"b">>)>>,
                 <<If(<<Txt(<<"c">>)>>, <<Par(n)>>, <<Txt(<<"no">>)>>)>>,
                 <<IfEq(<<ParD(n, TD)>>, TD, <<Txt(<<"same">>)>>, <<Txt(<<"diff">>)>>)>>,
                 <<Call("St", <<Pos(<<ParD(n, <<>>)>>)>>)>> }
\* two names in one text: a reference in the default of another one
RNested == { <<ParD(<<"n">>, <<ParD(<<"k">>, <<Txt(<<"e">>)>>)>>)>>, <<ParD(<<"i">>, <<Par(<<"w">>)>>)>>,
             <<ParD(<<"w">>, <<ParD(<<"1">>, TD)>>)>> }
RFrags == UNION {RShapesOf(n) : n \in RNames} \cup RNested \cup {<<Txt(<<"t">>)>>}
          \cup (IF Universe = "Q" THEN {} ELSE UNION {RShapesT(n) : n \in RNames})
\* the first argument of the wrapper call as written on the page
RWa1Q == { <<Txt(<<"Wone">>)>>, <<Par(<<"k">>)>>, <<Par(<<"w">>)>> }
RWa1T == RWa1Q \cup { <<ParD(<<"k">>, TD)>>, <<Par(<<"n">>)>>, <<Txt(<<"p">>), Par(<<"1">>)>> }
RWa1 == IF Universe = "Q" THEN RWa1Q ELSE RWa1T
ROrders == {"args-first", "api-first"}
\* the pages.  depth 1: the page calls {{Rw1|wa1|k=Wk|w=Ww|f=F}}, Rw1 holds <{{#invoke:M|{{{f}}}|I{{{1}}}|k=I{{{k}}}|i=Ii}}>
\* (the #invoke's own arguments differ from the wrapper's in every value, "i" is its own, "w" and "f" are not handed on);
\* depth 2: the page calls {{Rw2|..}}, Rw2 holds {{Rw1|{{{1}}}|k={{{k}}}|w={{{w}}}|f={{{f}}}}};
\* depth 0: {{#invoke:M|F|I<wa1>|k=IWk|i=Ii}} on the page
RWrap(c) == <<Pos(c.wa1), Named(<<"k">>, <<Txt(<<"Wk">>)>>), Named(<<"w">>, <<Txt(<<"Ww">>)>>), Named(<<"f">>, <<Txt(<<"F">>)>>)>>
RFwd2 == <<Pos(<<Par(<<"1">>)>>), Named(<<"k">>, <<Par(<<"k">>)>>), Named(<<"w">>, <<Par(<<"w">>)>>), Named(<<"f">>, <<Par(<<"f">>)>>)>>
RInv == <<Pos(<<Txt(<<"I">>), Par(<<"1">>)>>), Named(<<"k">>, <<Txt(<<"I">>), Par(<<"k">>)>>), Named(<<"i">>, <<Txt(<<"Ii">>)>>)>>
RInv0(c) == <<Pos(<<Txt(<<"I">>)>> \o c.wa1), Named(<<"k">>, <<Txt(<<"I", "Wk">>)>>), Named(<<"i">>, <<Txt(<<"Ii">>)>>)>>
RefCasesAll == { [fam |-> "refs", depth |-> d, via |-> v, wa1 |-> a, frag |-> fr, order |-> o] :
                 d \in 0..2, v \in BOOLEAN, a \in RWa1, fr \in RFrags, o \in ROrders }
RefCases == { c \in RefCasesAll : ~(c.depth = 0 /\ c.via) }
\* through frame:expandTemplate: the function `via` invoked on the page hands what it sees on, all-named
RSeenByVia(c) == Bind(RWrap(c), 1, 1, TopFrame, Lib, {})
RViaArgs(c) == [j \in 1..Len(RSeenByVia(c)) |-> [named |-> TRUE, key |-> <<Txt(RSeenByVia(c)[j].key)>>, val |-> <<Txt(RSeenByVia(c)[j].val)>>]]
ROuterB(c) == Bind(IF c.via THEN RViaArgs(c) ELSE RWrap(c), 1, 1, TopFrame, Lib, {})
\* bindings of the enclosing template call (the parent frame) and of the #invoke (the module's frame)
RParentB(c) == IF c.depth = 1 THEN ROuterB(c) ELSE Bind(RFwd2, 1, 1, Frame(ROuterB(c)), Lib, {})
ROwnB(c) == IF c.depth = 0 THEN Bind(RInv0(c), 1, 1, TopFrame, Lib, {}) ELSE Bind(RInv, 1, 1, Frame(RParentB(c)), Lib, {})
\* the text as the module writes it (what a reading that takes the Lua strings of expandTemplate / callParserFunction
\* as plain text - MediaWiki's - substitutes)
RECURSIVE Written(_), WrittenItem(_), WrittenArgs(_, _)
WrittenItem(it) ==
  CASE it.k = "t" -> it.s
    [] it.k = "p" -> <<"{{{">> \o it.name \o (IF it.hasDef THEN <<"|">> \o Written(it.def) ELSE <<>>) \o <<"}}}">>
    [] it.k = "c" -> <<"{{", it.name>> \o WrittenArgs(it.args, 1) \o <<"}}">>
    [] it.k = "if" -> <<"{{#if:">> \o Written(it.c) \o <<"|">> \o Written(it.y) \o <<"|">> \o Written(it.n) \o <<"}}">>
    [] it.k = "eq" -> <<"{{#ifeq:">> \o Written(it.a) \o <<"|">> \o Written(it.b) \o <<"|">> \o Written(it.y) \o <<"|">> \o Written(it.n) \o <<"}}">>
Written(c) == IF c = <<>> THEN <<>> ELSE WrittenItem(Head(c)) \o Written(Tail(c))
WrittenArgs(args, j) == IF j > Len(args) THEN <<>>
                        ELSE <<"|">> \o (IF args[j].named THEN Written(args[j].key) \o <<"=">> ELSE <<>>) \o Written(args[j].val)
                             \o WrittenArgs(args, j + 1)
\* the equivalent calls of  expandTemplate{title = "T1", args = {t, x = t}}  and  callParserFunction("#if", t, t, "n")
REtCall(v) == <<Call("T1", <<Named(<<"1">>, v), Named(<<"x">>, v)>>)>>
RPfCall(v) == <<If(v, v, <<Txt(<<"n">>)>>)>>
RFrameOf(c, who) == IF who = "page" \/ (c.depth = 0 /\ who = "parent") THEN TopFrame
                    ELSE IF who = "parent" THEN Frame(RParentB(c)) ELSE Frame(ROwnB(c))
RExpected(c) ==
  [args |-> ROwnB(c), hasParent |-> c.depth > 0, pargs |-> IF c.depth > 0 THEN RParentB(c) ELSE <<>>,
   ptitle |-> <<"Template:", "Rw1">>,
   wrap |-> RWrap(c), inv0 |-> RInv0(c), written |-> Written(c.frag),
   \* THE expectation: the page context
   pre |-> Expand(c.frag, Lib, {}), et |-> Expand(REtCall(c.frag), Lib, {}), pf |-> Expand(RPfCall(c.frag), Lib, {}),
   \* the Lua strings of expandTemplate / callParserFunction taken as plain text (MediaWiki's reading)
   etLit |-> Expand(REtCall(<<Txt(Written(c.frag))>>), Lib, {}), pfLit |-> Expand(RPfCall(<<Txt(Written(c.frag))>>), Lib, {}),
   \* for the report only: the same text resolved against the #invoke's own arguments (MediaWiki's reading of
   \* frame:preprocess) / against the enclosing template call's arguments (no reading of the statement)
   preOwn |-> Eval(c.frag, RFrameOf(c, "own"), Lib, {}),
   preParent |-> Eval(c.frag, RFrameOf(c, "parent"), Lib, {}),
   etParent |-> Eval(REtCall(c.frag), RFrameOf(c, "parent"), Lib, {}),
   pfParent |-> Eval(RPfCall(c.frag), RFrameOf(c, "parent"), Lib, {}),
   \* for the report only: the first argument as written on the page, resolved against the enclosing call's arguments
   a1Parent |-> Eval(c.wa1, RFrameOf(c, "parent"), Lib, {})]
\* laws: the module's arguments do not depend on the depth / the detour ...
RefsDepthIndependent(c) == ROwnB(c) = ROwnB([c EXCEPT !.depth = 0, !.via = FALSE])
                           /\ (c.depth = 2 => RParentB(c) = RParentB([c EXCEPT !.depth = 1]))
                           /\ (c.via => RParentB(c) = RParentB([c EXCEPT !.via = FALSE]))
\* ... and the universe tells the readings apart (non-vacuity): somewhere the page context, the #invoke's arguments and
\* the enclosing call's arguments give three different texts, for every API; a reference takes its default / stays as
\* written / flips an #if; a frame carries a value that is a reference left as written
RefsUniverseLaws ==
  LET E == {RExpected(c) : c \in {x \in RefCases : x.depth = 1 /\ ~x.via /\ x.order = "args-first"}} IN
  /\ \E e \in E : e.pre # e.preOwn /\ e.pre # e.preParent /\ e.preOwn # e.preParent
  /\ \E e \in E : e.et # e.etParent /\ e.et # e.etLit /\ e.etLit # e.etParent
  /\ \E e \in E : e.pf # e.pfParent /\ e.pf # e.pfLit /\ e.pfLit # e.pfParent
  /\ \E e \in E : e.pre = <<"d">> /\ e.preParent = <<"Ww">>
  /\ \E e \in E : e.pre = <<"{{{", "w", "}}}">> /\ e.preParent = <<"Ww">>
  /\ \E e \in E : e.pre = <<"no">> /\ e.preParent = <<"yes">>
  /\ \E e \in E : e.pre = e.preOwn /\ e.pre = e.preParent /\ e.pre # e.written
  /\ \E e \in E : \E j \in 1..Len(e.pargs) : e.pargs[j].key = <<"1">> /\ e.pargs[j].val = <<"{{{", "k", "}}}">>
  /\ \E e \in E : \E j \in 1..Len(e.args) : e.args[j].key = <<"1">> /\ e.args[j].val = <<"I", "{{{", "w", "}}}">>
  /\ \A c \in {x \in RefCases : x.depth = 0} : RExpected(c).preParent = RExpected(c).pre

Cases == Cases0 \cup HoleCases \cup RefCases

VARIABLE case
Init == case \in Cases
Next == UNCHANGED case
Spec == Init /\ [][Next]_case

\* the #invoke arguments as written at the call site, and the frame they are bound in
PageArgs(c) == <<Pos(c.a1), Named(<<"x">>, c.a2), Named(<<"2">>, c.a3)>>
Fwd == <<Pos(<<Par(<<"1">>)>>), Named(<<"x">>, <<Par(<<"x">>)>>), Named(<<"2">>, <<Par(<<"2">>)>>)>>
Route == <<Named(<<"m">>, <<Txt(<<"M">>)>>), Named(<<"f">>, <<Txt(<<"F">>)>>)>>
\* through frame:expandTemplate: the module function `via` invoked on the page with PageArgs, Route (and the
\* title) hands every argument it sees to expandTemplate{title, args}: the equivalent all-named call
SeenByVia(c) == Bind(PageArgs(c) \o Route, 1, 1, TopFrame, Lib, {})
ViaArgs(c) == [i \in 1..Len(SeenByVia(c)) |-> [named |-> TRUE, key |-> <<Txt(SeenByVia(c)[i].key)>>, val |-> <<Txt(SeenByVia(c)[i].val)>>]]
OuterArgs(c) == IF c.via THEN ViaArgs(c) ELSE PageArgs(c) \o Route
W2Frame(c) == Frame(Bind(OuterArgs(c), 1, 1, TopFrame, Lib, {}))
W1Frame(c) == IF c.depth = 1 THEN Frame(Bind(OuterArgs(c), 1, 1, TopFrame, Lib, {}))
              ELSE Frame(Bind(Fwd \o <<Named(<<"m">>, <<Par(<<"m">>)>>), Named(<<"f">>, <<Par(<<"f">>)>>)>>, 1, 1, W2Frame(c), Lib, {}))
LuaArgs(c) == IF c.depth = 0 THEN Bind(PageArgs(c), 1, 1, TopFrame, Lib, {})
              ELSE Bind(Fwd, 1, 1, W1Frame(c), Lib, {})
\* final map view of a binding list (later duplicates win) as a sequence for JSON

Expected(c) ==
  [args |-> LuaArgs(c),
   hasParent |-> c.depth > 0,
   \* the enclosing template = the page whose body is expanded; its title is the stored one
   ptitle |-> IF c.depth > 0 THEN Supplier(c.route).title ELSE <<>>,
   \* how the route got there (for the report): the written name denotes a redirect page / is not the stored spelling
   redirect |-> c.depth > 0 /\ FirstPage(c.route).redirect # PS!NoRedirect,
   firstTitle |-> IF c.depth > 0 THEN FirstPage(c.route).title ELSE <<>>,
   \* frame:getTitle() of the module's own frame: the stored title of the module page (beyond the statement)
   ftitle |-> PS!RefResolve(Store, <<"M">>, 828).title,
   pargs |-> IF c.depth > 0 THEN W1Frame(c).b ELSE <<>>,
   pre |-> Expand(c.frag, Lib, {}),
   et |-> Expand(<<Call("T1", <<Named(<<"1">>, <<Txt(c.s1)>>), Named(<<"x">>, <<Txt(c.s2)>>)>>)>>, Lib, {}),
   pf |-> Expand(<<If(<<Txt(c.s1)>>, <<Txt(c.s2)>>, <<Txt(<<"n">>)>>)>>, Lib, {}),
   \* a call with an EMPTY positional argument in the middle: {{#ifeq:s1||same|diff}} (arguments keep their positions)
   pf2 |-> Expand(<<IfEq(<<Txt(c.s1)>>, <<>>, <<Txt(<<"same">>)>>, <<Txt(<<"diff">>)>>)>>, Lib, {})]

\* laws: the frame construction is independent of the wrapper depth (arguments are
\* forwarded verbatim / trimmed exactly once)
DepthIndependent == case.fam \notin {"holes", "refs"} => LuaArgs(case) = LuaArgs([case EXCEPT !.depth = 0])
\* the title is a function of the page reached, not of the spelling: the code path (candidate titles,
\* one redirect hop) and the reference agree on every route, the supplier is a stored non-redirect page
\* holding the wrapper body, and two routes reaching the same page see the same title
TitleLaws ==
  /\ \A r \in AllRoutes : CodeResolve(r) = Supplier(r)
  /\ \A r \in Routes : \E row \in Store : row.title = Supplier(r).title /\ row.ns = Supplier(r).ns
                                           /\ row.redirect = PS!NoRedirect /\ row.body = "W1"
  /\ CanonRoute \in Routes /\ Supplier(CanonRoute).title = TWrapBox
ViaIndependent == (case.fam \notin {"holes", "refs"} /\ case.via) => LuaArgs(case) = LuaArgs([case EXCEPT !.via = FALSE])
Emit == PrintT(<<"CASE", ToJson([case |-> case, exp |-> IF case.fam = "holes" THEN HExpected(case)
                                                       ELSE IF case.fam = "refs" THEN RExpected(case) ELSE Expected(case)])>>)
HoleLaws == case.fam = "holes" => HolesDepthIndependent(case) /\ HolesAgreeWithArgViews(case)
RefLaws == case.fam = "refs" => RefsDepthIndependent(case)
GenInv == DepthIndependent /\ ViaIndependent /\ HoleLaws /\ RefLaws /\ Emit
\* the store and the route universe, printed once (the harness installs exactly these pages)
ASSUME TitleLaws
ASSUME HolesUniverseLaws
ASSUME RefsUniverseLaws
ASSUME PrintT(<<"REFS", ToJson([inv |-> RInv, fwd2 |-> RFwd2, cases |-> Cardinality(RefCases), frags |-> Cardinality(RFrags),
                                  names |-> RNames, wa1 |-> RWa1])>>)
ASSUME PrintT(<<"HOLES", ToJson([nummax |-> HNumMax, strprobes |-> [i \in 1..Len(HStrProbes) |-> [probe |-> HStrProbes[i], int |-> IntKeyed(HStrProbes[i])]],
                                   orders |-> HOrders, cases |-> Cardinality(HoleCases), shapes |-> Cardinality(HShapes)])>>)
ASSUME PrintT(<<"STORE", ToJson([adds |-> Adds, routes |-> Cardinality(Routes), unreachable |-> Cardinality(AllRoutes \ Routes)])>>)
=============================================================================
