SPECIFICATION Spec
CONSTANTS
  Starts <- StartsBase
  Dev <- DevBak
  MaxRuns = 3
  FlowDef <- FlowsLib
INVARIANT RestoreCorrect
CHECK_DEADLOCK FALSE
