SPECIFICATION MSpec
CONSTANTS
  PfxNs <- S_PfxNs
  CanonPfx <- S_CanonPfx
  UpperOf <- T_UpperOf
  ArgU <- ArgSet
  Dev <- DevIdeal
  Namespaces <- S_Namespaces
  Bases <- BasesTwo
  Bodies <- BodiesOne
  MaxLen = 0
  LookupPfx <- PfxTable
  WithUnderscore = TRUE
  WithNoNs = FALSE
  NrSet <- NrBoth
INVARIANT MGenInv
CHECK_DEADLOCK FALSE
