--------------------------- MODULE Gen_Transclusion ---------------------------
(* Bounded universes of (library, page) pairs for the transclusion reference *)
(* and the generator that prints, for each pair, the expansion the           *)
(* specification requires (ideal and as-is).  Each initial state is one case. *)
EXTENDS Transclusion, Json

CONSTANTS Universe, Known   \* "Q" | "T";  Known = deviations currently listed as findings

KnownC04 == {"ArgTrailingNewlineDropped"}
AllDevs == {"NamedValueTrimmedBeforeExpansion"}

(* ---------------- constructors ---------------- *)
Txt(s) == [k |-> "t", s |-> s]
Par(n) == [k |-> "p", name |-> n, hasDef |-> FALSE, def |-> <<>>]
ParD(n, d) == [k |-> "p", name |-> n, hasDef |-> TRUE, def |-> d]
Call(n, args) == [k |-> "c", name |-> n, args |-> args]
Pos(v) == [named |-> FALSE, key |-> <<>>, val |-> v]
Named(key, v) == [named |-> TRUE, key |-> <<Txt(key)>>, val |-> v]
If(c, y, n) == [k |-> "if", c |-> c, y |-> y, n |-> n]
IfEq(a, b, y, n) == [k |-> "eq", a |-> a, b |-> b, y |-> y, n |-> n]
Switch(v, cases, hasD, d) == [k |-> "sw", v |-> v, cases |-> cases, hasDflt |-> hasD, dflt |-> d]
ParC(n, d) == [k |-> "pc", name |-> n, hasDef |-> TRUE, def |-> d]
Link(args) == [k |-> "l", args |-> args]
Ext(c) == [k |-> "x", c |-> c]
Seg(w, c) == [w |-> w, c |-> c]
Plain(c) == <<Seg("plain", c)>>

(* ---------------- texts ---------------- *)
TextsQ == { <<"a">>, <<"SP", "a", "SP">>, <<"*", "b">>, <<"NL", "b", "NL">>, <<>> }
TextsT == TextsQ \cup { <<"a", "NL">>, <<"SP">>, <<":", "a">>, <<"a", "SP", "b">> }
Texts == IF Universe = "Q" THEN TextsQ ELSE TextsT

(* ---------------- template bodies ---------------- *)
\* T1: leaf templates (use their parameters)
BodyShow == <<Txt(<<"(">>), Par(<<"1">>), Txt(<<",">>), ParD(<<"x">>, <<Txt(<<"d">>)>>), Txt(<<")">>)>>
BodyShow2 == <<Txt(<<"(">>), Par(<<"SP", "2", "SP">>), Txt(<<",">>), Par(<<"y">>), Txt(<<")">>)>>
BodyStar == <<Txt(<<"*">>), Par(<<"1">>)>>
BodyParFirst == <<Par(<<"1">>), Txt(<<"!">>)>>
BodyDefPar == <<ParD(<<"x">>, <<Par(<<"1">>)>>), Txt(<<".">>)>>   \* default refers to another parameter
T1Bodies ==
  { Plain(BodyShow), Plain(BodyShow2), Plain(BodyStar), Plain(BodyParFirst), Plain(BodyDefPar),
    <<Seg("noinclude", <<Txt(<<"doc">>)>>), Seg("plain", BodyShow), Seg("comment", <<Txt(<<"zz">>)>>)>>,
    <<Seg("plain", <<Txt(<<"out">>)>>), Seg("onlyinclude", BodyParFirst), Seg("plain", <<Txt(<<"out">>)>>),
      Seg("onlyinclude", <<Txt(<<"+">>)>>)>>,
    <<Seg("includeonly", BodyParFirst), Seg("noinclude", <<Txt(<<"doc">>)>>)>> }
T1BodiesQ == { Plain(BodyShow), Plain(BodyStar), Plain(BodyDefPar),
               <<Seg("noinclude", <<Txt(<<"doc">>)>>), Seg("plain", BodyShow), Seg("comment", <<Txt(<<"zz">>)>>)>>,
               <<Seg("plain", <<Txt(<<"out">>)>>), Seg("onlyinclude", BodyParFirst), Seg("plain", <<Txt(<<"out">>)>>)>> }

\* T2: templates calling T1, forwarding / padding their own parameters
T2Bodies ==
  { Plain(<<ParC(<<Txt(<<"SP">>), ParD(<<"k">>, <<Txt(<<"1">>)>>)>>, <<Txt(<<"dk">>)>>), ParC(<<Call("T1", <<>>)>>, <<Txt(<<"dc">>)>>)>>), Plain(<<Link(<<<<Txt(<<"a">>)>>, <<Par(<<"1">>), Call("T1", <<Pos(<<Par(<<"x">>)>>)>>)>>>>), Ext(<<Par(<<"1">>)>>)>>), Plain(<<Txt(<<"<">>), Call("T1", <<Pos(<<Par(<<"1">>)>>), Named(<<"x">>, <<Par(<<"x">>)>>)>>), Txt(<<">">>)>>),
    Plain(<<Call("T1", <<Named(<<"x">>, <<Txt(<<"SP">>), Par(<<"1">>), Txt(<<"SP">>)>>)>>)>>),
    Plain(<<Call("T1", <<Pos(<<Txt(<<"SP">>), ParD(<<"q">>, <<Txt(<<"dq">>)>>), Txt(<<"NL">>)>>)>>)>>),
    Plain(<<If(<<Par(<<"1">>)>>, <<Txt(<<"SP", "y", "SP">>)>>, <<Call("T1", <<Pos(<<Txt(<<"n">>)>>)>>)>>)>>),
    Plain(<<Call("T1", <<Named(<<"1">>, <<Par(<<"x">>)>>), Pos(<<Par(<<"1">>)>>)>>)>>) }
T2BodiesQ == { Plain(<<ParC(<<Txt(<<"SP">>), ParD(<<"k">>, <<Txt(<<"1">>)>>)>>, <<Txt(<<"dk">>)>>), ParC(<<Call("T1", <<>>)>>, <<Txt(<<"dc">>)>>)>>), Plain(<<Link(<<<<Txt(<<"a">>)>>, <<Par(<<"1">>), Call("T1", <<Pos(<<Par(<<"x">>)>>)>>)>>>>), Ext(<<Par(<<"1">>)>>)>>), Plain(<<Txt(<<"<">>), Call("T1", <<Pos(<<Par(<<"1">>)>>), Named(<<"x">>, <<Par(<<"x">>)>>)>>), Txt(<<">">>)>>),
               Plain(<<Call("T1", <<Named(<<"x">>, <<Txt(<<"SP">>), Par(<<"1">>), Txt(<<"SP">>)>>)>>)>>),
               Plain(<<If(<<Par(<<"1">>)>>, <<Txt(<<"SP", "y", "SP">>)>>, <<Call("T1", <<Pos(<<Txt(<<"n">>)>>)>>)>>)>>) }

\* SP: a template that expands to padded text (the interaction case of the statement)
SpBody == Plain(<<Txt(<<"SP", "v", "SP">>)>>)

\* libraries with the redirect pages installed (marker RDR): calls through redirects and aliases
LibsR == { ("T1" :> b1) @@ ("T2" :> Plain(<<Txt(<<"<">>), Call("r1", <<Pos(<<Par(<<"1">>)>>)>>), Call("R2", <<>>), Txt(<<">">>)>>))
           @@ ("SP" :> SpBody) @@ ("RDR" :> Plain(<<>>)) : b1 \in T1BodiesQ }
NamePages == { <<Call(n, <<Pos(<<Txt(<<"a">>)>>), Named(<<"x">>, <<Call("SP", <<>>)>>)>>)>> :
                 n \in {"T1", "Template:T1", "t1", "template:T1", "T:T1", "R1", "r1", "R2", "T2", "t2", "Template:T2", "NOPE"} }
Libs == { ("T1" :> b1) @@ ("T2" :> b2) @@ ("SP" :> SpBody) :
            b1 \in (IF Universe = "Q" THEN T1BodiesQ ELSE T1Bodies),
            b2 \in (IF Universe = "Q" THEN T2BodiesQ ELSE T2Bodies) }

(* ---------------- pages ---------------- *)
Values == { <<Txt(t)>> : t \in Texts }
          \cup { <<Call("SP", <<>>)>>, <<Txt(<<"SP">>), Call("SP", <<>>)>>,
                 <<Call("T1", <<Pos(<<Txt(<<"i">>)>>)>>)>>, <<Call("NOPE", <<>>)>>,
                 <<Par(<<"1">>)>>, <<ParD(<<"z">>, <<Txt(<<"dz">>)>>)>>,
                 <<ParD(<<"z">>, <<Call("T1", <<Pos(<<Txt(<<"q">>)>>)>>)>>)>>,
                 <<Link(<<<<Txt(<<"a">>)>>, <<Call("SP", <<>>)>>>>)>>, <<Ext(<<Call("T1", <<Pos(<<Txt(<<"u">>)>>)>>)>>)>> }
ArgKinds == { Pos(v) : v \in Values }
            \cup { Named(key, v) : key \in { <<"x">>, <<"SP", "x", "NL">>, <<"1">>, <<"2">>, <<"y">>, <<"1", "SP">>, <<"NL", "2", "SP">> }, v \in Values }
ArgSeqs == { <<>> } \cup { <<a>> : a \in ArgKinds } \cup { <<a, b>> : a \in ArgKinds, b \in ArgKinds }
ValuesSmall == { <<Txt(<<"a">>)>>, <<Txt(<<"SP", "a", "SP">>)>>, <<Call("SP", <<>>)>>, <<Par(<<"1">>)>>,
                 <<Link(<<<<Txt(<<"a">>)>>, <<Call("SP", <<>>)>>>>)>> }
ArgSeqsQ == { <<>> } \cup { <<a>> : a \in ArgKinds }
            \cup { <<a, b>> : a \in { Pos(v) : v \in Values }, b \in { Pos(v) : v \in ValuesSmall } \cup { Named(k, v) : k \in {<<"x">>, <<"1", "SP">>, <<"2">>}, v \in ValuesSmall } }
            \cup { <<a, b>> : a \in { Named(k, v) : k \in {<<"SP", "x", "NL">>, <<"1">>}, v \in ValuesSmall }, b \in { Named(<<"x">>, v) : v \in Values } \cup { Pos(v) : v \in ValuesSmall } }

CallPages == { <<Call(n, as)>> : n \in {"T1", "T2"}, as \in (IF Universe = "Q" THEN ArgSeqsQ ELSE ArgSeqs) }
             \cup { <<Txt(<<"p">>), Call("NOPE", <<Pos(<<Txt(<<"a">>)>>)>>), Txt(<<"q">>)>> }
             \cup { v : v \in Values }
CtlPages ==
  { <<If(c, y, n)>> : c \in Values, y \in Values, n \in { <<Txt(<<"SP", "n">>)>>, <<>> } }
  \cup { <<IfEq(a, b, <<Txt(<<"SP", "eq", "NL">>)>>, <<Txt(<<"*", "ne">>)>>)>> : a \in Values, b \in Values }
  \cup { <<Switch(v, <<[key |-> <<"a">>, val |-> <<Txt(<<"SP", "one">>)>>],
                      [key |-> <<"SP", "v", "SP">>, val |-> <<Call("T1", <<Pos(<<Txt(<<"sw">>)>>)>>)>>],
                      [key |-> <<"v">>, val |-> <<Txt(<<"*", "vee">>)>>]>>, hd, <<Txt(<<"dflt", "SP">>)>>)>> :
           v \in Values, hd \in BOOLEAN }
FT == <<[k |-> "ft"]>>
FallPages == { <<Switch(v, <<[key |-> <<"a">>, val |-> FT], [key |-> <<"SP", "v">>, val |-> FT],
                              [key |-> <<"c">>, val |-> <<Call("T1", <<Pos(<<Txt(<<"grp">>)>>)>>)>>],
                              [key |-> <<"b">>, val |-> FT], [key |-> <<"d">>, val |-> <<Txt(<<"SP", "two">>)>>]>>, hd, <<Txt(<<"dflt">>)>>)>> :
               v \in Values \cup {<<Txt(<<"b">>)>>, <<Txt(<<"c">>)>>, <<Txt(<<"d">>)>>}, hd \in BOOLEAN }
Pages == CallPages \cup CtlPages \cup FallPages

(* ---------------- generator ---------------- *)
VARIABLES lib, page
Init == \/ (lib \in Libs /\ page \in Pages)
        \/ (lib \in LibsR \cup Libs /\ page \in NamePages)
Next == UNCHANGED <<lib, page>>
Spec == Init /\ [][Next]_<<lib, page>>

Emit ==
  LET ideal == Expand(page, lib, {})
      asis == Expand(page, lib, Known)
  IN PrintT(<<"CASE", ToJson([lib |-> lib, page |-> page, ideal |-> ideal, asis |-> asis])>>)
GenInv == Emit

(* ---------------- laws of the reference, checked by TLC on every case ------ *)
\* (1) padding a named value or key never changes the result
PadVal(a) == IF a.named THEN [a EXCEPT !.val = <<Txt(<<"SP">>)>> \o a.val \o <<Txt(<<"NL">>)>>,
                                       !.key = <<Txt(<<"NL">>)>> \o a.key \o <<Txt(<<"SP">>)>>]
             ELSE a
PadPage(p) == [i \in 1..Len(p) |->
                 IF p[i].k = "c" THEN [p[i] EXCEPT !.args = [j \in 1..Len(p[i].args) |-> PadVal(p[i].args[j])]]
                 ELSE p[i]]
LawNamedTrim == Expand(PadPage(page), lib, {}) = Expand(page, lib, {})
\* (2) a page that calls only missing templates / has no calls is independent of the library
\* (3) the includable part never contains text of noinclude/comment segments
LawIncludable ==
  \A n \in DOMAIN lib :
    LET segs == lib[n]
        inc == IncludablePart(segs)
    IN \A i \in 1..Len(segs) :
         (segs[i].w \in {"noinclude", "comment"} /\ segs[i].c # <<>>) =>
            \A j \in 1..Len(inc) : inc[j] # segs[i].c[1]
Laws == LawNamedTrim /\ LawIncludable
=============================================================================
