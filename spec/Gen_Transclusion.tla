--------------------------- MODULE Gen_Transclusion ---------------------------
(* Bounded universes of (library, page) pairs for the transclusion reference *)
(* and the generator that prints, for each pair, the expansion the           *)
(* specification requires (ideal and as-is).  Each initial state is one case. *)
EXTENDS Transclusion, Json

CONSTANTS Universe, Known,  \* "Q" | "T";  Known = deviations currently listed as findings
          Slice             \* 0 = the whole universe; i > 0 = the i-th part of it (see T1Seq; the harness walks
                            \* through the parts of the thorough universe one at a time to bound its memory)

KnownC04 == {"ArgTrailingNewlineDropped"}
NumKeyDev == "ComputedNumericKeyNotPositional"   \* see Transclusion.tla; family K below
AllDevs == {"NamedValueTrimmedBeforeExpansion"}

(* ---------------- constructors ---------------- *)
Txt(s) == [k |-> "t", s |-> s]
Par(n) == [k |-> "p", name |-> n, hasDef |-> FALSE, def |-> <<>>]
ParD(n, d) == [k |-> "p", name |-> n, hasDef |-> TRUE, def |-> d]
Call(n, args) == [k |-> "c", name |-> n, args |-> args]
Pos(v) == [named |-> FALSE, key |-> <<>>, val |-> v]
Named(key, v) == [named |-> TRUE, key |-> <<Txt(key)>>, val |-> v]
If(c, y, n) == [k |-> "if", c |-> c, y |-> y, n |-> n]
IfEq(a, b, y, n) == [k |-> "eq", a |-> a, b |-> b, y |-> y, n |-> n]
Switch(v, cases, hasD, d) == [k |-> "sw", v |-> v, cases |-> cases, hasDflt |-> hasD, dflt |-> d]
ParC(n, d) == [k |-> "pc", name |-> n, hasDef |-> TRUE, def |-> d]
Link(args) == [k |-> "l", args |-> args]
Ext(c) == [k |-> "x", c |-> c]
Seg(w, c) == [w |-> w, c |-> c]
Plain(c) == <<Seg("plain", c)>>

(* ---------------- texts ---------------- *)
TextsQ == { <<"a">>, <<"SP", "a", "SP">>, <<"*", "b">>, <<"NL", "b", "NL">>, <<>> }
TextsT == TextsQ \cup { <<"a", "NL">>, <<"SP">>, <<":", "a">>, <<"a", "SP", "b">> }
Texts == IF Universe = "Q" THEN TextsQ ELSE TextsT

(* ---------------- template bodies ---------------- *)
\* T1: leaf templates (use their parameters)
BodyShow == <<Txt(<<"(">>), Par(<<"1">>), Txt(<<",">>), ParD(<<"x">>, <<Txt(<<"d">>)>>), Txt(<<")">>)>>
BodyShow2 == <<Txt(<<"(">>), Par(<<"SP", "2", "SP">>), Txt(<<",">>), Par(<<"y">>), Txt(<<")">>)>>
BodyStar == <<Txt(<<"*">>), Par(<<"1">>)>>
BodyParFirst == <<Par(<<"1">>), Txt(<<"!">>)>>
BodyDefPar == <<ParD(<<"x">>, <<Par(<<"1">>)>>), Txt(<<".">>)>>   \* default refers to another parameter
T1Bodies ==
  { Plain(BodyShow), Plain(BodyShow2), Plain(BodyStar), Plain(BodyParFirst), Plain(BodyDefPar),
    <<Seg("noinclude", <<Txt(<<"doc">>)>>), Seg("plain", BodyShow), Seg("comment", <<Txt(<<"zz">>)>>)>>,
    <<Seg("plain", <<Txt(<<"out">>)>>), Seg("onlyinclude", BodyParFirst), Seg("plain", <<Txt(<<"out">>)>>),
      Seg("onlyinclude", <<Txt(<<"+">>)>>)>>,
    <<Seg("includeonly", BodyParFirst), Seg("noinclude", <<Txt(<<"doc">>)>>)>> }
T1BodiesQ == { Plain(BodyShow), Plain(BodyStar), Plain(BodyDefPar),
               <<Seg("noinclude", <<Txt(<<"doc">>)>>), Seg("plain", BodyShow), Seg("comment", <<Txt(<<"zz">>)>>)>>,
               <<Seg("plain", <<Txt(<<"out">>)>>), Seg("onlyinclude", BodyParFirst), Seg("plain", <<Txt(<<"out">>)>>)>> }

\* T2: templates calling T1, forwarding / padding their own parameters
T2Bodies ==
  { Plain(<<ParC(<<Txt(<<"SP">>), ParD(<<"k">>, <<Txt(<<"1">>)>>)>>, <<Txt(<<"dk">>)>>), ParC(<<Call("T1", <<>>)>>, <<Txt(<<"dc">>)>>)>>), Plain(<<Link(<<<<Txt(<<"a">>)>>, <<Par(<<"1">>), Call("T1", <<Pos(<<Par(<<"x">>)>>)>>)>>>>), Ext(<<Par(<<"1">>)>>)>>), Plain(<<Txt(<<"<">>), Call("T1", <<Pos(<<Par(<<"1">>)>>), Named(<<"x">>, <<Par(<<"x">>)>>)>>), Txt(<<">">>)>>),
    Plain(<<Call("T1", <<Named(<<"x">>, <<Txt(<<"SP">>), Par(<<"1">>), Txt(<<"SP">>)>>)>>)>>),
    Plain(<<Call("T1", <<Pos(<<Txt(<<"SP">>), ParD(<<"q">>, <<Txt(<<"dq">>)>>), Txt(<<"NL">>)>>)>>)>>),
    Plain(<<If(<<Par(<<"1">>)>>, <<Txt(<<"SP", "y", "SP">>)>>, <<Call("T1", <<Pos(<<Txt(<<"n">>)>>)>>)>>)>>),
    Plain(<<Call("T1", <<Named(<<"1">>, <<Par(<<"x">>)>>), Pos(<<Par(<<"1">>)>>)>>)>>) }
T2BodiesQ == { Plain(<<ParC(<<Txt(<<"SP">>), ParD(<<"k">>, <<Txt(<<"1">>)>>)>>, <<Txt(<<"dk">>)>>), ParC(<<Call("T1", <<>>)>>, <<Txt(<<"dc">>)>>)>>), Plain(<<Link(<<<<Txt(<<"a">>)>>, <<Par(<<"1">>), Call("T1", <<Pos(<<Par(<<"x">>)>>)>>)>>>>), Ext(<<Par(<<"1">>)>>)>>), Plain(<<Txt(<<"<">>), Call("T1", <<Pos(<<Par(<<"1">>)>>), Named(<<"x">>, <<Par(<<"x">>)>>)>>), Txt(<<">">>)>>),
               Plain(<<Call("T1", <<Named(<<"x">>, <<Txt(<<"SP">>), Par(<<"1">>), Txt(<<"SP">>)>>)>>)>>),
               Plain(<<If(<<Par(<<"1">>)>>, <<Txt(<<"SP", "y", "SP">>)>>, <<Call("T1", <<Pos(<<Txt(<<"n">>)>>)>>)>>)>>) }

\* SP: a template that expands to padded text (the interaction case of the statement)
SpBody == Plain(<<Txt(<<"SP", "v", "SP">>)>>)

\* libraries with the redirect pages installed (marker RDR): calls through redirects and aliases
LibsR == { ("T1" :> b1) @@ ("T2" :> Plain(<<Txt(<<"<">>), Call("r1", <<Pos(<<Par(<<"1">>)>>)>>), Call("R2", <<>>), Txt(<<">">>)>>))
           @@ ("SP" :> SpBody) @@ ("RDR" :> Plain(<<>>)) : b1 \in T1BodiesQ }
NamePages == { <<Call(n, <<Pos(<<Txt(<<"a">>)>>), Named(<<"x">>, <<Call("SP", <<>>)>>)>>)>> :
                 n \in {"T1", "Template:T1", "t1", "template:T1", "T:T1", "R1", "r1", "R2", "T2", "t2", "Template:T2", "NOPE"} }
Libs == { ("T1" :> b1) @@ ("T2" :> b2) @@ ("SP" :> SpBody) :
            b1 \in (IF Universe = "Q" THEN T1BodiesQ ELSE T1Bodies),
            b2 \in (IF Universe = "Q" THEN T2BodiesQ ELSE T2Bodies) }

\* parts of the universe: part i holds the libraries whose T1 is T1Seq[i]; the small families (NamePages, N, K)
\* belong to part 1
T1Seq == <<Plain(BodyShow), Plain(BodyShow2), Plain(BodyStar), Plain(BodyParFirst), Plain(BodyDefPar),
           <<Seg("noinclude", <<Txt(<<"doc">>)>>), Seg("plain", BodyShow), Seg("comment", <<Txt(<<"zz">>)>>)>>,
           <<Seg("plain", <<Txt(<<"out">>)>>), Seg("onlyinclude", BodyParFirst), Seg("plain", <<Txt(<<"out">>)>>),
             Seg("onlyinclude", <<Txt(<<"+">>)>>)>>,
           <<Seg("includeonly", BodyParFirst), Seg("noinclude", <<Txt(<<"doc">>)>>)>> >>
ASSUME {T1Seq[i] : i \in 1..Len(T1Seq)} = T1Bodies   \* the parts cover the thorough universe
ASSUME Slice = 0 \/ (Universe = "T" /\ Slice \in 1..Len(T1Seq))
LibsSel == IF Slice = 0 THEN Libs ELSE { l \in Libs : l["T1"] = T1Seq[Slice] }
Small == Slice \in {0, 1}

(* ---------------- pages ---------------- *)
Values == { <<Txt(t)>> : t \in Texts }
          \cup { <<Call("SP", <<>>)>>, <<Txt(<<"SP">>), Call("SP", <<>>)>>,
                 <<Call("T1", <<Pos(<<Txt(<<"i">>)>>)>>)>>, <<Call("NOPE", <<>>)>>,
                 <<Par(<<"1">>)>>, <<ParD(<<"z">>, <<Txt(<<"dz">>)>>)>>,
                 <<ParD(<<"z">>, <<Call("T1", <<Pos(<<Txt(<<"q">>)>>)>>)>>)>>,
                 <<Link(<<<<Txt(<<"a">>)>>, <<Call("SP", <<>>)>>>>)>>, <<Ext(<<Call("T1", <<Pos(<<Txt(<<"u">>)>>)>>)>>)>> }
ArgKinds == { Pos(v) : v \in Values }
            \cup { Named(key, v) : key \in { <<"x">>, <<"SP", "x", "NL">>, <<"1">>, <<"2">>, <<"y">>, <<"1", "SP">>, <<"NL", "2", "SP">> }, v \in Values }
ArgSeqs == { <<>> } \cup { <<a>> : a \in ArgKinds } \cup { <<a, b>> : a \in ArgKinds, b \in ArgKinds }
ValuesSmall == { <<Txt(<<"a">>)>>, <<Txt(<<"SP", "a", "SP">>)>>, <<Call("SP", <<>>)>>, <<Par(<<"1">>)>>,
                 <<Link(<<<<Txt(<<"a">>)>>, <<Call("SP", <<>>)>>>>)>> }
ArgSeqsQ == { <<>> } \cup { <<a>> : a \in ArgKinds }
            \cup { <<a, b>> : a \in { Pos(v) : v \in Values }, b \in { Pos(v) : v \in ValuesSmall } \cup { Named(k, v) : k \in {<<"x">>, <<"1", "SP">>, <<"2">>}, v \in ValuesSmall } }
            \cup { <<a, b>> : a \in { Named(k, v) : k \in {<<"SP", "x", "NL">>, <<"1">>}, v \in ValuesSmall }, b \in { Named(<<"x">>, v) : v \in Values } \cup { Pos(v) : v \in ValuesSmall } }

CallPages == { <<Call(n, as)>> : n \in {"T1", "T2"}, as \in (IF Universe = "Q" THEN ArgSeqsQ ELSE ArgSeqs) }
             \cup { <<Txt(<<"p">>), Call("NOPE", <<Pos(<<Txt(<<"a">>)>>)>>), Txt(<<"q">>)>> }
             \cup { v : v \in Values }
CtlPages ==
  { <<If(c, y, n)>> : c \in Values, y \in Values, n \in { <<Txt(<<"SP", "n">>)>>, <<>> } }
  \cup { <<IfEq(a, b, <<Txt(<<"SP", "eq", "NL">>)>>, <<Txt(<<"*", "ne">>)>>)>> : a \in Values, b \in Values }
  \cup { <<Switch(v, <<[key |-> <<"a">>, val |-> <<Txt(<<"SP", "one">>)>>],
                      [key |-> <<"SP", "v", "SP">>, val |-> <<Call("T1", <<Pos(<<Txt(<<"sw">>)>>)>>)>>],
                      [key |-> <<"v">>, val |-> <<Txt(<<"*", "vee">>)>>]>>, hd, <<Txt(<<"dflt", "SP">>)>>)>> :
           v \in Values, hd \in BOOLEAN }
FT == <<[k |-> "ft"]>>
FallPages == { <<Switch(v, <<[key |-> <<"a">>, val |-> FT], [key |-> <<"SP", "v">>, val |-> FT],
                              [key |-> <<"c">>, val |-> <<Call("T1", <<Pos(<<Txt(<<"grp">>)>>)>>)>>],
                              [key |-> <<"b">>, val |-> FT], [key |-> <<"d">>, val |-> <<Txt(<<"SP", "two">>)>>]>>, hd, <<Txt(<<"dflt">>)>>)>> :
               v \in Values \cup {<<Txt(<<"b">>)>>, <<Txt(<<"c">>)>>, <<Txt(<<"d">>)>>}, hd \in BOOLEAN }
Pages == CallPages \cup CtlPages \cup FallPages


(* ---------------- family N: the SHAPE of parameter names ---------------- *)
\* The other families write every parameter name as one atom (or a padded numeral).  Here one
\* two-word name is written in several ways (one blank, two blanks, a tabulator, broken over two
\* lines, a mixed run, padded), next to a one-word control ("fn" is another parameter) and a
\* three-word name in two writings; the writing at the call and the writing in the body vary
\* independently, names are also produced by expansion ({{{f{{W2}}n}}}, {{N2|f{{W2}}n=v}}, a name
\* that depends on an argument), reach the parameter through a forwarding template, occur twice
\* in one call (later duplicates win) and on the page itself.  One library holds all of it.
NameWritings == <<
  <<"f", "SP", "n">>,                             \* N1  one blank
  <<"f", "SP", "SP", "n">>,                       \* N2  two blanks
  <<"f", "TAB", "n">>,                            \* N3  a tabulator
  <<"f", "NL", "n">>,                             \* N4  broken over two lines
  <<"f", "SP", "NL", "SP", "n">>,                 \* N5  mixed run
  <<"NL", "f", "SP", "SP", "n", "SP">>,           \* N6  two blanks, padded
  <<"f", "n">>,                                   \* N7  control: no blank, another parameter
  <<"f", "SP", "SP", "n", "TAB", "TAB", "g">>,    \* N8  three words, two runs
  <<"f", "SP", "n", "SP", "g">> >>                \* N9  the same three words, single blanks
NT == <<"N1", "N2", "N3", "N4", "N5", "N6", "N7", "N8", "N9">>   \* ({{{w|d}}}) : the default shows a name that is not found
LT == <<"L1", "L2", "L3", "L4", "L5", "L6", "L7", "L8", "L9">>   \* <{{{w}}}>     : stays literal when not found
NW == 1..Len(NameWritings)
NTs == {NT[i] : i \in NW}
LTs == {LT[i] : i \in NW}
PC(n, hd, d) == [k |-> "pc", name |-> n, hasDef |-> hd, def |-> d]
NamedC(key, v) == [named |-> TRUE, key |-> key, val |-> v]
Dd == <<Txt(<<"d">>)>>
Vv == <<Txt(<<"v">>)>>
RefBody(w) == Plain(<<Txt(<<"(">>), ParD(w, Dd), Txt(<<")">>)>>)
LitBody(w) == Plain(<<Txt(<<"<">>), Par(w), Txt(<<">">>)>>)
ViaCall(t) == <<Txt(<<"f">>), Call(t, <<>>), Txt(<<"n">>)>>        \* f{{t}}n
ViaArg(n) == <<Txt(<<"f">>), Par(<<n>>), Txt(<<"n">>)>>             \* f{{{n}}}n
LibN ==
  [t \in NTs |-> RefBody(NameWritings[CHOOSE i \in NW : NT[i] = t])]
  @@ [t \in LTs |-> LitBody(NameWritings[CHOOSE i \in NW : LT[i] = t])]
  @@ ("W1" :> Plain(<<Txt(<<"SP">>)>>)) @@ ("W2" :> Plain(<<Txt(<<"SP", "SP">>)>>)) @@ ("SP" :> SpBody)
  \* the name of the reference is produced by expansion / depends on an argument
  @@ ("C1" :> Plain(<<Txt(<<"(">>), PC(ViaCall("W2"), TRUE, Dd), Txt(<<")">>)>>))
  @@ ("CL" :> Plain(<<Txt(<<"<">>), PC(ViaCall("W2"), FALSE, <<>>), Txt(<<">">>)>>))
  @@ ("C2" :> Plain(<<Txt(<<"(">>), PC(ViaArg("1"), TRUE, Dd), Txt(<<")">>)>>))
  \* the usual infobox idiom
  @@ ("NI" :> Plain(<<If(<<ParD(NameWritings[2], <<>>)>>, <<Txt(<<"y">>)>>, <<Txt(<<"n">>)>>)>>))
  \* forwarding templates: same writing as the callee, another writing, key produced by an argument / a call
  @@ ("F1" :> Plain(<<Call("N2", <<Named(NameWritings[2], <<Par(<<"1">>)>>)>>)>>))
  @@ ("F2" :> Plain(<<Call("N4", <<Named(NameWritings[1], <<Par(<<"1">>)>>)>>)>>))
  @@ ("F3" :> Plain(<<Call("N2", <<NamedC(ViaArg("2"), <<Par(<<"1">>)>>)>>)>>))
  @@ ("F4" :> Plain(<<Call("N2", <<NamedC(ViaCall("W2"), <<Par(<<"1">>)>>)>>)>>))
  @@ ("F5" :> Plain(<<Call("L5", <<Named(NameWritings[5], <<Par(<<"1">>)>>)>>)>>))
  \* family K: keys that become a numeral by expansion
  @@ ("ONE" :> Plain(<<Txt(<<"1">>)>>)) @@ ("TWO" :> Plain(<<Txt(<<"2">>)>>)) @@ ("PONE" :> Plain(<<Txt(<<"SP", "1", "NL">>)>>))
  @@ ("NP" :> Plain(<<Txt(<<"(">>), ParD(<<"1">>, Dd), Txt(<<",">>), ParD(<<"2">>, <<Txt(<<"e">>)>>), Txt(<<")">>)>>))
  @@ ("FK" :> Plain(<<Call("NP", <<NamedC(<<Call("ONE", <<>>)>>, <<Par(<<"1">>)>>)>>)>>))                    \* {{NP|{{ONE}}={{{1}}}}}
  @@ ("FP" :> Plain(<<Call("NP", <<NamedC(<<Par(<<"2">>)>>, <<Par(<<"1">>)>>)>>)>>))                          \* {{NP|{{{2}}}={{{1}}}}}
  @@ ("FD" :> Plain(<<Call("NP", <<NamedC(<<ParD(<<"k">>, <<Call("TWO", <<>>)>>)>>, <<Par(<<"1">>)>>)>>)>>))  \* {{NP|{{{k|{{TWO}}}}}={{{1}}}}}
Blanks == { <<>>, <<"SP">>, <<"SP", "SP">>, <<"TAB">> }
DupW == IF Universe = "Q" THEN {1, 2, 4, 7, 8, 9} ELSE NW
PagesN ==
  \* one named argument: writing at the call x writing in the body
  { <<Call(t, <<Named(NameWritings[j], Vv)>>)>> : t \in NTs \cup LTs \cup {"C1", "CL", "NI"}, j \in NW }
  \* the value is padded by an inner expansion
  \cup { <<Call(NT[i], <<Named(NameWritings[i], <<Call("SP", <<>>)>>)>>)>> : i \in NW }
  \* two named arguments (later duplicates win)
  \cup { <<Call(NT[i], <<Named(NameWritings[j], <<Txt(<<"1">>)>>), Named(NameWritings[k], <<Txt(<<"2">>)>>)>>)>> :
           i \in NW, j \in DupW, k \in DupW }
  \* the key of the call is produced by expansion
  \cup { <<Call(t, <<NamedC(ViaCall(w), Vv)>>)>> : t \in NTs \cup LTs \cup {"C1", "CL"}, w \in {"W1", "W2"} }
  \* the name of the reference depends on an argument
  \cup { <<Call("C2", <<Pos(<<Txt(b)>>), Named(NameWritings[j], Vv)>>)>> : b \in Blanks, j \in NW }
  \* through a forwarding template
  \cup { <<Call(t, <<Pos(Vv)>>)>> : t \in {"F1", "F2", "F4", "F5"} }
  \cup { <<Call("F3", <<Pos(Vv), Pos(<<Txt(b)>>)>>)>> : b \in Blanks }
  \* references on the page itself (no frame)
  \cup { <<Par(NameWritings[j])>> : j \in NW } \cup { <<ParD(NameWritings[j], Dd)>> : j \in NW }

\* family K: the key of a named argument becomes a (positive) numeral only by expansion: it denotes the
\* positional parameter of that number all the same ("arguments are expanded in the caller's frame",
\* "later duplicates win" - also between a numbered name and a position)
KeyVia == { <<Call("ONE", <<>>)>>, <<Call("TWO", <<>>)>>, <<Call("PONE", <<>>)>>, <<Txt(<<"SP">>), Call("ONE", <<>>), Txt(<<"NL">>)>>,
            <<If(<<Txt(<<"x">>)>>, <<Txt(<<"1">>)>>, <<>>)>>, <<ParD(<<"z">>, <<Txt(<<"1">>)>>)>>, <<ParD(<<"z">>, <<Call("TWO", <<>>)>>)>>,
            <<Txt(<<"1">>)>>, <<Call("W1", <<>>), Txt(<<"2">>)>> }
PagesK ==
  { <<Call("NP", <<NamedC(k, Vv)>>)>> : k \in KeyVia }
  \cup { <<Call("NP", <<Pos(<<Txt(<<"w">>)>>), NamedC(k, Vv)>>)>> : k \in KeyVia }
  \cup { <<Call("NP", <<NamedC(k, Vv), Pos(<<Txt(<<"w">>)>>)>>)>> : k \in KeyVia }
  \cup { <<Call("FK", <<Pos(Vv)>>)>>, <<Call("FP", <<Pos(Vv), Pos(<<Txt(<<"1">>)>>)>>)>>, <<Call("FP", <<Pos(Vv), Pos(<<Txt(<<"SP", "2">>)>>)>>)>>,
          <<Call("FD", <<Pos(Vv)>>)>>, <<Call("FD", <<Pos(Vv), Named(<<"k">>, <<Txt(<<"1">>)>>)>>)>> }

\* what the statement fixes for this family, stated directly (checked once, at start-up):
\* a call supplies the parameter when the two names are equal after trimming - in either reading;
\* it does not when they still differ after folding the interior runs - in either reading.
Lit(w) == <<"<", "{{{">> \o w \o <<"}}}", ">">>
LawSameWriting ==
  \A i \in NW, j \in NW :
    LET pd == <<Call(NT[i], <<Named(NameWritings[j], Vv)>>)>>
        pl == <<Call(LT[i], <<Named(NameWritings[j], Vv)>>)>>
        wi == Trim(NameWritings[i])
        wj == Trim(NameWritings[j])
    IN /\ (wi = wj) => /\ Expand(pd, LibN, {}) = <<"(", "v", ")">> /\ Expand(pd, LibN, {NameFold}) = <<"(", "v", ")">>
                       /\ Expand(pl, LibN, {}) = <<"<", "v", ">">> /\ Expand(pl, LibN, {NameFold}) = <<"<", "v", ">">>
       /\ (FoldRuns(wi) # FoldRuns(wj)) =>
            /\ Expand(pd, LibN, {}) = <<"(", "d", ")">> /\ Expand(pd, LibN, {NameFold}) = <<"(", "d", ")">>
            /\ Expand(pl, LibN, {}) = Lit(wi) /\ Expand(pl, LibN, {NameFold}) = Lit(FoldRuns(wi))
       /\ (FoldRuns(wi) = FoldRuns(wj)) => Expand(pd, LibN, {NameFold}) = <<"(", "v", ")">>
ASSUME LawSameWriting

(* ---------------- generator ---------------- *)
VARIABLES lib, page, fam
Init == \/ (lib \in LibsSel /\ page \in Pages /\ fam = "G")
        \/ (Small /\ lib \in LibsR \cup Libs /\ page \in NamePages /\ fam = "G")
        \/ (Small /\ lib = LibN /\ page \in PagesN /\ fam = "N")
        \/ (Small /\ lib = LibN /\ page \in PagesK /\ fam = "K")
Next == UNCHANGED <<lib, page, fam>>
Spec == Init /\ [][Next]_<<lib, page, fam>>

\* family N: next to the reading of the statement (names are trimmed) the reading of the
\* implementation (interior runs folded as well), each with and without the known deviations
Emit ==
  LET ideal == Expand(page, lib, {})
      asis == Expand(page, lib, Known)
  IN IF fam = "N"
     THEN PrintT(<<"CASE", ToJson([lib |-> lib, page |-> page, ideal |-> ideal, asis |-> asis, fam |-> fam,
                                   fold |-> Expand(page, lib, {NameFold}), asisFold |-> Expand(page, lib, Known \cup {NameFold})])>>)
     ELSE IF fam = "K"
     THEN PrintT(<<"CASE", ToJson([lib |-> lib, page |-> page, ideal |-> ideal, asis |-> asis, fam |-> fam,
                                   asisK |-> Expand(page, lib, Known \cup {NumKeyDev})])>>)
     ELSE PrintT(<<"CASE", ToJson([lib |-> lib, page |-> page, ideal |-> ideal, asis |-> asis])>>)
GenInv == Emit
\* the names of the other families are single atoms or padded numerals: both readings coincide
LawOneWordNames == (fam = "G") => Expand(page, lib, {NameFold}) = Expand(page, lib, {})

(* ---------------- laws of the reference, checked by TLC on every case ------ *)
\* (1) padding a named value or key never changes the result
PadVal(a) == IF a.named THEN [a EXCEPT !.val = <<Txt(<<"SP">>)>> \o a.val \o <<Txt(<<"NL">>)>>,
                                       !.key = <<Txt(<<"NL">>)>> \o a.key \o <<Txt(<<"SP">>)>>]
             ELSE a
PadPage(p) == [i \in 1..Len(p) |->
                 IF p[i].k = "c" THEN [p[i] EXCEPT !.args = [j \in 1..Len(p[i].args) |-> PadVal(p[i].args[j])]]
                 ELSE p[i]]
LawNamedTrim == Expand(PadPage(page), lib, {}) = Expand(page, lib, {})
\* (2) a page that calls only missing templates / has no calls is independent of the library
\* (3) the includable part never contains text of noinclude/comment segments
LawIncludable ==
  \A n \in DOMAIN lib :
    LET segs == lib[n]
        inc == IncludablePart(segs)
    IN \A i \in 1..Len(segs) :
         (segs[i].w \in {"noinclude", "comment"} /\ segs[i].c # <<>>) =>
            \A j \in 1..Len(inc) : inc[j] # segs[i].c[1]
Laws == LawNamedTrim /\ LawIncludable

(* ---------------- Demo: TLC finds the lost argument itself (Gen_Transclusion_DemoNumKey.cfg) ---------- *)
InitK == lib = LibN /\ page \in PagesK /\ fam = "K"
SpecK == InitK /\ [][Next]_<<lib, page, fam>>
NumKeyHarmless == Expand(page, lib, {NumKeyDev}) = Expand(page, lib, {})
=============================================================================
