SPECIFICATION GSpec
CONSTANTS
  Starts <- StartsJ
  Dev <- DevMode
  MaxRuns = 2
  FlowDef <- FlowsLibJ
INVARIANT GenInv
CHECK_DEADLOCK FALSE
