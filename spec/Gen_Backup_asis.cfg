SPECIFICATION GSpec
CONSTANTS
  Starts <- StartsBase
  Dev <- DevAsIs
  MaxRuns = 2
  FlowDef <- FlowsLib
INVARIANT GenInv
CHECK_DEADLOCK FALSE
