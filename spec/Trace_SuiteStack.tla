-------------------------- MODULE Trace_SuiteStack --------------------------
(* C16, V direction, trace source = the repository's own test-suite          *)
(* (harness/suitetrace.py).  The recorder (harness/suiteplug.py) writes one  *)
(* event per public call of a Wtp context at its return; the events of one   *)
(* context, in order, are a behaviour of the small action system below: what *)
(* a public call may do to the expansion path (its depth) and to the five    *)
(* message lists (their lengths), plus the stamps of the messages a call     *)
(* appends.  The calls of the suite take arbitrary texts, so the canonical-  *)
(* text model of Session.tla cannot consume them; this module keeps only the *)
(* part of Session that does not depend on the text.                         *)
(*                                                                           *)
(* event (env TRACE_FILE = {"events": [...]}):                               *)
(*   cid, op, nested (called from inside another recorded call), exc ("" =   *)
(*   returned), es0 / es = len(expand_stack) at entry / at return, m0 / m =  *)
(*   lengths of errors, warnings, debugs, notes, wiki_notices at entry / at  *)
(*   return, st0 / st = number of start_page / start_section /               *)
(*   start_subsection calls made on the context so far (entry / return),     *)
(*   title, section = ctx.title / ctx.section at return ("<None>" = None),    *)
(*   nm = the messages appended by the call: [k, keys, title, section,       *)
(*   tuple]                                                                  *)
(*                                                                           *)
(* One event is consumed per step; every failing clause is recorded by name  *)
(* in `bad` (total verdict: the model is re-synchronised with the observed   *)
(* values after each event, so one leak is reported once and not at every    *)
(* later call of that context).  The harness maps clause names to            *)
(* VIOLATION (what the C16 statement itself says) or DRIFT.                  *)
EXTENDS Naturals, Sequences, FiniteSets, TLC, Json, IOUtils

TraceFile == JsonDeserialize(IOEnv.TRACE_FILE)
Events == TraceFile.events

Lists == 1..5                      \* errors, warnings, debugs, notes, wiki_notices
Zero == [k \in Lists |-> 0]
EmitOps == {"error", "warning", "debug", "note", "wiki_notice"}
ListOf(op) == CASE op = "error" -> 1 [] op = "warning" -> 2 [] op = "debug" -> 3 [] op = "note" -> 4 [] op = "wiki_notice" -> 5
CallOps == {"expand", "parse"}
KeepOps == {"start_section", "start_subsection", "to_return"}
DocKeys == {"msg", "trace", "title", "section", "subsection", "called_from", "path"}
StampT(t) == IF t \in {"<None>", ""} THEN "ERROR_TITLE" ELSE t     \* core.py: self.title or "ERROR_TITLE"
StampS(s) == IF s = "<None>" THEN "" ELSE s                         \* core.py: self.section or ""
SetOf(q) == {q[i] : i \in 1..Len(q)}

(* ---- the model: what one public call does to (path depth, list lengths) ---- *)
M_New(d1, c1) == d1 = 0 /\ c1 = Zero
M_StartPage(d1, c1) == d1 = 1 /\ c1 = Zero                  \* path = <<title>>, lists emptied
                                                              \* (= clauses start_depth /\ lists_emptied)
M_PathKept(d0, d1) == d1 = d0
M_Grow(c0, c1) == \A k \in Lists : c1[k] >= c0[k]
M_Call(d0, c0, d1, c1) == M_PathKept(d0, d1) /\ M_Grow(c0, c1)          \* path restored, lists only grow
M_Emit(k, d0, c0, d1, c1) == d1 = d0 /\ c1 = [c0 EXCEPT ![k] = @ + 1]
M_Keep(d0, c0, d1, c1) == d1 = d0 /\ c1 = c0

VARIABLES depth, cnt, started,    \* model state of the current context
          l, bad
vars == <<depth, cnt, started, l, bad>>

Init == depth = 0 /\ cnt = Zero /\ started = FALSE /\ l = 1 /\ bad = <<>>

Returned(e) == e.exc = ""
Top(e) == ~e.nested
SamePage(e) == e.st = e.st0            \* no start_page / start_section inside the call
AllNew(e, P(_)) == \A j \in 1..Len(e.nm) : P(e.nm[j])

\* clause name -> holds?   (a clause that does not apply to the event holds)
Clauses(e) ==
  LET call == e.op \in CallOps /\ Returned(e)
      emit == e.op \in EmitOps /\ Returned(e) /\ Top(e)
      stamped == (call \/ emit) /\ Top(e) /\ SamePage(e)
  IN
  [ \* --- the statement of C16 ---
    path_restored  |-> (call /\ Top(e)) => M_PathKept(e.es0, e.es),
    lists_emptied  |-> (e.op = "start_page" /\ Returned(e)) => e.m = Zero,
    msg_keys       |-> stamped => AllNew(e, LAMBDA m : SetOf(m.keys) = DocKeys /\ m.tuple),
    msg_title      |-> stamped => AllNew(e, LAMBDA m : m.title = StampT(e.title)),
    msg_section    |-> stamped => AllNew(e, LAMBDA m : m.section = StampS(e.section)),
    \* --- what the model says beyond the statement ---
    nested_restored |-> (call /\ e.nested) => M_PathKept(e.es0, e.es),
    init_clean     |-> (e.op = "init" /\ Returned(e)) => M_New(e.es, e.m),
    start_depth    |-> (e.op = "start_page" /\ Returned(e)) => e.es = 1,
    lists_grow     |-> (call /\ Top(e) /\ SamePage(e)) => M_Grow(e.m0, e.m),
    emit_one       |-> emit => M_Emit(ListOf(e.op), e.es0, e.m0, e.es, e.m),
    keeps          |-> (e.op \in KeepOps /\ Returned(e) /\ Top(e)) => M_Keep(e.es0, e.m0, e.es, e.m),
    sync           |-> (Top(e) /\ e.op # "init") => (e.es0 = depth /\ e.m0 = cnt) ]

Check(e) ==
  \E c \in {Clauses(e)} :
    LET failing == {n \in DOMAIN c : ~c[n]} IN
    bad' = IF failing = {} THEN bad
           ELSE Append(bad, [i |-> l, cid |-> e.cid, op |-> e.op, clauses |-> failing,
                             model |-> [depth |-> depth, cnt |-> cnt]])

\* the action taken by an event; the next model state is the observed one (re-synchronised)
IsEvent(e, ops) == e.op \in ops
NewContext(e) == IsEvent(e, {"init"}) /\ started' = FALSE
StartPage(e) == IsEvent(e, {"start_page"}) /\ started' = Returned(e)
Other(e) == IsEvent(e, CallOps \cup EmitOps \cup KeepOps) /\ UNCHANGED started
\* (a nested call returns before the call that encloses it: only top-level events move the model)
Bind(e) == IF e.nested THEN UNCHANGED <<depth, cnt>> ELSE depth' = e.es /\ cnt' = e.m

Next == /\ l <= Len(Events)
        /\ \E e \in {Events[l]} : (NewContext(e) \/ StartPage(e) \/ Other(e)) /\ Bind(e) /\ Check(e)
        /\ l' = l + 1
Spec == Init /\ [][Next]_vars

Verdict == (l = Len(Events) + 1) => PrintT(<<"VERDICT", ToJson([consumed |-> l - 1, bad |-> bad])>>)
Accepted == TLCGet("stats").diameter = Len(Events) + 1
=============================================================================
