SPECIFICATION Spec
CONSTANTS
  Depth = 4
  Part = 0
  Parts = 1
INVARIANT GenInv
INVARIANT Laws
CHECK_DEADLOCK FALSE
