----------------------------- MODULE Gen_ExtUrl -----------------------------
(* C01 (round 9), G direction for spec/ExtUrl.tla: every url part             *)
(*   <<context, label, head>> \o tail      (tail: <= MaxTail atoms)           *)
(* is one case, printed with the first argument the model predicts for the    *)
(* URL node (merged: ExtUrlOK checks on every case that it has no two         *)
(* adjacent strings).  Contexts: running text, list item, table cell,         *)
(* template argument; label: none / two words.  The harness concretises the   *)
(* case, parses it with the real parser three ways; the real trees are judged *)
(* by WellFormed (Trace_WikiTree: VIOLATION), the predicted first argument is *)
(* compared with the plain-mode tree as DRIFT.                                *)
EXTENDS ExtUrl, Json, TLC

CONSTANTS MaxTail,        \* bound of the tail in the wide contexts
          MaxTailWide,    \* bound of the tail for  running text x label x hHOST / hPATH
          Variant         \* "ideal" | "NoMergeBeforeLabel" (Demo)

Ctxs == {"cTOP", "cLI", "cCELL", "cTARG"}
Labels == {"lNONE", "lTWO"}
Bound(d) == IF d[1] = "cTOP" /\ d[2] = "lTWO" /\ d[3] \in {"hHOST", "hPATH"} THEN MaxTailWide ELSE MaxTail

VARIABLES doc
Init == doc = <<>>
Next == \/ /\ doc = <<>>
           /\ \E c \in Ctxs, l \in Labels, h \in Heads : doc' = <<c, l, h>>
        \/ /\ doc # <<>> /\ Len(doc) - 3 < Bound(doc)
           /\ \E a \in TailAtoms : doc' = Append(doc, a)
Spec == Init /\ [][Next]_doc

UrlPart(d) == SubSeq(d, 3, Len(d))
Predicted(d) ==
  LET u == UrlPart(d)
      arg == IF Variant = "ideal" \/ d[2] = "lNONE" THEN Arg1(u) ELSE Arg1Unmerged(u) IN
  [doc |-> d, link |-> IsLink(d[3]), nargs |-> IF d[2] = "lNONE" THEN 1 ELSE 2, arg1 |-> arg, ok |-> NoAdjacent(arg)]
ExtUrlOK ==
  doc = <<>> \/ \E p \in { Predicted(doc) } : PrintT(<<"CASE", ToJson(p)>>) /\ p.ok
\* Demo: without the merge step before the label, the first argument has adjacent strings
DemoOK == doc = <<>> \/ Predicted(doc).ok
=============================================================================
