SPECIFICATION Spec
CONSTANTS
  Universe = "H"
  MaxLines = 3
INVARIANT AsIsOK
CHECK_DEADLOCK FALSE
