SPECIFICATION Spec
CONSTANTS
  Universe = "Q"
  Known <- KnownC04
  Slice = 0
INVARIANT GenInv
INVARIANT Laws
INVARIANT LawOneWordNames
CHECK_DEADLOCK FALSE
