SPECIFICATION Spec
CONSTANTS
  Universe = "Q"
  Known <- KnownC04
INVARIANT GenInv
INVARIANT Laws
CHECK_DEADLOCK FALSE
