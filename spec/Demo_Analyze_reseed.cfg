SPECIFICATION DemoHSpec
CONSTANTS
  PfxNs <- T_PfxNs
  CanonPfx <- T_CanonPfx
  UpperOf <- T_UpperOf
  ArgU <- NoArgs
  Dev <- DevNoReseed
  TplNs = 10
  MaxN = 3
  MaxRedirects = 0
  Combos <- CombosExact
  HistKinds <- KindsQ
INVARIANT ResultWithinStatementH
CHECK_DEADLOCK FALSE
