SPECIFICATION GSpec
CONSTANTS
  Dev <- DevIdeal
  B = 3
  RecMax = 1
  Bodies <- BodiesAll
  Kinds <- KindsAll
  MaxDepth = 1
  Progs <- Programs
INVARIANT GenInv
CHECK_DEADLOCK FALSE
