------------------------------ MODULE Backup ------------------------------
(* Crash model of the page database files of wikitextprocessor             *)
(* (core.py: create_db, backup_db, close_db_conn, add_page;                *)
(*  dumpparser.py: overwrite_pages, analyze_and_overwrite_pages).          *)
(*                                                                          *)
(* Files: <db>, <db>-wal, <db>-shm, <stem>_backup (+ the temporary file    *)
(* the repaired backup_db writes).  One process at a time runs a *flow*:   *)
(* open (create_db), then a sequence of calls (backup / write / close);    *)
(* the process can be killed before any step (Crash: no cleanup, files     *)
(* stay as they are).  Every step below is one file-visible step of the    *)
(* real code, in code order.                                               *)
(*                                                                          *)
(* Content is a set of naturals: 0 = the base pages, g > 0 = the pages of  *)
(* overwrite number g, WD = "the wikidata cache tables exist" (not part of *)
(* the page content, only needed to predict when the -wal file gets data). *)
(*                                                                          *)
(* Dev \subseteq {"StaleWalKept", "BackupNotAtomic"} switches on what the  *)
(* unrepaired code does; Dev = {} is the repaired design.                  *)
(*                                                                          *)
(* Journal mode is part of the state: every database file carries the mode *)
(* stored in its header ("wal" / "del" = rollback journal, SQLite's        *)
(* default), a rollback journal <db>-journal is a file of its own ("cold": *)
(* created, header not yet synced, ignored by SQLite; "hot": synced, its   *)
(* pre-images are played over whatever main file lies beside it on the     *)
(* next access).  A write too large for SQLite's page cache ("bigwrite")   *)
(* spills BEFORE its commit: into the -wal (harmless: frames without a     *)
(* commit record) or, in rollback mode, into the main file behind a hot    *)
(* journal.  The history may start from other states than the library's    *)
(* own cleanly closed database (Starts): a path that does not exist, an    *)
(* existing zero-length file, a database in rollback mode.  The repaired   *)
(* design switches to WAL on EVERY open, so the restore only has to remove *)
(* -wal/-shm.  Dev "JournalModeKept": the open chooses the journal mode    *)
(* only for a file it creates itself and keeps what it finds otherwise.    *)
EXTENDS Naturals, Sequences, FiniteSets, TLC

CONSTANTS
  Dev,        \* deviations switched on
  MaxRuns,    \* number of process runs explored
  FlowDef,    \* flow name -> sequence of calls after open ("backup","write","bigwrite","close")
  Starts      \* kinds of initial state: "base", "basedel", "zero", "absent"

WD == 99
Pages(c) == c \ {WD}

File(st, c, m) == [st |-> st, c |-> c, m |-> m]
Absent == File("absent", {}, "-")
Zero == File("zero", {}, "-")       \* zero-length file (sqlite3.connect creates it)
Db(c, m) == File("db", c, m)        \* valid database with content c, journal mode m in its header

Wal(st, c, foreign) == [st |-> st, c |-> c, foreign |-> foreign]
NoWal == Wal("absent", {}, FALSE)
EmptyWal == Wal("empty", {}, FALSE) \* zero-length -wal
NoPend == [some |-> FALSE, c |-> {}]
\* rollback journal: c = the committed content its pre-images restore (meaningful when hot)
Jrn(st, c, foreign) == [st |-> st, c |-> c, foreign |-> foreign]
NoJrn == Jrn("absent", {}, FALSE)
ColdJrn == Jrn("cold", {}, FALSE)

StaleWalKept == "StaleWalKept" \in Dev
BackupNotAtomic == "BackupNotAtomic" \in Dev
JournalModeKept == "JournalModeKept" \in Dev

(* ------------------------------------------------------------------ *)
(* the durable state + ghosts as one record, steps as functions on it  *)
(* ------------------------------------------------------------------ *)
\* s = [main, wal, shm, jrn, bak, tmp,  files
\*      pend,                            uncommitted writes of the connection
\*      created,                         this process's connect created the main file
\*      expected, bakDone, mixed, start] ghosts
InitS == [main |-> Db({0, WD}, "wal"), wal |-> NoWal, shm |-> "absent", jrn |-> NoJrn, bak |-> Absent, tmp |-> Absent,
          pend |-> NoPend, created |-> FALSE, expected |-> {0}, bakDone |-> FALSE, mixed |-> FALSE, start |-> "base"]
\* "base": the library's own cleanly closed database; "basedel": the same pages in a database whose
\* header says rollback journal (made by another tool / an older version); "zero": the path is an
\* existing empty file (mkstemp idiom); "absent": nothing there yet
InitOf(k) ==
  CASE k = "base" -> InitS
    [] k = "basedel" -> [InitS EXCEPT !.main = Db({0, WD}, "del"), !.start = k]
    [] k = "zero" -> [InitS EXCEPT !.main = Zero, !.expected = {}, !.start = k]
    [] k = "absent" -> [InitS EXCEPT !.main = Absent, !.expected = {}, !.start = k]

\* what SQLite shows through a connection opened on the files (committed data)
Visible(s) == IF s.main.st # "db" THEN {}
              ELSE IF s.wal.st = "data" THEN s.wal.c ELSE s.main.c
\* what the connection that holds uncommitted writes sees
ConnVisible(s) == IF s.pend.some THEN s.pend.c ELSE Visible(s)

\* commit: pending rows are appended to the -wal; "last committed content"
\* is what the statement demands as long as no backup has been completed
\* (rollback mode: the journal is synced, the main file written, the journal deleted - one call)
CommitS(s) ==
  IF ~s.pend.some THEN s
  ELSE IF s.main.m = "wal"
  THEN [s EXCEPT !.wal = Wal("data", s.pend.c, FALSE), !.shm = "present", !.pend = NoPend,
                 !.expected = IF s.bakDone THEN s.expected ELSE Pages(s.pend.c)]
  ELSE [s EXCEPT !.main = Db(s.pend.c, s.main.m), !.jrn = NoJrn, !.pend = NoPend,
                 !.expected = IF s.bakDone THEN s.expected ELSE Pages(s.pend.c)]

(* ---- create_db (core.py:394-413) ---- *)
\* O1 exists(backup)                      - no file effect, branch
\* Ow, Os (repaired design only)          - remove -wal / -shm before restoring
\* O2 unlink(db)   O3 rename(backup, db)  - restore
\* O4 sqlite3.connect(db)                 - creates a zero-length file if absent
\* O5 executescript(schema; PRAGMA WAL)   - first access: WAL recovery / new db
\* O6 init_wikidata_cache executescript   - creates the cache tables if missing
StepOw(s) == [s EXCEPT !.wal = NoWal]
StepOs(s) == [s EXCEPT !.shm = "absent"]
StepO2(s) == [s EXCEPT !.main = Absent]
StepO3(s) == [s EXCEPT !.main = s.bak, !.bak = Absent, !.bakDone = FALSE, !.mixed = FALSE,
                       !.wal = [s.wal EXCEPT !.foreign = (s.wal.st # "absent")],
                       !.jrn = [s.jrn EXCEPT !.foreign = (s.jrn.st # "absent")]]
StepO4(s) == [s EXCEPT !.main = IF s.main.st = "absent" THEN Zero ELSE s.main,
                       !.created = (s.main.st = "absent")]
\* the journal mode the file has after the open's script: WAL always (repaired design: the pragma
\* is part of every open); with JournalModeKept only for a file this open created - SQLite's default
\* for an existing empty file, the header's mode for an existing database
ModeAfterOpen(s) == IF ~JournalModeKept \/ s.created THEN "wal"
                    ELSE IF s.main.st = "zero" THEN "del" ELSE s.main.m
StepO5(s) ==
  LET m == ModeAfterOpen(s)
      hotForeign == s.jrn.st = "hot" /\ s.jrn.foreign IN
  IF s.main.st = "zero"
  THEN \* a database without pages: SQLite deletes a non-empty -wal lying beside it (a
       \* zero-length one counts as absent and stays, so does a -shm); CREATE TABLE writes
       \* the file in rollback mode, then the header is switched to WAL
       [s EXCEPT !.main = Db({}, m), !.jrn = NoJrn,
                 !.wal = IF s.wal.st = "data" /\ m = "wal" THEN NoWal ELSE s.wal]
  ELSE IF m = "wal"
  THEN \* a hot journal is rolled back first (its own: back to the committed content, which is what
       \* main.c stands for; one of a replaced file: pre-images of another database are written
       \* over this one), the header is switched to WAL if it was not, then
       \* WAL recovery: whatever -wal lies beside the file is replayed over it
       \* (a file switched to WAL by the pragma gets its -wal/-shm only with the next access: O6)
       [s EXCEPT !.main = Db(s.main.c, "wal"), !.jrn = NoJrn,
                 !.shm = IF s.main.m = "wal" THEN "present" ELSE s.shm,
                 !.wal = IF s.main.m # "wal" THEN s.wal
                         ELSE IF s.wal.st = "absent" THEN EmptyWal ELSE [s.wal EXCEPT !.foreign = FALSE],
                 !.mixed = s.mixed \/ (s.wal.st = "data" /\ s.wal.foreign) \/ hotForeign]
  ELSE \* rollback mode kept: a hot journal is rolled back and deleted, a cold one is ignored and stays
       [s EXCEPT !.jrn = IF s.jrn.st = "hot" THEN NoJrn ELSE s.jrn,
                 !.mixed = s.mixed \/ hotForeign]
StepO6(s) ==
  IF WD \in Visible(s)
  THEN IF s.main.m = "wal"    \* CREATE TABLE IF NOT EXISTS reads the schema: the WAL is opened at the latest here
       THEN [s EXCEPT !.shm = "present", !.wal = IF s.wal.st = "absent" THEN EmptyWal ELSE s.wal]
       ELSE s
  ELSE IF s.main.m = "wal"
  THEN [s EXCEPT !.wal = Wal("data", Visible(s) \cup {WD}, FALSE), !.shm = "present"]
  ELSE [s EXCEPT !.main = Db(Visible(s) \cup {WD}, s.main.m)]

AfterO1(s) == IF s.bak.st # "absent" THEN (IF StaleWalKept THEN "O2" ELSE "Ow") ELSE "O4"

(* ---- backup_db (core.py:420-426) ---- *)
\* as-is:    B1 unlink(backup)  B2 commit  B3 connect(backup)  B4 copy  B5 close
\* repaired: B2 commit  Bt unlink(tmp)  B3 connect(tmp)  B4 copy  B5 close  B6 replace(tmp, backup)
StepB1(s) == [s EXCEPT !.bak = Absent]
StepB2(s) == CommitS(s)
StepBt(s) == [s EXCEPT !.tmp = Absent]
StepB3(s) ==
  IF BackupNotAtomic THEN [s EXCEPT !.bak = IF s.bak.st = "absent" THEN Zero ELSE s.bak]
  ELSE [s EXCEPT !.tmp = IF s.tmp.st = "absent" THEN Zero ELSE s.tmp]
StepB4(s) ==
  IF BackupNotAtomic
  THEN [s EXCEPT !.bak = Db(ConnVisible(s), s.main.m), !.bakDone = TRUE, !.expected = Pages(ConnVisible(s))]
  ELSE [s EXCEPT !.tmp = Db(ConnVisible(s), s.main.m)]   \* the copy carries the header, journal mode included
StepB6(s) == [s EXCEPT !.bak = s.tmp, !.tmp = Absent, !.bakDone = TRUE, !.expected = Pages(s.tmp.c)]

FirstB == IF BackupNotAtomic THEN "B1" ELSE "B2"
AfterB2 == IF BackupNotAtomic THEN "B3" ELSE "Bt"
AfterB5 == IF BackupNotAtomic THEN "open" ELSE "B6"

(* ---- overwrite_pages(do_overwrite=True): add_page ..., commit ---- *)
\* rollback mode: the first modified page creates the journal file (header still zero: cold)
StepW1(s, g) == [s EXCEPT !.pend = [some |-> TRUE, c |-> ConnVisible(s) \cup {g}],
                          !.jrn = IF s.main.m = "wal" THEN s.jrn ELSE ColdJrn]
StepW2(s) == CommitS(s)
\* bigwrite = V1 (as W1: the first pages still fit the cache), V2 (the cache spills: uncommitted
\* pages reach the disk), W2 (commit).  WAL: frames without commit record are appended - the
\* visible content stays; rollback: the journal is synced (hot from now on, pre-images = the
\* committed content) and the main file is overwritten in place
StepV2(s) ==
  IF s.main.m = "wal"
  THEN [s EXCEPT !.shm = "present",
                 !.wal = IF s.wal.st = "data" THEN s.wal ELSE Wal("data", Visible(s), FALSE)]
  ELSE [s EXCEPT !.jrn = Jrn("hot", Visible(s), FALSE)]

(* ---- close_db_conn: commit, close (last connection: checkpoint, side files removed) ---- *)
StepC1(s) == CommitS(s)
StepC2(s) == [s EXCEPT !.main = IF s.main.st = "db" THEN Db(Visible(s), s.main.m) ELSE s.main,
                       !.wal = IF s.main.m = "wal" THEN NoWal ELSE s.wal,
                       !.shm = IF s.main.m = "wal" THEN "absent" ELSE s.shm, !.created = FALSE]

(* ---- the whole open as a function (used to predict what a reopen yields) ---- *)
RECURSIVE OpenFrom(_, _)
OpenFrom(p, s) ==
  CASE p = "O1" -> OpenFrom(AfterO1(s), s)
    [] p = "Ow" -> OpenFrom("Os", StepOw(s))
    [] p = "Os" -> OpenFrom("O2", StepOs(s))
    [] p = "O2" -> OpenFrom("O3", StepO2(s))
    [] p = "O3" -> OpenFrom("O4", StepO3(s))
    [] p = "O4" -> OpenFrom("O5", StepO4(s))
    [] p = "O5" -> OpenFrom("O6", StepO5(s))
    [] p = "O6" -> StepO6(s)
Reopened(s) == OpenFrom("O1", [s EXCEPT !.pend = NoPend, !.created = FALSE])

(* ------------------------------------------------------------------ *)
(* state machine                                                       *)
(* ------------------------------------------------------------------ *)
VARIABLES
  s,       \* files + ghosts (record above)
  pc,      \* "idle" (no process), the label of the next step, or "open" (between calls)
  todo,    \* calls the running process still has to make
  runs,    \* number of processes started so far
  nw,      \* overwrites started by the running process
  fresh    \* TRUE exactly in the state reached by completing an open

vars == <<s, pc, todo, runs, nw, fresh>>

InitWith(k) == s = InitOf(k) /\ pc = "idle" /\ todo = <<>> /\ runs = 0 /\ nw = 0 /\ fresh = FALSE
Init == \E k \in Starts : InitWith(k)

\* "base": run 1: 1,2  run 2: 3,4 ...;  the other start kinds (flows with up to three writes) use
\* numbers of their own: run 1: 11,12,13  run 2: 14,15,16 ...
GenId == IF s.start = "base" THEN 2 * (runs - 1) + nw + 1 ELSE 10 + 3 * (runs - 1) + nw + 1

Goto(p, s2) == s' = s2 /\ pc' = p /\ fresh' = FALSE /\ UNCHANGED <<todo, runs, nw>>

Start(flow) ==
  /\ pc = "idle" /\ runs < MaxRuns
  /\ runs' = runs + 1 /\ nw' = 0 /\ todo' = FlowDef[flow] /\ pc' = "O1" /\ s' = s /\ fresh' = FALSE

O1 == pc = "O1" /\ Goto(AfterO1(s), s)
Ow == pc = "Ow" /\ Goto("Os", StepOw(s))
Os == pc = "Os" /\ Goto("O2", StepOs(s))
O2 == pc = "O2" /\ Goto("O3", StepO2(s))
O3 == pc = "O3" /\ Goto("O4", StepO3(s))
O4 == pc = "O4" /\ Goto("O5", StepO4(s))
O5 == pc = "O5" /\ Goto("O6", StepO5(s))
O6 == pc = "O6" /\ s' = StepO6(s) /\ pc' = "open" /\ fresh' = TRUE /\ UNCHANGED <<todo, runs, nw>>

\* the next call of the flow starts
Call(c, first) == /\ pc = "open" /\ todo # <<>> /\ Head(todo) = c
                  /\ pc' = first /\ todo' = Tail(todo) /\ fresh' = FALSE /\ UNCHANGED <<s, runs, nw>>
CallBackup == Call("backup", FirstB)
CallWrite == Call("write", "W1")
CallBigWrite == Call("bigwrite", "V1")
CallClose == Call("close", "C1")

B1 == pc = "B1" /\ Goto("B2", StepB1(s))
B2 == pc = "B2" /\ Goto(AfterB2, StepB2(s))
Bt == pc = "Bt" /\ Goto("B3", StepBt(s))
B3 == pc = "B3" /\ Goto("B4", StepB3(s))
B4 == pc = "B4" /\ Goto("B5", StepB4(s))
B5 == pc = "B5" /\ Goto(AfterB5, s)
B6 == pc = "B6" /\ Goto("open", StepB6(s))

W1 == pc = "W1" /\ s' = StepW1(s, GenId) /\ nw' = nw + 1 /\ pc' = "W2" /\ fresh' = FALSE /\ UNCHANGED <<todo, runs>>
W2 == pc = "W2" /\ Goto("open", StepW2(s))
V1 == pc = "V1" /\ s' = StepW1(s, GenId) /\ nw' = nw + 1 /\ pc' = "V2" /\ fresh' = FALSE /\ UNCHANGED <<todo, runs>>
V2 == pc = "V2" /\ Goto("W2", StepV2(s))

C1 == pc = "C1" /\ Goto("C2", StepC1(s))
C2 == pc = "C2" /\ Goto("idle", StepC2(s))

\* the process is killed (exit without cleanup): uncommitted writes are gone, files stay
Crash == /\ pc # "idle"
         /\ pc' = "idle" /\ s' = [s EXCEPT !.pend = NoPend, !.created = FALSE] /\ todo' = <<>>
         /\ fresh' = FALSE /\ UNCHANGED <<runs, nw>>

StartAny == \E fl \in DOMAIN FlowDef : Start(fl)

Next == StartAny \/ O1 \/ Ow \/ Os \/ O2 \/ O3 \/ O4 \/ O5 \/ O6
        \/ CallBackup \/ CallWrite \/ CallBigWrite \/ CallClose
        \/ B1 \/ B2 \/ Bt \/ B3 \/ B4 \/ B5 \/ B6 \/ W1 \/ W2 \/ V1 \/ V2 \/ C1 \/ C2 \/ Crash

Spec == Init /\ [][Next]_vars

(* ------------------------------------------------------------------ *)
(* what the property demands                                           *)
(* ------------------------------------------------------------------ *)
\* opening the database path yields exactly the content of the last completed
\* backup if one was taken, otherwise the last committed content, and the file is
\* a sound database (no -wal of another file was replayed over it)
RestoreCorrect == fresh => (Pages(Visible(s)) = s.expected /\ s.main.st = "db" /\ ~s.mixed)

\* the same, stated for every moment: if the process died now (or no process is
\* running), the next open would yield the demanded content
CrashSafe == LET r == Reopened(s) IN
             Pages(Visible(r)) = s.expected /\ r.main.st = "db" /\ ~r.mixed

\* no page version written after the backup survives the restore
NoLaterVersionSurvives == fresh => Pages(Visible(s)) \subseteq s.expected

\* an interrupted backup never costs the original pages
BackupNeverCosts == (pc \in {"B1", "B2", "Bt", "B3", "B4", "B5", "B6"}) =>
                      Pages(Visible(Reopened(s))) # {} \/ s.expected = {}

(* observable file state (what the harness can see from outside) *)
ObsFile(f) == [st |-> f.st, c |-> f.c, m |-> f.m]
Obs(t) == [main |-> ObsFile(t.main), wal |-> t.wal.st, vis |-> Visible(t),
           shm |-> t.shm, jrn |-> t.jrn.st, bak |-> ObsFile(t.bak), tmp |-> ObsFile(t.tmp)]
=============================================================================
