SPECIFICATION MCSpec
CONSTANTS
  PfxNs <- T_PfxNs
  CanonPfx <- T_CanonPfx
  UpperOf <- T_UpperOf
  ArgU <- NoArgs
  TplNs = 10
  Defaults <- T_Defaults
  OkModels <- T_OkModels
  Parts = 1
  Part = 0
  Dev <- DevIdeal
  MaxLen = 1
  Pool <- PoolNames
  Sels <- SelsNamesT
INVARIANT StoreIsExpected
INVARIANT NothingLostOrMerged
INVARIANT PrefixIsExpected
INVARIANT FoldAgrees
INVARIANT RedirectsVerbatim
INVARIANT TextsVerbatim
CHECK_DEADLOCK FALSE
