SPECIFICATION GSpec
CONSTANTS
  Dev <- DevIdeal
  B = 3
  RecMax = 1
  Bodies <- BodiesTwo
  Kinds <- KindsCore
  MaxDepth = 3
  Progs <- Programs
INVARIANT GenInv
CHECK_DEADLOCK FALSE
