SPECIFICATION MCHSpec
CONSTANTS
  PfxNs <- T_PfxNs
  CanonPfx <- T_CanonPfx
  UpperOf <- T_UpperOf
  ArgU <- NoArgs
  Dev <- DevIdeal
  TplNs = 10
  MaxN = 3
  MaxRedirects = 0
  Combos <- CombosExact
  HistKinds <- KindsQ
INVARIANT ResultIsIdealH
INVARIANT ResultWithinStatementH
INVARIANT NeverOvermarksH
INVARIANT KeepsEarlierMarks
INVARIANT PushedOnce
PROPERTY TerminatesH
CHECK_DEADLOCK FALSE
