SPECIFICATION Spec
CONSTANTS
  Procs <- P2
  Dev <- DevRollback
  Scenarios <- ScnRestored
INVARIANT NoFailure
INVARIANT SerialResults
INVARIANT StoreUnchanged
INVARIANT NoDeadlock

CHECK_DEADLOCK FALSE
