SPECIFICATION Spec
CONSTANTS
  Dev <- DevNested
  B = 3
  RecMax = 1
  Bodies <- BodiesTwo
  Kinds <- KindsMCcore
  MaxDepth = 3
  Progs <- Programs
INVARIANT TypeOK
INVARIANT OutcomeMatches
INVARIANT CtxRestored
PROPERTY TerminatingEnds
CHECK_DEADLOCK FALSE
