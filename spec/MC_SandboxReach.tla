--------------------------- MODULE MC_SandboxReach ---------------------------
(* Design-level instance of SandboxReach: the object graph of the sandbox   *)
(* as it is built by _sandbox_phase1.lua / _sandbox_phase2.lua / luaexec.py, *)
(* written by hand, with one switch per place where the code today differs  *)
(* from the confinement design:                                             *)
(*   RetainedHostModules  retained_modules keeps host io/os/package/python/ *)
(*                        _G in package.loaded and require()/_cached_mod()  *)
(*                        answer from package.loaded first                  *)
(*   PartialHelpers       Python helpers are functools.partial objects; the *)
(*                        attribute filter lets .args/.func/.keywords pass  *)
(*   LoaderAbsolutePath   lua_loader only strips '//' prefixes, so an       *)
(*                        absolute module name reaches any *.lua host file  *)
(* Checked exhaustively with the attacker following one edge at a time in   *)
(* every order (SpecOne) and with the saturating step (SpecSat).            *)
EXTENDS SandboxReach

CONSTANT Dev

DevIdeal == {}
DevAsIs == {"RetainedHostModules", "PartialHelpers", "LoaderAbsolutePath"}
DevRetained == {"RetainedHostModules"}
DevPartial == {"PartialHelpers"}
DevLoader == {"LoaderAbsolutePath"}

E(s, l, d) == [src |-> s, dst |-> d, label |-> l, req |-> <<>>]
ER(s, l, d, r) == [src |-> s, dst |-> d, label |-> l, req |-> r]

Core == <<
  \* _lua_reset_env: the whitelisted globals (cloned per module by _lua_invoke)
  E("env", "f:require", "require"), E("env", "f:_cached_mod", "cached_mod"),
  E("env", "f:_new_loader", "new_loader"),
  E("env", "f:getmetatable", "getmetatable"),
  E("env", "f:mw_current_title_python", "helper_title"),
  E("env", "f:_python_top_env", "helper_topenv"),
  E("env", "f:_G", "env"),
  \* strings: method syntax reaches the string library, getmetatable its metatable
  E("str", "m:rep", "string_rep"), ER("str", "mt", "strmeta", <<"getmetatable">>),
  E("strmeta", "f:__index", "string_lib"), E("string_lib", "f:rep", "string_rep"),
  \* require of page / built-in modules is intended
  E("require", "c:Module:x", "page_module"), E("cached_mod", "c:Module:x", "page_module"),
  E("new_loader", "c:Module:x", "chunk"), E("chunk", "c:", "page_module"),
  E("helper_topenv", "c:", "env"),
  \* bridge metatable of Python objects
  ER("helper_title", "mt", "pobject_mt", <<"getmetatable">>)
>>

Rest == <<
  E("env", "f:os", "os_safe"),
  E("env", "f:debug", "debug_safe"), E("env", "f:string", "string_lib"),
  E("env", "f:package", "pkg_fake"), E("env", "f:mw", "mw"),
  E("pkg_fake", "f:loaders", "new_loader"),
  E("require", "c:mw_text", "mw_text"), E("mw", "m:text", "mw_text"),
  \* the frame
  E("frame", "f:getParent", "get_parent"),
  E("get_parent", "c:self", "pframe")
>>

Leaves == <<
  E("frame", "f:args", "frame_args"),
  E("os_safe", "f:time", "os_time"), E("debug_safe", "f:traceback", "dbg_traceback"),
  E("pframe", "f:args", "pframe_args"), E("frame", "f:preprocess", "helper_preprocess")
>>

CONSTANTS WholeDesign,  \* FALSE: core of the graph only (for the every-order exploration)
          WithLeaves    \* FALSE: without nodes that have no outgoing edge (each doubles the every-order state space)
Base == (IF WholeDesign THEN Core \o Rest ELSE Core) \o (IF WithLeaves THEN Leaves ELSE <<>>)

Retained == <<
  E("require", "c:io", "host_io"), E("require", "c:os", "host_os"),
  E("require", "c:package", "host_package"), E("require", "c:python", "bridge_python"),
  E("require", "c:_G", "host_G"),
  E("cached_mod", "c:io", "host_io"), E("cached_mod", "c:os", "host_os"),
  E("cached_mod", "c:package", "host_package"), E("cached_mod", "c:python", "bridge_python"),
  E("cached_mod", "c:_G", "host_G")
>>

Partial == <<
  E("helper_title", "a:args", "args_tuple"), E("args_tuple", "x:0", "ctx"),
  E("helper_title", "a:func", "plain_fn"), E("helper_title", "a:keywords", "kw_dict"),
  E("helper_topenv", "a:args", "args_tuple2"), E("args_tuple2", "x:0", "env_stack")
>>

Loader == <<
  E("require", "c:/abs/file", "host_file"), E("new_loader", "c:/abs/file", "chunk_abs"),
  E("chunk_abs", "c:", "host_file")
>>

D_Edges == Base \o (IF "RetainedHostModules" \in Dev THEN Retained ELSE <<>>)
                \o (IF "PartialHelpers" \in Dev THEN Partial ELSE <<>>)
                \o (IF "LoaderAbsolutePath" \in Dev THEN Loader ELSE <<>>)
D_Init == {"env", "frame", "str"}
D_Forbidden == {"host_io", "host_os", "host_package", "host_G", "bridge_python", "ctx",
                "env_stack", "kw_dict", "host_file"}
=============================================================================
