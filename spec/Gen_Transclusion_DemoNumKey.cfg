\* Demo: with the deviation ComputedNumericKeyNotPositional on, TLC finds a call whose argument is lost
SPECIFICATION SpecK
CONSTANTS
  Universe = "Q"
  Known <- KnownC04
INVARIANT NumKeyHarmless
CHECK_DEADLOCK FALSE
