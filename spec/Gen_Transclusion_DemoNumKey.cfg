\* Demo: with the deviation ComputedNumericKeyNotPositional on, TLC finds a call whose argument is lost
SPECIFICATION SpecK
CONSTANTS
  Universe = "Q"
  Known <- KnownC04
  Slice = 0
INVARIANT NumKeyHarmless
CHECK_DEADLOCK FALSE
