SPECIFICATION Spec
CONSTANTS
  Universe = "C05"
  Known <- KnownExp
  DepthLimit = 100
  PreBody <- ThePreBody
  LogEvents = FALSE
INVARIANT GenInv
CHECK_DEADLOCK FALSE
