SPECIFICATION Spec
CONSTANTS
  Universe = "W"
  MaxLines = 3
INVARIANT MachineOK
CHECK_DEADLOCK FALSE
