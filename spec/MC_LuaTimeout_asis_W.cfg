SPECIFICATION Spec
CONSTANTS
  Dev <- DevAsIs
  B = 3
  RecMax = 1
  Bodies <- BodiesAll
  Kinds <- KindsMC
  MaxDepth = 2
  Progs <- Programs
INVARIANT TypeOK
INVARIANT OutcomeMatches
INVARIANT CtxRestored
PROPERTY TerminatingEnds
CHECK_DEADLOCK FALSE
