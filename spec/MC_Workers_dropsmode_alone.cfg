SPECIFICATION Spec
CONSTANTS
  Procs <- P2
  Dev <- DevDrops
  Scenarios <- ScnProv
INVARIANT NoFailure
INVARIANT SerialResults
INVARIANT StoreUnchanged
INVARIANT NoDeadlock
INVARIANT WalAtWork
INVARIANT TxnLockAgree
INVARIANT NoIdleTransaction
CHECK_DEADLOCK FALSE
