SPECIFICATION Spec
CONSTANTS
  Universe = "L"
  MaxLines = 3
INVARIANT MachineOK
INVARIANT GenInv
CHECK_DEADLOCK FALSE
