SPECIFICATION Spec
CONSTANTS
  Universe = "L"
  MaxLines = 3
INVARIANT MachineOK
CHECK_DEADLOCK FALSE
