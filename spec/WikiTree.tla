------------------------------ MODULE WikiTree ------------------------------
(* Abstract parse trees and the well-formedness predicate of property C01.    *)
(*                                                                            *)
(* Representation (what harness/parsetree.py dumps and what Parser.tla's      *)
(* machine trees are converted to):                                           *)
(*   node   [k, sarg, largs, attrs, ch, hasdef, def]                          *)
(*            k      kind name ("ROOT", "LEVEL2", "LIST_ITEM", ...)           *)
(*            sarg   a string (see below)                                     *)
(*            largs  sequence of sequences of children                        *)
(*            attrs  sequence of <<key string, value string>>                 *)
(*            ch     sequence of children; def: the definition (same format)  *)
(*   child  a node, or [s |-> string], or [x |-> type name] (anything else),  *)
(*          or a stub [k |-> kind, stub |-> TRUE] (cut point, see IsStub)     *)
(*   string [n |-> length, hi |-> code points >= U+E000 occurring in it,      *)
(*           c |-> its characters when n <= 8]   or [x |-> type name]         *)
(*                                                                            *)
(* Faults(tree) is the set of violated rules (names below); WellFormed(tree)  *)
(* says it is empty.  The rules are the ones named in the property statement: *)
(*  children only non-empty strings and nodes, no two adjacent strings; list  *)
(*  items only directly under lists, table rows/captions only under tables,   *)
(*  cells only under rows; per-kind argument shape as documented in the       *)
(*  NodeKind / WikiNode docstrings of parser.py; no private-use placeholder   *)
(*  character (U+10203D..U+10FFF0) anywhere (sarg, argument fields, attrs,    *)
(*  children, definition); no two adjacent strings inside an argument field   *)
(*  either (fault "adjacent-strings-in-argument").                            *)
EXTENDS Naturals, Sequences, FiniteSets

MagicFirst == 1056829        \* U+10203D  (MAGIC_NOWIKI_CHAR, first of the reserved range)
MagicLast == 1114096         \* U+10FFF0  (MAGIC_LAST)

IsStrRec(s) == "n" \in DOMAIN s
IsStrChild(c) == "s" \in DOMAIN c
IsNode(c) == "k" \in DOMAIN c
\* a cut point: [k |-> kind, stub |-> TRUE] stands for a subtree that is validated as a
\* separate slice of the same batch (large trees are cut into one-level slices)
IsStub(c) == "stub" \in DOMAIN c
HasPlaceholder(s) == \E j \in 1..Len(s.hi) : s.hi[j] >= MagicFirst /\ s.hi[j] <= MagicLast

LevelKinds == {"LEVEL1", "LEVEL2", "LEVEL3", "LEVEL4", "LEVEL5", "LEVEL6"}
ArgKinds == {"LINK", "TEMPLATE", "TEMPLATE_ARG", "PARSER_FN", "URL"}
PlainKinds == {"ITALIC", "BOLD", "PREFORMATTED", "PRE", "TABLE", "TABLE_CAPTION", "TABLE_ROW",
               "TABLE_HEADER_CELL", "TABLE_CELL"}
AllKinds == {"ROOT", "HLINE", "LIST", "LIST_ITEM", "MAGIC_WORD", "HTML"} \cup LevelKinds \cup ArgKinds \cup PlainKinds
ListChars == {"*", "#", ":", ";"}

\* faults of one string occurrence
StrFaults(s, mayBeEmpty) ==
  IF ~IsStrRec(s) THEN {"not-a-string"}
  ELSE (IF HasPlaceholder(s) THEN {"placeholder-char"} ELSE {})
       \cup (IF ~mayBeEmpty /\ s.n = 0 THEN {"empty-string-child"} ELSE {})

\* where a node may stand
PlaceFaults(n, pk) ==
  (IF n.k = "LIST_ITEM" /\ pk # "LIST" THEN {"LIST_ITEM-not-under-LIST"} ELSE {})
  \cup (IF n.k \in {"TABLE_ROW", "TABLE_CAPTION"} /\ pk # "TABLE" THEN {"row/caption-not-under-TABLE"} ELSE {})
  \cup (IF n.k \in {"TABLE_CELL", "TABLE_HEADER_CELL"} /\ pk # "TABLE_ROW" THEN {"cell-not-under-TABLE_ROW"} ELSE {})
  \cup (IF n.k = "ROOT" /\ pk # "NONE" THEN {"nested-ROOT"} ELSE {})

RECURSIVE NodeFaults(_, _)
RECURSIVE ListFaults(_, _, _, _)
\* faults of a child list `lst` of a node of kind `pk`; strict = the list is a
\* children / definition list (non-empty strings, no two adjacent strings)
ListFaults(lst, pk, strict, i) ==
  IF i > Len(lst) THEN {}
  ELSE LET c == lst[i] IN
       (IF IsStrChild(c)
        THEN StrFaults(c.s, ~strict)
             \cup (IF strict /\ i > 1 /\ IsStrChild(lst[i - 1]) THEN {"adjacent-strings"} ELSE {})
        ELSE IF IsStub(c) THEN PlaceFaults(c, pk)
        ELSE IF IsNode(c) THEN NodeFaults(c, pk)
        ELSE {"child-neither-string-nor-node"})
       \cup ListFaults(lst, pk, strict, i + 1)
\* (round 9) the clause "no two adjacent strings" holds INSIDE every argument field too: an argument is
\* the children list collected so far, merged (_parser_merge_str_children) before it is moved to largs
RECURSIVE ArgAdjacent(_, _)
ArgAdjacent(lst, i) ==
  IF i > Len(lst) THEN {}
  ELSE (IF IsStrChild(lst[i]) /\ IsStrChild(lst[i - 1]) THEN {"adjacent-strings-in-argument"} ELSE {}) \cup ArgAdjacent(lst, i + 1)
RECURSIVE ArgsFaults(_, _)
ArgsFaults(n, k) ==
  IF k > Len(n.largs) THEN {}
  ELSE ListFaults(n.largs[k], n.k, FALSE, 1) \cup ArgAdjacent(n.largs[k], 2) \cup ArgsFaults(n, k + 1)
RECURSIVE AttrFaults(_, _)
AttrFaults(n, j) ==
  IF j > Len(n.attrs) THEN {}
  ELSE StrFaults(n.attrs[j][1], FALSE) \cup StrFaults(n.attrs[j][2], TRUE) \cup AttrFaults(n, j + 1)

\* documented per-kind shape of sarg / largs / attrs / children
ShapeFaults(n) ==
  LET sargEmpty == IsStrRec(n.sarg) /\ n.sarg.n = 0
      sargSet == IsStrRec(n.sarg) /\ n.sarg.n > 0
      nargs == Len(n.largs)
      F(cond, name) == IF cond THEN {} ELSE {name}
  IN
  CASE n.k = "ROOT" ->
         F(sargEmpty, "ROOT-sarg") \cup F(nargs = 1 /\ Len(n.largs[1]) = 1 /\ IsStrChild(n.largs[1][1]), "ROOT-args-not-[[title]]")
         \cup F(n.attrs = <<>>, "ROOT-attrs")
    [] n.k \in LevelKinds ->
         F(sargEmpty, "LEVEL-sarg") \cup F(nargs = 1, "LEVEL-args-not-[title]") \cup F(n.attrs = <<>>, "LEVEL-attrs")
    [] n.k \in {"ITALIC", "BOLD", "PREFORMATTED"} ->
         F(sargEmpty, "format-sarg") \cup F(nargs = 0, "format-args") \cup F(n.attrs = <<>>, "format-attrs")
    [] n.k \in PlainKinds \ {"ITALIC", "BOLD", "PREFORMATTED"} ->
         F(sargEmpty, "table/pre-sarg") \cup F(nargs = 0, "table/pre-args")
    [] n.k = "HLINE" ->
         F(sargEmpty /\ nargs = 0 /\ n.attrs = <<>>, "HLINE-args") \cup F(n.ch = <<>>, "HLINE-children")
    [] n.k \in {"LIST", "LIST_ITEM"} ->
         F(sargSet /\ (n.sarg.n > 8 \/ \A j \in 1..Len(n.sarg.c) : n.sarg.c[j] \in ListChars), "LIST-prefix")
         \cup F(nargs = 0, "LIST-args") \cup F(n.attrs = <<>>, "LIST-attrs")
    [] n.k = "MAGIC_WORD" ->
         F(sargSet, "MAGIC_WORD-sarg") \cup F(nargs = 0 /\ n.attrs = <<>>, "MAGIC_WORD-args") \cup F(n.ch = <<>>, "MAGIC_WORD-children")
    [] n.k = "HTML" ->
         F(sargSet, "HTML-tag-name") \cup F(nargs = 0, "HTML-args")
    [] n.k = "URL" ->
         F(sargEmpty, "URL-sarg") \cup F(nargs >= 1 /\ nargs <= 2, "URL-args-not-1-or-2") \cup F(n.ch = <<>>, "URL-children")
         \cup F(n.attrs = <<>>, "URL-attrs")
    [] n.k = "LINK" ->
         F(sargEmpty, "LINK-sarg") \cup F(nargs >= 1, "LINK-no-args") \cup F(n.attrs = <<>>, "LINK-attrs")
    [] n.k \in {"TEMPLATE", "TEMPLATE_ARG", "PARSER_FN"} ->
         F(sargEmpty, "call-sarg") \cup F(nargs >= 1, "call-no-args") \cup F(n.ch = <<>>, "call-children")
         \cup F(n.attrs = <<>>, "call-attrs")
    [] OTHER -> {"unknown-kind"}

NodeFaults(n, pk) ==
  StrFaults(n.sarg, TRUE)
  \cup ShapeFaults(n)
  \cup PlaceFaults(n, pk)
  \cup ListFaults(n.ch, n.k, TRUE, 1)
  \cup ArgsFaults(n, 1)
  \cup AttrFaults(n, 1)
  \cup (IF n.hasdef
        THEN ListFaults(n.def, n.k, TRUE, 1)
             \cup (IF n.k = "LIST_ITEM" THEN {} ELSE {"definition-on-non-item"})
        ELSE {})

Faults(tree) == (IF tree.k = "ROOT" THEN {} ELSE {"not-ROOT"}) \cup NodeFaults(tree, "NONE")
WellFormed(tree) == Faults(tree) = {}
=============================================================================
