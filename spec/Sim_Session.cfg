SPECIFICATION GSpec
CONSTANTS
  Dev <- DevNone
  Titles <- TitlesTwo
  Sections <- SecThree
  Subsections <- SubTwo
  EmitSet <- EmitRich
  ExpandTexts <- ExpandAll
  ParseTexts <- ParseAll
  Markers <- MarkersPlain
  MaxMsgs = 0
  MaxMarkers = 0
  MaxLen = 14
  FreshLen = 0
  Family = "seq"
  PosLen = 0
  SimMode = TRUE
INVARIANT GenInv
CHECK_DEADLOCK FALSE
