SPECIFICATION Spec
CONSTANTS
  Universe = "GT"
  Part = 0
  Parts = 1
  Known = {}
  Tags <- TagsFromFile
INVARIANT GenInv
CHECK_DEADLOCK FALSE
