------------------------- MODULE Gen_ContextInvoke -------------------------
(* G direction for the invocation-level histories of C09: TLC enumerates the  *)
(* histories of #invoke kinds on ONE page together with the outcome the       *)
(* specification demands of every invocation (Ideal = code as modelled        *)
(* without deviation; the law MeetsDemand is checked on every history), and   *)
(* with the outcome of the as-coded model with the deviation EnvKeptOnAbort   *)
(* where it differs (used by the harness only to NAME an observed failure).   *)
(* Round 7: a second family of initial states, the NEST CASES (nc): top-level  *)
(* invocations, then ONE top-level invocation of the driver module running a   *)
(* program of nested invocations / own reads and writes, then top-level        *)
(* invocations; printed as NCASE with the demanded outcome of every step, the  *)
(* as-is outcome (NestedInvokeSharesLoadedModules) and the outcome of the      *)
(* model in which a nested invocation runs in its caller's environment.        *)
EXTENDS Naturals, Sequences, TLC, Json
CONSTANT Tier
NoDev == {}
DevKept == {"EnvKeptOnAbort", "NestedInvokeSharesLoadedModules"}    \* on top of the code as it is
Ideal == INSTANCE ContextInvoke WITH Dev <- NoDev
Kept == INSTANCE ContextInvoke WITH Dev <- DevKept
DevAsIs == {"LoadDataTableMutableWithinPage", "NestedInvokeSharesLoadedModules", "ContentLanguageObjectShared"}
AsIs == INSTANCE ContextInvoke WITH Dev <- DevAsIs
\* (round 9) class of a seeded change: the constructors of the retained libraries hand out memoised objects
DevObjMemo == DevAsIs \cup {"HandedOutObjectsMemoised"}
ObjMemo == INSTANCE ContextInvoke WITH Dev <- DevObjMemo
DevObjMemoOnly == {"HandedOutObjectsMemoised"}
ObjMemoOnly == INSTANCE ContextInvoke WITH Dev <- DevObjMemoOnly
DevContLangOnly == {"ContentLanguageObjectShared"}
ContLangOnly == INSTANCE ContextInvoke WITH Dev <- DevContLangOnly
DevShared == DevAsIs \cup {"NestedSharesCallerEnv"}
Shared == INSTANCE ContextInvoke WITH Dev <- DevShared
DevSharedOnly == {"NestedSharesCallerEnv"}
SharedOnly == INSTANCE ContextInvoke WITH Dev <- DevSharedOnly

P == Ideal!Probes
LD == Ideal!LoadData
LDW == {"ldset", "ljset"}
LDR == {"ldget", "ljget"}
All == (Ideal!Simple \cup Ideal!Nested) \ ({"timeout"} \cup LD \cup Ideal!TimeKinds \cup Ideal!ObjKinds)
D == Ideal!Disturbing \ {"timeout"}
\* (round 8) the time limit as an option of the call: a call given a small limit, then (same page / next page /
\* after other invocations) the slow invocation without a limit.  These histories wait for the clock of the sandbox.
DevLim == {"TimeLimitKept"}
KeptLim == INSTANCE ContextInvoke WITH Dev <- DevLim
LimHists(t) ==
  IF t = "quick" THEN { <<"lim_peek", "slow">>, <<"lim_peek", "page", "slow">> }
  ELSE { <<l, "slow">> : l \in Ideal!Limited } \cup { <<l, x, "slow">> : l \in Ideal!Limited, x \in {"page", "bump", "nomod", "n_bump"} }
    \cup { <<"slow", "lim_slow", "slow">>, <<"lim_slow", "lim_slow">>, <<"lim_peek", "slow", "page", "slow">>, <<"lim_slow", "peek", "bump">> }
\* the loadData family: a write, anything (or a page break) in between, a read
LDHists == { <<a, b>> : a \in LD, b \in LD }
      \cup { <<a, x, b>> : a \in LDW, x \in All \cup LD \cup {"page"}, b \in LDR }
      \cup { <<d, a, b>> : d \in D, a \in LDW, b \in LDR }
\* (round 9) objects handed out by library constructors: obtain + write, (anything / a page break in between,) obtain the
\* object of the same or of another request again and read; two writers (the second reports what it found); a read first
OW == Ideal!ObjW
OR == Ideal!ObjR
SameObj(a, b) == Ideal!ObjKey(a) = Ideal!ObjKey(b)
ObjBetween == {"page", "gset", "bump", "nomod", "n_bump"}
ObjHists == { <<w, r>> : w \in OW, r \in OR }
       \cup { <<w, v>> : w \in OW, v \in OW }
       \cup { h \in { <<w, x, r>> : w \in OW, x \in ObjBetween, r \in OR \cup OW } : SameObj(h[1], h[3]) }
       \cup { h \in { <<r, w, q>> : r \in OR, w \in OW, q \in OR } : SameObj(h[1], h[2]) /\ SameObj(h[2], h[3]) }
       \cup { h \in { <<w, "page", v, "page", r>> : w \in OW, v \in OW, r \in OR } : SameObj(h[1], h[5]) /\ SameObj(h[3], h[5]) }
ReadBack == {<<"bump", "peek">>, <<"bump", "reqbump">>, <<"gset", "rget">>, <<"sset", "sget">>}

Hists(t) ==
  IF t = "quick" THEN
       { <<a, b>> : a \in All, b \in All }
    \cup { <<d, p, q>> : d \in D, p \in P, q \in P }
    \cup { <<p, q>> \o rb : p \in P, q \in P, rb \in ReadBack }
    \cup { <<p, d, q>> : p \in P, d \in D, q \in P }
    \cup { <<d, "page", p>> : d \in D, p \in P }
    \cup { <<d, e>> \o rb : d \in D, e \in D, rb \in ReadBack }
    \cup LDHists
    \cup { <<"timeout", "bump", "bump">> }                      \* waits for a (short) time limit
    \cup LimHists(t)
    \cup ObjHists
  ELSE
       { <<a, b>> : a \in All, b \in All }
    \cup { <<a, b, c>> : a \in All, b \in All, c \in All }
    \cup { <<p, d, q, r>> : p \in P, d \in D, q \in P, r \in P }
    \cup { <<d, e, p, q>> : d \in D, e \in D, p \in P, q \in {"peek", "reqbump", "gget", "rget", "sget"} }
    \cup { <<d, "page", p>> : d \in D, p \in P }
    \cup { <<d, "page", e, p>> : d \in D, e \in D, p \in P }
    \cup LDHists
    \cup { <<a, x, y, b>> : a \in LDW, x \in D \cup {"page"}, y \in P \cup LD, b \in LDR }
    \cup { <<"timeout", p>> : p \in P }
    \cup { <<"timeout">> \o rb : rb \in ReadBack }
    \cup { <<p, "timeout", q>> : p \in {"bump", "gset"}, q \in {"bump", "reqbump", "rget"} }
    \cup LimHists(t)
    \cup ObjHists

\* ---- nest cases ----
Vias == {"P", "A", "T"}         \* frame:preprocess / argument expanded when read / frame:expandTemplate
NW == Ideal!NestWriters
NR == Ideal!NestReaders
NK == Ideal!NestKinds
OwnW == {"Wg", "Ws", "Wt"}
WriterOf(c) == CASE c = "Wg" -> "gset" [] c = "Ws" -> "sset" [] c = "Wt" -> "tset"
St(v, k) == [via |-> v, k |-> k, sub |-> <<>>]
Own(k) == [via |-> "own", k |-> k, sub |-> <<>>]
Sub(v, steps) == [via |-> v, k |-> "prog", sub |-> steps]
\* the steps of a sub-program sit in text handed to frame:preprocess / expandTemplate by the outer driver: an
\* argument that is itself an #invoke can only be written there when the sub-program is reached through "A"
InnerVias(v) == IF v = "A" THEN Vias ELSE {"P", "T"}
NC(pre, prog, post) == [pre |-> pre, prog |-> prog, post |-> post]
NoCase == NC(<<>>, <<>>, <<>>)
Progs(t) ==
       { <<St(v, k)>> : v \in Vias, k \in NK } \cup { <<Own(k)>> : k \in OwnW \cup {"O"} } \cup { <<Own(c), Own("O")>> : c \in OwnW }
  \* nested writer, then a nested reader, then the caller's own view
  \cup { <<St(v1, w), St(v2, r), Own("O")>> : v1 \in Vias, v2 \in Vias, w \in NW, r \in NR }
  \* two nested writers (the second reports what it found)
  \cup { <<St(v1, w1), St(v2, w2), Own("O")>> : v1 \in Vias, v2 \in Vias, w1 \in NW, w2 \in NW }
  \* the caller sets a cell first: the nested invocation starts from a copy of the caller's environment
  \cup { <<Own(c), St(v, r), Own("O")>> : c \in OwnW, v \in Vias, r \in NR }
  \cup { <<Own(c), St(v1, WriterOf(c)), St(v2, r), Own("O")>> : c \in OwnW, v1 \in Vias, v2 \in Vias, r \in NR }
  \* two levels: a nested driver whose own nested invocation / own write must stay inside it
  \cup { <<Sub(v1, <<St(v2, w), Own("O")>>), St(v3, "view"), Own("O")>> :
            v1 \in Vias, v2 \in (IF t = "quick" THEN {"P"} ELSE Vias), v3 \in Vias, w \in NW }
  \cup { <<Sub(v1, <<Own(c), Own("O")>>), St(v2, "view"), Own("O")>> : v1 \in Vias, v2 \in (IF t = "quick" THEN {"P"} ELSE Vias), c \in OwnW }
  \cup { <<Own(c), Sub(v1, <<St(v2, "view"), Own("O")>>)>> : v1 \in Vias, v2 \in (IF t = "quick" THEN {"T"} ELSE Vias), c \in OwnW }
  \cup { <<Sub(v1, <<Own(c)>>), Sub(v2, <<Own("O")>>), Own("O")>> : v1 \in Vias, v2 \in Vias, c \in OwnW }
  \cup (IF t = "quick" THEN {} ELSE
         { <<St(v1, w1), St(v2, w2), St(v3, r), Own("O")>> : v1 \in Vias, v2 \in Vias, v3 \in Vias, w1 \in NW, w2 \in NW, r \in NR }
    \cup { <<Own(c), St(v1, w), St(v2, r), Own("O")>> : c \in OwnW, v1 \in Vias, v2 \in Vias, w \in NW, r \in NR }
    \cup { <<Sub(v1, <<St(v2, w)>>), Sub(v3, <<St(v4, r), Own("O")>>), Own("O")>> :
              v1 \in Vias, v2 \in {"P", "T"}, v3 \in Vias, v4 \in {"P", "T"}, w \in NW, r \in NR })
WellFormed(prog) == \A i \in 1..Len(prog) : prog[i].k = "prog" => \A j \in 1..Len(prog[i].sub) :
                        prog[i].sub[j].via \in InnerVias(prog[i].via) \cup {"own"}
NestCases(t) ==
       { NC(<<>>, p, <<>>) : p \in { q \in Progs(t) : WellFormed(q) } }
  \* a top-level writer before: the reset of the top-level invocation of the driver also covers what is nested in it
  \cup { NC(<<a>>, <<St(v, r), Own("O")>>, <<>>) : a \in {"gset", "sset", "bump"}, v \in Vias, r \in {"gget", "sget", "view", "peek"} }
  \* a top-level reader after
  \cup { NC(<<>>, <<St(v, w)>>, <<b>>) : v \in Vias, w \in NW, b \in {"gget", "rget", "sget", "peek", "reqbump"} }
  \* after an invocation that ended abnormally
  \cup { NC(<<d>>, <<St(v, w), St("P", "view"), Own("O")>>, <<>>) : d \in {"nomod", "err", "n_nomod"}, v \in Vias, w \in NW }

VARIABLES hist, nc, done
Init == /\ done = FALSE
        /\ \/ hist \in Hists(Tier) /\ nc = NoCase
           \/ hist = <<>> /\ nc \in NestCases(Tier)
Next == done = FALSE /\ done' = TRUE /\ UNCHANGED <<hist, nc>>
Spec == Init /\ [][Next]_<<hist, nc, done>>
Laws == Ideal!MeetsDemand(hist) /\ Ideal!CaseMeetsDemand(nc)
EmitHist == \E o \in {Ideal!Outcomes(hist)} : \E kp \in {Kept!Outcomes(hist)} : \E ai \in {AsIs!Outcomes(hist)} :
          \E kl \in {KeptLim!Outcomes(hist)} : \E om \in {ObjMemo!Outcomes(hist)} :
          PrintT(<<"CASE", ToJson([hist |-> hist, out |-> o, kept |-> IF kp = o THEN <<>> ELSE kp,
                                   asis |-> IF ai = o THEN <<>> ELSE ai, limkept |-> IF kl = o THEN <<>> ELSE kl,
                                   objmemo |-> IF om = ai THEN <<>> ELSE om])>>)
EmitNest == \E o \in {Ideal!CaseOutcomes(nc)} : \E ai \in {AsIs!CaseOutcomes(nc)} : \E sh \in {Shared!CaseOutcomes(nc)} :
          PrintT(<<"NCASE", ToJson([nest |-> nc, out |-> o, asis |-> ai, shared |-> sh])>>)
Emit == IF hist = <<>> THEN EmitNest ELSE EmitHist
GenInv == done \/ (Laws /\ Emit)
\* Demo: with the deviation some history violates the demand (TLC finds it)
DemoKept == Kept!MeetsDemand(hist)
\* Demo: with a time limit that stays in force for calls that give none some history violates the demand
DemoTimeLimit == KeptLim!MeetsDemand(hist)
\* Demo: with the per-page lifetime of the writable loadData tables some history violates the demand
DemoLoadData == AsIs!MeetsDemand(hist)
\* Demo: with constructors that hand out memoised objects some history violates the demand
DemoObjMemo == ObjMemoOnly!MeetsDemand(hist)
\* Demo: with the one content-language object of the runtime (as-is) some history violates the demand
DemoContLang == ContLangOnly!MeetsDemand(hist)
\* Demo: a nested invocation that runs in its caller's environment violates the demand on some nest case
DemoNestShared == SharedOnly!CaseMeetsDemand(nc)
\* Demo: with package.loaded shared by the nested invocations of one top-level call (as-is) some nest case violates it
DemoNestModules == AsIs!CaseMeetsDemand(nc)
=============================================================================
