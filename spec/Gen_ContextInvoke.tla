------------------------- MODULE Gen_ContextInvoke -------------------------
(* G direction for the invocation-level histories of C09: TLC enumerates the  *)
(* histories of #invoke kinds on ONE page together with the outcome the       *)
(* specification demands of every invocation (Ideal = code as modelled        *)
(* without deviation; the law MeetsDemand is checked on every history), and   *)
(* with the outcome of the as-coded model with the deviation EnvKeptOnAbort   *)
(* where it differs (used by the harness only to NAME an observed failure).   *)
EXTENDS Naturals, Sequences, TLC, Json
CONSTANT Tier
NoDev == {}
DevKept == {"EnvKeptOnAbort"}
Ideal == INSTANCE ContextInvoke WITH Dev <- NoDev
Kept == INSTANCE ContextInvoke WITH Dev <- DevKept
DevAsIs == {"LoadDataTableMutableWithinPage"}
AsIs == INSTANCE ContextInvoke WITH Dev <- DevAsIs

P == Ideal!Probes
LD == Ideal!LoadData
LDW == {"ldset", "ljset"}
LDR == {"ldget", "ljget"}
All == (Ideal!Simple \cup Ideal!Nested) \ ({"timeout"} \cup LD)
D == Ideal!Disturbing \ {"timeout"}
\* the loadData family: a write, anything (or a page break) in between, a read
LDHists == { <<a, b>> : a \in LD, b \in LD }
      \cup { <<a, x, b>> : a \in LDW, x \in All \cup LD \cup {"page"}, b \in LDR }
      \cup { <<d, a, b>> : d \in D, a \in LDW, b \in LDR }
ReadBack == {<<"bump", "peek">>, <<"bump", "reqbump">>, <<"gset", "rget">>, <<"sset", "sget">>}

Hists(t) ==
  IF t = "quick" THEN
       { <<a, b>> : a \in All, b \in All }
    \cup { <<d, p, q>> : d \in D, p \in P, q \in P }
    \cup { <<p, q>> \o rb : p \in P, q \in P, rb \in ReadBack }
    \cup { <<p, d, q>> : p \in P, d \in D, q \in P }
    \cup { <<d, "page", p>> : d \in D, p \in P }
    \cup { <<d, e>> \o rb : d \in D, e \in D, rb \in ReadBack }
    \cup LDHists
    \cup { <<"timeout", "bump", "bump">> }                      \* the only case that waits for a (short) time limit
  ELSE
       { <<a, b>> : a \in All, b \in All }
    \cup { <<a, b, c>> : a \in All, b \in All, c \in All }
    \cup { <<p, d, q, r>> : p \in P, d \in D, q \in P, r \in P }
    \cup { <<d, e, p, q>> : d \in D, e \in D, p \in P, q \in {"peek", "reqbump", "gget", "rget", "sget"} }
    \cup { <<d, "page", p>> : d \in D, p \in P }
    \cup { <<d, "page", e, p>> : d \in D, e \in D, p \in P }
    \cup LDHists
    \cup { <<a, x, y, b>> : a \in LDW, x \in D \cup {"page"}, y \in P \cup LD, b \in LDR }
    \cup { <<"timeout", p>> : p \in P }
    \cup { <<"timeout">> \o rb : rb \in ReadBack }
    \cup { <<p, "timeout", q>> : p \in {"bump", "gset"}, q \in {"bump", "reqbump", "rget"} }

VARIABLES hist, done
Init == hist \in Hists(Tier) /\ done = FALSE
Next == done = FALSE /\ done' = TRUE /\ UNCHANGED hist
Spec == Init /\ [][Next]_<<hist, done>>
Laws == Ideal!MeetsDemand(hist)
Emit == \E o \in {Ideal!Outcomes(hist)} : \E kp \in {Kept!Outcomes(hist)} : \E ai \in {AsIs!Outcomes(hist)} :
          PrintT(<<"CASE", ToJson([hist |-> hist, out |-> o, kept |-> IF kp = o THEN <<>> ELSE kp,
                                   asis |-> IF ai = o THEN <<>> ELSE ai])>>)
GenInv == done \/ (Laws /\ Emit)
\* Demo: with the deviation some history violates the demand (TLC finds it)
DemoKept == Kept!MeetsDemand(hist)
\* Demo: with the per-page lifetime of the writable loadData tables some history violates the demand
DemoLoadData == AsIs!MeetsDemand(hist)
=============================================================================
