SPECIFICATION Spec
CONSTANTS
  Dev <- DevCallOptionsKept
  MaxLen = 6
  KindSet <- AllKinds
  Shape = "all"
INVARIANT NonInterference
VIEW MCView
CHECK_DEADLOCK FALSE
