SPECIFICATION Spec
CONSTANTS
  Universe = "CALL"
  Part = 0
  Parts = 2
  Known = {}
  Tags <- TagsFromFile
INVARIANT RoundTrip
INVARIANT EmptyParts
CHECK_DEADLOCK FALSE
