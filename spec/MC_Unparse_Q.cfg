SPECIFICATION Spec
CONSTANTS
  Universe = "CALL"
  Part = 0
  Parts = 2
  Known = {}
  Tags <- TagsFromFile
INVARIANT RoundTrip
CHECK_DEADLOCK FALSE
