SPECIFICATION Spec
CONSTANTS
  Dev <- DevPcall
  B = 3
  RecMax = 1
  Bodies <- BodiesTight
  Kinds <- KindsAll
  MaxDepth = 1
  Progs <- P_pcall
INVARIANT TimeoutNotSwallowed
CHECK_DEADLOCK FALSE
