SPECIFICATION Spec
CONSTANTS
  Universe = "block"
  MaxLen = 4
INVARIANT MachineOK
CHECK_DEADLOCK FALSE
