SPECIFICATION Spec
CONSTANTS
  MaxTok = 5
  MaxSeg = 0
  Mode = "soup"
INVARIANT GenInv
CHECK_DEADLOCK FALSE
