SPECIFICATION Spec
CONSTANTS
  Universe = "nest"
  MaxLen = 3
INVARIANT MachineOK
CHECK_DEADLOCK FALSE
