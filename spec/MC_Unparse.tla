------------------------------ MODULE MC_Unparse ------------------------------
(* The round trip of property C19 inside the model, on the fragment that has a *)
(* parser twin (ParserStruct.tla: tables, HTML elements, links, external       *)
(* links, templates, parser functions, bold/italic):                           *)
(*    t1 = Parse(doc)   t2 = Parse(Unparse(t1))   t3 = Parse(Unparse(t2))      *)
(*    Equiv(t2, t1) /\ Equiv(t3, t2)                                           *)
(* with Parse = MachineTree (ideal parser) and Unparse the ideal emitter.      *)
(* RoundTripAsIs uses the emitter as found (all emitter deviations on): TLC    *)
(* finds the table-caption counterexample (Demo_Unparse_asis.cfg).             *)
EXTENDS Gen_ParserStruct

RT(emitDevs) ==
  LET t1 == MachineTree(Render(page), {})
      t2 == MachineTree(Unparse(t1, emitDevs), {})
      t3 == MachineTree(Unparse(t2, emitDevs), {})
  IN Equiv(t2, t1) /\ Equiv(t3, t2)
RoundTrip == done \/ RT({})
RoundTripAsIs == done \/ RT(AllUnparseDevs)
=============================================================================
