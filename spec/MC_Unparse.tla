------------------------------ MODULE MC_Unparse ------------------------------
(* The round trip of property C19 inside the model, on the fragment that has a *)
(* parser twin (ParserStruct.tla: tables, HTML elements, links, external       *)
(* links, templates, parser functions, bold/italic):                           *)
(*    t1 = Parse(doc)   t2 = Parse(Unparse(t1))   t3 = Parse(Unparse(t2))      *)
(*    Equiv(t2, t1) /\ Equiv(t3, t2)                                           *)
(* with Parse = MachineTree (ideal parser) and Unparse the ideal emitter.      *)
(* RoundTripAsIs uses the emitter as found (all emitter deviations on): TLC    *)
(* finds the table-caption counterexample (Demo_Unparse_asis.cfg).             *)
EXTENDS Gen_ParserStruct

RT(emitDevs) ==
  LET t1 == MachineTree(Render(page), {})
      t2 == MachineTree(Unparse(t1, emitDevs), {})
      t3 == MachineTree(Unparse(t2, emitDevs), {})
  IN Equiv(t2, t1) /\ Equiv(t3, t2)
RoundTrip == done \/ RT({})

(* ---- EMPTY PARTS: calls, argument references and links whose arguments are all / partly    *)
(* empty, alone / in running text / in a table cell.  Invariant EmptyParts, evaluated in ONE  *)
(* state of a run (MC_Unparse_Q/T.cfg; alone: MC_Unparse_E.cfg):                              *)
(*   EmptyPartsRoundTrip  the ideal emitter round-trips every such page through the ideal     *)
(*                        parser (an empty argument stays an empty argument, the node kind    *)
(*                        stays what it was);                                                 *)
(*   WhatIfsBreak         each what-if of Unparse.WhatIfEmptyArgDevs (an emitter that takes   *)
(*                        an empty argument for an absent one) breaks it on some page: TLC    *)
(*                        prints the witness.                                                 *)
ArgMasks(lo, hi) == {m \in UNION { [1..n -> {<<>>, W("a1")}] : n \in lo..hi } : \E i \in 1..Len(m) : m[i] = <<>>}
EmptyItems ==
  { Tp(<<W("t")>> \o as) : as \in ArgMasks(1, 3) }
  \cup { Pf(nm, as) : nm \in {<<"#", "if">>, <<"#", "switch">>}, as \in ArgMasks(1, 3) }
  \cup { Pf(nm, as) : nm \in {<<"lc">>, <<"PAGENAME">>}, as \in ArgMasks(1, 2) }
  \cup { Ar(<<W("1")>> \o as) : as \in ArgMasks(1, 2) }
  \cup { Lk(<<W("l")>> \o as, <<>>) : as \in ArgMasks(1, 2) }
  \cup { Tp(<<W("t"), <<Pf(<<"#", "if">>, as)>>, <<>>>>) : as \in ArgMasks(1, 2) }     \* as an argument of another call
  \cup { Pf(<<"#", "if">>, <<<<Pf(<<"lc">>, <<<<>>>>)>>, <<>>>>) }
EmptyPages == { Surround(sn, it) : sn \in 1..3, it \in EmptyItems }
RTText(text, emitDevs) ==
  LET t1 == MachineTree(text, {})
      t2 == MachineTree(Unparse(t1, emitDevs), {})
      t3 == MachineTree(Unparse(t2, emitDevs), {})
  IN Equiv(t2, t1) /\ Equiv(t3, t2)
\* (dummy parameter: TLC evaluates every parameterless constant definition at start-up)
EmptyPartsRoundTrip(z) ==
  \A pg \in EmptyPages :
     \/ Equiv(MachineTree(Render(pg), {}), TreeOf(pg)) /\ RTText(Render(pg), {})
     \/ ~PrintT(<<"EMPTYFAIL", ToJson([text |-> Render(pg)])>>)
WhatIfsBreak(z) ==
  \A d \in WhatIfEmptyArgDevs :
     LET W0 == {pg \in EmptyPages : ~RTText(Render(pg), {d})} IN
     /\ W0 # {}
     /\ LET pg == CHOOSE q \in W0 : \A r \in W0 : Len(Render(q)) <= Len(Render(r))
        IN PrintT(<<"WHATIF", ToJson([dev |-> d, pages |-> Cardinality(W0), text |-> Render(pg),
                                      emitted |-> Unparse(MachineTree(Render(pg), {}), {d})])>>)
FirstPage == CHOOSE p \in Pages : TRUE
EmptyParts == (done /\ page \in {FirstPage, <<>>}) => (EmptyPartsRoundTrip(0) /\ WhatIfsBreak(0))
InitE == page = <<>> /\ done = TRUE
SpecE == InitE /\ [][Next]_<<page, done>>
RoundTripAsIs == done \/ RT(AllUnparseDevs)
=============================================================================
