------------------------------ MODULE Workers ------------------------------
(* Concurrent worker contexts on one page database (core.py: create_db;     *)
(* luaexec.py: add_empty_sandbox_lua_module on first Lua use).              *)
(*                                                                          *)
(* N processes each open Wtp(db_path) and process pages.  Every step below  *)
(* is one operation the real code performs on the environment, in code      *)
(* order (the harness wraps exactly these operations to control the         *)
(* schedule):                                                               *)
(*   exists(backup) -> unlink(db) -> rename(backup, db)      restore        *)
(*   connect -> script (CREATE TABLE IF NOT EXISTS; PRAGMA WAL; cache)      *)
(*   [cursor: a get_all_pages() iterator kept open while working]           *)
(*   read (page + template/module lookups)                                  *)
(*   bootcheck: page_exists(Module:_sandbox_phase1)                         *)
(*   insert (add_page: takes the write lock) -> commit                      *)
(*   read ...                                                               *)
(*                                                                          *)
(* Files are inodes; the paths <db> and <stem>_backup point to inodes, a    *)
(* connection keeps its inode whatever happens to the path afterwards.      *)
(* SQLite rules (WAL mode): one writer per database, readers never block    *)
(* and are never blocked, a read transaction sees the snapshot of its       *)
(* start, a connection whose read snapshot is stale cannot become a writer  *)
(* ("database is locked" at once), waiting for a writer that is inside a    *)
(* short critical section always ends (modelled as: the step is not enabled *)
(* while the lock is held).                                                 *)
(*                                                                          *)
(* Dev: "RestoreRaceOnStartup"   - check-then-act restore as in the code    *)
(*                                  (ideal: the restore is one atomic step) *)
(*      "BootstrapUnderSnapshot" - the bootstrap page is written on the     *)
(*                                  connection that holds the open cursor   *)
(*                                  (ideal: written under a fresh snapshot) *)
EXTENDS Naturals, Sequences, FiniteSets, TLC

CONSTANTS
  Procs,       \* worker ids
  Dev,         \* deviations switched on
  Scenarios    \* set of [bak, boot, cursor]: backup file present / bootstrap page stored /
               \* workers keep a get_all_pages() cursor open while they work

RestoreRace == "RestoreRaceOnStartup" \in Dev
BootSnap == "BootstrapUnderSnapshot" \in Dev

NIno == 2 + Cardinality(Procs)
Inodes == 1..NIno

Ino(c, ver, tabs, used) == [c |-> c, ver |-> ver, tabs |-> tabs, used |-> used]
Unused == Ino({}, 0, FALSE, FALSE)
NoSnap == [on |-> FALSE, c |-> {}, ver |-> 0]

VARIABLES
  scn,           \* the scenario (fixed in the initial state)
  pmain, pbak,   \* inode the path points to, 0 = no such file
  ino,           \* inode -> [c: page tags stored, ver: commit counter, tabs: schema exists, used]
  wlock,         \* inode -> process holding the write lock, 0 = free
  pc, conn, snap, saw, res

vars == <<scn, pmain, pbak, ino, wlock, pc, conn, snap, saw, res>>

BakPresent == scn.bak
BootPresent == scn.boot
Cursor == scn.cursor
Exp == IF BakPresent THEN "B" ELSE "M"     \* the page version a single process would see
BootSet == IF BootPresent THEN {"boot"} ELSE {}

Init ==
  /\ scn \in Scenarios
  /\ pmain = 1 /\ pbak = IF BakPresent THEN 2 ELSE 0
  /\ ino = [i \in Inodes |-> IF i = 1 THEN Ino({"M"} \cup BootSet, 0, TRUE, TRUE)
                              ELSE IF i = 2 /\ BakPresent THEN Ino({"B"} \cup BootSet, 0, TRUE, TRUE)
                              ELSE Unused]
  /\ wlock = [i \in Inodes |-> 0]
  /\ pc = [p \in Procs |-> "exists"]
  /\ conn = [p \in Procs |-> 0]
  /\ snap = [p \in Procs |-> NoSnap]
  /\ saw = [p \in Procs |-> FALSE]
  /\ res = [p \in Procs |-> "-"]

FreeIno == CHOOSE i \in Inodes : ~ino[i].used
View(p) == IF snap[p].on THEN snap[p].c ELSE ino[conn[p]].c

Go(p, l) == pc' = [pc EXCEPT ![p] = l] /\ scn' = scn
Fail(p, why) == pc' = [pc EXCEPT ![p] = "failed"] /\ res' = [res EXCEPT ![p] = why] /\ scn' = scn

(* ---- create_db ---- *)
Exists(p) ==
  /\ pc[p] = "exists"
  /\ IF pbak = 0 THEN Go(p, "connect") /\ UNCHANGED <<pmain, pbak>>
     ELSE IF RestoreRace THEN Go(p, "unlink") /\ UNCHANGED <<pmain, pbak>>
     ELSE \* ideal: check, unlink and rename are one indivisible step
          Go(p, "connect") /\ pmain' = pbak /\ pbak' = 0
  /\ UNCHANGED <<ino, wlock, conn, snap, saw, res>>

Unlink(p) ==
  /\ pc[p] = "unlink" /\ pmain' = 0 /\ Go(p, "rename")
  /\ UNCHANGED <<pbak, ino, wlock, conn, snap, saw, res>>

Rename(p) ==
  /\ pc[p] = "rename"
  /\ IF pbak = 0 THEN Fail(p, "fnf") /\ UNCHANGED <<pmain, pbak>>
     ELSE pmain' = pbak /\ pbak' = 0 /\ Go(p, "connect") /\ res' = res
  /\ UNCHANGED <<ino, wlock, conn, snap, saw>>

Connect(p) ==
  /\ pc[p] = "connect"
  /\ IF pmain = 0
     THEN /\ pmain' = FreeIno /\ ino' = [ino EXCEPT ![FreeIno] = Ino({}, 0, FALSE, TRUE)]
          /\ conn' = [conn EXCEPT ![p] = FreeIno]
     ELSE conn' = [conn EXCEPT ![p] = pmain] /\ UNCHANGED <<pmain, ino>>
  /\ Go(p, "script")
  /\ UNCHANGED <<pbak, wlock, snap, saw, res>>

\* CREATE TABLE IF NOT EXISTS ...: a write only on a database that has no schema yet
Script(p) ==
  /\ pc[p] = "script"
  /\ IF ino[conn[p]].tabs THEN ino' = ino
     ELSE wlock[conn[p]] = 0 /\ ino' = [ino EXCEPT ![conn[p]].tabs = TRUE, ![conn[p]].ver = @ + 1]
  /\ Go(p, IF Cursor THEN "cursor" ELSE "read1")
  /\ UNCHANGED <<pmain, pbak, wlock, conn, snap, saw, res>>

(* ---- page work ---- *)
\* the iterator over the stored pages stays open (if there is any page to iterate over)
OpenCursor(p) ==
  /\ pc[p] = "cursor"
  /\ snap' = [snap EXCEPT ![p] = IF (ino[conn[p]].c \ {"boot"}) # {}
                                  THEN [on |-> TRUE, c |-> ino[conn[p]].c, ver |-> ino[conn[p]].ver]
                                  ELSE NoSnap]
  /\ Go(p, "read1")
  /\ UNCHANGED <<pmain, pbak, ino, wlock, conn, saw, res>>

Read(p, here, next) ==
  /\ pc[p] = here
  /\ IF Exp \in View(p) THEN Go(p, next) /\ res' = res
     ELSE Fail(p, IF View(p) \ {"boot"} = {} THEN "missing" ELSE "stale")
  /\ UNCHANGED <<pmain, pbak, ino, wlock, conn, snap, saw>>
Read1(p) == Read(p, "read1", "bootcheck")

Bootcheck(p) ==
  /\ pc[p] = "bootcheck"
  /\ saw' = [saw EXCEPT ![p] = "boot" \in View(p)]
  /\ Go(p, IF "boot" \in View(p) THEN "read2" ELSE "insert")
  /\ UNCHANGED <<pmain, pbak, ino, wlock, conn, snap, res>>

Insert(p) ==
  /\ pc[p] = "insert"
  /\ wlock[conn[p]] = 0                       \* otherwise the busy handler waits
  /\ IF BootSnap /\ snap[p].on /\ snap[p].ver # ino[conn[p]].ver
     THEN Fail(p, "locked") /\ wlock' = wlock  \* stale read snapshot cannot be upgraded
     ELSE wlock' = [wlock EXCEPT ![conn[p]] = p] /\ Go(p, "commit") /\ res' = res
  /\ UNCHANGED <<pmain, pbak, ino, conn, snap, saw>>

Commit(p) ==
  /\ pc[p] = "commit"
  /\ ino' = [ino EXCEPT ![conn[p]].c = @ \cup {"boot"}, ![conn[p]].ver = @ + 1]
  /\ wlock' = [wlock EXCEPT ![conn[p]] = 0]
  /\ snap' = [snap EXCEPT ![p] = IF snap[p].on
                                  THEN [on |-> TRUE, c |-> ino'[conn[p]].c, ver |-> ino'[conn[p]].ver]
                                  ELSE NoSnap]
  /\ Go(p, "read2")
  /\ UNCHANGED <<pmain, pbak, conn, saw, res>>

Read2(p) ==
  /\ pc[p] = "read2"
  /\ IF Exp \in View(p) THEN Go(p, "done") /\ res' = [res EXCEPT ![p] = "ok"]
     ELSE Fail(p, IF View(p) \ {"boot"} = {} THEN "missing" ELSE "stale")
  /\ UNCHANGED <<pmain, pbak, ino, wlock, conn, snap, saw>>

Step(p) == Exists(p) \/ Unlink(p) \/ Rename(p) \/ Connect(p) \/ Script(p) \/ OpenCursor(p)
           \/ Read1(p) \/ Bootcheck(p) \/ Insert(p) \/ Commit(p) \/ Read2(p)

Finished(p) == pc[p] \in {"done", "failed"}
AllDone == \A p \in Procs : Finished(p)

Next == (\E p \in Procs : Step(p)) \/ (AllDone /\ UNCHANGED vars)
Spec == Init /\ [][Next]_vars

(* ------------------------------------------------------------------ *)
(* what the property demands                                           *)
(* ------------------------------------------------------------------ *)
\* no database-locked, missing-page or other failure in any worker
NoFailure == \A p \in Procs : res[p] \in {"-", "ok"}
\* every worker obtains what a single process obtains
SerialResults == \A p \in Procs : pc[p] = "done" => res[p] = "ok"
\* afterwards the database path holds exactly the pages a single process would have left
\* (the bootstrap page does not count)
StoreUnchanged == AllDone => (pmain # 0 /\ ino[pmain].c \ {"boot"} = {Exp})
\* nobody waits forever: some worker can always move until all are finished
NoDeadlock == AllDone \/ (\E p \in Procs : ENABLED Step(p))
=============================================================================
