------------------------------ MODULE Workers ------------------------------
(* Concurrent worker contexts on one page database (core.py: create_db;     *)
(* luaexec.py: add_empty_sandbox_lua_module on first Lua use).              *)
(*                                                                          *)
(* N processes each open Wtp(db_path) and process pages.  Every step below  *)
(* is one operation the real code performs on the environment, in code      *)
(* order (the harness wraps exactly these operations to control the         *)
(* schedule):                                                               *)
(*   exists(backup) -> unlink(db) -> rename(backup, db)      restore        *)
(*   connect -> script (CREATE TABLE IF NOT EXISTS; PRAGMA WAL; cache)      *)
(*   [cursor: a get_all_pages() iterator kept open while working]           *)
(*   read (page + template/module lookups)                                  *)
(*   bootcheck: page_exists(Module:_sandbox_phase1)                         *)
(*   insert (add_page: takes the write lock) -> commit                      *)
(*   read ...                                                               *)
(*                                                                          *)
(* Files are inodes; the paths <db> and <stem>_backup point to inodes, a    *)
(* connection keeps its inode whatever happens to the path afterwards.      *)
(* SQLite rules (WAL mode): one writer per database, readers never block    *)
(* and are never blocked, a read transaction sees the snapshot of its       *)
(* start, a connection that holds a read transaction cannot wait for the    *)
(* write lock nor upgrade a stale snapshot ("database is locked" at once),  *)
(* otherwise waiting for a writer that is inside a                          *)
(* short critical section always ends (modelled as: the step is not enabled *)
(* while the lock is held).                                                 *)
(*                                                                          *)
(* Dev: "RestoreRaceOnStartup"   - check-then-act restore as in the code    *)
(*                                  (ideal: the restore is one atomic step) *)
(*      "BootstrapUnderSnapshot" - the bootstrap page is written on the     *)
(*                                  connection that holds the open cursor   *)
(*                                  (ideal: written under a fresh snapshot) *)
(*      "BootcheckNeverHits"     - page_exists(bootstrap) is always false   *)
EXTENDS Naturals, Sequences, FiniteSets, TLC

CONSTANTS
  Procs,       \* worker ids
  Dev,         \* deviations switched on
  Scenarios    \* set of [bak, boot, cursor]: backup file present / bootstrap page stored /
               \* workers keep a get_all_pages() cursor open while they work

RestoreRace == "RestoreRaceOnStartup" \in Dev
BootSnap == "BootstrapUnderSnapshot" \in Dev
\* code fact (not a violation by itself): the page is stored as "Module:_sandbox_phase1" but
\* looked up as "Module: sandbox phase1", so the check never finds it and every context
\* writes the page again on its first Lua use
BootcheckNeverHits == "BootcheckNeverHits" \in Dev

NIno == 2 + Cardinality(Procs)
Inodes == 1..NIno

Ino(c, ver, tabs, used) == [c |-> c, ver |-> ver, tabs |-> tabs, used |-> used]
Unused == Ino({}, 0, FALSE, FALSE)
NoSnap == [on |-> FALSE, c |-> {}, ver |-> 0]

VARIABLES
  scn,           \* the scenario (fixed in the initial state)
  pmain, pbak,   \* inode the path points to, 0 = no such file
  ino,           \* inode -> [c: page tags stored, ver: commit counter, tabs: schema exists, used]
  wlock,         \* inode -> process holding the write lock, 0 = free
  pc, conn, snap, saw, res,
  chk,           \* ghost: what the backup path pointed to when the process checked it
  raced,         \* ghost: a process restored on the basis of a check that was no longer true
  snapfail       \* ghost: a bootstrap write failed because of a stale read snapshot

vars == <<scn, pmain, pbak, ino, wlock, pc, conn, snap, saw, res, chk, raced, snapfail>>

BakPresent == scn.bak
BootPresent == scn.boot
Cursor == scn.cursor
Exp == IF BakPresent THEN "B" ELSE "M"     \* the page version a single process would see
BootSet == IF BootPresent THEN {"boot"} ELSE {}

Init ==
  /\ scn \in Scenarios
  /\ pmain = 1 /\ pbak = IF BakPresent THEN 2 ELSE 0
  /\ ino = [i \in Inodes |-> IF i = 1 THEN Ino({"M"} \cup BootSet, 0, TRUE, TRUE)
                              ELSE IF i = 2 /\ BakPresent THEN Ino({"B"} \cup BootSet, 0, TRUE, TRUE)
                              ELSE Unused]
  /\ wlock = [i \in Inodes |-> 0]
  /\ pc = [p \in Procs |-> "exists"]
  /\ conn = [p \in Procs |-> 0]
  /\ snap = [p \in Procs |-> NoSnap]
  /\ saw = [p \in Procs |-> FALSE]
  /\ res = [p \in Procs |-> "-"]
  /\ chk = [p \in Procs |-> 0]
  /\ raced = FALSE /\ snapfail = FALSE

FreeIno == CHOOSE i \in Inodes : ~ino[i].used
View(p) == IF snap[p].on THEN snap[p].c ELSE ino[conn[p]].c

Go(p, l) == pc' = [pc EXCEPT ![p] = l] /\ scn' = scn
Fail(p, why) == pc' = [pc EXCEPT ![p] = "failed"] /\ res' = [res EXCEPT ![p] = why] /\ scn' = scn

(* ---- create_db ---- *)
Exists(p) ==
  /\ pc[p] = "exists"
  /\ IF pbak = 0 THEN Go(p, "connect") /\ UNCHANGED <<pmain, pbak>>
     ELSE IF RestoreRace THEN Go(p, "unlink") /\ UNCHANGED <<pmain, pbak>>
     ELSE \* ideal: check, unlink and rename are one indivisible step
          Go(p, "connect") /\ pmain' = pbak /\ pbak' = 0
  /\ chk' = [chk EXCEPT ![p] = pbak]
  /\ UNCHANGED <<ino, wlock, conn, snap, saw, res, raced, snapfail>>

Unlink(p) ==
  /\ pc[p] = "unlink" /\ pmain' = 0 /\ Go(p, "rename")
  /\ raced' = (raced \/ pbak # chk[p])
  /\ UNCHANGED <<pbak, ino, wlock, conn, snap, saw, res, chk, snapfail>>

Rename(p) ==
  /\ pc[p] = "rename"
  /\ IF pbak = 0 THEN Fail(p, "fnf") /\ UNCHANGED <<pmain, pbak>>
     ELSE pmain' = pbak /\ pbak' = 0 /\ Go(p, "connect") /\ res' = res
  /\ raced' = (raced \/ pbak # chk[p])
  /\ UNCHANGED <<ino, wlock, conn, snap, saw, chk, snapfail>>

Connect(p) ==
  /\ pc[p] = "connect"
  /\ IF pmain = 0
     THEN /\ pmain' = FreeIno /\ ino' = [ino EXCEPT ![FreeIno] = Ino({}, 0, FALSE, TRUE)]
          /\ conn' = [conn EXCEPT ![p] = FreeIno]
     ELSE conn' = [conn EXCEPT ![p] = pmain] /\ UNCHANGED <<pmain, ino>>
  /\ Go(p, "script")
  /\ UNCHANGED <<pbak, wlock, snap, saw, res, chk, raced, snapfail>>

\* First access of the connection (CREATE TABLE IF NOT EXISTS ...; PRAGMA ...): SQLite
\* opens the -shm/-wal files beside the path and refuses ("disk I/O error") when the file
\* it holds is no longer the one at the path.  A write only on a database without schema.
Script(p) ==
  /\ pc[p] = "script"
  /\ IF pmain # conn[p] THEN Fail(p, "ioerr") /\ ino' = ino
     ELSE /\ IF ino[conn[p]].tabs THEN ino' = ino
             ELSE wlock[conn[p]] = 0 /\ ino' = [ino EXCEPT ![conn[p]].tabs = TRUE, ![conn[p]].ver = @ + 1]
          /\ Go(p, IF Cursor THEN "cursor" ELSE "read1") /\ res' = res
  /\ UNCHANGED <<pmain, pbak, wlock, conn, snap, saw, chk, raced, snapfail>>

(* ---- page work ---- *)
\* the iterator over the stored pages stays open (if there is any page to iterate over)
OpenCursor(p) ==
  /\ pc[p] = "cursor"
  /\ snap' = [snap EXCEPT ![p] = IF (ino[conn[p]].c \ {"boot"}) # {}
                                  THEN [on |-> TRUE, c |-> ino[conn[p]].c, ver |-> ino[conn[p]].ver]
                                  ELSE NoSnap]
  /\ Go(p, "read1")
  /\ UNCHANGED <<pmain, pbak, ino, wlock, conn, saw, res, chk, raced, snapfail>>

Read(p, here, next) ==
  /\ pc[p] = here
  /\ IF Exp \in View(p) THEN Go(p, next) /\ res' = res
     ELSE Fail(p, IF View(p) \ {"boot"} = {} THEN "missing" ELSE "stale")
  /\ UNCHANGED <<pmain, pbak, ino, wlock, conn, snap, saw, chk, raced, snapfail>>
Read1(p) == Read(p, "read1", "bootcheck")

BootFound(p) == "boot" \in View(p) /\ ~BootcheckNeverHits
Bootcheck(p) ==
  /\ pc[p] = "bootcheck"
  /\ saw' = [saw EXCEPT ![p] = BootFound(p)]
  /\ Go(p, IF BootFound(p) THEN "read2" ELSE "insert")
  /\ UNCHANGED <<pmain, pbak, ino, wlock, conn, snap, res, chk, raced, snapfail>>

\* A connection that holds a read transaction (the open cursor) cannot wait for the write
\* lock (SQLite does not run the busy handler then) and cannot upgrade a stale snapshot:
\* "database is locked" at once in both cases.
InsertFails(p) == BootSnap /\ snap[p].on /\ (snap[p].ver # ino[conn[p]].ver \/ wlock[conn[p]] # 0)
Insert(p) ==
  /\ pc[p] = "insert"
  /\ IF InsertFails(p)
     THEN Fail(p, "locked") /\ wlock' = wlock /\ snapfail' = TRUE
     ELSE /\ wlock[conn[p]] = 0                  \* otherwise the busy handler waits
          /\ wlock' = [wlock EXCEPT ![conn[p]] = p] /\ Go(p, "commit") /\ res' = res /\ snapfail' = snapfail
  /\ UNCHANGED <<pmain, pbak, ino, conn, snap, saw, chk, raced>>

\* an upsert that stores what is stored already writes nothing: no new version
Commit(p) ==
  /\ pc[p] = "commit"
  /\ ino' = [ino EXCEPT ![conn[p]].c = @ \cup {"boot"},
                        ![conn[p]].ver = IF "boot" \in ino[conn[p]].c THEN @ ELSE @ + 1]
  /\ wlock' = [wlock EXCEPT ![conn[p]] = 0]
  /\ snap' = [snap EXCEPT ![p] = IF snap[p].on
                                  THEN [on |-> TRUE, c |-> ino'[conn[p]].c, ver |-> ino'[conn[p]].ver]
                                  ELSE NoSnap]
  /\ Go(p, "read2")
  /\ UNCHANGED <<pmain, pbak, conn, saw, res, chk, raced, snapfail>>

Read2(p) ==
  /\ pc[p] = "read2"
  /\ IF Exp \in View(p) THEN Go(p, "done") /\ res' = [res EXCEPT ![p] = "ok"]
     ELSE Fail(p, IF View(p) \ {"boot"} = {} THEN "missing" ELSE "stale")
  /\ UNCHANGED <<pmain, pbak, ino, wlock, conn, snap, saw, chk, raced, snapfail>>

Step(p) == Exists(p) \/ Unlink(p) \/ Rename(p) \/ Connect(p) \/ Script(p) \/ OpenCursor(p)
           \/ Read1(p) \/ Bootcheck(p) \/ Insert(p) \/ Commit(p) \/ Read2(p)

Finished(p) == pc[p] \in {"done", "failed"}
AllDone == \A p \in Procs : Finished(p)

Next == (\E p \in Procs : Step(p)) \/ (AllDone /\ UNCHANGED vars)
Spec == Init /\ [][Next]_vars

(* ------------------------------------------------------------------ *)
(* what the property demands                                           *)
(* ------------------------------------------------------------------ *)
\* no database-locked, missing-page or other failure in any worker
NoFailure == \A p \in Procs : res[p] \in {"-", "ok"}
\* every worker obtains what a single process obtains
SerialResults == \A p \in Procs : pc[p] = "done" => res[p] = "ok"
\* afterwards the database path holds exactly the pages a single process would have left
\* (the bootstrap page does not count)
StoreUnchanged == AllDone => (pmain # 0 /\ ino[pmain].c \ {"boot"} = {Exp})
\* nobody waits forever: some worker can always move until all are finished
NoDeadlock == AllDone \/ (\E p \in Procs : ENABLED Step(p))
=============================================================================
