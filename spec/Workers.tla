------------------------------ MODULE Workers ------------------------------
(* Concurrent worker contexts on one page database (core.py: create_db;     *)
(* luaexec.py: add_empty_sandbox_lua_module on first Lua use).              *)
(*                                                                          *)
(* N processes each open Wtp(db_path) and process pages.  Every step below  *)
(* is one operation the real code performs on the environment, in code      *)
(* order (the harness wraps exactly these operations to control the         *)
(* schedule):                                                               *)
(*   exists(backup) -> unlink(db) -> rename(backup, db)      restore        *)
(*   connect -> script (CREATE TABLE IF NOT EXISTS; PRAGMA WAL; cache)      *)
(*   [cursor: a get_all_pages() iterator kept open while working]           *)
(*   read (page + template/module lookups)                                  *)
(*   bootcheck: page_exists(Module:_sandbox_phase1)                         *)
(*   insert (add_page: takes the write lock) -> commit                      *)
(*   read ...                                                               *)
(*   close: close_db_conn (commit, close the connection) - at any moment    *)
(*          after the page work, so contexts have LIFETIMES: a worker may   *)
(*          close while others work and others may open after it closed     *)
(*                                                                          *)
(* A creating context ("driver", pseudo-process D) may be present: it has   *)
(* created the database file, stored and committed the pages and still has  *)
(* its context open when the workers start; it closes at any moment.  In    *)
(* WAL mode its commits live in the side file <db>-wal until a checkpoint;  *)
(* SQLite checkpoints (and removes the side files) when the LAST connection *)
(* closes; a close while other connections are open leaves the side files   *)
(* alone.  `ck` of an inode is what the main file alone holds.              *)
(*                                                                          *)
(* Files are inodes; the paths <db> and <stem>_backup point to inodes, a    *)
(* connection keeps its inode whatever happens to the path afterwards.      *)
(* SQLite rules (WAL mode): one writer per database, readers never block    *)
(* and are never blocked, a read transaction sees the snapshot of its       *)
(* start, a connection that holds a read transaction cannot wait for the    *)
(* write lock nor upgrade a stale snapshot ("database is locked" at once),  *)
(* otherwise waiting for a writer that is inside a                          *)
(* short critical section always ends (modelled as: the step is not enabled *)
(* while the lock is held).                                                 *)
(*                                                                          *)
(* Dev: "RestoreRaceOnStartup"   - check-then-act restore as in the code    *)
(*                                  (ideal: the restore is one atomic step) *)
(*      "BootstrapUnderSnapshot" - the bootstrap page is written on the     *)
(*                                  connection that holds the open cursor   *)
(*                                  (ideal: written under a fresh snapshot) *)
(*      "BootcheckNeverHits"     - page_exists(bootstrap) is always false   *)
(*      "CloseRemovesSideFiles"  - (hypothetical, Demo only) a context that *)
(*                                  closes while others are open removes    *)
(*                                  <db>-wal/-shm: contexts opened later    *)
(*                                  see only what the main file holds       *)
(*      "BackupDropsJournalMode" - (hypothetical, Demo only) backup_db      *)
(*                                  writes the copy as a fresh database     *)
(*                                  (SQLite default: rollback journal)      *)
(*                                  instead of a byte-for-byte copy         *)
(*      "ModeSetByCreatorOnly"   - (hypothetical, Demo only) only the       *)
(*                                  context that creates the tables issues  *)
(*                                  PRAGMA journal_mode = WAL               *)
(*                                                                          *)
(*      "CommitSkippedWhenUnchanged" - (hypothetical, Demo only) the       *)
(*                                  bootstrap write is committed only when  *)
(*                                  it changed something (the page was      *)
(*                                  stored by another worker in between:    *)
(*                                  statement done, row ignored, no commit) *)
(*                                                                          *)
(* TRANSACTIONS.  Every connection has a transaction state `txn`: "none"    *)
(* (autocommit), "write" (a write statement ran: sqlite3 issued BEGIN, the  *)
(* statement took the write lock of the database - ALSO when it ends up     *)
(* changing nothing - and the lock stays with the connection until commit,  *)
(* rollback or close) or "begun" (BEGIN issued, the statement failed: open  *)
(* transaction without the write lock).  A read transaction is the open     *)
(* cursor (snap[p].on).  wlock[i] = p exactly when p is open on i with      *)
(* txn[p] = "write" (TxnLockAgree).  A context is IDLE when no library call *)
(* is active on it (page work over - also by an exception - and not yet     *)
(* closed).  The library must end every write transaction it begins before  *)
(* the call returns (NoIdleTransaction): an idle context may stay open for  *)
(* longer than any busy timeout (it has other pages to process, or waits    *)
(* for the pool to finish), so a writer that finds the lock with an idle    *)
(* holder fails with "database is locked" (IdleHeld), whereas waiting for a *)
(* holder inside its short critical section always ends (LockWait.tla).     *)
(*                                                                          *)
(* JOURNAL MODE.  The mode is a property of the database FILE (header bytes *)
(* 18/19), field `jm` of an inode: "wal" or "del" (rollback journal, the    *)
(* default of every file SQLite creates).  It travels with the file: a      *)
(* backup written by Connection.backup is a byte-for-byte copy and has the  *)
(* mode of its source; a restore (rename) keeps the mode of the backup.     *)
(* create_db issues PRAGMA journal_mode = WAL in the start-up script of     *)
(* EVERY context, so whatever file is at the path - created by the library, *)
(* restored from a backup (scenario field prov = "lib": the backup was      *)
(* written by backup_db() of an earlier context which then overwrote the    *)
(* pages and closed - a re-run), or brought there in rollback mode by other *)
(* means (prov = "rbj") - is a WAL database before any page work starts     *)
(* (invariant WalAtWork).  The rules above are the WAL rules.  In ROLLBACK  *)
(* mode readers and writers exclude each other: an open cursor holds the    *)
(* SHARED lock for as long as it is open, a commit needs the EXCLUSIVE lock *)
(* and waits (busy handler) while any other connection holds SHARED; a      *)
(* reader may stay on a page longer than any busy timeout, so the commit of *)
(* a writer that meets a long-lived cursor of another worker fails with     *)
(* "database is locked" (RollbackBlocked) and keeps its PENDING/RESERVED    *)
(* lock until its connection closes.  Scenario field rdr says which workers *)
(* keep the get_all_pages() cursor open when `cursor` is set: 0 = all,      *)
(* k = only worker k (a long-lived reader beside writers without cursor).   *)
(*                                                                          *)
(* SIDE FILES PER PATH.  <db>-wal (the log) and <db>-shm (the index of the  *)
(* log, shared memory of the attached connections) are files of their own   *)
(* beside <db>.  Each belongs to the GENERATION (main-file inode) whose     *)
(* connections created it: sf.wal / sf.shm = generation of the file at that *)
(* path, 0 = no such file; sf.att[p] = generation of the index process p    *)
(* has mapped (from its first access until its connection is closed; a      *)
(* process keeps its open files whatever happens to the paths).  What the   *)
(* first access of a connection on generation i finds at the paths:         *)
(*   nothing                  -> it creates a fresh pair of generation i;   *)
(*   a pair of generation i   -> it joins the others (or recovers its own   *)
(*                               log after a killed process);               *)
(*   an index somebody else has mapped is TRUSTED as it is.  If it belongs  *)
(*     to another generation and its log is not at the path (an index       *)
(*     without its log) it points at frames the opener cannot read:         *)
(*     "disk I/O error" for this opener and for every later one for as long *)
(*     as the other process lives (StaleIndex); with its log at the path    *)
(*     the opener reads the OTHER database's pages (JoinsOldLog);           *)
(*   an index nobody has mapped is reset and rebuilt from the log at the    *)
(*     path, whatever it held: harmless - unless that log belongs to        *)
(*     another generation (a log without its index, or with an orphaned     *)
(*     one): its frames are replayed over the file (JoinsOldLog).           *)
(* The restore (create_db, backup file present) replaces the database file  *)
(* and must therefore remove BOTH side files of the replaced database from  *)
(* the paths before the backup is renamed there; a process that still has   *)
(* the replaced database open carries on with its unlinked files, the       *)
(* restoring worker and all later ones start a fresh pair on the restored   *)
(* file (NoStaleSideFile).  The LAST connection of a generation that closes *)
(* checkpoints and removes the side files by name - only when its database  *)
(* file is still the one at the path (SQLite checks that: a connection on a *)
(* replaced file touches nothing when it closes).                           *)
(* Who can be attached to the database that a restore replaces: the         *)
(* creating context D (scenario drv together with bak: it wrote the backup  *)
(* with backup_db(), went on storing pages and is still open), or - field   *)
(* bkd - D writes the backup WHILE workers are open (action Backup, at any  *)
(* moment no worker is inside create_db): the workers that are open then    *)
(* stay on the replaced file, every worker that starts later restores.      *)
(*      "RestoreKeepsShm"  - (hypothetical, Demo only) the restore removes  *)
(*                            <db>-wal but leaves <db>-shm ("only the index *)
(*                            of the log, SQLite rebuilds it")              *)
(*      "RestoreKeepsWal"  - (hypothetical, Demo only; the defect           *)
(*                            StaleWalKept fixed under C11) the restore     *)
(*                            leaves <db>-wal                               *)
EXTENDS Naturals, Sequences, FiniteSets, TLC

CONSTANTS
  Procs,       \* worker ids
  Dev,         \* deviations switched on
  Scenarios    \* set of [bak, boot, cursor, drv, prov, rdr, bkd]: backup file present / bootstrap page stored /
               \* workers keep a get_all_pages() cursor open while they work /
               \* the creating context is still open when the workers start /
               \* provenance of the files: "built" (library-made WAL database closed cleanly, backup = such a
               \* file put under the backup name), "lib" (backup written by backup_db() of an earlier context),
               \* "rbj" (the files are in rollback-journal mode) /
               \* which workers keep the cursor: 0 = all, k = worker k only /
               \* bkd: the creating context writes the backup (backup_db) at some moment while it is open

RestoreRace == "RestoreRaceOnStartup" \in Dev
BootSnap == "BootstrapUnderSnapshot" \in Dev
\* code fact (not a violation by itself): the page is stored as "Module:_sandbox_phase1" but
\* looked up as "Module: sandbox phase1", so the check never finds it and every context
\* writes the page again on its first Lua use
BootcheckNeverHits == "BootcheckNeverHits" \in Dev
CloseTidies == "CloseRemovesSideFiles" \in Dev
BackupDropsMode == "BackupDropsJournalMode" \in Dev
ModeByCreatorOnly == "ModeSetByCreatorOnly" \in Dev
CommitSkipped == "CommitSkippedWhenUnchanged" \in Dev
\* the side files the restore leaves at their paths
RestoreKeeps == (IF "RestoreKeepsWal" \in Dev THEN {"wal"} ELSE {}) \cup (IF "RestoreKeepsShm" \in Dev THEN {"shm"} ELSE {})

D == 0                       \* the creating context (driver); only ever closes
PAll == Procs \cup {D}

NIno == 3 + Cardinality(Procs)
Inodes == 1..NIno

\* c, tabs: what connections that share the side files see; ck: what the main file alone holds
Ino(c, ver, tabs, used, ck, jm) == [c |-> c, ver |-> ver, tabs |-> tabs, used |-> used, ck |-> ck, jm |-> jm]
Ck(c, tabs) == [c |-> c, tabs |-> tabs]
Unused == Ino({}, 0, FALSE, FALSE, Ck({}, FALSE), "del")
NoLife == [nlcD |-> FALSE, nlcW |-> FALSE, lateD |-> FALSE, lateW |-> FALSE]
NoSnap == [on |-> FALSE, c |-> {}, ver |-> 0]

VARIABLES
  scn,           \* the scenario (fixed in the initial state)
  pmain, pbak,   \* inode the path points to, 0 = no such file
  ino,           \* inode -> [c: page tags stored, ver: commit counter, tabs: schema exists, used]
  wlock,         \* inode -> process holding the write lock, 0 = free
  pc, conn, snap, saw, res,
  chk,           \* ghost: what the backup path pointed to when the process checked it
  raced,         \* ghost: a process restored on the basis of a check that was no longer true
  snapfail,      \* ghost: a bootstrap write failed because of a stale read snapshot
  opn,           \* process -> its connection is open (connect .. close)
  txn,           \* process -> transaction state of its connection: "none" | "write" | "begun"
  life,          \* ghost: lifetime pattern of the run: nlcD/nlcW = the driver / a worker closed while
                 \* another connection was open; lateD/lateW = a context connected after such a close
  sf             \* side files: [wal, shm: generation (main-file inode) of the file at the path <db>-wal / <db>-shm,
                 \* 0 = no such file; att: process -> generation of the index it has mapped, 0 = none;
                 \* stale (ghost): "none" | "shm" (a connection trusted an index without its log) | "wal" (a log of
                 \* another generation was laid over the file); live (ghost): who had the database open that a
                 \* restore replaced ("D", or where the worker was: "idle" / its label); after (ghost): number of
                 \* first accesses to a restored file while a process of a replaced generation was still open]

vars == <<scn, pmain, pbak, ino, wlock, pc, conn, snap, saw, res, chk, raced, snapfail, opn, life, txn, sf>>

BakPresent == scn.bak
BootPresent == scn.boot
Cursor(p) == scn.cursor /\ (scn.rdr = 0 \/ scn.rdr = p)
Driver == scn.drv
BackupLater == scn.bkd          \* the creating context calls backup_db() while it is open
Exp == IF BakPresent THEN "B" ELSE "M"     \* the page version a single process would see
BootSet == IF BootPresent THEN {"boot"} ELSE {}
\* journal mode of the files the workers find.  A library-made database is a WAL database (its creating
\* context switched it); backup_db copies the file byte for byte, header included.
JmMain == IF scn.prov = "rbj" THEN "del" ELSE "wal"
JmBak == IF scn.prov = "rbj" \/ (scn.prov = "lib" /\ BackupDropsMode) THEN "del" ELSE "wal"

Init ==
  /\ scn \in Scenarios
  /\ pmain = 1 /\ pbak = IF BakPresent THEN 2 ELSE 0
  \* the creating context made the tables before it switched to WAL (code order of create_db):
  \* the schema is in the main file, every stored page only in the side file until a checkpoint
  /\ ino = [i \in Inodes |-> IF i = 1 THEN Ino({"M"} \cup BootSet, 0, TRUE, TRUE,
                                              IF Driver THEN Ck({}, TRUE) ELSE Ck({"M"} \cup BootSet, TRUE), JmMain)
                              ELSE IF i = 2 /\ BakPresent THEN Ino({"B"} \cup BootSet, 0, TRUE, TRUE, Ck({"B"} \cup BootSet, TRUE), JmBak)
                              ELSE Unused]
  /\ wlock = [i \in Inodes |-> 0]
  /\ pc = [p \in PAll |-> IF p # D THEN "exists" ELSE IF Driver THEN (IF BackupLater THEN "backup" ELSE "done") ELSE "closed"]
  /\ conn = [p \in PAll |-> IF p = D /\ Driver THEN 1 ELSE 0]
  /\ opn = [p \in PAll |-> p = D /\ Driver]
  /\ snap = [p \in PAll |-> NoSnap]
  /\ saw = [p \in PAll |-> FALSE]
  /\ res = [p \in PAll |-> "-"]
  /\ chk = [p \in PAll |-> 0]
  /\ raced = FALSE /\ snapfail = FALSE
  /\ life = NoLife
  /\ txn = [p \in PAll |-> "none"]      \* the creating context has committed what it stored
  \* a database closed by its last connection has no side files; the open creating context has its pair
  /\ sf = [wal |-> IF Driver THEN 1 ELSE 0, shm |-> IF Driver THEN 1 ELSE 0,
           att |-> [p \in PAll |-> IF p = D /\ Driver THEN 1 ELSE 0], stale |-> "none", live |-> {}, after |-> 0]

FreeIno == CHOOSE i \in Inodes : ~ino[i].used
View(p) == IF snap[p].on THEN snap[p].c ELSE ino[conn[p]].c

Go(p, l) == pc' = [pc EXCEPT ![p] = l] /\ scn' = scn
Fail(p, why) == pc' = [pc EXCEPT ![p] = "failed"] /\ res' = [res EXCEPT ![p] = why] /\ scn' = scn

(* ---- create_db ---- *)
\* the restore removes the side files of the database it replaces from their paths - all but those in K
RemoveSide(K) == [sf EXCEPT !.wal = IF "wal" \in K THEN @ ELSE 0, !.shm = IF "shm" \in K THEN @ ELSE 0,
                            !.live = @ \cup {IF q = D THEN "D" ELSE IF pc[q] \in {"done", "failed"} THEN "idle" ELSE pc[q] :
                                             q \in {q \in PAll : pmain # 0 /\ opn[q] /\ sf.att[q] = pmain}}]
Exists(p) ==
  /\ pc[p] = "exists"
  /\ IF pbak = 0 THEN Go(p, "connect") /\ UNCHANGED <<pmain, pbak, sf>>
     ELSE IF RestoreRace THEN Go(p, "unlink") /\ UNCHANGED <<pmain, pbak, sf>>
     ELSE \* ideal: check, unlink (side files included) and rename are one indivisible step
          Go(p, "connect") /\ pmain' = pbak /\ pbak' = 0 /\ sf' = RemoveSide(RestoreKeeps)
  /\ chk' = [chk EXCEPT ![p] = pbak]
  /\ UNCHANGED <<ino, wlock, conn, snap, saw, res, raced, snapfail, opn, life, txn>>

\* unlink(<db>-wal), unlink(<db>-shm), unlink(<db>): one step; K = the side files it leaves in place
UnlinkK(p, K) ==
  /\ pc[p] = "unlink" /\ pmain' = 0 /\ Go(p, "rename")
  /\ sf' = RemoveSide(K)
  /\ raced' = (raced \/ pbak # chk[p])
  /\ UNCHANGED <<pbak, ino, wlock, conn, snap, saw, res, chk, snapfail, opn, life, txn>>
Unlink(p) == UnlinkK(p, RestoreKeeps)

Rename(p) ==
  /\ pc[p] = "rename"
  /\ IF pbak = 0 THEN Fail(p, "fnf") /\ UNCHANGED <<pmain, pbak>>
     ELSE pmain' = pbak /\ pbak' = 0 /\ Go(p, "connect") /\ res' = res
  /\ raced' = (raced \/ pbak # chk[p])
  /\ UNCHANGED <<ino, wlock, conn, snap, saw, chk, snapfail, opn, life, txn, sf>>

Connect(p) ==
  /\ pc[p] = "connect"
  /\ IF pmain = 0
     THEN /\ pmain' = FreeIno /\ ino' = [ino EXCEPT ![FreeIno] = Ino({}, 0, FALSE, TRUE, Ck({}, FALSE), "del")]
          /\ conn' = [conn EXCEPT ![p] = FreeIno]
     ELSE conn' = [conn EXCEPT ![p] = pmain] /\ UNCHANGED <<pmain, ino>>
  /\ Go(p, "script")
  /\ opn' = [opn EXCEPT ![p] = TRUE]
  /\ life' = [life EXCEPT !.lateD = @ \/ life.nlcD, !.lateW = @ \/ life.nlcW]
  /\ UNCHANGED <<pbak, wlock, snap, saw, res, chk, raced, snapfail, txn, sf>>

\* First access of the connection (CREATE TABLE IF NOT EXISTS ...; PRAGMA ...): SQLite
\* opens the -shm/-wal files beside the path and refuses ("disk I/O error") when the file
\* it holds is no longer the one at the path.  A write only on a database without schema.
\* The script ends with PRAGMA journal_mode = WAL: whatever mode the file at the path was in,
\* it is a WAL database from here on (switching needs the file lock for a moment: no other
\* connection can be inside a transaction on a rollback-mode file at this point, because every
\* connection ran this script before its first page access).
SetsWal(p) == ~ModeByCreatorOnly \/ ~ino[conn[p]].tabs
\* the side files the first access finds (see SIDE FILES PER PATH)
Mapped(g, p) == g # 0 /\ \E q \in PAll \ {p} : opn[q] /\ sf.att[q] = g
\* an index of another generation that some live process has mapped, without its log at the path
StaleIndex(p) == sf.shm \notin {0, conn[p]} /\ Mapped(sf.shm, p) /\ sf.wal # sf.shm
\* the log of another generation is at the path and gets used: through its own index that a live process has
\* mapped, or replayed by the recovery that an absent / orphaned index triggers
JoinsOldLog(p) == sf.wal \notin {0, conn[p]} /\ ~StaleIndex(p)
Script(p) ==
  /\ pc[p] = "script"
  /\ IF pmain # conn[p] THEN Fail(p, "ioerr") /\ ino' = ino /\ opn' = [opn EXCEPT ![p] = FALSE] /\ sf' = sf  \* no context object: the connection is dropped
     ELSE IF StaleIndex(p)
     THEN \* the opener trusts the index it finds; the frames it points at are not in the (new, empty) log
          /\ Fail(p, "ioerr") /\ ino' = ino /\ opn' = [opn EXCEPT ![p] = FALSE]
          /\ sf' = [sf EXCEPT !.wal = IF @ = 0 THEN conn[p] ELSE @, !.stale = "shm"]
     ELSE /\ LET i == conn[p]
                 \* a log of another generation laid over the file: the database now shows that generation's pages
                 base == IF JoinsOldLog(p) THEN [ino EXCEPT ![i].c = ino[sf.wal].c, ![i].ver = @ + 1] ELSE ino
             IN IF ino[i].tabs THEN ino' = [base EXCEPT ![i].jm = IF SetsWal(p) THEN "wal" ELSE @]
                ELSE wlock[i] = 0 /\ ino' = [base EXCEPT ![i].tabs = TRUE, ![i].ver = @ + 1,
                                                         ![i].jm = IF SetsWal(p) THEN "wal" ELSE @]
          /\ sf' = [sf EXCEPT !.wal = conn[p], !.shm = conn[p], !.att[p] = conn[p],
                              !.stale = IF JoinsOldLog(p) THEN "wal" ELSE @,
                              !.after = IF \E q \in PAll \ {p} : opn[q] /\ sf.att[q] \notin {0, conn[p]} THEN @ + 1 ELSE @]
          /\ Go(p, IF Cursor(p) THEN "cursor" ELSE "read1") /\ res' = res /\ opn' = opn
  /\ UNCHANGED <<pmain, pbak, wlock, conn, snap, saw, chk, raced, snapfail, life, txn>>

(* ---- page work ---- *)
\* the iterator over the stored pages stays open (if there is any page to iterate over)
OpenCursor(p) ==
  /\ pc[p] = "cursor"
  /\ snap' = [snap EXCEPT ![p] = IF (ino[conn[p]].c \ {"boot"}) # {}
                                  THEN [on |-> TRUE, c |-> ino[conn[p]].c, ver |-> ino[conn[p]].ver]
                                  ELSE NoSnap]
  /\ Go(p, "read1")
  /\ UNCHANGED <<pmain, pbak, ino, wlock, conn, saw, res, chk, raced, snapfail, opn, life, txn, sf>>

Read(p, here, next) ==
  /\ pc[p] = here
  /\ IF Exp \in View(p) THEN Go(p, next) /\ res' = res
     ELSE Fail(p, IF View(p) \ {"boot"} = {} THEN "missing" ELSE "stale")
  /\ UNCHANGED <<pmain, pbak, ino, wlock, conn, snap, saw, chk, raced, snapfail, opn, life, txn, sf>>
Read1(p) == Read(p, "read1", "bootcheck")

BootFound(p) == "boot" \in View(p) /\ ~BootcheckNeverHits
Bootcheck(p) ==
  /\ pc[p] = "bootcheck"
  /\ saw' = [saw EXCEPT ![p] = BootFound(p)]
  /\ Go(p, IF BootFound(p) THEN "read2" ELSE "insert")
  /\ UNCHANGED <<pmain, pbak, ino, wlock, conn, snap, res, chk, raced, snapfail, opn, life, txn, sf>>

\* A connection that holds a read transaction (the open cursor) cannot wait for the write
\* lock (SQLite does not run the busy handler then) and cannot upgrade a stale snapshot:
\* "database is locked" at once in both cases.
InsertFails(p) == BootSnap /\ snap[p].on /\ (snap[p].ver # ino[conn[p]].ver \/ wlock[conn[p]] # 0)
\* A context is idle when no library call is active on it: its page work is over (done or failed by an
\* exception) and it has not been closed yet.  Nothing bounds the time it stays like that.
Idle(q) == opn[q] /\ pc[q] \in {"done", "failed"}
\* The write lock is with a connection that is idle: the holder is not inside a critical section that ends
\* by itself, the lock lives as long as the holder's context.  The busy handler of a writer that meets it
\* gives up after the busy timeout ("database is locked") - unless the holder happens to close first, which
\* is the other interleaving (Close(holder) before this step).
IdleHeld(p) == wlock[conn[p]] \notin {0, p} /\ Idle(wlock[conn[p]])
\* the bootstrap write: sqlite3 issues BEGIN, the statement takes the write lock - whether or not it ends
\* up changing a row - and the transaction stays open until the commit that follows
SkipsCommit(p) == CommitSkipped /\ "boot" \in ino[conn[p]].c
Insert(p) ==
  /\ pc[p] = "insert"
  /\ IF InsertFails(p)
     THEN Fail(p, "locked") /\ wlock' = wlock /\ snapfail' = TRUE /\ txn' = [txn EXCEPT ![p] = "begun"]
     ELSE IF IdleHeld(p)
     THEN Fail(p, "locked") /\ wlock' = wlock /\ snapfail' = snapfail /\ txn' = [txn EXCEPT ![p] = "begun"]
     ELSE /\ wlock[conn[p]] = 0                  \* otherwise the busy handler waits
          /\ wlock' = [wlock EXCEPT ![conn[p]] = p] /\ res' = res /\ snapfail' = snapfail
          /\ txn' = [txn EXCEPT ![p] = "write"]
          /\ Go(p, IF SkipsCommit(p) THEN "read2" ELSE "commit")
  /\ UNCHANGED <<pmain, pbak, ino, conn, snap, saw, chk, raced, opn, life, sf>>

\* an upsert that stores what is stored already writes nothing: no new version
\* Rollback-journal mode: the commit needs the EXCLUSIVE lock, i.e. no other connection may hold
\* SHARED (= have a cursor open).  SQLite waits for the busy timeout; the reader may stay where it is
\* for longer than that, so under "every interleaving" the commit fails ("database is locked"); the
\* failed writer keeps its lock until its connection is closed.  WAL mode: readers never block a commit.
Readers(i, p) == {q \in PAll \ {p} : opn[q] /\ conn[q] = i /\ snap[q].on}
RollbackBlocked(p) == ino[conn[p]].jm = "del" /\ Readers(conn[p], p) # {}
Commit(p) ==
  /\ pc[p] = "commit"
  /\ IF RollbackBlocked(p)
     THEN Fail(p, "locked") /\ UNCHANGED <<ino, wlock, snap, txn>>     \* still inside its write transaction
     ELSE /\ ino' = [ino EXCEPT ![conn[p]].c = @ \cup {"boot"},
                                ![conn[p]].ver = IF "boot" \in ino[conn[p]].c THEN @ ELSE @ + 1]
          /\ wlock' = [wlock EXCEPT ![conn[p]] = 0]
          /\ txn' = [txn EXCEPT ![p] = "none"]
          /\ snap' = [snap EXCEPT ![p] = IF snap[p].on
                                          THEN [on |-> TRUE, c |-> ino'[conn[p]].c, ver |-> ino'[conn[p]].ver]
                                          ELSE NoSnap]
          /\ Go(p, "read2") /\ res' = res
  /\ UNCHANGED <<pmain, pbak, conn, saw, chk, raced, snapfail, opn, life, sf>>

Read2(p) ==
  /\ pc[p] = "read2"
  /\ IF Exp \in View(p) THEN Go(p, "done") /\ res' = [res EXCEPT ![p] = "ok"]
     ELSE Fail(p, IF View(p) \ {"boot"} = {} THEN "missing" ELSE "stale")
  /\ UNCHANGED <<pmain, pbak, ino, wlock, conn, snap, saw, chk, raced, snapfail, opn, life, txn, sf>>

(* ---- close_db_conn ---- *)
\* commit (nothing pending) + close of the connection.  SQLite: the last connection that
\* closes checkpoints the side file into the main file and removes the side files; a close
\* while other connections are open touches no file.  Enabled at any moment after the page
\* work (also after a failure during the page work: the context object exists), for the
\* creating context D at any moment.
\* a connection is attached to the side files from its first access on (sqlite3.connect alone
\* only opens the main file)
OnIno(i) == {q \in PAll : opn[q] /\ conn[q] = i /\ pc[q] # "script"}
CanClose(p) == Idle(p)
Close(p) ==
  /\ CanClose(p)
  /\ LET i == conn[p]
         last == OnIno(i) = {p}
     IN /\ IF last
           THEN \* checkpoint; the side files are removed by name - when the database file is still the one at
                \* the path (a connection whose file was replaced or unlinked touches nothing)
                /\ ino' = [ino EXCEPT ![i].ck = Ck(ino[i].c, ino[i].tabs)] /\ pmain' = pmain /\ conn' = conn
                /\ sf' = [sf EXCEPT !.wal = IF pmain = i THEN 0 ELSE @, !.shm = IF pmain = i THEN 0 ELSE @, !.att[p] = 0]
           ELSE IF CloseTidies /\ pmain = i
           THEN \* the side files are gone from the path: the others keep theirs (open files),
                \* whoever opens the path from now on sees the main file alone
                /\ pmain' = FreeIno
                /\ ino' = [ino EXCEPT ![FreeIno] = Ino(ino[i].ck.c, 0, ino[i].ck.tabs, TRUE, ino[i].ck, ino[i].jm)]
                /\ conn' = [q \in PAll |-> IF opn[q] /\ conn[q] = i /\ pc[q] = "script" THEN FreeIno ELSE conn[q]]
                /\ sf' = [sf EXCEPT !.wal = 0, !.shm = 0, !.att[p] = 0]
           ELSE ino' = ino /\ pmain' = pmain /\ conn' = conn /\ sf' = [sf EXCEPT !.att[p] = 0]
        /\ life' = IF last THEN life
                   ELSE IF p = D THEN [life EXCEPT !.nlcD = TRUE] ELSE [life EXCEPT !.nlcW = TRUE]
  /\ opn' = [opn EXCEPT ![p] = FALSE]
  /\ snap' = [snap EXCEPT ![p] = NoSnap]
  /\ pc' = [pc EXCEPT ![p] = IF pc[p] = "done" THEN "closed" ELSE "failed"]
  /\ scn' = scn
  \* a connection that is still inside a write transaction (failed commit; a write that was never
  \* committed) holds the lock up to here: close_db_conn commits, closing the connection releases it
  /\ wlock' = [j \in Inodes |-> IF wlock[j] = p THEN 0 ELSE wlock[j]]
  /\ txn' = [txn EXCEPT ![p] = "none"]
  /\ UNCHANGED <<pbak, saw, res, chk, raced, snapfail>>

(* ---- backup_db of the creating context ---- *)
\* commit + Connection.backup into a temporary file + rename to the backup name: the backup file appears in one
\* step, a byte-for-byte copy (journal mode included) of what the connection sees, a single clean file.  The
\* application calls it at a moment of its choice while workers are open - not while a worker is inside
\* create_db (between its look at the backup path and its first access): every worker either finished its
\* start-up before (it stays on the file that a later restore replaces) or starts after it (the first restores).
InCreateDb(q) == pc[q] \in {"unlink", "rename", "connect", "script"}
Backup(p) ==
  /\ pc[p] = "backup" /\ opn[p] /\ pbak = 0
  /\ \A q \in Procs : ~InCreateDb(q)
  /\ pbak' = FreeIno
  /\ ino' = [ino EXCEPT ![FreeIno] = Ino(ino[conn[p]].c, 0, ino[conn[p]].tabs, TRUE, Ck(ino[conn[p]].c, ino[conn[p]].tabs),
                                         IF BackupDropsMode THEN "del" ELSE ino[conn[p]].jm)]
  /\ Go(p, "done")
  /\ UNCHANGED <<pmain, wlock, conn, snap, saw, res, chk, raced, snapfail, opn, life, txn, sf>>

Step(p) == Exists(p) \/ Unlink(p) \/ Rename(p) \/ Connect(p) \/ Script(p) \/ OpenCursor(p)
           \/ Read1(p) \/ Bootcheck(p) \/ Insert(p) \/ Commit(p) \/ Read2(p) \/ Close(p) \/ Backup(p)

Finished(p) == pc[p] \in {"done", "failed", "closed"}     \* page work over
Ended(p) == Finished(p) /\ ~opn[p]                        \* ... and context closed
AllDone == \A p \in PAll : Ended(p)

Next == (\E p \in PAll : Step(p)) \/ (AllDone /\ UNCHANGED vars)
Spec == Init /\ [][Next]_vars

(* ------------------------------------------------------------------ *)
(* what the property demands                                           *)
(* ------------------------------------------------------------------ *)
\* no database-locked, missing-page or other failure in any worker
NoFailure == \A p \in Procs : res[p] \in {"-", "ok"}
\* every worker obtains what a single process obtains
SerialResults == \A p \in Procs : pc[p] \in {"done", "closed"} => res[p] = "ok"
\* afterwards the database path holds exactly the pages a single process would have left
\* (the bootstrap page does not count)
StoreUnchanged == AllDone => (pmain # 0 /\ ino[pmain].c \ {"boot"} = {Exp})
\* nobody waits forever: some worker can always move until all are finished
NoDeadlock == AllDone \/ (\E p \in PAll : ENABLED Step(p))
\* every open (re-)establishes WAL: page work only ever runs on a WAL database, whatever file
\* was at the path (the rule the reader/writer independence above rests on)
AtWork(p) == pc[p] \in {"cursor", "read1", "bootcheck", "insert", "commit", "read2"}
WalAtWork == \A p \in Procs : AtWork(p) => ino[conn[p]].jm = "wal"
\* transaction state and write lock are two views of one thing
TxnLockAgree == /\ \A i \in Inodes : wlock[i] # 0 => (opn[wlock[i]] /\ conn[wlock[i]] = i /\ txn[wlock[i]] = "write")
                /\ \A p \in PAll : txn[p] = "write" => (opn[p] /\ wlock[conn[p]] = p)
                /\ \A p \in PAll : ~opn[p] => txn[p] = "none"
\* no connection is inside an open transaction while no library call is active on it: every statement
\* that begins a write transaction is followed by a commit on every path of the same call
NoIdleTransaction == \A p \in PAll : Idle(p) => txn[p] = "none"
\* the code as it is: only the statement that failed leaves a transaction open (BEGIN issued, no lock)
DoneMeansCommitted == \A p \in PAll : (Idle(p) /\ pc[p] = "done") => txn[p] = "none"
\* the part of it that other workers feel: an idle context never holds the write lock
NoIdleWriteLock == \A p \in PAll : Idle(p) => txn[p] # "write"
InTxn(p) == txn[p] # "none"
\* every connection is attached to the side files of its own database file, nobody ever trusted an index without its
\* log or had the log of another database laid over its file
NoStaleSideFile == /\ sf.stale = "none"
                   /\ \A p \in PAll : (opn[p] /\ sf.att[p] # 0) => sf.att[p] = conn[p]
\* ... and the side files at the paths belong to the file at the database path (or to nobody)
SidePathsMatch == (sf.wal \in {0, pmain} /\ sf.shm \in {0, pmain}) \/ pmain = 0
=============================================================================
