SPECIFICATION Spec
CONSTANTS
  MaxLen = 2
  Known <- KnownC14
INVARIANT GenInv
CHECK_DEADLOCK FALSE
