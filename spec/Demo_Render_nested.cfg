SPECIFICATION Spec
CONSTANTS
  MaxLen = 3
  Small = {"a", "piped", "pipedopen", "close"}
INVARIANT IdemTagFree
CHECK_DEADLOCK FALSE
