----------------------------- MODULE ParserFns -----------------------------
(* call_parser_function (parserfns.py) as a dispatch over classes of parser *)
(* functions and classes of argument texts: which calls end in-band (a      *)
(* value, an error string, the documented fallback) and which let an        *)
(* exception escape.  #expr itself is modelled in Expr.tla; here it only    *)
(* contributes the classes "value" / "error string".                        *)
(*                                                                          *)
(* Dev = as-is behaviours of the unchanged tree (each removed by one of     *)
(* proposed_fixes/C05-*.diff); the ideal is Dev = {}.                       *)
EXTENDS Integers, Sequences, FiniteSets, TLC

CONSTANTS Dev,
          Known      \* names registered in PARSER_FUNCTIONS of the working tree

(* ---- argument atoms (abstract texts; the harness holds the concrete text) ---- *)
Atoms == {"EMPTY", "BLANK", "WORD", "NEG", "ZERO", "ONE", "SEVEN", "HUGE", "FRAC",
          "PLUS", "STAR", "LPAR", "EXPEMPTY", "TALK", "DOTS", "EPOCH", "BADDATE",
          "LT", "KV", "HASH", "UP", "PCT", "E",
          "SUP", "ARDIG",      \* "²" (isdigit but not a decimal numeral) and an Arabic-Indic digit
          \* date texts: a 14-digit timestamp that is no date, one in year 1, "@" + a float far out of
          \* range; a digit string longer than any integer conversion accepts; 200 nested parentheses
          "TS14BAD", "TS14YR1", "ATEXP", "DIGITS", "DEEP",
          \* a text of several pieces and small positions / limits (string functions with 3-4 arguments)
          "WORDS", "TWO", "THREE", "NEG1",
          \* characters that text-handling library calls trip over: a NUL byte inside a word, control
          \* characters, a line break inside a word, a word longer than any file-name limit
          "NUL", "CTRL", "NLIN", "LONGW"}
ExprValue == {"NEG", "ZERO", "ONE", "SEVEN", "HUGE", "FRAC", "E"}   \* texts that are a well-formed #expr
\* page titles the call is expanded on
Titles == {"plain", "talk", "nstalk", "user"}
TalkTitles == {"talk", "nstalk"}        \* the title is in a talk namespace

(* ---- classes of parser functions ---- *)
Unimplemented ==
  {"ARTICLEPAGENAME", "SUBJECTPAGENAME", "ARTICLESPACE", "BASEPAGENAMEE", "SUBPAGENAMEE",
   "ARTICLEPAGENAMEE", "SUBJECTPAGENAMEE", "TALKPAGENAMEE", "NAMESPACENUMBERE", "NAMESPACEE",
   "ARTICLESPACEE", "SUBJECTSPACEE", "TALKSPACEE", "SITENAME", "SCRIPTPATH", "CURRENTVERSION",
   "REVISIONDAY", "REVISIONDAY2", "REVISIONMONTH", "REVISIONYEAR", "REVISIONTIMESTAMP",
   "NUMBEROFFILES", "NUMBEROFEDITS", "NUMBEROFUSERS", "NUMBEROFADMINS", "NUMBEROFACTIVEUSERS",
   "PAGEID", "PROTECTIONEXPIRY", "PENDINGCHANGELEVEL", "PAGESINCATEGORY", "NUMBERINGROUP",
   "gender", "canonicalurl", "#babel", "#lsth", "#lstx", "#related", "#target",
   "#section-h", "#Abschnitt-x", "#trecho-x", "#section-x"}
ClassOf(name) ==
  CASE name \in Unimplemented -> "unimplemented"
    [] name = "TALKPAGENAME" -> "talkpagename"
    [] name = "TALKSPACE" -> "talkspace"
    [] name = "#rel2abs" -> "rel2abs"
    [] name \in {"padleft", "padright"} -> "padlr"
    [] name = "#pad" -> "pad"
    [] name = "#expr" -> "expr"
    [] name \in {"#time", "#timel", "#dateformat", "#formatdate"} -> "time"
    [] name \in {"#property", "#statements", "fullurl", "fullurle"} -> "net"
    [] OTHER -> "total"        \* reads its arguments defensively

InBand(via) == [kind |-> "inband", via |-> via]
Escapes(what) == [kind |-> "exc", via |-> what]

Arg(argv, i) == IF i <= Len(argv) THEN argv[i] ELSE "ABSENT"

\* what the dispatch does with a call {{name:argv}} on a page of the given title
\* class, with the deviations D switched on
CallD(name, argv, title, D) ==
  IF name \notin Known THEN InBand("unrecognized")         \* ctx.error + ""
  ELSE
  LET c == ClassOf(name)
      AsIs(dev, what, via) == IF dev \in D THEN Escapes(what) ELSE InBand(via)
  IN
  CASE c = "unimplemented" -> InBand("unimplemented")      \* ctx.error + the call text
    \* listed finding: int() of a decimal string longer than the interpreter's conversion limit
    \* (4300 digits) raises ValueError in the functions that read a count / index / id / date
    [] (\E i \in 1..Len(argv) : argv[i] = "DIGITS") /\ "IntegerStringConversionLimit" \in D /\ c # "expr" ->
         Escapes("ValueError")
    [] c = "talkpagename" ->
         \* indexes NAMESPACE_DATA[prefix + " talk"]: no "Talk talk" namespace
         IF title \in TalkTitles THEN AsIs("TalkNamespaceLookup", "KeyError", "value") ELSE InBand("value")
    [] c = "talkspace" ->
         IF (Len(argv) = 0 /\ title \in TalkTitles) \/ Arg(argv, 1) = "TALK"
         THEN AsIs("TalkNamespaceLookup", "KeyError", "value") ELSE InBand("value")
    [] c = "rel2abs" ->
         IF Len(argv) = 0 THEN AsIs("Rel2absNeedsArgument", "IndexError", "fallback")
         \* Path.resolve() consults the host file system: an embedded NUL byte raises ValueError
         ELSE IF \E i \in 1..Len(argv) : i <= 2 /\ argv[i] = "NUL"
              THEN AsIs("Rel2absResolvesOnHost", "ValueError", "value")
         ELSE InBand("value")
    [] c = "padlr" ->
         IF Arg(argv, 2) = "HUGE" THEN AsIs("PadCountUnbounded", "OverflowError", "value") ELSE InBand("value")
    [] c = "pad" ->
         IF Arg(argv, 2) = "HUGE" THEN AsIs("PadCountUnbounded", "OverflowError", "value")
         ELSE IF Arg(argv, 2) = "SEVEN" /\ Arg(argv, 3) = "EXPEMPTY"
              THEN AsIs("PadEmptyPaddingDivides", "ZeroDivisionError", "value")
         ELSE InBand("value")
    [] c = "expr" -> IF Arg(argv, 1) \in ExprValue THEN InBand("value") ELSE InBand("error")
    [] c = "time" -> InBand("value-or-error")
    [] c = "net" -> InBand("value")                        \* network helper stubbed to "no result"
    [] OTHER -> InBand("value")

Call(name, argv, title) == CallD(name, argv, title, Dev)

\* M: every call ends in-band
Total(name, argv, title) == Call(name, argv, title).kind = "inband"
=============================================================================
