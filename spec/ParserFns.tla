----------------------------- MODULE ParserFns -----------------------------
(* call_parser_function (parserfns.py) as a dispatch over classes of parser *)
(* functions and classes of argument texts: which calls end in-band (a      *)
(* value, an error string, the documented fallback) and which let an        *)
(* exception escape.  #expr itself is modelled in Expr.tla; here it only    *)
(* contributes the classes "value" / "error string".                        *)
(*                                                                          *)
(* Dev = as-is behaviours of the unchanged tree (each removed by one of     *)
(* proposed_fixes/C05-*.diff); the ideal is Dev = {}.                       *)
EXTENDS Integers, Sequences, FiniteSets, TLC

CONSTANTS Dev,
          Known,     \* names registered in PARSER_FUNCTIONS of the working tree
          Sites,     \* the language configurations: a sequence of namespace tables (see below)
          NsFns      \* names whose result depends on the namespace of a title (all spellings x positions)

(* ---- argument atoms (abstract texts; the harness holds the concrete text) ---- *)
Atoms == {"EMPTY", "BLANK", "WORD", "NEG", "ZERO", "ONE", "SEVEN", "HUGE", "FRAC",
          "PLUS", "STAR", "LPAR", "EXPEMPTY", "TALK", "DOTS", "EPOCH", "BADDATE",
          "LT", "KV", "HASH", "UP", "PCT", "E",
          "SUP", "ARDIG",      \* "²" (isdigit but not a decimal numeral) and an Arabic-Indic digit
          \* date texts: a 14-digit timestamp that is no date, one in year 1, "@" + a float far out of
          \* range; a digit string longer than any integer conversion accepts; 200 nested parentheses
          "TS14BAD", "TS14YR1", "ATEXP", "DIGITS", "DEEP",
          \* a text of several pieces and small positions / limits (string functions with 3-4 arguments)
          "WORDS", "TWO", "THREE", "NEG1",
          \* characters that text-handling library calls trip over: a NUL byte inside a word, control
          \* characters, a line break inside a word, a word longer than any file-name limit
          "NUL", "CTRL", "NLIN", "LONGW"}
ExprValue == {"NEG", "ZERO", "ONE", "SEVEN", "HUGE", "FRAC", "E"}   \* texts that are a well-formed #expr
\* page titles the call is expanded on
Titles == {"plain", "talk", "nstalk", "user"}
TalkTitles == {"talk", "nstalk"}        \* the title is in a talk namespace

(* ---- classes of parser functions ---- *)
Unimplemented ==
  {"ARTICLEPAGENAME", "SUBJECTPAGENAME", "ARTICLESPACE", "BASEPAGENAMEE", "SUBPAGENAMEE",
   "ARTICLEPAGENAMEE", "SUBJECTPAGENAMEE", "TALKPAGENAMEE", "NAMESPACENUMBERE", "NAMESPACEE",
   "ARTICLESPACEE", "SUBJECTSPACEE", "TALKSPACEE", "SITENAME", "SCRIPTPATH", "CURRENTVERSION",
   "REVISIONDAY", "REVISIONDAY2", "REVISIONMONTH", "REVISIONYEAR", "REVISIONTIMESTAMP",
   "NUMBEROFFILES", "NUMBEROFEDITS", "NUMBEROFUSERS", "NUMBEROFADMINS", "NUMBEROFACTIVEUSERS",
   "PAGEID", "PROTECTIONEXPIRY", "PENDINGCHANGELEVEL", "PAGESINCATEGORY", "NUMBERINGROUP",
   "gender", "canonicalurl", "#babel", "#lsth", "#lstx", "#related", "#target",
   "#section-h", "#Abschnitt-x", "#trecho-x", "#section-x"}
ClassOf(name) ==
  CASE name \in Unimplemented -> "unimplemented"
    [] name = "TALKPAGENAME" -> "talkpagename"
    [] name = "TALKSPACE" -> "talkspace"
    [] name = "#rel2abs" -> "rel2abs"
    [] name \in {"padleft", "padright"} -> "padlr"
    [] name = "#pad" -> "pad"
    [] name = "#expr" -> "expr"
    [] name = "#invoke" -> "invoke"
    [] name \in {"#time", "#timel", "#dateformat", "#formatdate"} -> "time"
    [] name \in {"#property", "#statements", "fullurl", "fullurle"} -> "net"
    [] OTHER -> "total"        \* reads its arguments defensively

InBand(via) == [kind |-> "inband", via |-> via]
Escapes(what) == [kind |-> "exc", via |-> what]

Arg(argv, i) == IF i <= Len(argv) THEN argv[i] ELSE "ABSENT"

\* what the dispatch does with a call {{name:argv}} on a page of the given title
\* class, with the deviations D switched on
CallD(name, argv, title, D) ==
  IF name \notin Known THEN InBand("unrecognized")         \* ctx.error + ""
  ELSE
  LET c == ClassOf(name)
      AsIs(dev, what, via) == IF dev \in D THEN Escapes(what) ELSE InBand(via)
  IN
  CASE c = "unimplemented" -> InBand("unimplemented")      \* ctx.error + the call text
    \* listed finding: int() of a decimal string longer than the interpreter's conversion limit
    \* (4300 digits) raises ValueError in the functions that read a count / index / id / date
    [] (\E i \in 1..Len(argv) : argv[i] = "DIGITS") /\ "IntegerStringConversionLimit" \in D /\ c # "expr" ->
         Escapes("ValueError")
    [] c = "talkpagename" ->
         \* indexes NAMESPACE_DATA[prefix + " talk"]: no "Talk talk" namespace
         IF title \in TalkTitles THEN AsIs("TalkNamespaceLookup", "KeyError", "value") ELSE InBand("value")
    [] c = "talkspace" ->
         IF (Len(argv) = 0 /\ title \in TalkTitles) \/ Arg(argv, 1) = "TALK"
         THEN AsIs("TalkNamespaceLookup", "KeyError", "value") ELSE InBand("value")
    [] c = "rel2abs" ->
         IF Len(argv) = 0 THEN AsIs("Rel2absNeedsArgument", "IndexError", "fallback")
         \* Path.resolve() consults the host file system: an embedded NUL byte raises ValueError
         ELSE IF \E i \in 1..Len(argv) : i <= 2 /\ argv[i] = "NUL"
              THEN AsIs("Rel2absResolvesOnHost", "ValueError", "value")
         ELSE InBand("value")
    [] c = "padlr" ->
         IF Arg(argv, 2) = "HUGE" THEN AsIs("PadCountUnbounded", "OverflowError", "value") ELSE InBand("value")
    [] c = "pad" ->
         IF Arg(argv, 2) = "HUGE" THEN AsIs("PadCountUnbounded", "OverflowError", "value")
         ELSE IF Arg(argv, 2) = "SEVEN" /\ Arg(argv, 3) = "EXPEMPTY"
              THEN AsIs("PadEmptyPaddingDivides", "ZeroDivisionError", "value")
         ELSE InBand("value")
    \* #invoke with fewer than two arguments never reaches Lua: "too few arguments", the call text comes
    \* back; the as-is code builds that text from invoke_args[0] also when there is no argument at all
    [] c = "invoke" ->
         IF Len(argv) = 0 THEN AsIs("InvokeNeedsModuleName", "IndexError", "fallback")
         ELSE IF Len(argv) = 1 THEN InBand("fallback")
         ELSE InBand("lua")                                 \* the Lua sandbox (C06..C09): not part of this universe
    [] c = "expr" -> IF Arg(argv, 1) \in ExprValue THEN InBand("value") ELSE InBand("error")
    [] c = "time" -> InBand("value-or-error")
    [] c = "net" -> InBand("value")                        \* network helper stubbed to "no result"
    [] OTHER -> InBand("value")

Call(name, argv, title) == CallD(name, argv, title, Dev)

(* ======================= language configurations ========================= *)
(* A context is configured for one language: data/<lang>/namespaces.json.  A  *)
(* site is [lang, syn, ns], ns a sequence of entries                          *)
(*   [key   canonical (English) name, the key of NAMESPACE_DATA,             *)
(*    id, name (local name), aliases (sequence), istalk,                     *)
(*    lower  the key in lower case (a fact about letters TLC cannot compute)] *)
(* syn = TRUE: a shipped table with namespaces of attested kinds added by the *)
(* harness (a subject namespace without talk namespace, like Flow's Topic).   *)
(* The page titles and argument texts of this part of the universe are built  *)
(* from the table: namespace j of site s, spelled in one of its forms, used   *)
(* as the page title or as the first argument.                                *)
Tab(s) == Sites[s].ns
E(s, j) == Sites[s].ns[j]
KeySet(s) == {E(s, j).key : j \in DOMAIN Tab(s)}
ById(s, id) == {k \in DOMAIN Tab(s) : E(s, k).id = id}
\* structure of the table around entry j
Negative(s, j) == E(s, j).id < 0                                  \* Special, Media: no pages, no talk
HasTalkKey(s, j) == (E(s, j).key \o " talk") \in KeySet(s)        \* the "X" / "X talk" naming pattern
NoTalkPartner(s, j) == ~E(s, j).istalk /\ E(s, j).id >= 0         \* e.g. Topic (2600) of the French table
                       /\ ~\E k \in ById(s, E(s, j).id + 1) : E(s, k).istalk
NoSubject(s, j) == E(s, j).istalk /\ ById(s, E(s, j).id - 1) = {}
IrregularKey(s, j) == ~E(s, j).istalk /\ E(s, j).id > 0 /\ ~HasTalkKey(s, j)   \* "Portail" / "Discussion Portail"
\* MediaWiki: the talk namespace of a subject namespace is the one with the following id; a talk
\* namespace, a namespace with a negative id and a subject namespace that has no talk namespace in
\* the table are their own.  Total: never names an id that the table does not hold.
TalkIdx(s, j) ==
  IF E(s, j).istalk \/ Negative(s, j) \/ NoTalkPartner(s, j) THEN j
  ELSE CHOOSE k \in ById(s, E(s, j).id + 1) : E(s, k).istalk
SubjectIdx(s, j) ==
  IF ~E(s, j).istalk \/ NoSubject(s, j) THEN j ELSE CHOOSE k \in ById(s, E(s, j).id - 1) : TRUE
\* the namespaces around which the table is not the regular  X (2n) / X talk (2n+1)  pattern
Structural(s, j) == Negative(s, j) \/ NoTalkPartner(s, j) \/ NoSubject(s, j) \/ IrregularKey(s, j)
                    \/ (E(s, j).istalk /\ ~NoSubject(s, j) /\ IrregularKey(s, SubjectIdx(s, j)))
\* the same, as words for a report
FactsOf(s, j) ==
  (IF Negative(s, j) THEN {"negative id (no pages, no talk namespace)"} ELSE {})
  \cup (IF NoTalkPartner(s, j) THEN {"subject namespace without a talk namespace in this table"} ELSE {})
  \cup (IF NoSubject(s, j) THEN {"talk namespace whose subject namespace is not in this table"} ELSE {})
  \cup (IF IrregularKey(s, j) THEN {"the key of its talk namespace is not <key> talk"} ELSE {})
  \cup (IF E(s, j).istalk THEN {"talk namespace"} ELSE {})
  \cup (IF E(s, j).name # E(s, j).key THEN {"local name differs from the key"} ELSE {})

Forms == {"key", "local", "alias", "lower"}
FormsOf(s, j) == {"key", "lower"} \cup (IF E(s, j).name # E(s, j).key THEN {"local"} ELSE {})
                 \cup (IF E(s, j).aliases # <<>> THEN {"alias"} ELSE {})
\* j = 0: no namespace of the table ("bare": no prefix, "unknown": a prefix the table does not hold)
UnknownPrefix == "Xyzzy"
Rest == "Abc/def"
Spelled(s, j, form) ==
  CASE form = "key" -> E(s, j).key
    [] form = "local" -> E(s, j).name
    [] form = "alias" -> E(s, j).aliases[1]
    [] form = "lower" -> E(s, j).lower
    [] form = "unknown" -> UnknownPrefix
    [] OTHER -> ""
TitleText(s, j, form) == IF form = "bare" THEN Rest ELSE Spelled(s, j, form) \o ":" \o Rest
\* where the namespace goes: the title of the page (call without argument), the first argument as a
\* title, as the decimal id, as the bare name
Positions == {"title", "arg", "argid", "argname"}
PageTitle(s, j, form, pos) == IF pos = "title" THEN TitleText(s, j, form) ELSE Rest
Arg1(s, j, form, pos) ==
  CASE pos = "arg" -> TitleText(s, j, form)
    [] pos = "argid" -> ToString(E(s, j).id)
    [] pos = "argname" -> Spelled(s, j, form)
    [] OTHER -> ""

\* the as-is lookup of the talk functions (deviation TalkNamespaceLookup): a prefix that is a key of the
\* table is followed by indexing the table with prefix + " talk"
AsIsTalkLookupFails(s, j, form) ==
  j > 0 /\ Spelled(s, j, form) \in KeySet(s) /\ (Spelled(s, j, form) \o " talk") \notin KeySet(s)

CallSD(name, s, j, form, pos, D) ==
  IF name \notin Known THEN InBand("unrecognized")
  ELSE
  LET c == ClassOf(name) IN
  CASE c = "unimplemented" -> InBand("unimplemented")
    [] c = "talkpagename" /\ pos = "title" /\ "TalkNamespaceLookup" \in D /\ AsIsTalkLookupFails(s, j, form) -> Escapes("KeyError")
    [] c = "talkspace" /\ pos \in {"title", "arg"} /\ "TalkNamespaceLookup" \in D /\ AsIsTalkLookupFails(s, j, form) -> Escapes("KeyError")
    [] c = "invoke" -> IF pos = "title" THEN (IF "InvokeNeedsModuleName" \in D THEN Escapes("IndexError") ELSE InBand("fallback"))
                       ELSE InBand("fallback")
    [] c = "expr" -> IF pos = "argid" THEN InBand("value") ELSE InBand("error")
    [] c = "time" -> InBand("value-or-error")
    [] OTHER -> InBand("value")          \* whatever the table looks like around the namespace
CallS(name, s, j, form, pos) == CallSD(name, s, j, form, pos, Dev)
TotalS(name, s, j, form, pos) == CallS(name, s, j, form, pos).kind = "inband"

\* beyond the statement (DRIFT where the code differs): the text MediaWiki documents for the
\* namespace magic words, every spelling of a namespace denoting that namespace
NoVal == [k |-> "none", txt |-> ""]
Val(txt) == [k |-> "text", txt |-> txt]
ValS(name, s, j, form, pos) ==
  IF j = 0 \/ name \notin Known THEN NoVal
  ELSE IF E(s, j).id = 0 THEN NoVal
  ELSE
  CASE name = "TALKSPACE" /\ pos \in {"title", "arg"} -> Val(E(s, TalkIdx(s, j)).name)
    [] name = "SUBJECTSPACE" /\ pos \in {"title", "arg"} -> Val(E(s, SubjectIdx(s, j)).name)
    [] name = "NAMESPACE" /\ pos \in {"title", "arg"} -> Val(E(s, j).name)
    [] name = "NAMESPACENUMBER" /\ pos \in {"title", "arg"} -> Val(ToString(E(s, j).id))
    [] name = "TALKPAGENAME" /\ pos = "title" -> Val(E(s, TalkIdx(s, j)).name \o ":" \o Rest)
    [] name = "FULLPAGENAME" /\ pos = "title" -> Val(E(s, j).name \o ":" \o Rest)
    [] name = "ns" /\ pos \in {"argid", "argname"} -> Val(E(s, j).name)
    [] OTHER -> NoVal


\* M: every call ends in-band
Total(name, argv, title) == Call(name, argv, title).kind = "inband"
=============================================================================
