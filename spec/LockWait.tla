------------------------------ MODULE LockWait ------------------------------
(* C20, "no database-locked failure under every interleaving": Workers.tla    *)
(* abstracts a writer that finds the write lock taken as "the busy handler    *)
(* waits" (insert is enabled only when the lock is free).  This module makes  *)
(* the wait explicit: worker H holds the write lock of its bootstrap-page     *)
(* write (INSERT .. COMMIT) for `hold` time units while worker C attempts its *)
(* own first write; SQLite's busy handler retries for BusyTimeout units and   *)
(* then fails with "database is locked".  The library relies on sqlite3's     *)
(* default (5 s = 50 units of 100 ms); the critical section is short unless   *)
(* the holder is descheduled, so holds up to MaxHold (2 s) must be survived.  *)
(* That bound exists only because the holder is INSIDE a library call that    *)
(* ends the transaction (INSERT .. COMMIT in one call).  A holder that has    *)
(* returned from the call with the transaction still open (Workers.tla: an    *)
(* idle context inside a write transaction, NoIdleTransaction) keeps the lock *)
(* for as long as its context lives - no bound: Demo_LockWait_idle.cfg        *)
(* (MaxHold beyond BusyTimeout) shows the waiting writer giving up.           *)
EXTENDS Naturals, TLC
CONSTANTS BusyTimeout, MaxHold      \* in units of 100 ms
VARIABLES hold, t, hstate, cstate   \* hold chosen initially; t = time since C started waiting
vars == <<hold, t, hstate, cstate>>
Init == hold \in 0..MaxHold /\ t = 0 /\ hstate = "holding" /\ cstate = "waiting"
Tick == /\ cstate = "waiting" /\ hstate = "holding" /\ t < hold /\ t < BusyTimeout
        /\ t' = t + 1 /\ UNCHANGED <<hold, hstate, cstate>>
HCommit == /\ hstate = "holding" /\ t = hold /\ hstate' = "done" /\ UNCHANGED <<hold, t, cstate>>
CGetsLock == /\ cstate = "waiting" /\ hstate = "done" /\ cstate' = "wrote" /\ UNCHANGED <<hold, t, hstate>>
CGivesUp == /\ cstate = "waiting" /\ hstate = "holding" /\ t >= BusyTimeout
            /\ cstate' = "locked" /\ UNCHANGED <<hold, t, hstate>>
Next == Tick \/ HCommit \/ CGetsLock \/ CGivesUp
Spec == Init /\ [][Next]_vars /\ WF_vars(Next)
NeverLocked == cstate # "locked"
EventuallyWrites == <>(cstate = "wrote")
\* cases for the replay: every hold the model admits
Emit == (t = 0 /\ hstate = "holding") => PrintT(<<"CASE", hold>>)
=============================================================================
