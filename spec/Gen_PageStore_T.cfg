SPECIFICATION GSpec
CONSTANTS
  PfxNs <- T_PfxNs
  CanonPfx <- T_CanonPfx
  UpperOf <- T_UpperOf
  ArgU <- ArgSet
  Dev <- DevIdeal
  Namespaces <- NsAll
  Bases <- BasesThree
  Bodies <- BodiesTwo
  MaxLen = 2
  LookupPfx <- PfxAll
  WithUnderscore = TRUE
  WithNoNs = TRUE
  NrSet <- NrBoth
INVARIANT GenInv
CHECK_DEADLOCK FALSE
