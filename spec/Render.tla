------------------------------- MODULE Render -------------------------------
(* node_to_html / node_to_text / the node_handler_fn hook of to_wikitext       *)
(* (src/wikitextprocessor/node_expand.py:53-280), composed from the existing   *)
(* modules:                                                                    *)
(*                                                                             *)
(*   Handled(x, h)        to_wikitext(x, node_handler_fn = h)                  *)
(*                          = Unparse of the tree in which every node for      *)
(*                            which the handler answers is replaced by the     *)
(*                            answer (string / list; the handler is asked      *)
(*                            again for the nodes inside a returned list)      *)
(*   ToHtml(x, h, lib, D) to_html = expand(to_wikitext(x, h)):                 *)
(*                          Eval of Transclusion.tla on the READING of the     *)
(*                          emitted text.  The reading is structural (Lower):  *)
(*                          every call node (template, #if / #ifeq, argument   *)
(*                          reference, link) is taken out of the tree and      *)
(*                          replaced by a numbered marker atom, Unparse.tla    *)
(*                          writes everything else, the text is cut at the     *)
(*                          markers and each marker becomes the Transclusion   *)
(*                          item of its call.  Law (checked by TLC on every    *)
(*                          generated tree): Flat(Lower(x)) = Unparse(x), i.e. *)
(*                          Lower is a reading of exactly the emitted text.    *)
(*   ToText(s)            the eleven re.sub of to_text + strip(), one operator *)
(*                          per substitution, over Seq(Char) (every character  *)
(*                          its own atom; "SP" / "NL" for blank / newline).    *)
(*                                                                             *)
(* Unparse.tla and Transclusion.tla are INSTANCEd, nothing of them is copied.  *)
EXTENDS Naturals, Sequences, FiniteSets, TLC

U == INSTANCE Unparse
T == INSTANCE Transclusion

Str(a) == U!Str(a)
IsStr(c) == U!IsStr(c)
Blank == {"SP", "NL"}

RECURSIVE Cat(_)
Cat(ss) == IF ss = <<>> THEN <<>> ELSE Head(ss) \o Cat(Tail(ss))

(* ======================================================================== *)
(* 1. node_handler_fn                                                       *)
(* ======================================================================== *)
\* the family of handlers the harness passes (harness/render.py builds the same functions in Python)
\*   none      returns None for every node
\*   self      returns the node it was given (`ret is not node` is false: the node is rendered as usual)
\*   tmark     a TEMPLATE becomes the string "%T%"
\*   linktext  a LINK becomes the LIST largs[-1] + children (its text and trail)
\*   htmlbold  BOLD / ITALIC become the LIST ["<b>"] + children + ["</b>"]  (resp. i)
\*   droparg   a TEMPLATE_ARG becomes the empty string
Handlers == {"none", "self", "tmark", "linktext", "htmlbold", "droparg"}
TMark == <<"%", "T", "%">>
NoAnswer == [none |-> TRUE, val |-> <<>>]
Answer(v) == [none |-> FALSE, val |-> v]
Tag(n) == Str(<<"<", n, ">">>)
EndTag(n) == Str(<<"<", "/", n, ">">>)
HandlerRet(x, h) ==
  CASE h = "tmark" /\ x.kind = "TEMPLATE" -> Answer(<<Str(TMark)>>)
    [] h = "linktext" /\ x.kind = "LINK" ->
         Answer((IF x.largs = <<>> THEN <<>> ELSE x.largs[Len(x.largs)]) \o x.children)
    [] h = "htmlbold" /\ x.kind = "BOLD" -> Answer(<<Tag("b")>> \o x.children \o <<EndTag("b")>>)
    [] h = "htmlbold" /\ x.kind = "ITALIC" -> Answer(<<Tag("i")>> \o x.children \o <<EndTag("i")>>)
    [] h = "droparg" /\ x.kind = "TEMPLATE_ARG" -> Answer(<<Str(<<>>)>>)
    [] OTHER -> NoAnswer

\* recurse() with a handler (node_expand.py:78-83): the answer is rendered INSTEAD of the node, and
\* recurse() asks the handler again for every node inside the answer.  A node that is replaced never
\* makes its parent's child list empty (the parent looks at node.children, not at the rendered text):
\* an answer that renders nothing is kept as one empty string child.
RECURSIVE ApplyKids(_, _), ApplyOne(_, _), ApplyLists(_, _)
ApplyKids(xs, h) == IF xs = <<>> THEN <<>> ELSE ApplyOne(Head(xs), h) \o ApplyKids(Tail(xs), h)
ApplyLists(ls, h) == [i \in 1..Len(ls) |-> ApplyKids(ls[i], h)]
ApplyOne(x, h) ==
  IF IsStr(x) THEN <<x>>
  ELSE IF HandlerRet(x, h).none
       THEN <<[x EXCEPT !.children = ApplyKids(x.children, h), !.largs = ApplyLists(x.largs, h),
                        !.defn = ApplyLists(x.defn, h)]>>
       ELSE LET ys == ApplyKids(HandlerRet(x, h).val, h) IN IF ys = <<>> THEN <<Str(<<>>)>> ELSE ys

\* what node_to_wikitext accepts: a node, a string, or a (wrapped) list
AsList(x) == IF U!IsList(x) THEN x.list ELSE <<x>>
Applied(x, h) == ApplyKids(AsList(x), h)
Handled(x, h) == U!UnparseList(Applied(x, h), {})

(* ======================================================================== *)
(* 2. reading the emitted text as transclusion content                      *)
(* ======================================================================== *)
Txt(s) == [k |-> "t", s |-> s]
CallKinds == {"TEMPLATE", "TEMPLATE_ARG", "PARSER_FN", "LINK"}
IsCall(x) == ~IsStr(x) /\ x.kind \in CallKinds

MaxCalls == 60
MarkAtom == [i \in 1..MaxCalls |-> "@" \o ToString(i)]
MarkSet == {MarkAtom[i] : i \in 1..MaxCalls}
MarkIdx(a) == CHOOSE i \in 1..MaxCalls : MarkAtom[i] = a

\* calls of a child list that are not inside another call, in a fixed order (children, largs, defn)
RECURSIVE NCalls(_), NCallsL(_), NCallsLL(_), CallsOf(_), CallsL(_), CallsLL(_)
NCallsL(xs) == IF xs = <<>> THEN 0 ELSE NCalls(Head(xs)) + NCallsL(Tail(xs))
NCallsLL(ls) == IF ls = <<>> THEN 0 ELSE NCallsL(Head(ls)) + NCallsLL(Tail(ls))
NCalls(x) == IF IsStr(x) THEN 0 ELSE IF IsCall(x) THEN 1
             ELSE NCallsL(x.children) + NCallsLL(x.largs) + NCallsLL(x.defn)
CallsL(xs) == IF xs = <<>> THEN <<>> ELSE CallsOf(Head(xs)) \o CallsL(Tail(xs))
CallsLL(ls) == IF ls = <<>> THEN <<>> ELSE CallsL(Head(ls)) \o CallsLL(Tail(ls))
CallsOf(x) == IF IsStr(x) THEN <<>> ELSE IF IsCall(x) THEN <<x>>
              ELSE CallsL(x.children) \o CallsLL(x.largs) \o CallsLL(x.defn)

\* the same list with the k-th such call replaced by the text child <<MarkAtom[base + k]>>
RECURSIVE MarkL(_, _), MarkLL(_, _), MarkOne(_, _)
MarkL(xs, base) == IF xs = <<>> THEN <<>> ELSE <<MarkOne(Head(xs), base)>> \o MarkL(Tail(xs), base + NCalls(Head(xs)))
MarkLL(ls, base) == IF ls = <<>> THEN <<>> ELSE <<MarkL(Head(ls), base)>> \o MarkLL(Tail(ls), base + NCallsL(Head(ls)))
MarkOne(x, base) ==
  IF IsStr(x) THEN x
  ELSE IF IsCall(x) THEN Str(<<MarkAtom[base + 1]>>)
  ELSE [x EXCEPT !.children = MarkL(x.children, base),
                 !.largs = MarkLL(x.largs, base + NCallsL(x.children)),
                 !.defn = MarkLL(x.defn, base + NCallsL(x.children) + NCallsLL(x.largs))]

\* ---- arguments of a template call: name=value or positional (core.py:1569, the regular
\* expression ^\s*([^][&<>="]+?)\s*=\s*(.*?)\s*$ on the argument text in which every nested
\* {{..}} / {{{..}}} / [[..]] is one opaque character)
NameBlockers == {"[", "]", "&", "<", ">", "\""}
FirstIn(s, set) == IF \E i \in 1..Len(s) : s[i] \in set
                   THEN CHOOSE i \in 1..Len(s) : s[i] \in set /\ \A j \in 1..(i - 1) : s[j] \notin set ELSE 0
EmitsAngle(x) == ~IsStr(x) /\ x.kind \in {"HTML", "PRE"}
LaterEquals(a) == \E i \in 1..Len(a) : IsStr(a[i]) /\ "=" \in {a[i].s[j] : j \in 1..Len(a[i].s)}
\* "named" | "pos" | "other" (outside the fragment this module reads: a name that holds a call or is blank)
ArgClass(a) ==
  IF a = <<>> THEN "pos"
  ELSE IF IsStr(a[1])
  THEN LET s == U!Protect(a[1].s)
           p == FirstIn(s, {"="})
           q == FirstIn(s, NameBlockers)
       IN IF p > 0 /\ (q = 0 \/ q > p)
          THEN (IF \E j \in 1..(p - 1) : s[j] \notin Blank THEN "named" ELSE "other")
          ELSE IF p > 0 \/ q > 0 THEN "pos"
          ELSE IF Len(a) = 1 THEN "pos"
          ELSE IF EmitsAngle(a[2]) THEN "pos"
          ELSE IF LaterEquals(Tail(a)) THEN "other" ELSE "pos"
  ELSE IF EmitsAngle(a[1]) THEN "pos"
  ELSE IF LaterEquals(Tail(a)) THEN "other" ELSE "pos"

IsWord(a) == a \notin {"SP", "NL", "{", "}", "[", "]", "|", "=", "<", ">", ":", "#", "'", "\"", "&", "/", "*", ";", "-", "+", "!", "%", "@", "(", ")", ","}
SimpleName(x) == Len(x.largs) >= 1 /\ Len(x.largs[1]) = 1 /\ IsStr(x.largs[1][1])
                 /\ Len(x.largs[1][1].s) = 1 /\ IsWord(x.largs[1][1].s[1])
FnName(x) == IF Len(x.largs) >= 1 /\ Len(x.largs[1]) = 1 /\ IsStr(x.largs[1][1]) THEN x.largs[1][1].s ELSE <<>>
IsIf(x) == x.kind = "PARSER_FN" /\ FnName(x) = <<"#", "if">> /\ Len(x.largs) \in 2..4
IsIfEq(x) == x.kind = "PARSER_FN" /\ FnName(x) = <<"#", "ifeq">> /\ Len(x.largs) \in 2..5
AllStr(xs) == \A i \in 1..Len(xs) : IsStr(xs[i])

\* ---- the fragment of emitted texts whose reading is defined here
RECURSIVE InFragL(_), InFragLL(_), InFrag(_)
InFragL(xs) == \A i \in 1..Len(xs) : InFrag(xs[i])
InFragLL(ls) == \A i \in 1..Len(ls) : InFragL(ls[i])
\* a text child directly in an argument of a {{..}} / {{{..}}} call must not hold "|" or a brace: to_wikitext
\* writes it as it is, and the emitted text then has another argument structure than the tree
\* (the parser never produces such a child: <nowiki>|</nowiki> arrives as an entity)
ArgTextSafe(x) ==
  \A i \in 1..Len(x.largs) : \A j \in 1..Len(x.largs[i]) :
     IsStr(x.largs[i][j]) => \A k \in 1..Len(x.largs[i][j].s) : x.largs[i][j].s[k] \notin {"|", "{", "}"}
InFrag(x) ==
  IF IsStr(x) THEN TRUE
  ELSE /\ InFragL(x.children) /\ InFragLL(x.largs) /\ InFragLL(x.defn)
       /\ (x.kind \in {"TEMPLATE", "PARSER_FN", "TEMPLATE_ARG"} => ArgTextSafe(x))
       /\ CASE x.kind = "TEMPLATE" -> SimpleName(x) /\ \A i \in 2..Len(x.largs) : ArgClass(x.largs[i]) # "other"
            [] x.kind = "PARSER_FN" -> IsIf(x) \/ IsIfEq(x)
            [] x.kind = "TEMPLATE_ARG" -> Len(x.largs) \in {1, 2}
            [] OTHER -> TRUE
Readable(xs) == InFragL(xs) /\ NCallsL(xs) <= MaxCalls

RECURSIVE Lower(_), Cut(_, _, _, _), ItemsOf(_), LowerArg(_)
\* cut the text written by Unparse at the markers
Flush(run) == IF run = <<>> THEN <<>> ELSE <<Txt(run)>>
Cut(atoms, i, run, calls) ==
  IF i > Len(atoms) THEN Flush(run)
  ELSE IF atoms[i] \in MarkSet
       THEN Flush(run) \o ItemsOf(calls[MarkIdx(atoms[i])]) \o Cut(atoms, i + 1, <<>>, calls)
       ELSE Cut(atoms, i + 1, Append(run, atoms[i]), calls)
Lower(xs) == Cut(U!UnparseList(MarkL(xs, 0), {}), 1, <<>>, CallsL(xs))

ArgAt(x, i) == IF i <= Len(x.largs) THEN Lower(x.largs[i]) ELSE <<>>
LowerArg(a) ==
  IF ArgClass(a) = "named"
  THEN LET s == a[1].s
           p == FirstIn(s, {"="})
           rest == SubSeq(s, p + 1, Len(s))
       IN [named |-> TRUE, key |-> <<Txt(SubSeq(s, 1, p - 1))>>,
           val |-> Lower((IF rest = <<>> THEN <<>> ELSE <<Str(rest)>>) \o Tail(a))]
  ELSE [named |-> FALSE, key |-> <<>>, val |-> Lower(a)]
\* the items a call stands for (a link is followed by its trail)
ItemsOf(x) ==
  CASE x.kind = "TEMPLATE" /\ SimpleName(x) ->
         <<[k |-> "c", name |-> x.largs[1][1].s[1], args |-> [i \in 1..(Len(x.largs) - 1) |-> LowerArg(x.largs[i + 1])]]>>
    [] IsIf(x) -> <<[k |-> "if", c |-> ArgAt(x, 2), y |-> ArgAt(x, 3), n |-> ArgAt(x, 4)]>>
    [] IsIfEq(x) -> <<[k |-> "eq", a |-> ArgAt(x, 2), b |-> ArgAt(x, 3), y |-> ArgAt(x, 4), n |-> ArgAt(x, 5)]>>
    [] x.kind = "TEMPLATE_ARG" /\ Len(x.largs) \in {1, 2} ->
         IF AllStr(x.largs[1])
         THEN <<[k |-> "p", name |-> U!UnparseList(x.largs[1], {}), hasDef |-> Len(x.largs) = 2, def |-> ArgAt(x, 2)]>>
         ELSE <<[k |-> "pc", name |-> Lower(x.largs[1]), hasDef |-> Len(x.largs) = 2, def |-> ArgAt(x, 2)]>>
    [] x.kind = "LINK" ->
         <<[k |-> "l", args |-> [i \in 1..Len(x.largs) |-> Lower(x.largs[i])]]>> \o Lower(x.children)
    [] OTHER -> <<Txt(U!Unparse(x, {}))>>      \* outside the fragment (InFrag is FALSE): never evaluated

\* Eval writes a few constructs as one atom; in the character-level alphabet of Unparse they are
Multi == ("[[" :> <<"[", "[">>) @@ ("]]" :> <<"]", "]">>) @@ ("{{{" :> <<"{", "{", "{">>) @@ ("}}}" :> <<"}", "}", "}">>)
         @@ ("[[:Template:" :> <<"[", "[", ":", "Template", ":">>)
Chars(s) == Cat([i \in 1..Len(s) |-> IF s[i] \in DOMAIN Multi THEN Multi[s[i]] ELSE <<s[i]>>])

\* to_html: expand(to_wikitext(x, h)) on the page itself (no frame)
ToHtml(x, h, lib, Dev) == Chars(T!Expand(Lower(Applied(x, h)), lib, Dev))

(* ---- Flat: content written back as text (the inverse reading; used by the law only) ---- *)
RECURSIVE Flat(_), FlatItem(_), FlatJoin(_, _), FlatArgs(_)
Flat(c) == IF c = <<>> THEN <<>> ELSE FlatItem(Head(c)) \o Flat(Tail(c))
FlatJoin(cs, i) == IF i > Len(cs) THEN <<>> ELSE (IF i > 1 THEN <<"|">> ELSE <<>>) \o Flat(cs[i]) \o FlatJoin(cs, i + 1)
FlatArgs(args) ==
  IF args = <<>> THEN <<>>
  ELSE <<"|">> \o (IF Head(args).named THEN Flat(Head(args).key) \o <<"=">> ELSE <<>>) \o Flat(Head(args).val) \o FlatArgs(Tail(args))
FlatItem(it) ==
  CASE it.k = "t" -> it.s
    [] it.k = "l" -> <<"[", "[">> \o FlatJoin(it.args, 1) \o <<"]", "]">>
    [] it.k = "p" -> <<"{", "{", "{">> \o it.name \o (IF it.hasDef THEN <<"|">> \o Flat(it.def) ELSE <<>>) \o <<"}", "}", "}">>
    [] it.k = "pc" -> <<"{", "{", "{">> \o Flat(it.name) \o (IF it.hasDef THEN <<"|">> \o Flat(it.def) ELSE <<>>) \o <<"}", "}", "}">>
    [] it.k = "c" -> <<"{", "{", it.name>> \o FlatArgs(it.args) \o <<"}", "}">>
    [] it.k = "if" -> <<"{", "{", "#", "if", ":">> \o FlatJoin(<<it.c, it.y, it.n>>, 1) \o <<"}", "}">>
    [] it.k = "eq" -> <<"{", "{", "#", "ifeq", ":">> \o FlatJoin(<<it.a, it.b, it.y, it.n>>, 1) \o <<"}", "}">>
\* every #if / #ifeq is written with all its parts (Flat writes the empty ones too)
RECURSIVE FullArityL(_), FullArity(_)
FullArityL(xs) == \A i \in 1..Len(xs) : FullArity(xs[i])
FullArity(x) ==
  IF IsStr(x) THEN TRUE
  ELSE /\ FullArityL(x.children) /\ \A i \in 1..Len(x.largs) : FullArityL(x.largs[i])
       /\ \A i \in 1..Len(x.defn) : FullArityL(x.defn[i])
       /\ (IsIf(x) => Len(x.largs) = 4) /\ (IsIfEq(x) => Len(x.largs) = 5)

(* ======================================================================== *)
(* 3. to_text: the rewriting system                                         *)
(* ======================================================================== *)
\* text = Seq(Char): every character is its own atom, "SP" = blank, "NL" = newline.
Ws == {"SP", "NL", "\t", "\r", "\f"}                         \* \s (ASCII)
WordChars ==                                                  \* \w (ASCII), for \b
  {"a", "b", "c", "d", "e", "f", "g", "h", "i", "j", "k", "l", "m", "n", "o", "p", "q", "r", "s", "t", "u", "v", "w", "x", "y", "z",
   "A", "B", "C", "D", "E", "F", "G", "H", "I", "J", "K", "L", "M", "N", "O", "P", "Q", "R", "S", "T", "U", "V", "W", "X", "Y", "Z",
   "0", "1", "2", "3", "4", "5", "6", "7", "8", "9", "_"}
Fold == ("R" :> "r") @@ ("E" :> "e") @@ ("F" :> "f") @@ ("H" :> "h") @@ ("D" :> "d") @@ ("I" :> "i") @@ ("V" :> "v")
Ci(c) == IF c \in DOMAIN Fold THEN Fold[c] ELSE c           \* (?i) on the letters the patterns name

At(s, i) == IF i >= 1 /\ i <= Len(s) THEN s[i] ELSE "<<END>>"
IsAt(s, i, w) == \A k \in 1..Len(w) : At(s, i + k - 1) = w[k]
IsAtCi(s, i, w) == \A k \in 1..Len(w) : Ci(At(s, i + k - 1)) = w[k]
RECURSIVE SkipIn(_, _, _), FindIn(_, _, _)
\* first index >= i whose character is NOT in set (Len+1 if none): a greedy x* over a character class
SkipIn(s, i, set) == IF i <= Len(s) /\ s[i] \in set THEN SkipIn(s, i + 1, set) ELSE i
\* first index >= i whose character IS in set, 0 if none
FindIn(s, i, set) == IF i > Len(s) THEN 0 ELSE IF s[i] \in set THEN i ELSE FindIn(s, i + 1, set)
NoMatch == [e |-> 0, r |-> <<>>]
M(e, r) == [e |-> e, r |-> r]                               \* match ends at index e, is replaced by r
NLNL == <<"NL", "NL">>

\* R1  re.sub(r"(?is)<\s*ref\s*[^>]*?>\s*.*?<\s*/\s*ref\s*>\n*", "", s)
\* the opening tag ends at the first ">" after "ref" (so <references> and <ref name=x/> open a
\* ref too); the lazy .*? stops at the first closing tag; without one there is no match here
CloseRefAt(s, k) ==      \* index of the ">" of a closing ref tag that starts at k, else 0
  IF At(s, k) # "<" THEN 0
  ELSE LET a == SkipIn(s, k + 1, Ws) IN
       IF At(s, a) # "/" THEN 0
       ELSE LET b == SkipIn(s, a + 1, Ws) IN
            IF ~IsAtCi(s, b, <<"r", "e", "f">>) THEN 0
            ELSE LET d == SkipIn(s, b + 3, Ws) IN IF At(s, d) = ">" THEN d ELSE 0
RECURSIVE FirstCloseRef(_, _)
FirstCloseRef(s, k) == IF k > Len(s) THEN 0 ELSE IF CloseRefAt(s, k) # 0 THEN CloseRefAt(s, k) ELSE FirstCloseRef(s, k + 1)
MatchRef(s, i) ==
  IF At(s, i) # "<" THEN NoMatch
  ELSE LET j == SkipIn(s, i + 1, Ws) IN
       IF ~IsAtCi(s, j, <<"r", "e", "f">>) THEN NoMatch
       ELSE LET g == FindIn(s, j + 3, {">"}) IN
            IF g = 0 THEN NoMatch
            ELSE LET d == FirstCloseRef(s, g + 1) IN
                 IF d = 0 THEN NoMatch ELSE M(SkipIn(s, d + 1, {"NL"}) - 1, <<>>)

\* R2  re.sub(r"(?is)<\s*/?\s*h[123456]\b[^>]*>\n*", "\n\n", s)
\* R3  re.sub(r"(?is)<\s*/?\s*div[123456]\b[^>]*>\n*", "\n\n", s)     (sic: div1..div6, never <div>)
MatchNumbered(s, i, name) ==
  IF At(s, i) # "<" THEN NoMatch
  ELSE LET j0 == SkipIn(s, i + 1, Ws)
           j == IF At(s, j0) = "/" THEN SkipIn(s, j0 + 1, Ws) ELSE j0
           n == Len(name)
       IN IF ~(IsAtCi(s, j, name) /\ At(s, j + n) \in {"1", "2", "3", "4", "5", "6"} /\ At(s, j + n + 1) \notin WordChars)
          THEN NoMatch
          ELSE LET g == FindIn(s, j + n + 1, {">"}) IN
               IF g = 0 THEN NoMatch ELSE M(SkipIn(s, g + 1, {"NL"}) - 1, NLNL)
MatchH(s, i) == MatchNumbered(s, i, <<"h">>)
MatchDivN(s, i) == MatchNumbered(s, i, <<"d", "i", "v">>)

\* R4  re.sub(r"(?s)<\s*br\s*/?>\n*", "\n\n", s)            (case-sensitive, no attributes)
\* R5  re.sub(r"(?s)<\s*hr\s*/?>\n*", "\n\n----\n\n", s)
MatchVoid(s, i, name, repl) ==
  IF At(s, i) # "<" THEN NoMatch
  ELSE LET j == SkipIn(s, i + 1, Ws) IN
       IF ~IsAt(s, j, name) THEN NoMatch
       ELSE LET k0 == SkipIn(s, j + Len(name), Ws)
                k == IF At(s, k0) = "/" THEN k0 + 1 ELSE k0
            IN IF At(s, k) # ">" THEN NoMatch ELSE M(SkipIn(s, k + 1, {"NL"}) - 1, repl)
MatchBr(s, i) == MatchVoid(s, i, <<"b", "r">>, NLNL)
MatchHr(s, i) == MatchVoid(s, i, <<"h", "r">>, <<"NL", "NL", "-", "-", "-", "-", "NL", "NL">>)

\* R6  re.sub(r"(?s)<\s*[^/][^>]*>\s*", "", s)
\* backtracking order: \s* takes all blanks and [^/] the next character c (which may be ">": then
\* another ">" must follow); if that fails, \s* gives one blank back to [^/] and the tag ends at the
\* first ">" from c on.  Blanks after the tag go too.
MatchOpen(s, i) ==
  IF At(s, i) # "<" THEN NoMatch
  ELSE LET p == SkipIn(s, i + 1, Ws)
           g1 == FindIn(s, p + 1, {">"})
           g2 == FindIn(s, p, {">"})
       IN IF p <= Len(s) /\ s[p] # "/" /\ g1 # 0 THEN M(SkipIn(s, g1 + 1, Ws) - 1, <<>>)
          ELSE IF p > i + 1 /\ g2 # 0 THEN M(SkipIn(s, g2 + 1, Ws) - 1, <<>>)
          ELSE NoMatch

\* R7  re.sub(r"(?s)<\s*/\s*[^>]+>\n*", "", s)        (at least one character between "/" and ">")
MatchClose(s, i) ==
  IF At(s, i) # "<" THEN NoMatch
  ELSE LET j == SkipIn(s, i + 1, Ws) IN
       IF At(s, j) # "/" THEN NoMatch
       ELSE LET g == FindIn(s, j + 1, {">"}) IN
            IF g = 0 \/ g = j + 1 THEN NoMatch ELSE M(SkipIn(s, g + 1, {"NL"}) - 1, <<>>)

\* R8  re.sub(r"(?s)\[\[\s*Category:[^]<>]*\]\]", "", s)                 (case-sensitive)
CategoryWord == <<"C", "a", "t", "e", "g", "o", "r", "y", ":">>
MatchCategory(s, i) ==
  IF ~IsAt(s, i, <<"[", "[">>) THEN NoMatch
  ELSE LET j == SkipIn(s, i + 2, Ws) IN
       IF ~IsAt(s, j, CategoryWord) THEN NoMatch
       ELSE LET k == FindIn(s, j + 9, {"]", "<", ">"}) IN
            IF k # 0 /\ IsAt(s, k, <<"]", "]">>) THEN M(k + 1, <<>>) ELSE NoMatch

\* R9  re.sub(r"(?s)\[\[([^]|<>]*?\|([^]]*?))\]\]", r"\2", s)
\* only links WITH a "|"; the text is everything from the first "|" to the first "]", which must
\* be followed by "]" (so the text of [[a|b|c]] is "b|c" and a nested link ends the outer one)
MatchPiped(s, i) ==
  IF ~IsAt(s, i, <<"[", "[">>) THEN NoMatch
  ELSE LET k == FindIn(s, i + 2, {"]", "|", "<", ">"}) IN
       IF k = 0 \/ s[k] # "|" THEN NoMatch
       ELSE LET t == FindIn(s, k + 1, {"]"}) IN
            IF t # 0 /\ At(s, t + 1) = "]" THEN M(t + 1, SubSeq(s, k + 1, t - 1)) ELSE NoMatch

\* R10 re.sub(r"(?s)\[(https?:|mailto:)?//[^]\s<>]+\s+([^]]+)\]", r"\2", s)
MatchExt(s, i) ==
  IF At(s, i) # "[" THEN NoMatch
  ELSE LET a == i + 1
           b == IF IsAt(s, a, <<"h", "t", "t", "p", "s", ":">>) THEN a + 6
                ELSE IF IsAt(s, a, <<"h", "t", "t", "p", ":">>) THEN a + 5
                ELSE IF IsAt(s, a, <<"m", "a", "i", "l", "t", "o", ":">>) THEN a + 7 ELSE a
       IN IF ~IsAt(s, b, <<"/", "/">>) THEN NoMatch
          ELSE LET u0 == b + 2
                   f == FindIn(s, u0, {"]", "<", ">"} \cup Ws)
                   u1 == IF f = 0 THEN Len(s) + 1 ELSE f          \* end of the greedy [^]\s<>]+
               IN IF u1 = u0 \/ At(s, u1) \notin Ws THEN NoMatch
                  ELSE LET w1 == SkipIn(s, u1, Ws)
                           t == FindIn(s, w1, {"]"})
                       IN IF t # 0 /\ t > w1 THEN M(t, SubSeq(s, w1, t - 1))
                          ELSE IF t # 0 /\ t = w1 /\ w1 - u1 >= 2 THEN M(t, <<s[w1 - 1]>>)   \* \s+ gives one blank back
                          ELSE NoMatch

\* R11 re.sub(r"\n\n\n+", "\n\n", s)
MatchBlank(s, i) == IF IsAt(s, i, <<"NL", "NL", "NL">>) THEN M(SkipIn(s, i, {"NL"}) - 1, NLNL) ELSE NoMatch

Rules == <<"ref", "h", "divN", "br", "hr", "open", "close", "category", "piped", "ext", "blank">>
MatchOf(rule, s, i) ==
  CASE rule = "ref" -> MatchRef(s, i) [] rule = "h" -> MatchH(s, i) [] rule = "divN" -> MatchDivN(s, i)
    [] rule = "br" -> MatchBr(s, i) [] rule = "hr" -> MatchHr(s, i) [] rule = "open" -> MatchOpen(s, i)
    [] rule = "close" -> MatchClose(s, i) [] rule = "category" -> MatchCategory(s, i)
    [] rule = "piped" -> MatchPiped(s, i) [] rule = "ext" -> MatchExt(s, i) [] rule = "blank" -> MatchBlank(s, i)

\* re.sub: leftmost match, replaced, scanning resumes after it (matches are never empty)
RECURSIVE SubFrom(_, _, _)
SubFrom(rule, s, i) ==
  IF i > Len(s) THEN <<>>
  ELSE IF MatchOf(rule, s, i).e = 0 THEN <<s[i]>> \o SubFrom(rule, s, i + 1)
  ELSE MatchOf(rule, s, i).r \o SubFrom(rule, s, MatchOf(rule, s, i).e + 1)
Sub(rule, s) == SubFrom(rule, s, 1)
Fires(rule, s) == \E i \in 1..Len(s) : MatchOf(rule, s, i).e # 0

R1(s) == Sub("ref", s)
R2(s) == Sub("h", s)
R3(s) == Sub("divN", s)
R4(s) == Sub("br", s)
R5(s) == Sub("hr", s)
R6(s) == Sub("open", s)
R7(s) == Sub("close", s)
R8(s) == Sub("category", s)
R9(s) == Sub("piped", s)
R10(s) == Sub("ext", s)
R11(s) == Sub("blank", s)
RECURSIVE LStripC(_), RStripC(_)
LStripC(s) == IF s # <<>> /\ s[1] \in Ws THEN LStripC(Tail(s)) ELSE s
RStripC(s) == IF s # <<>> /\ s[Len(s)] \in Ws THEN RStripC(SubSeq(s, 1, Len(s) - 1)) ELSE s
StripC(s) == RStripC(LStripC(s))

\* the text after 0, 1, .., 11 substitutions (12 entries); bound variables make TLC evaluate each once
RECURSIVE ChainFrom(_, _)
ChainFrom(n, s) ==
  IF n > 11 THEN <<s>>
  ELSE <<s>> \o (CHOOSE c \in {ChainFrom(n + 1, t) : t \in {Sub(Rules[n], s)}} : TRUE)
Chain(s) == CHOOSE c \in {ChainFrom(1, t) : t \in {s}} : TRUE
ToText(s) == StripC(Chain(s)[12])
\* the substitutions that change something on the way (reports: which rules a case exercises)
Fired(s) == UNION {{Rules[n] : n \in {m \in 1..11 : c[m] # c[m + 1]}} : c \in {Chain(s)}}

(* ---- spelling: the word atoms of the Unparse alphabet, character by character ---- *)
\* (TLC cannot look into a string: the words the generators use are listed; the harness audits that the
\* table is complete - every other atom must be a single character)
SpellTable ==
  ("Category" :> <<"C", "a", "t", "e", "g", "o", "r", "y">>) @@ ("Foo" :> <<"F", "o", "o">>) @@ ("PAGENAME" :> <<"P", "A", "G", "E", "N", "A", "M", "E">>)
  @@ ("Template" :> <<"T", "e", "m", "p", "l", "a", "t", "e">>) @@ ("a-b" :> <<"a", "-", "b">>) @@ ("a1" :> <<"a", "1">>) @@ ("b1" :> <<"b", "1">>)
  @@ ("br" :> <<"b", "r">>) @@ ("c1" :> <<"c", "1">>) @@ ("class" :> <<"c", "l", "a", "s", "s">>) @@ ("d1" :> <<"d", "1">>)
  @@ ("data-x" :> <<"d", "a", "t", "a", "-", "x">>) @@ ("div" :> <<"d", "i", "v">>) @@ ("div2" :> <<"d", "i", "v", "2">>) @@ ("e.x" :> <<"e", ".", "x">>)
  @@ ("h1" :> <<"h", "1">>) @@ ("h2" :> <<"h", "2">>) @@ ("h3" :> <<"h", "3">>) @@ ("hr" :> <<"h", "r">>) @@ ("http" :> <<"h", "t", "t", "p">>)
  @@ ("id" :> <<"i", "d">>) @@ ("if" :> <<"i", "f">>) @@ ("ifeq" :> <<"i", "f", "e", "q">>) @@ ("lc" :> <<"l", "c">>) @@ ("li" :> <<"l", "i">>)
  @@ ("name" :> <<"n", "a", "m", "e">>) @@ ("noinclude" :> <<"n", "o", "i", "n", "c", "l", "u", "d", "e">>) @@ ("nowrap" :> <<"n", "o", "w", "r", "a", "p">>)
  @@ ("p1" :> <<"p", "1">>) @@ ("pre" :> <<"p", "r", "e">>) @@ ("q1" :> <<"q", "1">>) @@ ("r1" :> <<"r", "1">>) @@ ("ref" :> <<"r", "e", "f">>)
  @@ ("references" :> <<"r", "e", "f", "e", "r", "e", "n", "c", "e", "s">>) @@ ("span" :> <<"s", "p", "a", "n">>) @@ ("switch" :> <<"s", "w", "i", "t", "c", "h">>)
  @@ ("t1" :> <<"t", "1">>) @@ ("ul" :> <<"u", "l">>) @@ ("v.1" :> <<"v", ".", "1">>) @@ ("x1" :> <<"x", "1">>) @@ ("y1" :> <<"y", "1">>)
  @@ ("z1" :> <<"z", "1">>) @@ ("z2" :> <<"z", "2">>) @@ ("Pg" :> <<"P", "g">>) @@ ("BR" :> <<"B", "R">>) @@ ("clear" :> <<"c", "l", "e", "a", "r">>)
  @@ ("all" :> <<"a", "l", "l">>) @@ ("n1" :> <<"n", "1">>) @@ ("u1" :> <<"u", "1">>) @@ ("Ref" :> <<"R", "e", "f">>) @@ ("H2" :> <<"H", "2">>)
  @@ ("s1" :> <<"s", "1">>) @@ ("w1" :> <<"w", "1">>) @@ ("k1" :> <<"k", "1">>) @@ ("v1" :> <<"v", "1">>) @@ ("File" :> <<"F", "i", "l", "e">>)
  @@ ("thumb" :> <<"t", "h", "u", "m", "b">>)
Spell(atoms) == Cat([i \in 1..Len(atoms) |-> IF atoms[i] \in DOMAIN SpellTable THEN SpellTable[atoms[i]] ELSE <<atoms[i]>>])

\* to_text of a tree: ToText(Spell(ToHtml(...)))
=============================================================================
