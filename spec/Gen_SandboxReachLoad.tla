------------------------- MODULE Gen_SandboxReachLoad -------------------------
(* Generator for the conformance run of SandboxReachLoad: TLC enumerates    *)
(* every (source shape, history of loads) of the configured universe (the   *)
(* states of SLSpec) and prints, per case, what the design demands of every *)
(* step (exp: what the consumer gets, whether the chunk body runs, which    *)
(* forbidden names the page code sees - none -, whether a global assignment *)
(* of the chunk lands in the host global table - never), the outcomes under *)
(* every modelled deviation that differ (alt; lets the harness name the     *)
(* deviation that explains what the real code did) and the deviations under *)
(* which this very case leaks (breaks; vacuity guard).  The harness writes  *)
(* the source for the shape with a probe body into the page store of a real *)
(* context and performs the loads through the real entry points.            *)
EXTENDS MC_SandboxReachLoad, Json

DevLabels == {"RecompiledChunkNotConfined", "RecompiledChunkNotConfined+RecompiledCached",
              "RecompiledChunkNotConfined+RepairFirstLine", "RecompiledChunkNotConfined+RepairWrapReturn",
              "DataEnvFromHost"}
DevOf(l) == CASE l = "RecompiledChunkNotConfined" -> DevRecompiled
              [] l = "RecompiledChunkNotConfined+RecompiledCached" -> DevRecompiledCached
              [] l = "RecompiledChunkNotConfined+RepairFirstLine" -> DevRecompiledLine
              [] l = "RecompiledChunkNotConfined+RepairWrapReturn" -> DevRecompiledReturn
              [] l = "DataEnvFromHost" -> DevDataEnv

Leaks(outs) == \E i \in DOMAIN outs : outs[i].sees # {} \/ outs[i].hostwrite
Breaks(s, steps) == {l \in DevLabels : Leaks(Run(DevOf(l), s, steps))}
Differs(s, steps, exp) == {l \in DevLabels : Run(DevOf(l), s, steps) # exp}

Emit ==
  Len(hist) >= 1 =>
    LET steps == StepsOf(hist)
        exp == [i \in DOMAIN hist |-> hist[i].out]
    IN PrintT(<<"CASE", ToJson([shape |-> shape, steps |-> steps, exp |-> exp,
                                 compiles |-> Compiles(shape),
                                 alt |-> [l \in Differs(shape, steps, exp) |-> Run(DevOf(l), shape, steps)],
                                 breaks |-> Breaks(shape, steps)])>>)
GenInv == PageCodeConfined /\ Emit
\* printed once: the atoms the harness has to concretise
Universe == PrintT(<<"UNIVERSE", ToJson([forbidden |-> ForbiddenNames, entries |-> AllEntries, pre |-> AllPre,
                                          form |-> AllForm, eol |-> AllEol, tail |-> AllTail])>>)
ASSUME Universe
=============================================================================
