SPECIFICATION Spec
CONSTANTS
  Universe = "M"
  MaxLines = 4
INVARIANT MachineOK
INVARIANT GenInv
CHECK_DEADLOCK FALSE
