SPECIFICATION Spec
CONSTANTS
  Universe = "M"
  MaxLines = 4
INVARIANT MachineOK
CHECK_DEADLOCK FALSE
