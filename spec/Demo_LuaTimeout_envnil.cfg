SPECIFICATION Spec
CONSTANTS
  Dev <- DevEnvNil
  B = 3
  RecMax = 1
  Bodies <- BodiesTight
  Kinds <- KindsAll
  MaxDepth = 1
  Progs <- P_envnil
PROPERTY AbortedAfterDeadline
CHECK_DEADLOCK FALSE
