SPECIFICATION STSpec
CONSTANTS
  Entries <- K_Entries
  Shapes <- K_Shapes
  Bounds <- K_BoundsAll
  MaxLen = 2
  MaxLoads = 2
  Dev <- KDevIdeal
  Contexts <- K_Contexts
  Manips <- K_ManipsAll
INVARIANT StackConfined
INVARIANT ChunkEnvFromSandbox
INVARIANT RunsInRequestedEnvS
INVARIANT FallbackIsBase
INVARIANT DataEnvIgnoresStack
INVARIANT ResidueOnlyFromReset
INVARIANT SRunAgrees
INVARIANT TypeOKS
CHECK_DEADLOCK FALSE
