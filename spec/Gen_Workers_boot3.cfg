SPECIFICATION GSpec
CONSTANTS
  Procs <- P3
  Dev <- DevAsIs
  Scenarios <- ScnBoot3
  Focus = "boot3"
INVARIANT GenInv
INVARIANT TxnLockAgree
INVARIANT DoneMeansCommitted
CHECK_DEADLOCK FALSE
