--------------------------- MODULE MC_PageStore ---------------------------
(* Bounded instances of PageStore: exhaustive model checking (MC_*.cfg),    *)
(* behaviour generation for replay into the real code (Gen_*.cfg).          *)
EXTENDS PageStore, Json, IOUtils

(* ---------------- atom tables of the bounded universe ---------------- *)
T_PfxNsV == ("Template:" :> 10) @@ ("template:" :> 10) @@ ("TEMPLATE:" :> 10) @@
           ("T:" :> 10) @@ ("t:" :> 10) @@
           ("Module:" :> 828) @@ ("module:" :> 828) @@ ("MOD:" :> 828) @@ ("mod:" :> 828)
T_CanonPfxV == ("10" :> "Template:") @@ ("828" :> "Module:")
T_UpperOfV == ("f" :> "F") @@ ("F" :> "F") @@ ("z" :> "Z") @@ ("Z" :> "Z")
\* (a bare reference: TLC re-evaluates the body of a definition substituted for a CONSTANT at every
\* reference of the constant, and only picks up its cached value of a definition referenced directly)
T_PfxNs == T_PfxNsV
T_CanonPfx == T_CanonPfxV
T_UpperOf == T_UpperOfV
DevIdeal == {}
DevMemo == {"MemoNotInvalidatedOnAdd"}
DevMain == {"MainPrefixStrippedOnAdd"}
DevCanonUnfolded == {"CanonicalNameNotFolded"}

(* ---------------- the namespace table of a site as the constant ---------------- *)
(* S_* configurations take the atom tables from a namespace table (PageStore.tla,   *)
(* Ns* operators).  The table comes from the file named by the environment variable *)
(* NS_FILE: the harness writes the namespace tables of shipped language             *)
(* configurations there (a sequence of sites: entries as the real context holds     *)
(* them, the letter-case facts of the prefix spellings, the namespaces to exercise, *)
(* the history bound).  Without NS_FILE the built-in excerpt of the English table   *)
(* is used: Project/Wiktionary and Project talk/Wiktionary talk are the namespaces  *)
(* whose local name differs from the canonical one there.  The S_ configurations    *)
(* bind the constants of PageStore to the FIRST site; Gen_PageStore_M walks all.    *)
B_Tab == << NsEntry(0, "Main", "Main", <<>>),
            NsEntry(4, "Project", "Wiktionary", <<"WT">>),
            NsEntry(5, "Project talk", "Wiktionary talk", <<>>),
            NsEntry(10, "Template", "Template", <<"T">>) >>
B_Fold == ("Wiktionary:" :> "wiktionary:") @@ ("wiktionary:" :> "wiktionary:") @@ ("WIKTIONARY:" :> "wiktionary:") @@
          ("Project:" :> "project:") @@ ("project:" :> "project:") @@ ("PROJECT:" :> "project:") @@
          ("WT:" :> "wt:") @@ ("wt:" :> "wt:") @@
          ("Wiktionary talk:" :> "wiktionary talk:") @@ ("wiktionary_talk:" :> "wiktionary talk:") @@
          ("Project talk:" :> "project talk:") @@ ("PROJECT TALK:" :> "project talk:") @@
          ("Project_talk:" :> "project talk:") @@
          ("Template:" :> "template:") @@ ("template:" :> "template:") @@ ("T:" :> "t:") @@ ("t:" :> "t:")
SiteFile == IF "NS_FILE" \in DOMAIN IOEnv THEN JsonDeserialize(IOEnv.NS_FILE)
            ELSE [sites |-> << [lang |-> "en (excerpt)", nstab |-> B_Tab, fold |-> B_Fold,
                                namespaces |-> <<4, 5>>, maxlen |-> 2] >>]
Sites == SiteFile.sites
Site == Sites[1]
S_Tab == {Site.nstab[i] : i \in 1..Len(Site.nstab)}
S_Fold == Site.fold
\* (TLC re-evaluates the body of a definition that a cfg substitutes for a CONSTANT at every
\* reference; a body that is a bare reference to another definition picks up TLC's cached value)
S_PfxNsV == NsRefPfxNs(S_Tab, S_Fold)        \* what the statement demands
S_CanonPfxV == NsCanonPfx(S_Tab)
S_NamespacesV == {Site.namespaces[i] : i \in 1..Len(Site.namespaces)}
S_PfxNs == S_PfxNsV
S_Namespaces == S_NamespacesV
S_CanonPfx == S_CanonPfxV

CONSTANTS Namespaces, Bases, Bodies, MaxLen, LookupPfx, WithUnderscore, WithNoNs, NrSet

NsSmall == {0, 10}
NsTen == {10}
PfxNone == {"none"}
NrBoth == BOOLEAN
NrFalse == {FALSE}
NsAll == {0, 10, 828}
BasesOne == {<<"F", "oo">>}
BasesTwo == {<<"F", "oo">>, <<"f", "oo">>}
\* the third base has a blank (underscore spellings) and a colon inside the page name
BasesThree == {<<"F", "oo">>, <<"f", "oo">>, <<"F", "oo", "SP", "b", ":", "x">>}
BasesFour == BasesThree \cup {<<"F", "oo", ":", "x">>}   \* a page name that itself contains a colon
BodiesOne == {"b1"}
BodiesTwo == {"b1", "b2"}
PfxFew == {"none", "canon", "alias"}
PfxAll == {"none", "canon", "lower", "upper", "alias", "aliaslower"}
\* "table": every prefix atom of the spelling universe that names the namespace per PfxNs
\* (local name, canonical name, aliases, each in every letter case the universe holds)
PfxTable == {"none", "table"}

PfxAtom(ns, kind) ==
  CASE ns = 10 /\ kind = "canon" -> "Template:"
    [] ns = 10 /\ kind = "lower" -> "template:"
    [] ns = 10 /\ kind = "upper" -> "TEMPLATE:"
    [] ns = 10 /\ kind = "alias" -> "T:"
    [] ns = 10 /\ kind = "aliaslower" -> "t:"
    [] ns = 828 /\ kind = "canon" -> "Module:"
    [] ns = 828 /\ kind = "lower" -> "module:"
    [] ns = 828 /\ kind = "upper" -> "Module:"
    [] ns = 828 /\ kind = "alias" -> "MOD:"
    [] ns = 828 /\ kind = "aliaslower" -> "mod:"

PfxAtomsOf(ns) == {PfxAtom(ns, k) : k \in LookupPfx \ {"none", "table"}}

(* titles as written by callers *)
StoredP(ns, b, canon) == IF ns = 0 THEN b ELSE <<canon[NsKey(ns)]>> \o b
Stored(ns, b) == StoredP(ns, b, CanonPfx)
AddSpellingsP(ns, b, canon) == IF ns = 0 THEN {b} ELSE {b, StoredP(ns, b, canon)}
AddSpellings(ns, b) == AddSpellingsP(ns, b, CanonPfx)
Underscored(t) == [i \in 1..Len(t) |-> IF t[i] = "SP" THEN "US" ELSE t[i]]
LowerFirstOf(b) == [b EXCEPT ![1] = IF b[1] = "F" THEN "f" ELSE b[1]]

LookupBases == Bases \cup {LowerFirstOf(b) : b \in Bases}
WithUnderscores(plain) == plain \cup (IF WithUnderscore THEN {Underscored(t) : t \in plain} ELSE {})

(* the universe over a namespace table ("table" \in LookupPfx): parameterised by the atom  *)
(* tables so that one run can walk several sites                                           *)
\* every prefix atom of the spelling universe that names the namespace
SiteAtoms(ns, pfxns) == {p \in DOMAIN pfxns : pfxns[p] = ns}
SiteSpellings(ns, pfxns) ==
  WithUnderscores(LookupBases \cup
                  (IF ns = 0 THEN {} ELSE {<<p>> \o b : p \in SiteAtoms(ns, pfxns), b \in LookupBases}))
SiteEntry(tab, ns) == CHOOSE e \in tab : e.id = ns
\* redirects are written with the canonical name (the spelling every site understands) when that
\* is another name than the stored one, and never lead to the page itself
SiteRedirectTargets(ns, tab, canon) ==
  IF ns # 0 /\ SiteEntry(tab, ns).canonical # SiteEntry(tab, ns).local
  THEN {<<NsPfxAtom(SiteEntry(tab, ns).canonical)>> \o b : b \in Bases}
  ELSE {StoredP(ns, b, canon) : b \in Bases}
SiteIsRedirectOf(tgt, ns, b, tab, canon) ==
  /\ tgt \in SiteRedirectTargets(ns, tab, canon)
  /\ tgt # StoredP(ns, b, canon)
  /\ (ns # 0 => Tail(tgt) # b)
\* every spelling is looked up under its own namespace, and the plain and stored spellings under
\* every namespace (a prefix atom with an underscore inside is only defined as the prefix of its
\* own namespace)
SiteArgSet(nss, pfxns, canon) ==
  LET crossT == UNION {{b, StoredP(n, b, canon)} : n \in nss, b \in LookupBases} IN
  {Args(t, ns, nr) : t \in crossT, ns \in (nss \cup IF WithNoNs THEN {NoNs} ELSE {}), nr \in NrSet}
  \cup UNION {{Args(t, ns, nr) : t \in SiteSpellings(ns, pfxns), nr \in NrSet} : ns \in nss}

LookupSpellings(ns) ==
  IF "table" \in LookupPfx THEN SiteSpellings(ns, PfxNs)
  ELSE WithUnderscores(LookupBases \cup
                       (IF ns = 0 THEN {} ELSE {<<p>> \o b : p \in PfxAtomsOf(ns), b \in LookupBases}))

RedirectTargets(ns) ==
  IF "table" \in LookupPfx THEN SiteRedirectTargets(ns, S_Tab, CanonPfx) ELSE {Stored(ns, b) : b \in Bases}
IsRedirectOf(tgt, ns, b) ==
  IF "table" \in LookupPfx THEN SiteIsRedirectOf(tgt, ns, b, S_Tab, CanonPfx)
  ELSE tgt \in RedirectTargets(ns) /\ tgt # Stored(ns, b)

ArgSetV ==
  IF "table" \in LookupPfx THEN SiteArgSet(Namespaces, PfxNs, CanonPfx)
  ELSE {Args(t, ns, nr) : t \in UNION {LookupSpellings(n) : n \in Namespaces}, ns \in Namespaces, nr \in NrSet}
       \cup (IF WithNoNs
             THEN {Args(t, NoNs, nr) : t \in UNION {{b, Stored(n, b)} : n \in Namespaces, b \in LookupBases},
                                       nr \in NrSet}
             ELSE {})
ArgSet == ArgSetV    \* (bare reference: the cfgs substitute ArgSet for ArgU, see T_PfxNs)

(* ---------------- exhaustive, history-free exploration ---------------- *)
DoAdd ==
  \E ns \in Namespaces, b \in Bases :
    \E t \in AddSpellings(ns, b) :
      \/ \E body \in Bodies : AddPage(t, ns, NoRedirect, body, "wikitext")
      \/ \E tgt \in RedirectTargets(ns) : IsRedirectOf(tgt, ns, b) /\ AddPage(t, ns, tgt, "", "wikitext")

DoLookup == \E a \in ArgSet : Lookup(a.title, a.ns, a.nr)
DoResolve == \E a \in ArgSet : a.nr = FALSE /\ LookupResolve(a.title, a.ns)

(* the table the code builds (namespace_prefixes) against the table the statement demands *)
S_CodePfxNs == NsCodePfxNs(S_Tab, S_Fold, Dev)
TableWellFormed == NsUnambiguous(S_Tab, S_Fold) /\ S_Namespaces \subseteq {e.id : e \in S_Tab}
CodeTableMeetsStatement ==
  /\ TableWellFormed
  /\ \A a \in ArgU : DbGetP(cur, a.title, a.ns, a.nr, S_CodePfxNs, CanonPfx) = RefGet(cur, a.title, a.ns, a.nr)

NextNorm == DoAdd
NextMemo == DoAdd \/ DoLookup \/ DoResolve \/ Commit
SpecNorm == PSInit /\ [][NextNorm]_psvars
SpecMemo == PSInit /\ [][NextMemo]_psvars

=============================================================================
