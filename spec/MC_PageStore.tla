--------------------------- MODULE MC_PageStore ---------------------------
(* Bounded instances of PageStore: exhaustive model checking (MC_*.cfg),    *)
(* behaviour generation for replay into the real code (Gen_*.cfg).          *)
EXTENDS PageStore, Json

(* ---------------- atom tables of the bounded universe ---------------- *)
T_PfxNs == ("Template:" :> 10) @@ ("template:" :> 10) @@ ("TEMPLATE:" :> 10) @@
           ("T:" :> 10) @@ ("t:" :> 10) @@
           ("Module:" :> 828) @@ ("module:" :> 828) @@ ("MOD:" :> 828) @@ ("mod:" :> 828)
T_CanonPfx == ("10" :> "Template:") @@ ("828" :> "Module:")
T_UpperOf == ("f" :> "F") @@ ("F" :> "F") @@ ("z" :> "Z") @@ ("Z" :> "Z")
DevIdeal == {}
DevMemo == {"MemoNotInvalidatedOnAdd"}
DevMain == {"MainPrefixStrippedOnAdd"}

CONSTANTS Namespaces, Bases, Bodies, MaxLen, LookupPfx, WithUnderscore, WithNoNs, NrSet

NsSmall == {0, 10}
NsTen == {10}
PfxNone == {"none"}
NrBoth == BOOLEAN
NrFalse == {FALSE}
NsAll == {0, 10, 828}
BasesOne == {<<"F", "oo">>}
BasesTwo == {<<"F", "oo">>, <<"f", "oo">>}
\* the third base has a blank (underscore spellings) and a colon inside the page name
BasesThree == {<<"F", "oo">>, <<"f", "oo">>, <<"F", "oo", "SP", "b", ":", "x">>}
BasesFour == BasesThree \cup {<<"F", "oo", ":", "x">>}   \* a page name that itself contains a colon
BodiesOne == {"b1"}
BodiesTwo == {"b1", "b2"}
PfxFew == {"none", "canon", "alias"}
PfxAll == {"none", "canon", "lower", "upper", "alias", "aliaslower"}

PfxAtom(ns, kind) ==
  CASE ns = 10 /\ kind = "canon" -> "Template:"
    [] ns = 10 /\ kind = "lower" -> "template:"
    [] ns = 10 /\ kind = "upper" -> "TEMPLATE:"
    [] ns = 10 /\ kind = "alias" -> "T:"
    [] ns = 10 /\ kind = "aliaslower" -> "t:"
    [] ns = 828 /\ kind = "canon" -> "Module:"
    [] ns = 828 /\ kind = "lower" -> "module:"
    [] ns = 828 /\ kind = "upper" -> "Module:"
    [] ns = 828 /\ kind = "alias" -> "MOD:"
    [] ns = 828 /\ kind = "aliaslower" -> "mod:"

(* titles as written by callers *)
Stored(ns, b) == IF ns = 0 THEN b ELSE <<PfxAtom(ns, "canon")>> \o b
AddSpellings(ns, b) == IF ns = 0 THEN {b} ELSE {b, Stored(ns, b)}
Underscored(t) == [i \in 1..Len(t) |-> IF t[i] = "SP" THEN "US" ELSE t[i]]
LowerFirstOf(b) == [b EXCEPT ![1] = IF b[1] = "F" THEN "f" ELSE b[1]]

LookupBases == Bases \cup {LowerFirstOf(b) : b \in Bases}
LookupSpellings(ns) ==
  LET plain == {b : b \in LookupBases} \cup
               (IF ns = 0 THEN {} ELSE
                  {<<PfxAtom(ns, k)>> \o b : k \in (LookupPfx \ {"none"}), b \in LookupBases})
  IN plain \cup (IF WithUnderscore THEN {Underscored(t) : t \in plain} ELSE {})

RedirectTargets(ns) == {Stored(ns, b) : b \in Bases}

ArgSet ==
  {Args(t, ns, nr) : t \in UNION {LookupSpellings(n) : n \in Namespaces}, ns \in Namespaces, nr \in NrSet}
  \cup (IF WithNoNs
        THEN {Args(t, NoNs, nr) : t \in UNION {{b, Stored(n, b)} : n \in Namespaces, b \in LookupBases},
                                  nr \in NrSet}
        ELSE {})

(* ---------------- exhaustive, history-free exploration ---------------- *)
DoAdd ==
  \E ns \in Namespaces, b \in Bases :
    \E t \in AddSpellings(ns, b) :
      \/ \E body \in Bodies : AddPage(t, ns, NoRedirect, body, "wikitext")
      \/ \E tgt \in RedirectTargets(ns) : tgt # Stored(ns, b) /\ AddPage(t, ns, tgt, "", "wikitext")

DoLookup == \E a \in ArgSet : Lookup(a.title, a.ns, a.nr)
DoResolve == \E a \in ArgSet : a.nr = FALSE /\ LookupResolve(a.title, a.ns)

NextNorm == DoAdd
NextMemo == DoAdd \/ DoLookup \/ DoResolve \/ Commit
SpecNorm == PSInit /\ [][NextNorm]_psvars
SpecMemo == PSInit /\ [][NextMemo]_psvars

=============================================================================
