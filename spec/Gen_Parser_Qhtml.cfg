SPECIFICATION Spec
CONSTANTS
  Universe = "html"
  MaxLen = 3
INVARIANT MachineOK
CHECK_DEADLOCK FALSE
