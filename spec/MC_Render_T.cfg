SPECIFICATION Spec
CONSTANTS
  MaxLen = 3
  Small = {"a", "sp", "nl", "ref", "refattr", "refself", "refclose", "refup", "refR", "h2", "h2c", "div1", "br", "brsp", "BR", "hr", "span", "spanc", "closesp", "opensp", "lt", "gt", "emptyclose", "cat", "piped", "pipedopen", "open", "close", "pipe", "ext", "ext2", "lb", "rb"}
INVARIANT Laws
CHECK_DEADLOCK FALSE
