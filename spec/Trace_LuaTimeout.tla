--------------------------- MODULE Trace_LuaTimeout ---------------------------
(* Validates recorded executions of rendered programs against LuaTimeout.   *)
(* The trace file (env TRACE_FILE) holds, for one set of deviations `dev`,  *)
(* a list of traces [body, wrap, events]; an event is what the running Lua  *)
(* module itself reported through the page-store call, plus the result:     *)
(*   [e |-> "enter",  i, x = wrapper kind]   wrapper i entered              *)
(*   [e |-> "caught", i, x = timeout | lua]  the module's own protected call *)
(*                                           at wrapper i caught an error   *)
(*   [e |-> "nret",   i, x = timeout | lua | ok]  the nested invocation made *)
(*                                           at wrapper i came back to the   *)
(*                                           module: in-band timeout / error *)
(*                                           element, or the value; i =     *)
(*                                           Len(wrap) + 1: a benign nested  *)
(*                                           invocation of body invloop came *)
(*                                           back as the timeout element     *)
(*   [e |-> "hdl",    i, x = timeout | lua]  the message handler that is the  *)
(*                                           INNER of wrapper i (xhe xht xhc) *)
(*                                           was entered by Lua for an error *)
(*                                           of that class (reported when the *)
(*                                           class differs from that of the  *)
(*                                           entry before: an error raised in *)
(*                                           the handler enters it again)    *)
(*   [e |-> "done",   i = 0, x = result]     expand() returned (if it did)  *)
(* A trace is accepted when it is the projection on these visible steps of  *)
(* some behaviour of the machine (all other machine steps are internal);    *)
(* for a run that was killed or whose report was cut, the recorded prefix   *)
(* must be such a projection.  The trace index is chosen in the initial     *)
(* state, so one TLC run validates every trace independently and prints the *)
(* furthest event index each trace reached.                                 *)
EXTENDS LuaTimeout, Json, IOUtils

TraceFile == JsonDeserialize(IOEnv.TRACE_FILE)
Traces == TraceFile.traces
T_Dev == {TraceFile.dev[i] : i \in DOMAIN TraceFile.dev}

VARIABLES t, l, adv
tvars == <<vars, t, l, adv>>

Events == Traces[t].events

TInit ==
  /\ t \in DOMAIN Traces
  /\ l = 1 /\ adv = TRUE
  /\ LTInit({[body |-> Traces[t].body, wrap |-> Traces[t].wrap]})

CatchCase ==
  /\ status = "running" /\ phase = "unwind" /\ stack # <<>>
  /\ Top.k \in CatchFrames
  /\ ~Reraise

\* the boundary of a nested invocation hands something to the enclosing module
NestedBack ==
  /\ status = "running" /\ stack # <<>> /\ Top.k \in NestedKinds
  /\ phase = "ret" \/ (phase = "unwind" /\ NestedAbsorbs)

\* the time limit strikes in a benign nested invocation of body invloop and is handed to the loop in-band
BodyBack == InNestedCall /\ "NestedTimeoutInBand" \in Dev /\ now > limit

\* Lua calls the module's message handler: for the ordinary error of the protected function, or for the time limit
\* error (a re-entry for an error of the class it is already handling is not reported again)
HdlEntered(x) ==
  /\ stack # <<>>
  /\ IF x = "lua" THEN Top.k = "xpfe" /\ PFStep /\ stack' # stack
     ELSE x = "timeout" /\ Top.k # "hdlt" /\ HookFires /\ stack' # stack

Visible(e) ==
  CASE e.e = "enter" -> ~AtLoopLevel /\ Depth + 1 = e.i /\ Depth < Len(W) /\ W[Depth + 1] = e.x /\ Enter
    [] e.e = "caught" -> CatchCase /\ Depth = e.i /\ err = e.x /\ Unwind
    [] e.e = "nret" -> IF e.i = Len(W) + 1
                       THEN BodyBack /\ e.x = "timeout" /\ HookFires    \* body invloop reports only this
                       ELSE /\ NestedBack /\ Depth = e.i
                            /\ IF phase = "ret" THEN e.x = "ok" /\ Ret ELSE e.x = err /\ Unwind
    [] e.e = "hdl" -> Depth = e.i /\ HdlEntered(e.x)
    [] e.e = "done" -> (Unwind \/ Ret) /\ stack = <<>> /\ status' = e.x
    [] OTHER -> FALSE

Internal ==
  \/ Invoke \/ Step \/ Tick
  \/ PFStep /\ stack' = stack
  \/ HookFires /\ ~BodyBack /\ (stack' = stack \/ (stack # <<>> /\ Top.k = "hdlt"))
  \/ AtLoopLevel /\ Enter          \* next iteration of a loop (reported only once)
  \/ Unwind /\ stack # <<>> /\ ~CatchCase /\ ~NestedBack
  \/ Ret /\ stack # <<>> /\ ~NestedBack

TNext ==
  \/ l <= Len(Events) /\ Visible(Events[l]) /\ l' = l + 1 /\ adv' = TRUE /\ UNCHANGED t
  \/ Internal /\ UNCHANGED <<t, l>> /\ adv' = FALSE

TSpec == TInit /\ [][TNext]_tvars

\* printed in every state reached by consuming an event (and initially)
Progress == adv => PrintT(<<"AT", ToJson([t |-> t, l |-> l, n |-> Len(Events)])>>)
=============================================================================
