SPECIFICATION Spec
CONSTANTS
  Starts <- StartsAll
  Dev <- DevMode
  MaxRuns = 2
  FlowDef <- FlowsLibJ
INVARIANT RestoreCorrect
CHECK_DEADLOCK FALSE
