SPECIFICATION SpecMemo
CONSTANTS
  PfxNs <- T_PfxNs
  CanonPfx <- T_CanonPfx
  UpperOf <- T_UpperOf
  ArgU <- ArgSet
  Dev <- DevIdeal
  Namespaces <- NsTen
  Bases <- BasesTwo
  Bodies <- BodiesTwo
  MaxLen = 0
  LookupPfx <- PfxNone
  WithUnderscore = FALSE
  WithNoNs = FALSE
  NrSet <- NrBoth
INVARIANT MemoCoherent
INVARIANT ObservedLookupsCorrect
PROPERTY CommitOnlyPublishes
CHECK_DEADLOCK FALSE
