SPECIFICATION Spec
CONSTANTS
  LowerOf <- T_Lower
  UpperOf <- T_Upper
  Dev <- DevIdeal
  Alpha <- AlphaAB
  MaxS = 4
  MaxLong = 6
  Offs <- OffsT
  Needles <- NeedlesT
  Fns <- FnsAll
  Spell <- SpellT
INVARIANT Laws
INVARIANT NumeralsDenote
INVARIANT SpellingDoesNotMatter
CHECK_DEADLOCK FALSE
