SPECIFICATION Spec
CONSTANTS
  Universe = "BLOWUP"
  Known <- NoDev
  DepthLimit = 36
  PreBody <- ThePreBody
  LogEvents = FALSE
INVARIANT DemoBlowup
CHECK_DEADLOCK FALSE
