SPECIFICATION Spec
CONSTANTS
  Dev <- DevWal
  MaxRuns = 3
  FlowDef <- FlowsLib
INVARIANT RestoreCorrect
CHECK_DEADLOCK FALSE
