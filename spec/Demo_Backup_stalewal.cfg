SPECIFICATION Spec
CONSTANTS
  Starts <- StartsBase
  Dev <- DevWal
  MaxRuns = 3
  FlowDef <- FlowsLib
INVARIANT RestoreCorrect
CHECK_DEADLOCK FALSE
