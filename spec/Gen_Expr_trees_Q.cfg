SPECIFICATION TreeSpec
CONSTANTS
  Dev <- DevIdeal
  Lits <- LitsQ
  Lits2 <- LitsTwo
  UnOps <- UnExact
  BinOps <- BinAll
  Families <- FamAll
  SoupAlphabet <- SoupSmall
  MaxSoup = 0
INVARIANT EmitTree
CHECK_DEADLOCK FALSE
